/-
  C12 — the adjustment XML as a document.

  `Sk` is the *skeleton* of what `LocalNetworkXML::write` streams: the sequence of markup tokens with the loops
  (`star`), the conditionals (`alt`, `opt = alt · eps`) and the places where an operand is streamed (`text`, attribute
  values).  The skeleton of the source tree is REGENERATED into `Gen/XmlSkeleton.lean` (`writeSk`) by
  tools/gen/c12_skeleton.py, which executes the writer functions symbolically on the two streams (`out`, the visitor's
  secondary `ostringstream`) and tokenises the literals (tools/gen/c12_sites.py is the older regex extraction of the
  streaming sites, `Gen/XmlSites.lean`, whose `Kind` the skeleton reuses).

  `Gen sk toks` : the token sequences the writer can produce — any number of loop iterations, either branch of every
  conditional, any string at a text operand (passed through `str2xml` iff the site is), any run of `numChar` bytes at a
  numeric operand (what `operator<<` prints for an arithmetic value), any run of `constChar` bytes at a constant operand
  (compile-time strings).  The document written for a given adjustment is one of them.

  XML side (XML 1.0 §2.1, §2.8, §3, §3.1), token level: `document ::= prolog element Misc*`, `element ::= EmptyElemTag |
  STag content ETag` with matching names, `content` = character data / elements / comments; lexical productions per
  token (`Name`, `AttValue`, `CharData`, `Comment`, unique attribute names).  `run` is that grammar as a stack machine.
-/
import Gama.Model.XmlEsc
namespace Gama.XmlDoc
open Gama.XmlEsc Gama.Gen.XmlSites

/-- an attribute value in the source: a literal, or a streamed operand -/
inductive Val where
  | lit (s : String)
  | op (kind : Kind) (escaped : Bool)
deriving DecidableEq, Repr

structure AttrSk where
  name : String
  val : Val
  optional : Bool          -- written under an `if`
deriving DecidableEq, Repr

inductive TokSk where
  | decl                                                   -- `<?xml version="1.0"?>`
  | stag (name : String) (attrs : List AttrSk) (empty : Bool)
  | etag (name : String)
  | comment (s : String)
  | chars (s : String)                                     -- literal character data (white space in practice)
  | text (tag : String) (kind : Kind) (escaped : Bool)     -- operand streamed inside `<tag>`
deriving DecidableEq, Repr

inductive Sk where
  | eps
  | tok (t : TokSk)
  | seq (a b : Sk)
  | alt (a b : Sk)
  | star (a : Sk)
deriving Repr

def Sk.opt (a : Sk) : Sk := .alt a .eps
def Sk.seqs : List Sk → Sk
  | [] => .eps
  | [a] => a
  | a :: r => .seq a (Sk.seqs r)
def Sk.alts : List Sk → Sk
  | [] => .eps
  | [a] => a
  | a :: r => .alt a (Sk.alts r)

/-! ### concrete tokens -/

inductive Tok where
  | decl
  | stag (name : String) (attrs : List (String × Bytes)) (empty : Bool)
  | etag (name : String)
  | comment (s : String)
  | chars (b : Bytes)
deriving DecidableEq, Repr

def bytesOf (s : String) : Bytes := s.toUTF8.toList

/-- bytes of the compile-time strings streamed as constants (version, compiler, algorithm, ellipsoid names, namespace
    URL, `apriori` / `aposteriori`, axes, angles): anything but the four characters markup is sensitive to -/
def constChar (c : Byte) : Bool := c != 60 && c != 38 && c != 34 && c != 93

/-- bytes `operator<<` produces for `int` / `double` (fixed or scientific, `inf`, `nan`) -/
def numChar (c : Byte) : Bool :=
  constChar c &&
  ((48 ≤ c && c ≤ 57) || c == 43 || c == 45 || c == 46 || c == 101 || c == 69 || c == 105 || c == 110 || c == 102 || c == 97)

/-- what can appear at an operand -/
def OperandOK (kind : Kind) (escaped : Bool) (b : Bytes) : Prop :=
  match kind with
  | .text => ∃ s : Bytes, b = if escaped then str2xml s else s
  | .numeric => b.all numChar = true
  | .const => b.all constChar = true

def ValOK : Val → Bytes → Prop
  | .lit s, b => b = bytesOf s
  | .op k e, b => OperandOK k e b

/-- the attributes actually written: the mandatory ones and any of the optional ones, in source order -/
inductive AttrsConc : List AttrSk → List (String × Bytes) → Prop
  | nil : AttrsConc [] []
  | skip {a : AttrSk} {as : List AttrSk} {cs : List (String × Bytes)} :
      a.optional = true → AttrsConc as cs → AttrsConc (a :: as) cs
  | take {a : AttrSk} {as : List AttrSk} {cs : List (String × Bytes)} {b : Bytes} :
      ValOK a.val b → AttrsConc as cs → AttrsConc (a :: as) ((a.name, b) :: cs)

inductive Conc : TokSk → Tok → Prop
  | decl : Conc .decl .decl
  | stag {n : String} {as : List AttrSk} {cs : List (String × Bytes)} {e : Bool} :
      AttrsConc as cs → Conc (.stag n as e) (.stag n cs e)
  | etag {n : String} : Conc (.etag n) (.etag n)
  | comment {s : String} : Conc (.comment s) (.comment s)
  | chars {s : String} : Conc (.chars s) (.chars (bytesOf s))
  | text {tag : String} {k : Kind} {e : Bool} {b : Bytes} : OperandOK k e b → Conc (.text tag k e) (.chars b)

/-- the token sequences a skeleton produces -/
inductive Gen : Sk → List Tok → Prop
  | eps : Gen .eps []
  | tok {t : TokSk} {c : Tok} : Conc t c → Gen (.tok t) [c]
  | seq {a b : Sk} {u v : List Tok} : Gen a u → Gen b v → Gen (.seq a b) (u ++ v)
  | altL {a b : Sk} {u : List Tok} : Gen a u → Gen (.alt a b) u
  | altR {a b : Sk} {u : List Tok} : Gen b u → Gen (.alt a b) u
  | starNil {a : Sk} : Gen (.star a) []
  | starCons {a : Sk} {u v : List Tok} : Gen a u → Gen (.star a) v → Gen (.star a) (u ++ v)

/-! ### the document grammar as a stack machine -/

inductive Phase where | start | prolog | body | epilog
deriving DecidableEq, Repr

structure St where
  phase : Phase           -- `start` : nothing written yet (the XML declaration may only come first)
  stack : List String
deriving DecidableEq, Repr

def St.init : St := ⟨.start, []⟩

/-- what the grammar needs to know of a token -/
inductive Shape where
  | decl
  | stag (name : String) (empty : Bool)
  | etag (name : String)
  | comment
  | chars (blank : Bool) (parent : Option String)    -- `parent` : the element an operand belongs to
deriving DecidableEq, Repr

def isBlank (b : Bytes) : Bool := b.all (fun c => c == 32 || c == 9 || c == 10 || c == 13)

def St.started (s : St) : St := if s.phase = .start then { s with phase := .prolog } else s

def step (s : St) : Shape → Option St
  | .decl => if s.phase = .start then some { s with phase := .prolog } else none
  | .comment => some s.started
  | .chars blank parent =>
    match s.stack with
    | [] => if blank && parent.isNone then some s.started else none      -- Misc: white space only
    | top :: _ => if parent.isNone || parent == some top then some s else none
  | .stag n empty =>
    match s.phase, s.stack with
    | .start, [] | .prolog, [] => some (if empty then ⟨.epilog, []⟩ else ⟨.body, [n]⟩)    -- the root element
    | .body, _ :: _ => some (if empty then s else { s with stack := n :: s.stack })
    | _, _ => none
  | .etag n =>
    match s.phase, s.stack with
    | .body, top :: rest =>
      if top = n then some (match rest with | [] => ⟨.epilog, []⟩ | _ => { s with stack := rest })
      else none
    | _, _ => none

def shapeSk : TokSk → Shape
  | .decl => .decl
  | .stag n _ e => .stag n e
  | .etag n => .etag n
  | .comment _ => .comment
  | .chars s => .chars (isBlank (bytesOf s)) none
  | .text tag _ _ => .chars false (some tag)

/-- the grammar on concrete tokens: an operand is character data (never taken to be ignorable white space) -/
def stepTok (s : St) : Tok → Option St
  | .decl => step s .decl
  | .stag n _ e => step s (.stag n e)
  | .etag n => step s (.etag n)
  | .comment _ => step s .comment
  | .chars b => step s (.chars (isBlank b) none)

def run : St → List Tok → Option St
  | s, [] => some s
  | s, t :: ts => match stepTok s t with
    | some s' => run s' ts
    | none => none

/-- the document is complete: exactly one root element, closed -/
def St.done (s : St) : Bool := s.phase == .epilog && s.stack.isEmpty

/-- static check of a skeleton from state `s`: sequences thread the state, both branches of a conditional and the body of
    a loop must leave the state as they found it (the writer opens and closes an element on the same path) -/
def chk : Sk → St → Option St
  | .eps, s => some s
  | .tok t, s => step s (shapeSk t)
  | .seq a b, s => match chk a s with
    | some s' => chk b s'
    | none => none
  | .alt a b, s =>
    match chk a s, chk b s with
    | some s1, some s2 => if s1 = s2 then some s1 else none
    | _, _ => none
  | .star a, s =>
    match chk a s with
    | some s' => if s' = s then some s else none
    | none => none

/-! ### lexical productions -/

def nameStart (c : Char) : Bool := c.isAlpha || c == '_' || c == ':'
def nameChar (c : Char) : Bool := nameStart c || c.isDigit || c == '-' || c == '.'
/-- XML 1.0 §2.3 `Name` (ASCII part) -/
def isName (s : String) : Bool :=
  match s.toList with
  | [] => false
  | c :: r => nameStart c && r.all nameChar

/-- §2.5: `--` must not occur within a comment, nor may it end in `-` -/
def commentOK (s : String) : Bool :=
  let l := s.toList
  let rec noDD : List Char → Bool
    | '-' :: '-' :: _ => false
    | _ :: r => noDD r
    | [] => true
  noDD l && l.getLast? != some '-'

def lexOK : Tok → Bool
  | .decl => true
  | .stag n as _ => isName n && as.all (fun a => isName a.1 && wellFormedAttr a.2) && (as.map (·.1)).Nodup
  | .etag n => isName n
  | .comment s => commentOK s
  | .chars b => wellFormedText b

def valLexOK : Val → Bool
  | .lit s => wellFormedAttr (bytesOf s)
  | .op k e => k != .text || e

/-- the same conditions on the skeleton: literals are checked, a text operand must be escaped -/
def skTokOK : TokSk → Bool
  | .decl => true
  | .stag n as _ => isName n && as.all (fun a => isName a.name && valLexOK a.val) && (as.map (·.name)).Nodup
  | .etag n => isName n
  | .comment s => commentOK s
  | .chars s => wellFormedText (bytesOf s)
  | .text _ k e => k != .text || e

def skOK : Sk → Bool
  | .eps => true
  | .tok t => skTokOK t
  | .seq a b => skOK a && skOK b
  | .alt a b => skOK a && skOK b
  | .star a => skOK a

/-- a well-formed document at the token level -/
def WellFormedDoc (toks : List Tok) : Prop :=
  (∃ s, run St.init toks = some s ∧ s.done = true) ∧ ∀ t ∈ toks, lexOK t = true

/-! ### matcher (tie): does the skeleton accept the token shapes of a real document? -/

/-- shapes of a real document as the plugin sends them: tag names, and for character data whether it is blank -/
inductive RTok where
  | decl | stag (name : String) (attrs : List String) (empty : Bool) | etag (name : String) | comment | chars (blank : Bool)
deriving DecidableEq, Repr

def attrsMatch : List AttrSk → List String → Bool
  | [], [] => true
  | [], _ :: _ => false
  | a :: as, [] => a.optional && attrsMatch as []
  | a :: as, n :: ns => (a.name == n && attrsMatch as ns) || (a.optional && attrsMatch as (n :: ns))

def tokMatch : TokSk → RTok → Bool
  | .decl, .decl => true
  | .stag n as e, .stag n' as' e' => n == n' && e == e' && attrsMatch as as'
  | .etag n, .etag n' => n == n'
  | .comment _, .comment => true
  | .chars s, .chars blank => isBlank (bytesOf s) == blank
  | .text _ _ _, .chars _ => true
  | _, _ => false

def Sk.size : Sk → Nat
  | .eps => 1
  | .tok _ => 1
  | .seq a b => a.size + b.size + 1
  | .alt a b => a.size + b.size + 1
  | .star a => a.size + 1

def dedupNat : List Nat → List Nat
  | [] => []
  | r :: rs => r :: (dedupNat rs).filter (· != r)

/-- positions reachable by repeating `step` from the frontier (each position is expanded once) -/
def closure : Nat → (List Nat → List Nat) → List Nat → List Nat → List Nat
  | 0, _, _, acc => acc
  | n + 1, step, fr, acc =>
    let new := (step fr).filter (fun x => !acc.contains x)
    if new.isEmpty then acc else closure n step new (acc ++ new)

/-- the positions of the input reachable by matching the skeleton from position `p`; structural on the fuel (one unit
    per level of the skeleton); a loop iteration must consume input -/
def matchSk : Nat → Sk → Array RTok → Nat → List Nat
  | 0, _, _, _ => []
  | _ + 1, .eps, _, p => [p]
  | _ + 1, .tok t, inp, p =>
    (match t with
     | .chars s => if isBlank (bytesOf s) then [p] else []     -- white-space literals are not compared
     | .text _ _ _ => [p]                                       -- an operand may print nothing
     | _ => []) ++
    (match inp[p]? with
     | some r => if tokMatch t r then [p + 1] else []
     | none => [])
  | f + 1, .seq a b, inp, p => dedupNat ((matchSk f a inp p).flatMap (fun q => matchSk f b inp q))
  | f + 1, .alt a b, inp, p => dedupNat (matchSk f a inp p ++ matchSk f b inp p)
  | f + 1, .star a, inp, p =>
    closure (inp.size + 1) (fun fr => dedupNat (fr.flatMap (fun q => (matchSk f a inp q).filter (fun r => q < r)))) [p] [p]

/-- the plugin sends the tokens of a real document without its white-space-only character data -/
def accepts (sk : Sk) (inp : List RTok) : Bool := (matchSk (sk.size + 1) sk inp.toArray 0).contains inp.length

/-- what the plugin sends of ONE token of a document (`doc_tokens` in tools/props/c12.py): the element / attribute
    NAMES of a tag, nothing of a comment, `T` for character data that is not white space only, and nothing at all for
    white-space-only character data -/
def rshape : Tok → Option RTok
  | .decl => some .decl
  | .stag n as e => some (.stag n (as.map (·.1)) e)
  | .etag n => some (.etag n)
  | .comment _ => some .comment
  | .chars b => if isBlank b then none else some (.chars false)

/-- the shape of a document: what `accepts` is run on (round 4; `C12_matcher_sound_complete`, Props/C12.lean) -/
def shape (toks : List Tok) : List RTok := toks.filterMap rshape

end Gama.XmlDoc
