/-
  C09 — statistics reported by LocalNetwork (lib/gnu_gama/local/network.{h,cpp}).

  Every formula is written as the C++ codes it (same operations, same order, same guards),
  as a function of the quantities the C++ reads:

    rows, cols, defect     A.rows(), A.cols(), least_squares->defect()      (int)
    phi                    trans_VWV() = suma_pvv_ = v'Pv
    sigmaApr               m_0_apr_                 (a priori reference standard deviation)
    act                    typ_m_0_  (apriorni_ | empiricka_)
    confPr                 konf_pr_
    q_xx / q_bb entries    least_squares->q_xx(i,j), q_bb(i,i)  (cofactors of the homogenised system)
    stdev                  Observation::stdDev()
    normal / student       GNU_gama::Normal, GNU_gama::Student   (their VALUES are C17's subject)

  The hand-written definitions below are the reference the theorems are about;
  `Gama/Gen/StatsGen.lean` is regenerated from the C++ text by tools/gen/c09_stats.py on every
  run and `Props/C09.lean` proves (by `rfl`) that the two coincide.

  Core Lean only (linked into drv_stats).
-/
import Gama.Scalar
namespace Gama

/-- what C09 needs from libm beyond `Scalar` -/
class StatsTrig (K : Type) where
  /-- C `atan2(y, x)` -/
  atan2 : K → K → K
  /-- the literal `M_PI` -/
  pi : K

instance : StatsTrig Float := ⟨Float.atan2, 3.14159265358979323846⟩

namespace Stats

/-- `LocalNetwork::ApEm_ { apriorni_, empiricka_ }`.  The third branch of `m_0()` /
    `conf_int_coef()` (`throw T_LN_undefined_type_of_actual_sigma`) is unreachable: the
    enum has exactly these two values and only `set_m_0_apriori/aposteriori` write it. -/
inductive SigmaAct where
  | apriori
  | aposteriori
  deriving DecidableEq, Repr

variable {K : Type} [Scalar K]

/-- `LocalNetwork::degrees_of_freedom`: `A.rows() - A.cols() + least_squares->defect()` -/
def degreesOfFreedom (rows cols defect : Int) : Int := rows - cols + defect

/-- `LocalNetwork::m_0_aposteriori_value` -/
def m0Aposteriori (phi : K) (dof : Int) : K :=
  if dof > 0 then Scalar.sqrt (phi / Scalar.ofInt dof) else 0

/-- `LocalNetwork::m_0` -/
def m0 (act : SigmaAct) (sigmaApr phi : K) (dof : Int) : K :=
  match act with
  | .apriori => sigmaApr
  | .aposteriori => if dof > 0 then Scalar.sqrt (phi / Scalar.ofInt dof) else 0

/-- `LocalNetwork::conf_pr(double)`: accepted iff not (`p <= 0 || p >= 1`) -/
def confPrAccepted (p : K) : Bool := !(decide (p ≤ 0) || decide (1 ≤ p))

/-- `LocalNetwork::conf_int_coef` -/
def confIntCoef (normal : K → K) (student : K → Int → K)
    (act : SigmaAct) (confPr : K) (dof : Int) : K :=
  let pravdepodobnost := (1 - confPr) / Scalar.ofNat 2
  match act with
  | .apriori => normal pravdepodobnost
  | .aposteriori => if dof > 0 then student pravdepodobnost dof else 0

/-- `LocalNetwork::unknown_stdev`: `m_0()*sqrt(q_xx(i,i))` -/
def unknownStdev (m0 qxx : K) : K := m0 * Scalar.sqrt qxx

/-- `LocalNetwork::weight_obs`: `p = m_0_apr_/stdDev; return p*p` -/
def weightObs (sigmaApr stdev : K) : K :=
  let p := sigmaApr / stdev
  p * p

/-- tail of `vyrovnani_`: `MM = m_0()/m_0_apr_; sigma_L(n) = MM*sqrt(q_bb(n,n))*stdDev` -/
def sigmaL (m0 sigmaApr qbb stdev : K) : K :=
  let mm := m0 / sigmaApr
  mm * Scalar.sqrt qbb * stdev

/-- tail of `vyrovnani_`: `qv = (1.0 - q_bb(i,i))/weight_obs(i); vahkopr(i) = (qv >= 0) ? qv : 0` -/
def wcoefRes (qbb w : K) : K :=
  let qv := (1 - qbb) / w
  if 0 ≤ qv then qv else 0

/-- `LocalNetwork::stdev_res`: `m_0()*sqrt(fabs(wcoef_res(i)))` -/
def stdevRes (m0 qvv : K) : K := m0 * Scalar.sqrt (Scalar.abs qvv)

/-- `LocalNetwork::studentized_residual`: `stdev_res(i) > 0 ? residuals()(i)/stdev_res(i) : 0` -/
def studentizedResidual (sres r : K) : K := if 0 < sres then r / sres else 0

/-- `LocalNetwork::obs_control`: `100*fabs(1-sqrt(q_bb(i,i)))` -/
def obsControl (qbb : K) : K := Scalar.ofNat 100 * Scalar.abs (1 - Scalar.sqrt qbb)

/-- `LocalNetwork::std_error_ellipse` after the three `q_xx` reads
    (`cyy = q_xx(iy,iy)`, `cyx = q_xx(iy,ix)`, `cxx = q_xx(ix,ix)`, `m = m_0()`);
    result `(a, b, alfa)` -/
def stdErrorEllipse [StatsTrig K] (cyy cyx cxx m : K) : K × K × K :=
  let c := Scalar.sqrt ((cxx - cyy) * (cxx - cyy) + Scalar.ofNat 4 * cyx * cyx)
  let b := (cyy + cxx - c) / Scalar.ofNat 2
  let b := if b < 0 then 0 else b
  let a := m * Scalar.sqrt (b + c)
  let b := m * Scalar.sqrt b
  if Scalar.beq c 0 then (a, b, 0)
  else
    let alfa := StatsTrig.atan2 (Scalar.ofNat 2 * cyx) (cxx - cyy) / Scalar.ofNat 2
    let alfa := if alfa < 0 then alfa + StatsTrig.pi else alfa
    (a, b, alfa)

/-! XML writer (`LocalNetworkXML`), the derived numbers it prints -/

/-- `<cov-mat>` entry: `m2 = m_0()*m_0(); m2*qxx(i,j)` -/
def covEntry (m0 q : K) : K := (m0 * m0) * q

/-- `<standard-deviation><aposteriori>`: the writer repeats the formula of
    `m_0_aposteriori_value` -/
def xmlAposteriori (phi : K) (dof : Int) : K :=
  if dof > 0 then Scalar.sqrt (phi / Scalar.ofInt dof) else 0

/-- `<ratio>`: `m_0_aposteriori_value()/apriori_m_0()` when `dof != 0`, else the literal 0 -/
def xmlRatio (phi sigmaApr : K) (dof : Int) : K :=
  if dof ≠ 0 then m0Aposteriori phi dof / sigmaApr else 0

/-- `<err-obs>`, `<err-adj>`: `em = v/(wcoef_res*weight_obs); ev = em - v` (times the unit scale) -/
def errObsAdj (v qvv w : K) : K × K :=
  let em := v / (qvv * w)
  (em, em - v)

/-- text writers (`results/text/adjusted_unknowns.h`, `adjusted_observations.h`): the confidence
    half-width printed next to a standard deviation, `m*kki` with `kki = IS->conf_int_coef()` -/
def confHalfWidth (stdev kki : K) : K := stdev * kki

/-- everything `LocalNetwork` reports for one observation, from its inputs -/
structure ObsStats (K : Type) where
  weight : K
  sigmaL : K
  qvv : K
  stdevRes : K
  studentized : K
  f : K

def obsStats (m0 sigmaApr qbb stdev r : K) : ObsStats K :=
  let w := weightObs sigmaApr stdev
  let qvv := wcoefRes qbb w
  let sr := stdevRes m0 qvv
  { weight := w, sigmaL := sigmaL m0 sigmaApr qbb stdev, qvv := qvv, stdevRes := sr,
    studentized := studentizedResidual sr r, f := obsControl qbb }

end Stats
end Gama
