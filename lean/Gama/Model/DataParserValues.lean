/-
  DataParser (gama-g3 / adjustment input) on the REAL character data (core Lean only).

  `Model/DataParserRun.lean` consumes one oracle bit for every data-dependent condition of a handler.  Here the
  conditions that are about the FORMAT of the text are computed:

    * `Gen/DataParserConds.lean` (generated) has every handler once more as a `CProg`: the same skeleton with each
      `ifData` DESCRIBED (`Cond`) and with the statements that change `text_buffer` kept (`addText`, `clearText`);
    * `text_buffer` is a component of the state: `DataParser::add_text` appends a blank and the piece of character data,
      whichever element it belongs to — children are pooled until a handler executes `text_buffer.clear()/erase()`;
      a handler that leaves by `return error(…)` does not clear it;
    * `Cond.pure src chain g neg` is evaluated with the stream model of `Model/PureData.lean`:
      `stringstream istr(src); [!]([g &&] pure_data(istr >> x1 >> … >> xn))` (`PD.pureData` after the extractions; for one
      double this is `PD.numberOk`), `Cond.fails src chain` = `!(istr >> x1 >> … >> xn)` = failbit after the extractions;
    * what stays an ORACLE bit (`o : List Bool` of the event, consumed in evaluation order, exhausted = true):
      every `Cond.other` and the conjunct `g` of a `pure` condition; `Cond.lit k neg` = `[!]deg2gon(text_buffer, …)` / `[!]IsFloat(b, e)` /
      `[!]IsInteger(b, e)` over the whole buffer is computed with `Lit.deg2gonAccepts` / `Lit.isFloat` / `Lit.isInteger`;
      oracle: (`g3->model != nullptr`, `dim>0 && width<dim`).

  `erase` forgets the descriptions; `cexec` also returns the truth values of the conditions it evaluated (`tr`), and
  `exec (erase p)` fed with them takes the same path (`Lemmas/DataParserValues.lean`), so the run on real text
  projects onto `DP.run`.
-/
import Gama.Gen.DataParserConds
import Gama.Model.DataParserRun
import Gama.Model.PureData
namespace Gama.DP

def XKind.toPD : XKind → PD.Extraction
  | .double => .double
  | .word => .word
  | .int => .int
  | .size => .size

/-- `seq` that drops `skip` (what the translator's `seq(...)` does with statements without control effect) -/
def mkSeq : Prog → Prog → Prog
  | .skip, q => q
  | p, .skip => p
  | p, q => .seq p q

/-- forget the descriptions and the text-buffer operations -/
def CProg.erase : CProg → Prog
  | .skip => .skip
  | .setNext => .setNext
  | .setAfter => .setAfter
  | .noAttrs => .noAttrs
  | .ret => .ret
  | .addText => .skip
  | .clearText => .skip
  | .err k => .err k
  | .seq a b => mkSeq a.erase b.erase
  | .ifData _ a b => .ifData a.erase b.erase
  | .ifNoAttrs a b => .ifNoAttrs a.erase b.erase
  | .ifHasAttrs a b => .ifHasAttrs a.erase b.erase
  | .ifStateErr a b => .ifStateErr a.erase b.erase
  | .ifBlank a b => .ifBlank a.erase b.erase
  | .scope a => .scope a.erase

/-- the stream after `stringstream istr(text); istr >> x1 >> … >> xn` -/
def chainRun (chain : List XKind) (text : List Char) : PD.Stream :=
  chain.foldl (fun st x => x.toPD.run st) (PD.Stream.ofText text)

/-- `pure_data(istr >> x1 >> … >> xn)` on `text` -/
def pureOk (chain : List XKind) (text : List Char) : Bool := PD.pureData (chainRun chain text)

/-- the recognisers of gon2deg.cpp / intfloat.h (Model/Literals.lean) on the whole `text_buffer` -/
def litOk : LitKind → List Char → Bool
  | .deg2gon, s => Lit.deg2gonAccepts s
  | .isFloat, s => Lit.isFloat s
  | .isInteger, s => Lit.isInteger s

/-- next oracle bit (exhausted = true) -/
def pop : List Bool → Bool × List Bool
  | [] => (true, [])
  | x :: r => (x, r)

/-- truth value of a condition on the current text; the oracle bits it consumed are removed -/
def condBit (c : Cond) (piece buf : List Char) (o : List Bool) : Bool × List Bool :=
  match c with
  | .other => pop o
  | .lit k neg => (litOk k buf != neg, o)
  | .fails src chain =>
      ((chainRun chain (match src with | .buffer => buf | .piece => piece)).fail, o)
  | .pure src chain g neg =>
      let pd := pureOk chain (match src with | .buffer => buf | .piece => piece)
      let go := match g with
        | .none => (true, o)
        | _ => pop o
      ((go.1 && pd) != neg, go.2)

/-- result of running a `CProg` -/
structure CR where
  st : St
  buf : List Char
  ret : Bool
  o : List Bool
  /-- truth values of the `ifData` conditions evaluated, in evaluation order -/
  tr : List Bool
  /-- the condition evaluated LAST (`none`: no condition was evaluated) -/
  last : Option Cond

/-- `exec` on the real text: `piece` = the character data of a text event (`[]` otherwise), `buf` = `text_buffer` -/
def cexec : CProg → Ctx → List Char → List Char → List Bool → St → CR
  | .skip, _, _, buf, o, st => ⟨st, buf, false, o, [], none⟩
  | .ret, _, _, buf, o, st => ⟨st, buf, true, o, [], none⟩
  | .addText, _, piece, buf, o, st => ⟨st, buf ++ ' ' :: piece, false, o, [], none⟩
  | .clearText, _, _, _, o, st => ⟨st, [], false, o, [], none⟩
  | .seq a b, c, piece, buf, o, st =>
      let r := cexec a c piece buf o st
      if r.ret then r else
        let r2 := cexec b c piece r.buf r.o r.st
        { r2 with tr := r.tr ++ r2.tr, last := r2.last <|> r.last }
  | .setNext, c, _, buf, o, st =>
      let st1 := if c.t = .t_unknown then st.error .unknown_tag else st
      ⟨{ st1 with state := next st.state c.t }, buf, false, o, [], none⟩
  | .setAfter, _, _, buf, o, st => ⟨{ st with state := after st.state }, buf, false, o, [], none⟩
  | .err k, _, _, buf, o, st => ⟨st.error k, buf, false, o, [], none⟩
  | .noAttrs, c, _, buf, o, st => ⟨(if c.attrsEmpty then st else st.error .attributes), buf, false, o, [], none⟩
  | .ifNoAttrs a b, c, piece, buf, o, st =>
      if c.attrsEmpty then cexec b c piece buf o st else cexec a c piece buf o (st.error .attributes)
  | .ifHasAttrs a b, c, piece, buf, o, st => if c.attrsEmpty then cexec b c piece buf o st else cexec a c piece buf o st
  | .ifStateErr a b, c, piece, buf, o, st => if st.state = .s_error then cexec a c piece buf o st else cexec b c piece buf o st
  | .ifBlank a b, c, piece, buf, o, st => if c.blank then cexec a c piece buf o st else cexec b c piece buf o st
  | .ifData cd a b, c, piece, buf, o, st =>
      let x := condBit cd piece buf o
      let r := if x.1 then cexec a c piece buf x.2 st else cexec b c piece buf x.2 st
      { r with tr := x.1 :: r.tr, last := r.last <|> some cd }
  | .scope a, c, piece, buf, o, st =>
      let r := cexec a c piece buf o st
      { r with ret := false }

/-- SAX events with the real character data; `o` = the oracle bits of the conditions that are NOT computed -/
inductive CEvent where
  | start (t : Tag) (attrsEmpty : Bool) (o : List Bool)
  | stop (o : List Bool)
  | text (s : List Char) (o : List Bool)

/-- parser state and `text_buffer` -/
structure CSt where
  st : St
  buf : List Char

def CSt.init : CSt := ⟨St.init, []⟩

/-- the handler call of one event -/
def ccall (cs : CSt) : CEvent → CR
  | .start t ae o => cexec (cStartProg (stag cs.st.state t)) ⟨t, ae, true⟩ [] cs.buf o (tagCall cs.st t)
  | .stop o => cexec (cEndProg (etag cs.st.state)) ⟨.t_unused, true, true⟩ [] cs.buf o cs.st
  | .text s o => cexec (cDataProg (dataH cs.st.state)) ⟨.t_unused, true, isBlank s⟩ s cs.buf o cs.st

def cstep (cs : CSt) (e : CEvent) : CSt :=
  let r := ccall cs e
  ⟨{ r.st with n := cs.st.n + 1 }, r.buf⟩

def crun (cs : CSt) (evs : List CEvent) : CSt := evs.foldl cstep cs

/-- the event of `DP.run` this is: every condition replaced by the truth value computed / taken from the oracle -/
def toAbs (cs : CSt) (e : CEvent) : Event :=
  match e with
  | .start t ae _ => .start t ae (ccall cs e).tr
  | .stop _ => .stop (ccall cs e).tr
  | .text s _ => .text s (ccall cs e).tr

def absEvents : CSt → List CEvent → List Event
  | _, [] => []
  | cs, e :: r => toAbs cs e :: absEvents (cstep cs e) r

/-- every generated `CProg` erases to the generated `Prog` of the same handler -/
def erasesOk : Bool :=
  StartH.all.all (fun h => (cStartProg h).erase == startProg h) &&
  DataH.all.all (fun h => (cDataProg h).erase == dataProg h) &&
  EndH.all.all (fun h => (cEndProg h).erase == endProg h)

end Gama.DP
