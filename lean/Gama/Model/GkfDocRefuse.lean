/-
  The REFUSAL half for the documented gama-local input tree `Doc'` (Model/GkfDocTree.lean), core Lean only:

    `Doc'.firstBad`  the FIRST VIOLATING ELEMENT of the document, by recursion on the tree: the index (in `Doc'.events`,
                     it stands for the line) of the first start tag whose attribute values are not all documented
                     (`attrsDocOk`) or that breaks a documented rule of its element (`rulesOk`, with the `from` inherited
                     from the enclosing `<obs>`), or of a `<point>` inside `<coordinates>` giving neither x,y nor z — kind
                     `handler` —, or of the CLOSING tag of a cluster whose `<cov-mat>` is missing where required, has
                     `dim` ≠ number of observations, a text that is not exactly `bandElems dim band` finite floats, or
                     whose covariance matrix is not positive definite (`pd`) — kind `finish`.  `none` = no violation.
    `Doc'.inVocab`   the document is written in the documented VOCABULARY: children of `<points-observations>` that are
                     leaves are `<point>`s, the children of a cluster are the element kinds of that cluster, every
                     attribute name is documented for its element (`docNames`), and the liberal spots of the parser are
                     not used: an attribute on which the code applies a check DIFFERENT from the documented one
                     (`looseAttrs`: where `docCheck ≠ valueCheck`, both tables compared by computation) carries a
                     documented value, and there is no empty `<height-differences/>` (XSD: `dh+`; the parser accepts it).

  Nothing here mentions `Ctx`, `cstep` or the automaton.
-/
import Gama.Model.GkfDocTree
namespace Gama.Gkf
open Gama.Lit

/-- a violation: event index relative to the first event of the element, kind of the refusal -/
abbrev Bad := Option (Nat × ErrKind)

/-- `r1` on a part of `len1` events, then `r2` on what follows: the first of the two -/
def seqBad (r1 : Bad) (len1 : Nat) (r2 : Bad) : Bad :=
  match r1 with
  | some x => some x
  | none => r2.map (fun p => (len1 + p.1, p.2))

/-- first violation in a sequence of members, `len a` events each -/
def badList {α : Type} (bad : α → Bad) (len : α → Nat) : List α → Bad
  | [] => none
  | a :: r => seqBad (bad a) (len a) (badList bad len r)

/-- what a start tag must meet: every attribute documented with a documented value, every documented rule -/
def elemOk (inh : List Char) (t : Tag) (as : List CAttr) : Bool := attrsDocOk t as && rulesOk inh t as

def elemBad (inh : List Char) (t : Tag) (as : List CAttr) : Bad := if elemOk inh t as then none else some (0, .handler)

/-- an empty element; `xyz`: it is a `<point>` inside `<coordinates>` and must give x,y and/or z -/
def Leaf'.ok (xyz : Bool) (inh : List Char) (l : Leaf') : Bool :=
  elemOk inh l.tag l.attrs && (!xyz || hasXYorZ (absAttrs l.attrs))

def Leaf'.bad (xyz : Bool) (inh : List Char) (l : Leaf') : Bad := if l.ok xyz inh then none else some (0, .handler)

def CovEl'.len (cv : CovEl') : Nat := cv.text.length + 2

def covLen : Option CovEl' → Nat
  | some cv => cv.len
  | none => 0

def covBad : Option CovEl' → Bad
  | some cv => elemBad [] .cov_mat cv.attrs
  | none => none

/-- what the closing tag of a cluster checks (`finish_*`): `<cov-mat>` may be missing only in `<obs>` and
    `<height-differences>`; `dim` = number of observations, the text is exactly the band, in finite floats; positive
    definite -/
def Cluster'.closeOk (c : Cluster') : Bool :=
  (match c.cov with
   | none => c.kind == .obs || c.kind == .hdiffs
   | some cv => toIndex (attrStr cv.attrs "dim") == some c.count &&
       (Cov.words cv.text.flatten).length == bandElems cv.dim cv.band && (Cov.words cv.text.flatten).all toDoubleOk) && c.pd

def Cluster'.bad (c : Cluster') : Bad :=
  seqBad (elemBad [] c.kind.tag c.attrs) 1
    (seqBad (badList (Leaf'.bad (c.kind == .coords) c.inh) (fun _ => 2) c.items) (2 * c.items.length)
      (seqBad (covBad c.cov) (covLen c.cov) (if c.closeOk then none else some (0, .finish))))

def Cluster'.len (c : Cluster') : Nat := 1 + (2 * c.items.length + (covLen c.cov + 1))

def POItem'.bad : POItem' → Bad
  | .point l => l.bad false []
  | .cluster c => c.bad

def POItem'.len : POItem' → Nat
  | .point _ => 2
  | .cluster c => c.len

def NetItem'.bad : NetItem' → Bad
  | .description _ => none
  | .parameters as => elemBad [] .parameters as
  | .pointsObs as items => seqBad (elemBad [] .points_observations as) 1 (badList POItem'.bad POItem'.len items)

def NetItem'.len : NetItem' → Nat
  | .description text => text.length + 2
  | .parameters _ => 2
  | .pointsObs _ items => 1 + ((items.map POItem'.len).sum + 1)

/-- the first violating element of the document: `(index of the event in Doc'.events, kind)` -/
def Doc'.firstBad (d : Doc') : Bad :=
  seqBad (elemBad [] .gama_xml d.attrs) 1
    (seqBad (elemBad [] .network d.netAttrs) 1 (badList NetItem'.bad NetItem'.len d.items))

/-! ### the documented vocabulary -/

/-- documented attributes of `h` on which `process_h` applies a check different from the documented one (the code is
    more liberal there: `doc_refined_table`) -/
def looseAttrs (h : Handler) : List String := (docNames h).filter (fun a => docCheck h a != valueCheck h a)

/-- names documented for the element; where the code's check differs from the documentation the value is documented -/
def attrsVocab (t : Tag) (as : List CAttr) : Bool :=
  as.all (fun a => (docNames (tagHandler t)).contains a.name &&
    (!(looseAttrs (tagHandler t)).contains a.name || match docCheck (tagHandler t) a.name with
      | some d => entryOk d a.val
      | none => false))

/-- element kinds of the children of a cluster -/
def kidTags : ClusterKind → List Tag
  | .obs => [.direction, .distance, .angle, .s_distance, .z_angle, .azimuth]
  | .hdiffs => [.dh]
  | .coords => [.point_]
  | .vectors => [.vec]

def Cluster'.inVocab (c : Cluster') : Bool :=
  attrsVocab c.kind.tag c.attrs && c.items.all (fun l => (kidTags c.kind).contains l.tag && attrsVocab l.tag l.attrs) &&
  (match c.cov with | some cv => attrsVocab .cov_mat cv.attrs | none => true) &&
  !(c.kind == .hdiffs && c.items.isEmpty && c.cov.isNone)

def POItem'.inVocab : POItem' → Bool
  | .point l => l.tag == .point_ && attrsVocab .point_ l.attrs
  | .cluster c => c.inVocab

def NetItem'.inVocab : NetItem' → Bool
  | .description _ => true
  | .parameters as => attrsVocab .parameters as
  | .pointsObs as items => attrsVocab .points_observations as && items.all POItem'.inVocab

def Doc'.inVocab (d : Doc') : Bool :=
  attrsVocab .gama_xml d.attrs && attrsVocab .network d.netAttrs && d.items.all NetItem'.inVocab

end Gama.Gkf
