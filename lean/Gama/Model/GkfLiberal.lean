/-
  The language the GKF parser ACTUALLY accepts for complete documents, as an element grammar
  (core Lean only).  It is the documented grammar of Model/GkfGrammar.lean (`Doc`) plus the liberal
  spots of `GKFparser::startElement/endElement/characterDataHandler`, each stated explicitly here:

    LDoc      = blank*  <gama-local|gama-xml attrs>  (blank | Network)*  </>  blank*
    Network   = <network attrs>  (blank | Description | Parameters | PointsObs)*  </network>
    Description = <description ANY-ATTRS>  text*  </description>
    Parameters  = <parameters attrs>  blank*  </parameters>
    PointsObs = <points-observations attrs>  (blank | Point | Cluster)*  </points-observations>
    Point     = <point attrs>  blank*  </point>
    Cluster   = <k attrs>  (blank | Child_k)*  (CovMat blank*)?  </k>          k = obs | height-differences | coordinates | vectors
    Child_k   = <t attrs>  blank*  </t>                                       t a child tag of k (`ClusterKind.children`)
    CovMat    = <cov-mat attrs>  text*  </cov-mat>

  Liberal spots (what is accepted here and is not in `Doc` / gama-local.xsd):
   L1  blank character data (`isBlank`) is tolerated everywhere, also inside "empty" elements
       (`<point> </point>`), before the root and after it; arbitrary text only in <description> and <cov-mat>.
   L2  the root alias: `tagTable` maps both "gama-local" and "gama-xml" to `Tag.gama_xml`, so at the level of
       `Tag`s (this grammar) the two spellings are the same event; the end tag's name is never looked at
       (`endElement(const char*)` ignores its argument: well-formedness is expat's business).
   L3  `<network>` may be absent or repeated: the root has (blank | Network)*.
   L4  children of <network> in any order, any number (description / parameters may repeat).
   L5  `<description>` is entered by a bare `state = state_description`: its attributes are not examined.
   L6  attribute names: exactly those compared in the body of the element's `process_*` (`attrsOk h as` over the
       GENERATED `attrNames`/`attrLoop`).  Consequences: names outside the XSD that a handler compares are accepted
       (`version` on the root, `to`/`rs` on <angle>); `process_hdiffs`/`process_coords`/`process_vectors` examine
       ONLY THE FIRST attribute (`attrLoop = .first`): `<coordinates extern=".." anything="..">` is accepted.
   L7  clusters may be empty (`<height-differences/>`, `<coordinates/>`, `<vectors/>`: XSD says dh+/point+/vec+),
       the `<cov-mat>` is optional in every kind as far as the element structure goes (that `<coordinates>` and
       `<vectors>` need one is a check of `finish_coords`/`finish_vectors` — generated `finishSpec.requiresCov` — i.e.
       part of the `dataOk` bit of the cluster's end tag, which must be `true`), at most one `<cov-mat>`, it is the
       last child, only blank text may follow it.
   L8  children of <obs> of the six kinds interleave freely.
   L9  a `<point>` inside `<coordinates>` must define x(,y) or z (`hasXYorZ`), a `<point>` directly in
       `<points-observations>` need not.

  The `dataOk` bit of an event (value checks of the real handler) must be `true` where a `process_*` with an
  attribute loop or a `finish_*` runs; where the parser runs no check (`<description>` start tag, end tags of
  elements without `finish_*`) the bit is irrelevant and is carried as a free field (`startBit`, `endBit`) so
  that `events` reaches every accepted event sequence.
-/
import Gama.Model.GkfGrammar
namespace Gama.Gkf

/-- all pieces of character data are blank -/
def blanks (ws : List (List Char)) : Bool := ws.all isBlank

/-- character data delivered in pieces -/
def texts (ws : List (List Char)) : List Event := ws.map Event.text

/-- `<tag attrs> blank* </tag>` : an element without element children -/
structure LLeaf where
  tag : Tag
  attrs : List Attr
  /-- blank character data inside the element (L1) -/
  ws : List (List Char)
  /-- `dataOk` of the end tag: never inspected (no `finish_*`) -/
  endBit : Bool
  deriving Repr

def LLeaf.events (l : LLeaf) : List Event :=
  .start l.tag l.attrs true :: (texts l.ws ++ [.stop l.endBit])

/-- the `process_*` that examines the attributes of the cluster's start tag -/
def ClusterKind.handler : ClusterKind → Handler
  | .obs => .obs_ | .hdiffs => .hdiffs_ | .coords => .coords_ | .vectors => .vectors_

/-- children of each cluster kind: tag, the `process_*` whose attribute loop checks its attributes,
    and whether x(,y) or z must be given (L9) -/
def ClusterKind.children : ClusterKind → List (Tag × Handler × Bool)
  | .obs => [(.direction, .direction_, false), (.distance, .distance_, false), (.angle, .angle_, false),
             (.s_distance, .sdistance_, false), (.z_angle, .zangle_, false), (.azimuth, .azimuth_, false)]
  | .hdiffs => [(.dh, .dh_, false)]
  | .coords => [(.point_, .point_, true)]
  | .vectors => [(.vec, .vec_, false)]

def LLeaf.okIn (k : ClusterKind) (l : LLeaf) : Bool :=
  k.children.any (fun c => l.tag == c.1 && attrsOk c.2.1 l.attrs && (!c.2.2 || hasXYorZ l.attrs)) &&
  blanks l.ws

/-- a child of a cluster: blank text or an observation / point element -/
inductive LItem where
  | ws (s : List Char)
  | leaf (l : LLeaf)
  deriving Repr

def LItem.events : LItem → List Event
  | .ws s => [.text s]
  | .leaf l => l.events

def LItem.okIn (k : ClusterKind) : LItem → Bool
  | .ws s => isBlank s
  | .leaf l => l.okIn k

/-- `<cov-mat attrs> text* </cov-mat> blank*` : the covariance matrix and what may follow it in the cluster -/
structure LCov where
  attrs : List Attr
  /-- arbitrary character data (its content is checked by `finish_cov` when the CLUSTER ends) -/
  text : List (List Char)
  endBit : Bool
  /-- after `</cov-mat>` only blank text is tolerated (L7) -/
  wsAfter : List (List Char)
  deriving Repr

def LCov.events (c : LCov) : List Event :=
  .start .cov_mat c.attrs true :: (texts c.text ++ .stop c.endBit :: texts c.wsAfter)

def LCov.ok (c : LCov) : Bool := attrsOk .cov_ c.attrs && blanks c.wsAfter

/-- the optional `<cov-mat>` part of a cluster (L7) -/
def LCov.optEvents : Option LCov → List Event
  | some cv => cv.events
  | none => []

def LCov.optOk : Option LCov → Bool
  | some cv => cv.ok
  | none => true

structure LCluster where
  kind : ClusterKind
  attrs : List Attr
  items : List LItem
  cov : Option LCov
  deriving Repr

/-- the end tag of a cluster runs `finish_*`: its `dataOk` bit must be `true` -/
def LCluster.events (c : LCluster) : List Event :=
  .start c.kind.tag c.attrs true ::
    (c.items.flatMap LItem.events ++ (LCov.optEvents c.cov ++ [.stop true]))

def LCluster.ok (c : LCluster) : Bool :=
  attrsOk c.kind.handler c.attrs && c.items.all (LItem.okIn c.kind) && LCov.optOk c.cov

/-- a child of `<points-observations>` -/
inductive LPOItem where
  | ws (s : List Char)
  | point (l : LLeaf)
  | cluster (c : LCluster)
  deriving Repr

def LPOItem.events : LPOItem → List Event
  | .ws s => [.text s]
  | .point l => l.events
  | .cluster c => c.events

def LPOItem.ok : LPOItem → Bool
  | .ws s => isBlank s
  | .point l => l.tag == .point_ && attrsOk .point_ l.attrs && blanks l.ws
  | .cluster c => c.ok

/-- a child of `<network>` -/
inductive LNetItem where
  | ws (s : List Char)
  /-- attributes and `dataOk` of the start tag are not examined (L5) -/
  | description (attrs : List Attr) (startBit : Bool) (text : List (List Char)) (endBit : Bool)
  | parameters (l : LLeaf)
  | pointsObs (attrs : List Attr) (items : List LPOItem) (endBit : Bool)
  deriving Repr

def LNetItem.events : LNetItem → List Event
  | .ws s => [.text s]
  | .description as sb text eb => .start .description as sb :: (texts text ++ [.stop eb])
  | .parameters l => l.events
  | .pointsObs as items eb =>
      .start .points_observations as true :: (items.flatMap LPOItem.events ++ [.stop eb])

def LNetItem.ok : LNetItem → Bool
  | .ws s => isBlank s
  | .description _ _ _ _ => true
  | .parameters l => l.tag == .parameters && attrsOk .parameters_ l.attrs && blanks l.ws
  | .pointsObs as items _ => attrsOk .point_obs_ as && items.all LPOItem.ok

/-- a child of the root element: blank text or a `<network>` (L3) -/
inductive LRootItem where
  | ws (s : List Char)
  | network (attrs : List Attr) (items : List LNetItem) (endBit : Bool)
  deriving Repr

def LRootItem.events : LRootItem → List Event
  | .ws s => [.text s]
  | .network as items eb => .start .network as true :: (items.flatMap LNetItem.events ++ [.stop eb])

def LRootItem.ok : LRootItem → Bool
  | .ws s => isBlank s
  | .network as items _ => attrsOk .network_ as && items.all LNetItem.ok

/-- a complete document as the parser accepts it -/
structure LDoc where
  /-- blank text before the root (expat never delivers any; the handler would tolerate it) -/
  pre : List (List Char)
  /-- attributes of `<gama-local>` / `<gama-xml>` (L2) -/
  attrs : List Attr
  items : List LRootItem
  endBit : Bool
  /-- blank text after the root -/
  post : List (List Char)
  deriving Repr

def LDoc.events (d : LDoc) : List Event :=
  texts d.pre ++ .start .gama_xml d.attrs true ::
    (d.items.flatMap LRootItem.events ++ .stop d.endBit :: texts d.post)

def LDoc.ok (d : LDoc) : Bool :=
  blanks d.pre && attrsOk .gama_xml_ d.attrs && d.items.all LRootItem.ok && blanks d.post

/-! ### the documented grammar is a sub-grammar: `Doc` embeds into `LDoc` -/

def Leaf.toL (l : Leaf) : LLeaf := ⟨l.tag, l.attrs, [], true⟩

def CovEl.toL (c : CovEl) : LCov := ⟨c.attrs, c.text, true, []⟩

def Cluster.toL (c : Cluster) : LCluster :=
  ⟨c.kind, c.attrs, c.items.map (fun l => .leaf l.toL), c.cov.map CovEl.toL⟩

def POItem.toL : POItem → LPOItem
  | .point l => .point l.toL
  | .cluster c => .cluster c.toL

def NetItem.toL : NetItem → LNetItem
  | .description text => .description [] true text true
  | .parameters as => .parameters ⟨.parameters, as, [], true⟩
  | .pointsObs as items => .pointsObs as (items.map POItem.toL) true

def Doc.toL (d : Doc) : LDoc :=
  ⟨[], d.attrs, [.network d.netAttrs (d.items.map NetItem.toL) true], true, []⟩

end Gama.Gkf
