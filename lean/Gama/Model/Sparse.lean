/-
  Model of `GNU_gama::SparseMatrix<Float,Index>` (lib/gnu_gama/sparse/smatrix.h).

  C++ state: `rows_, cols_`, three heap arrays `nonz[floats]`, `cind[floats]`,
  `rptr[rows+2]` (1-based rows: row r occupies positions `rptr[r] .. rptr[r+1]-1`),
  and the fill counters `rcnt_` (rows started), `rnxt_ = rcnt_+1`, `ncnt_` (entries).
  `new[]` leaves the arrays uninitialised; the model fills them with a placeholder
  (`default` / `0`) – such cells are never observed (drivers print the defined part only).

  None of the C++ members checks capacity or index ranges (no throw exists in this
  class): `new_row` beyond `rows_`, `add_element` beyond `floats`, a column index
  outside `1..cols_` in `transpose` are undefined behaviour.  The model is total
  (`setIfInBounds` ignores an out-of-range write); `canNewRow / canAddElement /
  canReplicate` say when the C++ call is defined, the harness refuses anything else and
  the theorems carry these as hypotheses (`Gama.SMat.WF`).

  Core Lean only.
-/
namespace Gama

structure SMat (K : Type) where
  rows : Nat
  cols : Nat
  nonz : Array K
  cind : Array Nat
  rptr : Array Nat
  rcnt : Nat
  rnxt : Nat
  ncnt : Nat

namespace SMat
variable {K : Type}

/-- `SparseMatrix(Index floats, Index rows, Index cols)` -/
def new [Inhabited K] (floats rows cols : Nat) : SMat K :=
  { rows := rows, cols := cols
    nonz := Array.replicate floats default
    cind := Array.replicate floats 0
    rptr := Array.replicate (rows + 2) 0
    rcnt := 0, rnxt := 1, ncnt := 0 }

/-- the C++ call `new_row()` writes `rptr[rcnt_+2]`: defined iff a row is left -/
def canNewRow (A : SMat K) : Bool := A.rcnt < A.rows
/-- `add_element` writes `nonz[ncnt_]`, `cind[ncnt_]` and increments `rptr[rnxt_]`
    (which is initialised only after the first `new_row`) -/
def canAddElement (A : SMat K) : Bool := A.ncnt < A.nonz.size && 1 ≤ A.rcnt

/-- `new_row()` : `rptr[++rcnt_] = ncnt_; rptr[++rnxt_] = ncnt_;` -/
def newRow (A : SMat K) : SMat K :=
  let rcnt := A.rcnt + 1
  let rnxt := A.rnxt + 1
  { A with rcnt := rcnt, rnxt := rnxt
           rptr := (A.rptr.setIfInBounds rcnt A.ncnt).setIfInBounds rnxt A.ncnt }

/-- `add_element(e, k)` : `nonz[ncnt_] = e; cind[ncnt_++] = k; rptr[rnxt_]++;` -/
def addElement (A : SMat K) (e : K) (k : Nat) : SMat K :=
  { A with nonz := A.nonz.setIfInBounds A.ncnt e
           cind := A.cind.setIfInBounds A.ncnt k
           ncnt := A.ncnt + 1
           rptr := A.rptr.modify A.rnxt (· + 1) }

/-- `memcpy(dst, src, k)` into a freshly allocated array of `n` cells -/
def copyInto {α : Type} [Inhabited α] (src : Array α) (k n : Nat) : Array α :=
  src.extract 0 k ++ Array.replicate (n - k) default

/-- `replicate(new_n, new_r, new_c)` is defined iff the copies fit -/
def canReplicate (A : SMat K) (n r : Nat) : Bool := A.ncnt ≤ n && A.rcnt ≤ r

/-- `replicate(new_n, new_r, new_c)` : fresh arrays, `memcpy` of `rcnt_+2` row pointers and
    `ncnt_` entries; `rows_/cols_` are the *new* ones, the counters are copied. -/
def replicate [Inhabited K] (A : SMat K) (n r c : Nat) : SMat K :=
  { rows := r, cols := c
    rcnt := A.rcnt, rnxt := A.rnxt, ncnt := A.ncnt
    rptr := copyInto A.rptr (A.rcnt + 2) (r + 2)
    nonz := copyInto A.nonz A.ncnt n
    cind := copyInto A.cind A.ncnt n }

/-- `replicate()` -/
def replicate0 [Inhabited K] (A : SMat K) : SMat K := A.replicate A.ncnt A.rows A.cols

/-! ### `transpose()` as coded: counting sort with row pointers shifted by two -/

/-- `for (i=0; i<ncnt_; i++) trptr[cind[i]+2]++;` -/
def tCount (cind : Array Nat) (ncnt : Nat) (t : Array Nat) : Array Nat :=
  (List.range ncnt).foldl (fun t i => t.modify (cind[i]! + 2) (· + 1)) t

/-- `for (i=3; i<trows_+2; i++) trptr[i] += trptr[i-1];` -/
def tPrefix (trows : Nat) (t : Array Nat) : Array Nat :=
  (List.range' 3 (trows + 2 - 3)).foldl (fun t i => t.setIfInBounds i (t[i]! + t[i-1]!)) t

/-- state of the scatter loop: `tcind`, `tnonz`, `trptr` -/
structure TState (K : Type) where
  tcind : Array Nat
  tnonz : Array K
  trptr : Array Nat

/-- body of `while (irb != ire)` for position `irb` of row `r` -/
def tScatter1 [Inhabited K] (A : SMat K) (r : Nat) (s : TState K) (irb : Nat) : TState K :=
  let k := A.cind[irb]! + 1
  let j := s.trptr[k]!
  { tcind := s.tcind.setIfInBounds j r
    tnonz := s.tnonz.setIfInBounds j A.nonz[irb]!
    trptr := s.trptr.modify k (· + 1) }

/-- the row loop `ire = rptr[1]; for (r=1; r<=rows_; r++) { irb = ire; ire = rptr[r+1]; while … }`.
    The inner `while (irb != ire)` is a `range` because `rptr` is non-decreasing for a
    well-formed matrix (for a decreasing `rptr` the C++ runs off the arrays). -/
def tScatter [Inhabited K] (A : SMat K) (s : TState K) : TState K :=
  ((List.range' 1 A.rows).foldl (fun (p : TState K × Nat) r =>
      let irb := p.2
      let ire := A.rptr[r+1]!
      ((List.range' irb (ire - irb)).foldl (tScatter1 A r) p.1, ire)) (s, A.rptr[1]!)).1

/-- `transpose()`; private ctor `SparseMatrix(const SparseMatrix*)` allocates
    `nonz[ncnt_]`, `cind[ncnt_]`, `rptr[cols_+4]`.  Cells `trows_+2`, `trows_+3` of `trptr`
    are not zeroed by the C++ (the count of the last column is accumulated on top of
    an indeterminate value in cell `trows_+2`, which is never read); the model has 0 there. -/
def transpose [Inhabited K] (A : SMat K) : SMat K :=
  let trows := A.cols
  let t0 : Array Nat := Array.replicate (A.cols + 4) 0
  let t1 := tCount A.cind A.ncnt t0
  let t2 := tPrefix trows t1
  let s := tScatter A { tcind := Array.replicate A.ncnt 0, tnonz := Array.replicate A.ncnt default, trptr := t2 }
  { rows := A.cols, cols := A.rows
    rcnt := A.cols, rnxt := A.cols + 1, ncnt := A.ncnt
    nonz := s.tnonz, cind := s.tcind, rptr := s.trptr }

/-! ### Abstraction: the matrix as a list of rows of `(column, value)` -/

/-- positions `rptr[r] .. rptr[r+1]-1` -/
def rowRange (A : SMat K) (r : Nat) : List Nat :=
  List.range' A.rptr[r]! (A.rptr[r+1]! - A.rptr[r]!)

/-- `ibegin(r) .. iend(r)` -/
def rowCols (A : SMat K) (r : Nat) : List Nat := (A.rowRange r).map fun p => A.cind[p]!
/-- `begin(r) .. end(r)` -/
def rowVals [Inhabited K] (A : SMat K) (r : Nat) : List K := (A.rowRange r).map fun p => A.nonz[p]!
def rowEntries [Inhabited K] (A : SMat K) (r : Nat) : List (Nat × K) :=
  (A.rowRange r).map fun p => (A.cind[p]!, A.nonz[p]!)

def toRows [Inhabited K] (A : SMat K) : List (List (Nat × K)) := (List.range' 1 A.rows).map A.rowEntries

/-- all entries `(row, column, value)` in storage order -/
def entries [Inhabited K] (A : SMat K) : List (Nat × Nat × K) :=
  (List.range' 1 A.rows).flatMap fun r => (A.rowEntries r).map fun e => (r, e.1, e.2)

/-- executable form of the preconditions of `transpose`, the graph constructor and
    `Envelope::set` (none is checked by the C++): all rows started, every column index in
    `1..cols` -/
def built (A : SMat K) : Bool :=
  A.rcnt == A.rows && (A.cind.extract 0 A.ncnt).all fun c => 1 ≤ c && c ≤ A.cols

/-- no column index occurs twice in one row (precondition of `Envelope::set`) -/
def nodupRows (A : SMat K) : Bool :=
  (List.range' 1 A.rows).all fun r => (A.rowCols r).Nodup

/-! ### Functional specification of the transpose -/

/-- row `c` of the transpose: entries of column `c`, rows ascending, within one row in
    storage order; each tagged with its (1-based) row number -/
def transposeRow (rs : List (List (Nat × K))) (c : Nat) : List (Nat × K) :=
  (rs.zipIdx 1).flatMap fun p => (p.1.filter (fun e => e.1 == c)).map fun e => (p.2, e.2)

def transposeRows (cols : Nat) (rs : List (List (Nat × K))) : List (List (Nat × K)) :=
  (List.range' 1 cols).map (transposeRow rs)

/-- row pointers of a list of rows: `[junk, 0, |r1|, |r1|+|r2|, …]` -/
def ptrsOf {α : Type} : Nat → List (List α) → List Nat
  | acc, [] => [acc]
  | acc, r :: rs => acc :: ptrsOf (acc + r.length) rs

/-- CRS storage of a list of rows (`pad` extra cells after the row pointers) -/
def ofRows (rows cols : Nat) (rs : List (List (Nat × K))) (pad : List Nat) : SMat K :=
  { rows := rows, cols := cols
    rcnt := rows, rnxt := rows + 1, ncnt := rs.flatten.length
    nonz := (rs.flatten.map Prod.snd).toArray
    cind := (rs.flatten.map Prod.fst).toArray
    rptr := (0 :: ptrsOf 0 rs ++ pad).toArray }

/-- number of entries with column index `c` among the first `ncnt` -/
def colCount (A : SMat K) (c : Nat) : Nat := ((A.cind.extract 0 A.ncnt).toList.filter (· == c)).length

/-- specification of `transpose` on the storage level (the two trailing row-pointer cells
    are what the model of the C++ leaves there: the count of the last column, and 0) -/
def transposeSpec [Inhabited K] (A : SMat K) : SMat K :=
  ofRows A.cols A.rows (transposeRows A.cols A.toRows) [A.colCount A.cols, 0]

/-- a row stably sorted by column index, columns `1..cols` (bucket form) -/
def stableSortByCol (cols : Nat) (row : List (Nat × K)) : List (Nat × K) :=
  (List.range' 1 cols).flatMap fun c => row.filter (fun e => e.1 == c)

end SMat
end Gama
