/-
  C04 — state machines of the three full-matrix solvers
    `AdjCholDec`  (lib/gnu_gama/adj/adj_chol.h)
    `AdjGSO`      (lib/gnu_gama/adj/adj_gso.h, on top of `ICGS`, lib/gnu_gama/adj/icgs.{h,cpp})
    `AdjSVD`      (lib/gnu_gama/adj/adj_svd.h, on top of `GNU_gama::SVD`, lib/matvec/svd.h)
  all derived from `AdjBaseFull` (adj_basefull.h: `is_solved`, `x`, `r`, `reset`).

  As in Model/EnvState.lean the numeric content of every artefact is abstracted to its
  provenance: an answer is a symbolic `Out` naming the artefacts it was read from, so "the
  answer is what a fresh object would compute" is an equation between `Out`s and a stale read
  is a different term.  Ghost fields (not present in the C++) are marked.

  The code is mirrored as it is after the `fix:` commits
    0604f50  `min_x…` of the three classes sets `is_solved = false`
    09cba0d  `AdjCholDec::defect()`, `AdjGSO::defect()/lindep()` call `solve()` first
    e3b5114  `AdjCholDec::q_bx` solves first
    55cd4d5  `SVD::min_x(n_list, list)` no longer shadows the member `n`
    8e8bcb2  `SVD::min_x()` restores `V_ = minV` only when `decomposed && minx != all && defect != 0`
    f703dbb  `AdjGSO::solve()` throws BadRegularization (after setting `is_solved = true`)
    0422112  `AdjCholDec::min_x()` nulls the freed list pointer

  Not modelled (assumed): `SVD::svd()` converges (no `NoConvergence`); index arguments inside
  the range the class accepts (`SVD::q_*` throw BadRank outside — stateless guard).
  `AdjCholDec::minx_n` is not initialised by the constructor (`init()` sets `minx_t`, `minx_i`,
  `N0` only); the model takes the freshly constructed object as "no list, length 0", which is
  what the code needs to be well defined (see notes/reports/C04-full.md, finding C04-chol-minx-n).

  Round 5: the second-stage error counter of the gso solver, `ICGS::error_icgs2_defect`, is state (`FState.err`).
  `AdjGSO::solve()` refuses (`BadRegularization`) iff `icgs.error() != 0` after `icgs.reset; icgs1(); icgs2();`.
  Where the counter is reset / incremented / read is NOT written here: `solveWith T` interprets a table `T`
  (`IcgsTable`), and `solve = solveWith icgsCode` with `icgsCode` = the table regenerated from icgs.cpp / icgs.h /
  adj_gso.h by tools/gen/c20_icgs.py (`Gen/IcgsError.lean`).  `icgsResetBehindEarlyReturn` is the variant of
  seeded/C20-seed3 (the reset moved from `icgs1()` into `icgs2()` behind `if (defect() == 0) return;`).
  The counter's VALUE is abstracted to "number of increment sites that fired", a failing regularisation making
  every pivot-guarded site fire; the only read compares it with 0.

  Core Lean only.
-/
import Gama.Model.EnvState
import Gama.Gen.IcgsError
namespace Gama.C04.Full
open Gama Gama.C04
open Gama.Gen.IcgsError (Fn Act Site)

/-- what the control flow depends on in the numeric input -/
structure Input where
  n : Nat
  nullity : Nat
  /-- the regularisation step succeeds (no BadRegularization) for this list:
      chol: every Gram–Schmidt pivot `≥ s_tol`; gso: `icgs.error() == 0`;
      svd: `defect ≤ n_min` and no exactly-zero column norm in `min_subset_x` -/
  resolves : List Nat → Bool

inductive Op
  | unknowns | residuals | sumsq | defect
  | qxx (i j : Nat) | qbb (i j : Nat) | qbx (i j : Nat) | lindep (i : Nat)
  | minxAll | minx (l : List Nat) | reset
deriving Repr, DecidableEq

/-- provenance of a regularisation-dependent artefact
    (chol: `x` and `G`; gso: the matrix after `icgs2`; svd: `V_`) -/
inductive VProv
  | unset                       -- never computed from the current data
  | plain                       -- no regularisation applied (regular system; svd: V of the decomposition)
  | reg (l : List Nat)          -- regularised over the list l
  | broken (l : List Nat)       -- regularisation over l was abandoned by a throw half-way
deriving Repr, DecidableEq

inductive Out
  | x (p : VProv)
  | resid (p : VProv)
  | sumsq (p : VProv)
  | defect
  | lindep (i : Nat)
  /-- `t`: the index list `AdjCholDec::T` walks at query time (`none`: no such read);
      `v`: provenance of G / icgs matrix / V_ read -/
  | qxx (i j : Nat) (t : Option (List Nat)) (v : VProv)
  | qbb (i j : Nat)
  | qbx (i j : Nat) (t : Option (List Nat)) (v : VProv)
  | badReg                      -- Exception BadRegularization
  | stale (what : String)       -- an artefact was read that was not computed from the current data
  | ok
deriving Repr, DecidableEq

/-! ### AdjCholDec and AdjGSO -/

inductive Kind | chol | gso
deriving Repr, DecidableEq

structure FState where
  solved : Bool                 -- `AdjBaseFull::is_solved`
  /-- chol: `minx_t == ALL`; gso: `icgs.min_x_use_all` -/
  useAll : Bool
  /-- chol: `minx_i[0..minx_n)` (`none` = nullptr, `minx_n = 0`); gso: `icgs.minx` (`none`: never filled) -/
  list : Option (List Nat)
  -- ghost
  /-- decomposition, x0, r, Q0 (chol) / phase 1 (gso) were computed from the current data -/
  dec : Bool
  /-- regularisation for which x and G (chol) / the phase-2 matrix (gso) were last computed -/
  gprov : VProv
  /-- gso: `icgs.error_icgs2_defect` (a member of the long-lived `ICGS` object: survives `reset(A, b)`,
      `min_x…` and a throw); chol has no such member (the field stays as constructed) -/
  err : Nat := 0
deriving Repr, DecidableEq

/-! ### the ICGS error counter, as coded (table regenerated from the C++) -/

structure IcgsTable where
  sites : List Site
  solveCalls : List Fn
  icgs2EnsuresIcgs1 : Bool
  resetClearsReady : Bool
  icgs1SetsReady : Bool
  errorReturnsCounter : Bool
  solveThrowsIfNonzero : Bool
  ctorValue : Nat
deriving Repr, DecidableEq

/-- the code: lean/Gama/Gen/IcgsError.lean -/
def icgsCode : IcgsTable :=
  { sites := Gama.Gen.IcgsError.sites, solveCalls := Gama.Gen.IcgsError.solveCalls,
    icgs2EnsuresIcgs1 := Gama.Gen.IcgsError.icgs2EnsuresIcgs1, resetClearsReady := Gama.Gen.IcgsError.resetClearsReady,
    icgs1SetsReady := Gama.Gen.IcgsError.icgs1SetsReady, errorReturnsCounter := Gama.Gen.IcgsError.errorReturnsCounter,
    solveThrowsIfNonzero := Gama.Gen.IcgsError.solveThrowsIfNonzero, ctorValue := Gama.Gen.IcgsError.ctorValue }

/-- VARIANT (seeded/C20-seed3): `error_icgs2_defect = 0;` moved from `icgs1()` into `icgs2()`, behind the early
    `if (defect() == 0) return;` -/
def icgsResetBehindEarlyReturn : IcgsTable :=
  { icgsCode with sites := [⟨.icgs2, .reset, true, false⟩, ⟨.icgs2, .incr, true, true⟩, ⟨.icgs2, .incr, true, true⟩] }

/-- the statements of member function `f` on the counter, in source order.  `sing`: the system has defect > 0
    (statements behind `if (defect() == 0) return;` run only then); `fail`: a second-stage pivot is `≤ tolerance`
    (the `else` branches of the pivot tests run only then). -/
def runBody (T : IcgsTable) (f : Fn) (sing fail : Bool) (e : Nat) : Nat :=
  T.sites.foldl (fun e s =>
    if s.fn != f then e
    else if s.behindEarlyReturn && !sing then e
    else match s.act with
      | .reset => 0
      | .incr => if s.pivotGuarded && !fail then e else e + 1) e

/-- one `icgs.<member>(…)` call of `AdjGSO::solve()`; the second component is `icgs1_is_ready` -/
def callFn (T : IcgsTable) (sing fail : Bool) (st : Nat × Bool) : Fn → Nat × Bool
  | .reset => (runBody T .reset sing fail st.1, if T.resetClearsReady then false else st.2)
  | .icgs1 => (runBody T .icgs1 sing fail st.1, if T.icgs1SetsReady then true else st.2)
  | .icgs2 =>
    let st := if T.icgs2EnsuresIcgs1 && !st.2
              then (runBody T .icgs1 sing fail st.1, if T.icgs1SetsReady then true else st.2) else st
    (runBody T .icgs2 sing fail st.1, st.2)
  | .minx => st

/-- the counter after the ICGS calls of one `AdjGSO::solve()` that started with the value `e`
    (`icgs1_is_ready` is cleared by `icgs.reset`, the first call: the translator insists on that) -/
def errAfterSolve (T : IcgsTable) (sing fail : Bool) (e : Nat) : Nat :=
  (T.solveCalls.foldl (callFn T sing fail) (e, false)).1

/-- `if (icgs.error() != 0) { is_solved = true; throw … }` -/
def gsoThrows (T : IcgsTable) (e : Nat) : Bool :=
  T.solveThrowsIfNonzero && T.errorReturnsCounter && (e != 0)

/-- the list the regularisation works with -/
def eff (inp : Input) (s : FState) : List Nat :=
  if s.useAll then allList inp.n else s.list.getD []

/-- chol: `if (minx_t == ALL && minx_n != N) { … minx_i = 1..N }` inside `solve()` (singular branch);
    gso:  `if (min_x_use_all) { minx.clear(); insert 1..N1 }` inside `icgs2()` (defect > 0) -/
def materialise (k : Kind) (inp : Input) (s : FState) : FState :=
  match k with
  | .chol => if s.useAll && ((s.list.map List.length).getD 0 != inp.n) then { s with list := some (allList inp.n) } else s
  | .gso => if s.useAll then { s with list := some (allList inp.n) } else s

/-- the counter after a `solve()` that did not return early -/
def counter (T : IcgsTable) : Kind → Bool → Bool → Nat → Nat
  | .chol, _, _, _ => T.ctorValue          -- no such member: the ghost field keeps its constructed value
  | .gso, sing, fail, e => errAfterSolve T sing fail e

/-- does that `solve()` throw BadRegularization?  chol: a Gram–Schmidt pivot `< s_tol` (`fail`);
    gso: the counter, whatever made it non-zero -/
def throwsOn (T : IcgsTable) : Kind → Bool → Nat → Bool
  | .chol, fail, _ => fail
  | .gso, _, e => gsoThrows T e

/-- `solve()`; the flag tells whether BadRegularization was thrown.
    Both classes set `is_solved = true` before they throw. -/
def solveWith (T : IcgsTable) (k : Kind) (inp : Input) (s : FState) : FState × Bool :=
  if s.solved then (s, false) else
  let s := { s with dec := true }
  if inp.nullity = 0 then
    let e := counter T k false false s.err
    ({ s with solved := true, gprov := .plain, err := e }, throwsOn T k false e)
  else
    let s := materialise k inp s
    let l := s.list.getD []
    if inp.resolves l then
      let e := counter T k true false s.err
      ({ s with solved := true, gprov := .reg l, err := e }, throwsOn T k false e)
    else
      let e := counter T k true true s.err
      ({ s with solved := true, gprov := .broken l, err := e }, throwsOn T k true e)

def solve (k : Kind) (inp : Input) (s : FState) : FState × Bool := solveWith icgsCode k inp s

/-- object right after construction, `min_x…` as configured, `reset(A, b)` -/
def init (useAll : Bool) (list : Option (List Nat)) : FState :=
  { solved := false, useAll := useAll, list := list, dec := false, gprov := .unset, err := icgsCode.ctorValue }

def stepWith (T : IcgsTable) (k : Kind) (inp : Input) (s : FState) : Op → FState × Out
  | .unknowns =>            -- `if (!is_solved) solve(); return x;`
    let (s, thrown) := solveWith T k inp s
    if thrown then (s, .badReg) else (s, if s.dec then .x s.gprov else .stale "x")
  | .residuals =>
    let (s, thrown) := solveWith T k inp s
    if thrown then (s, .badReg) else (s, if s.dec then .resid .plain else .stale "r")
  | .sumsq =>               -- `residuals()` then the dot product
    let (s, thrown) := solveWith T k inp s
    if thrown then (s, .badReg) else (s, if s.dec then .sumsq .plain else .stale "r")
  | .defect =>              -- `solve(); return nullity;` / `solve(); return icgs.defect();`
    let (s, thrown) := solveWith T k inp s
    if thrown then (s, .badReg) else (s, if s.dec then .defect else .stale "defect")
  | .lindep i =>
    let (s, thrown) := solveWith T k inp s
    if thrown then (s, .badReg) else (s, if s.dec then .lindep i else .stale "lindep")
  | .qxx i j =>
    let (s, thrown) := solveWith T k inp s
    if thrown then (s, .badReg) else
    if !s.dec then (s, .stale "Q") else
    match k with
    | .chol => if inp.nullity = 0 then (s, .qxx i j none .plain) else (s, .qxx i j s.list s.gprov)
    | .gso => (s, .qxx i j none s.gprov)
  | .qbb i j =>             -- chol: A Q0 Aᵀ; gso: rowdot over the first block
    let (s, thrown) := solveWith T k inp s
    if thrown then (s, .badReg) else (s, if s.dec then .qbb i j else .stale "Q")
  | .qbx i j =>
    let (s, thrown) := solveWith T k inp s
    if thrown then (s, .badReg) else
    if !s.dec then (s, .stale "Q") else
    match k with
    | .chol => if inp.nullity = 0 then (s, .qbx i j none .plain) else (s, .qbx i j s.list s.gprov)
    | .gso => (s, .qbx i j none s.gprov)
  | .minxAll =>
    match k with
    | .chol => ({ s with list := none, useAll := true, solved := false }, .ok)
    | .gso => ({ s with useAll := true, solved := false }, .ok)
  | .minx l => ({ s with list := some l, useAll := false, solved := false }, .ok)
  | .reset => ({ s with solved := false, dec := false, gprov := .unset }, .ok)

def step (k : Kind) (inp : Input) (s : FState) : Op → FState × Out := stepWith icgsCode k inp s

def run (k : Kind) (inp : Input) (s : FState) : List Op → FState
  | [] => s
  | op :: ops => run k inp (step k inp s op).1 ops

/-- the answer of a brand-new object configured with the same regularisation -/
def fresh (k : Kind) (inp : Input) (useAll : Bool) (list : Option (List Nat)) (op : Op) : Out :=
  (step k inp (init useAll list) op).2

/-! ### AdjSVD on top of SVD -/

structure SState where
  solved : Bool                 -- `AdjBaseFull::is_solved`
  decomposed : Bool             -- `SVD::decomposed`
  sub : Bool                    -- `SVD::minx == subset`
  list : Option (List Nat)      -- `SVD::list_min[0..n_min)` (`none` = null pointer)
  minV : Bool                   -- `SVD::minV` has been assigned (is n×n) since construction
  -- ghost
  defKnown : Bool               -- `SVD::defect` assigned from the current data (it is uninitialised before)
  minVok : Bool                 -- `minV` holds the plain V of the current data
  vprov : VProv                 -- what `V_` holds
  xprov : VProv                 -- the `V_` that `x` (and `r`) were computed with
  haveX : Bool
deriving Repr, DecidableEq

/-- `SVD::min_subset_x()` on a singular system with the stored list; flag = thrown.
    `resolves l` means "does not throw"; of the two throwing exits the first (`defect > n_min`)
    is taken before `V` is touched, the second (a column norm exactly 0) after part of the work. -/
def minSubsetX (inp : Input) (s : SState) : SState × Bool :=
  let l := s.list.getD []
  if inp.resolves l then ({ s with vprov := .reg l }, false)
  else if l.length < inp.nullity then (s, true)
  else ({ s with vprov := .broken l }, true)

/-- `SVD::svd()` -/
def svdDecomp (inp : Input) (s : SState) : SState × Bool :=
  if s.decomposed then (s, false) else
  let s := { s with decomposed := true, defKnown := true, vprov := .plain }
  if inp.nullity = 0 then (s, false)
  else
    let s := { s with minV := true, minVok := true }
    if s.sub then minSubsetX inp s else (s, false)

/-- `AdjSVD::solve()`: `svd.reset(A)` (decomposed = 0) on every call that does not return early -/
def svdSolve (inp : Input) (s : SState) : SState × Bool :=
  if s.solved then (s, false) else
  let (s, thrown) := svdDecomp inp { s with decomposed := false }
  if thrown then (s, true)
  else ({ s with solved := true, xprov := s.vprov, haveX := true }, false)

def sinit (sub : Bool) (list : Option (List Nat)) : SState :=
  { solved := false, decomposed := false, sub := sub, list := list, minV := false,
    defKnown := false, minVok := false, vprov := .unset, xprov := .unset, haveX := false }

def sstep (inp : Input) (s : SState) : Op → SState × Out
  | .unknowns =>
    let (s, thrown) := svdSolve inp s
    if thrown then (s, .badReg) else (s, if s.haveX then .x s.xprov else .stale "x")
  | .residuals =>
    let (s, thrown) := svdSolve inp s
    if thrown then (s, .badReg) else (s, if s.haveX then .resid s.xprov else .stale "r")
  | .sumsq =>
    let (s, thrown) := svdSolve inp s
    if thrown then (s, .badReg) else (s, if s.haveX then .sumsq s.xprov else .stale "r")
  | .defect =>              -- `svd.nullity()`: decomposes, does not solve
    let (s, thrown) := svdDecomp inp s
    if thrown then (s, .badReg) else (s, if s.defKnown then .defect else .stale "defect")
  | .lindep i =>            -- `svd.lindep(i)`
    let (s, thrown) := svdDecomp inp s
    if thrown then (s, .badReg) else (s, if s.defKnown then .lindep i else .stale "inv_W")
  | .qxx i j =>             -- `if (!is_solved) solve(); svd.q_xx(i,j)` (which decomposes if needed)
    let (s, thrown) := svdSolve inp s
    if thrown then (s, .badReg) else
    let (s, thrown) := svdDecomp inp s
    if thrown then (s, .badReg) else (s, .qxx i j none s.vprov)
  | .qbb i j =>
    let (s, thrown) := svdSolve inp s
    if thrown then (s, .badReg) else
    let (s, thrown) := svdDecomp inp s
    if thrown then (s, .badReg) else (s, if s.defKnown then .qbb i j else .stale "U")
  | .qbx i j =>
    let (s, thrown) := svdSolve inp s
    if thrown then (s, .badReg) else
    let (s, thrown) := svdDecomp inp s
    if thrown then (s, .badReg) else (s, .qbx i j none s.vprov)
  | .minxAll =>             -- `svd.min_x(); is_solved = false;`
    let s := if s.decomposed && s.sub && (inp.nullity != 0)
             then { s with vprov := if s.minV && s.minVok then .plain else .unset } else s
    ({ s with sub := false, solved := false }, .ok)
  | .minx l =>              -- `svd.min_x(n, l); is_solved = false;`  (a throw skips the second statement)
    let s := { s with sub := true, list := some l }
    if s.decomposed && (inp.nullity != 0) then
      let s := { s with vprov := if s.minV && s.minVok then .plain else .unset }
      let (s, thrown) := minSubsetX inp s
      if thrown then (s, .badReg) else ({ s with solved := false }, .ok)
    else ({ s with solved := false }, .ok)
  | .reset =>               -- `AdjBaseFull::reset; svd.reset(A)`
    ({ s with solved := false, decomposed := false, defKnown := false, minVok := false,
              vprov := .unset, xprov := .unset, haveX := false }, .ok)

def srun (inp : Input) (s : SState) : List Op → SState
  | [] => s
  | op :: ops => srun inp (sstep inp s op).1 ops

def sfresh (inp : Input) (sub : Bool) (list : Option (List Nat)) (op : Op) : Out :=
  (sstep inp (sinit sub list) op).2

end Gama.C04.Full
