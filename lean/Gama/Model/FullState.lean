/-
  C04 — state machines of the three full-matrix solvers
    `AdjCholDec`  (lib/gnu_gama/adj/adj_chol.h)
    `AdjGSO`      (lib/gnu_gama/adj/adj_gso.h, on top of `ICGS`, lib/gnu_gama/adj/icgs.{h,cpp})
    `AdjSVD`      (lib/gnu_gama/adj/adj_svd.h, on top of `GNU_gama::SVD`, lib/matvec/svd.h)
  all derived from `AdjBaseFull` (adj_basefull.h: `is_solved`, `x`, `r`, `reset`).

  As in Model/EnvState.lean the numeric content of every artefact is abstracted to its
  provenance: an answer is a symbolic `Out` naming the artefacts it was read from, so "the
  answer is what a fresh object would compute" is an equation between `Out`s and a stale read
  is a different term.  Ghost fields (not present in the C++) are marked.

  The code is mirrored as it is after the `fix:` commits
    0604f50  `min_x…` of the three classes sets `is_solved = false`
    09cba0d  `AdjCholDec::defect()`, `AdjGSO::defect()/lindep()` call `solve()` first
    e3b5114  `AdjCholDec::q_bx` solves first
    55cd4d5  `SVD::min_x(n_list, list)` no longer shadows the member `n`
    8e8bcb2  `SVD::min_x()` restores `V_ = minV` only when `decomposed && minx != all && defect != 0`
    f703dbb  `AdjGSO::solve()` throws BadRegularization (after setting `is_solved = true`)
    0422112  `AdjCholDec::min_x()` nulls the freed list pointer

  Not modelled (assumed): `SVD::svd()` converges (no `NoConvergence`); index arguments inside
  the range the class accepts (`SVD::q_*` throw BadRank outside — stateless guard).
  `AdjCholDec::minx_n` is not initialised by the constructor (`init()` sets `minx_t`, `minx_i`,
  `N0` only); the model takes the freshly constructed object as "no list, length 0", which is
  what the code needs to be well defined (see notes/reports/C04-full.md, finding C04-chol-minx-n).

  Core Lean only.
-/
import Gama.Model.EnvState
namespace Gama.C04.Full
open Gama Gama.C04

/-- what the control flow depends on in the numeric input -/
structure Input where
  n : Nat
  nullity : Nat
  /-- the regularisation step succeeds (no BadRegularization) for this list:
      chol: every Gram–Schmidt pivot `≥ s_tol`; gso: `icgs.error() == 0`;
      svd: `defect ≤ n_min` and no exactly-zero column norm in `min_subset_x` -/
  resolves : List Nat → Bool

inductive Op
  | unknowns | residuals | sumsq | defect
  | qxx (i j : Nat) | qbb (i j : Nat) | qbx (i j : Nat) | lindep (i : Nat)
  | minxAll | minx (l : List Nat) | reset
deriving Repr, DecidableEq

/-- provenance of a regularisation-dependent artefact
    (chol: `x` and `G`; gso: the matrix after `icgs2`; svd: `V_`) -/
inductive VProv
  | unset                       -- never computed from the current data
  | plain                       -- no regularisation applied (regular system; svd: V of the decomposition)
  | reg (l : List Nat)          -- regularised over the list l
  | broken (l : List Nat)       -- regularisation over l was abandoned by a throw half-way
deriving Repr, DecidableEq

inductive Out
  | x (p : VProv)
  | resid (p : VProv)
  | sumsq (p : VProv)
  | defect
  | lindep (i : Nat)
  /-- `t`: the index list `AdjCholDec::T` walks at query time (`none`: no such read);
      `v`: provenance of G / icgs matrix / V_ read -/
  | qxx (i j : Nat) (t : Option (List Nat)) (v : VProv)
  | qbb (i j : Nat)
  | qbx (i j : Nat) (t : Option (List Nat)) (v : VProv)
  | badReg                      -- Exception BadRegularization
  | stale (what : String)       -- an artefact was read that was not computed from the current data
  | ok
deriving Repr, DecidableEq

/-! ### AdjCholDec and AdjGSO -/

inductive Kind | chol | gso
deriving Repr, DecidableEq

structure FState where
  solved : Bool                 -- `AdjBaseFull::is_solved`
  /-- chol: `minx_t == ALL`; gso: `icgs.min_x_use_all` -/
  useAll : Bool
  /-- chol: `minx_i[0..minx_n)` (`none` = nullptr, `minx_n = 0`); gso: `icgs.minx` (`none`: never filled) -/
  list : Option (List Nat)
  -- ghost
  /-- decomposition, x0, r, Q0 (chol) / phase 1 (gso) were computed from the current data -/
  dec : Bool
  /-- regularisation for which x and G (chol) / the phase-2 matrix (gso) were last computed -/
  gprov : VProv
deriving Repr, DecidableEq

/-- the list the regularisation works with -/
def eff (inp : Input) (s : FState) : List Nat :=
  if s.useAll then allList inp.n else s.list.getD []

/-- chol: `if (minx_t == ALL && minx_n != N) { … minx_i = 1..N }` inside `solve()` (singular branch);
    gso:  `if (min_x_use_all) { minx.clear(); insert 1..N1 }` inside `icgs2()` (defect > 0) -/
def materialise (k : Kind) (inp : Input) (s : FState) : FState :=
  match k with
  | .chol => if s.useAll && ((s.list.map List.length).getD 0 != inp.n) then { s with list := some (allList inp.n) } else s
  | .gso => if s.useAll then { s with list := some (allList inp.n) } else s

/-- `solve()`; the flag tells whether BadRegularization was thrown.
    Both classes set `is_solved = true` before they throw. -/
def solve (k : Kind) (inp : Input) (s : FState) : FState × Bool :=
  if s.solved then (s, false) else
  let s := { s with dec := true }
  if inp.nullity = 0 then ({ s with solved := true, gprov := .plain }, false)
  else
    let s := materialise k inp s
    let l := s.list.getD []
    if inp.resolves l then ({ s with solved := true, gprov := .reg l }, false)
    else ({ s with solved := true, gprov := .broken l }, true)

/-- object right after construction, `min_x…` as configured, `reset(A, b)` -/
def init (useAll : Bool) (list : Option (List Nat)) : FState :=
  { solved := false, useAll := useAll, list := list, dec := false, gprov := .unset }

def step (k : Kind) (inp : Input) (s : FState) : Op → FState × Out
  | .unknowns =>            -- `if (!is_solved) solve(); return x;`
    let (s, thrown) := solve k inp s
    if thrown then (s, .badReg) else (s, if s.dec then .x s.gprov else .stale "x")
  | .residuals =>
    let (s, thrown) := solve k inp s
    if thrown then (s, .badReg) else (s, if s.dec then .resid .plain else .stale "r")
  | .sumsq =>               -- `residuals()` then the dot product
    let (s, thrown) := solve k inp s
    if thrown then (s, .badReg) else (s, if s.dec then .sumsq .plain else .stale "r")
  | .defect =>              -- `solve(); return nullity;` / `solve(); return icgs.defect();`
    let (s, thrown) := solve k inp s
    if thrown then (s, .badReg) else (s, if s.dec then .defect else .stale "defect")
  | .lindep i =>
    let (s, thrown) := solve k inp s
    if thrown then (s, .badReg) else (s, if s.dec then .lindep i else .stale "lindep")
  | .qxx i j =>
    let (s, thrown) := solve k inp s
    if thrown then (s, .badReg) else
    if !s.dec then (s, .stale "Q") else
    match k with
    | .chol => if inp.nullity = 0 then (s, .qxx i j none .plain) else (s, .qxx i j s.list s.gprov)
    | .gso => (s, .qxx i j none s.gprov)
  | .qbb i j =>             -- chol: A Q0 Aᵀ; gso: rowdot over the first block
    let (s, thrown) := solve k inp s
    if thrown then (s, .badReg) else (s, if s.dec then .qbb i j else .stale "Q")
  | .qbx i j =>
    let (s, thrown) := solve k inp s
    if thrown then (s, .badReg) else
    if !s.dec then (s, .stale "Q") else
    match k with
    | .chol => if inp.nullity = 0 then (s, .qbx i j none .plain) else (s, .qbx i j s.list s.gprov)
    | .gso => (s, .qbx i j none s.gprov)
  | .minxAll =>
    match k with
    | .chol => ({ s with list := none, useAll := true, solved := false }, .ok)
    | .gso => ({ s with useAll := true, solved := false }, .ok)
  | .minx l => ({ s with list := some l, useAll := false, solved := false }, .ok)
  | .reset => ({ s with solved := false, dec := false, gprov := .unset }, .ok)

def run (k : Kind) (inp : Input) (s : FState) : List Op → FState
  | [] => s
  | op :: ops => run k inp (step k inp s op).1 ops

/-- the answer of a brand-new object configured with the same regularisation -/
def fresh (k : Kind) (inp : Input) (useAll : Bool) (list : Option (List Nat)) (op : Op) : Out :=
  (step k inp (init useAll list) op).2

/-! ### AdjSVD on top of SVD -/

structure SState where
  solved : Bool                 -- `AdjBaseFull::is_solved`
  decomposed : Bool             -- `SVD::decomposed`
  sub : Bool                    -- `SVD::minx == subset`
  list : Option (List Nat)      -- `SVD::list_min[0..n_min)` (`none` = null pointer)
  minV : Bool                   -- `SVD::minV` has been assigned (is n×n) since construction
  -- ghost
  defKnown : Bool               -- `SVD::defect` assigned from the current data (it is uninitialised before)
  minVok : Bool                 -- `minV` holds the plain V of the current data
  vprov : VProv                 -- what `V_` holds
  xprov : VProv                 -- the `V_` that `x` (and `r`) were computed with
  haveX : Bool
deriving Repr, DecidableEq

/-- `SVD::min_subset_x()` on a singular system with the stored list; flag = thrown.
    `resolves l` means "does not throw"; of the two throwing exits the first (`defect > n_min`)
    is taken before `V` is touched, the second (a column norm exactly 0) after part of the work. -/
def minSubsetX (inp : Input) (s : SState) : SState × Bool :=
  let l := s.list.getD []
  if inp.resolves l then ({ s with vprov := .reg l }, false)
  else if l.length < inp.nullity then (s, true)
  else ({ s with vprov := .broken l }, true)

/-- `SVD::svd()` -/
def svdDecomp (inp : Input) (s : SState) : SState × Bool :=
  if s.decomposed then (s, false) else
  let s := { s with decomposed := true, defKnown := true, vprov := .plain }
  if inp.nullity = 0 then (s, false)
  else
    let s := { s with minV := true, minVok := true }
    if s.sub then minSubsetX inp s else (s, false)

/-- `AdjSVD::solve()`: `svd.reset(A)` (decomposed = 0) on every call that does not return early -/
def svdSolve (inp : Input) (s : SState) : SState × Bool :=
  if s.solved then (s, false) else
  let (s, thrown) := svdDecomp inp { s with decomposed := false }
  if thrown then (s, true)
  else ({ s with solved := true, xprov := s.vprov, haveX := true }, false)

def sinit (sub : Bool) (list : Option (List Nat)) : SState :=
  { solved := false, decomposed := false, sub := sub, list := list, minV := false,
    defKnown := false, minVok := false, vprov := .unset, xprov := .unset, haveX := false }

def sstep (inp : Input) (s : SState) : Op → SState × Out
  | .unknowns =>
    let (s, thrown) := svdSolve inp s
    if thrown then (s, .badReg) else (s, if s.haveX then .x s.xprov else .stale "x")
  | .residuals =>
    let (s, thrown) := svdSolve inp s
    if thrown then (s, .badReg) else (s, if s.haveX then .resid s.xprov else .stale "r")
  | .sumsq =>
    let (s, thrown) := svdSolve inp s
    if thrown then (s, .badReg) else (s, if s.haveX then .sumsq s.xprov else .stale "r")
  | .defect =>              -- `svd.nullity()`: decomposes, does not solve
    let (s, thrown) := svdDecomp inp s
    if thrown then (s, .badReg) else (s, if s.defKnown then .defect else .stale "defect")
  | .lindep i =>            -- `svd.lindep(i)`
    let (s, thrown) := svdDecomp inp s
    if thrown then (s, .badReg) else (s, if s.defKnown then .lindep i else .stale "inv_W")
  | .qxx i j =>             -- `if (!is_solved) solve(); svd.q_xx(i,j)` (which decomposes if needed)
    let (s, thrown) := svdSolve inp s
    if thrown then (s, .badReg) else
    let (s, thrown) := svdDecomp inp s
    if thrown then (s, .badReg) else (s, .qxx i j none s.vprov)
  | .qbb i j =>
    let (s, thrown) := svdSolve inp s
    if thrown then (s, .badReg) else
    let (s, thrown) := svdDecomp inp s
    if thrown then (s, .badReg) else (s, if s.defKnown then .qbb i j else .stale "U")
  | .qbx i j =>
    let (s, thrown) := svdSolve inp s
    if thrown then (s, .badReg) else
    let (s, thrown) := svdDecomp inp s
    if thrown then (s, .badReg) else (s, .qbx i j none s.vprov)
  | .minxAll =>             -- `svd.min_x(); is_solved = false;`
    let s := if s.decomposed && s.sub && (inp.nullity != 0)
             then { s with vprov := if s.minV && s.minVok then .plain else .unset } else s
    ({ s with sub := false, solved := false }, .ok)
  | .minx l =>              -- `svd.min_x(n, l); is_solved = false;`  (a throw skips the second statement)
    let s := { s with sub := true, list := some l }
    if s.decomposed && (inp.nullity != 0) then
      let s := { s with vprov := if s.minV && s.minVok then .plain else .unset }
      let (s, thrown) := minSubsetX inp s
      if thrown then (s, .badReg) else ({ s with solved := false }, .ok)
    else ({ s with solved := false }, .ok)
  | .reset =>               -- `AdjBaseFull::reset; svd.reset(A)`
    ({ s with solved := false, decomposed := false, defKnown := false, minVok := false,
              vprov := .unset, xprov := .unset, haveX := false }, .ok)

def srun (inp : Input) (s : SState) : List Op → SState
  | [] => s
  | op :: ops => srun inp (sstep inp s op).1 ops

def sfresh (inp : Input) (sub : Bool) (list : Option (List Nat)) (op : Op) : Out :=
  (sstep inp (sinit sub list) op).2

end Gama.C04.Full
