/-
  The documented literal formats of intfloat.h (`IsInteger`, `IsFloat`) and of `deg2gon`
  (gon2deg.cpp) as regular expressions, with a matcher by Brzozowski derivatives.
  Core Lean only (the matcher runs in the driver as a third party next to the model of the
  scanner and the real code).

      integer   ws* [+-]? D+ ws*
      float     ws* [+-]? ( D+ ( . D* )? | . D+ ) ( [eE] [+-]? D+ )? ws*
      dms       ws* ( [+-] ws* [+-]? )? D+ - D+ - D+ ( . D* )? ( [eE] [+-]? D+ )? ws*
                (+ numeric side conditions of `istream >> int` / `>> double`, see `Angles.DmsLit`)

  The only iteration the three formats need is over a character class (`many`), so the
  expression type has no general star; that keeps derivative and language trivial.
-/
namespace Gama.Grammar

inductive Rx where
  | empty
  | eps
  | cls (p : Char → Bool)
  | many (p : Char → Bool)
  | alt (a b : Rx)
  | seq (a b : Rx)

namespace Rx

def nullable : Rx → Bool
  | empty => false
  | eps => true
  | cls _ => false
  | many _ => true
  | alt a b => a.nullable || b.nullable
  | seq a b => a.nullable && b.nullable

def deriv : Rx → Char → Rx
  | empty, _ => empty
  | eps, _ => empty
  | cls p, c => if p c then eps else empty
  | many p, c => if p c then many p else empty
  | alt a b, c => alt (a.deriv c) (b.deriv c)
  | seq a b, c => if a.nullable then alt (seq (a.deriv c) b) (b.deriv c) else seq (a.deriv c) b

/-- the decision procedure -/
def accepts (r : Rx) : List Char → Bool
  | [] => r.nullable
  | c :: cs => (r.deriv c).accepts cs

end Rx

/-! ### character classes -/

def isSpace (c : Char) : Bool :=
  c = ' ' || c = '\t' || c = '\n' || c = '\x0b' || c = '\x0c' || c = '\r'
def isDigit (c : Char) : Bool := '0' ≤ c && c ≤ '9'
def isSign (c : Char) : Bool := c = '+' || c = '-'
def isDot (c : Char) : Bool := c = '.'
def isExp (c : Char) : Bool := c = 'e' || c = 'E'
def isMinus (c : Char) : Bool := c = '-'

open Rx

def ws : Rx := many isSpace
def opt (r : Rx) : Rx := alt eps r
/-- `D+` -/
def digits1 : Rx := seq (cls isDigit) (many isDigit)
/-- `[eE] [+-]? D+` -/
def expPart : Rx := seq (cls isExp) (seq (opt (cls isSign)) digits1)

/-- `[+-]? D+` -/
def integerCore : Rx := seq (opt (cls isSign)) digits1
/-- the documented format of an integer literal (repaired `IsInteger`) -/
def integerRx : Rx := seq ws (seq integerCore ws)

/-- `D+ ( . D* )? | . D+` -/
def mantissaRx : Rx :=
  alt (seq digits1 (opt (seq (cls isDot) (many isDigit)))) (seq (cls isDot) digits1)
/-- `[+-]? mantissa exponent?` -/
def floatCore : Rx := seq (opt (cls isSign)) (seq mantissaRx (opt expPart))
/-- the documented format of a float literal (`IsFloat`) -/
def floatRx : Rx := seq ws (seq floatCore ws)

/-- `D+ ( . D* )? ( [eE] [+-]? D+ )?` — what `istream >> double` extracts when the next
    character is a digit -/
def secondsRx : Rx := seq digits1 (seq (opt (seq (cls isDot) (many isDigit))) (opt expPart))
/-- `( [+-] ws* [+-]? )? D+ - D+ - seconds` -/
def dmsCore : Rx :=
  seq (opt (seq (cls isSign) (seq ws (opt (cls isSign)))))
    (seq digits1 (seq (cls isMinus) (seq digits1 (seq (cls isMinus) secondsRx))))
/-- the shape of a sexagesimal angle accepted by `deg2gon` -/
def dmsRx : Rx := seq ws (seq dmsCore ws)

end Gama.Grammar
