/-
  The BUILD MACHINE of `GNU_gama::SparseMatrix` (lib/gnu_gama/sparse/smatrix.h): the public calls
  that change the fill state of an object — `new_row()`, `add_element(e,k)` — and
  `replicate(new_n, new_r, new_c)`, which hands the build over to a NEW object (larger arrays, the
  counters `rcnt_`, `rnxt_`, `ncnt_` copied) on which the sequential fill may CONTINUE.

  State of the machine = `Gama.SMat` (Model/Sparse.lean): `rows_, cols_`, the three arrays with their
  capacities (`nonz.size`, `cind.size`, `rptr.size`), the cursors `rcnt_`, `rnxt_`, `ncnt_`.
  A call is guarded by its definedness condition (`can…`, none of which the C++ checks):
  `none` = the C++ call would write outside an array.

  `replicateStaleCursor` is NOT the code: it is the variant in which `replicate` forgets to copy
  `rnxt_` (the replica keeps the constructor's `rnxt_ = 1`); `Props/C16.lean` shows that it violates
  `C16_replicate_then_append`.

  Core Lean only.
-/
import Gama.Model.Sparse
namespace Gama
namespace SMat
variable {K : Type}

/-- one call of the build interface -/
inductive BuildOp (K : Type) where
  /-- `new_row()` -/
  | newRow
  /-- `add_element(e, k)` -/
  | add (e : K) (k : Nat)
  /-- `this = this->replicate(n, r, c)` (the caller continues with the replica) -/
  | replicate (n r c : Nat)
deriving Repr

/-- one guarded step -/
def BuildOp.apply? [Inhabited K] (A : SMat K) : BuildOp K → Option (SMat K)
  | .newRow => if A.canNewRow then some A.newRow else none
  | .add e k => if A.canAddElement then some (A.addElement e k) else none
  | .replicate n r c => if A.canReplicate n r then some (A.replicate n r c) else none

/-- a history of build calls -/
def runOps? [Inhabited K] (A : SMat K) (ops : List (BuildOp K)) : Option (SMat K) :=
  ops.foldlM BuildOp.apply? A

/-- the calls that fill one row -/
def rowOps (row : List (Nat × K)) : List (BuildOp K) :=
  .newRow :: row.map fun e => .add e.2 e.1

/-- the data members of the C++ class that the state `SMat` stands for (`rptr1` is the alias
    `rptr + 1`); compared with the regenerated member list by `Props.C16.C16_replicate_members` -/
def modelMembers : List String :=
  ["rows_", "cols_", "nonz", "cind", "rptr", "rptr1", "rcnt_", "rnxt_", "ncnt_"]

/-- VARIANT (not the code): `replicate` without `r->rnxt_ = rnxt_;` -/
def replicateStaleCursor [Inhabited K] (A : SMat K) (n r c : Nat) : SMat K :=
  { A.replicate n r c with rnxt := 1 }

end SMat
end Gama
