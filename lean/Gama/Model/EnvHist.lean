/-
  C04 round 3 — histories that switch between inputs.

  `AdjEnvelope::reset(data')` may hand the object ANOTHER input (of the same or of a different
  size).  The machine of Model/EnvState.lean takes the facts of the current input as a parameter
  of every step; here the current input is part of the state and `resetNew inp'` replaces it.
  What survives `reset` physically — `indbuf` keys, the three `qxxbuf` vectors (`content`, tagged
  with the identity `EnvInput.id` of the data set they were computed from), `tmpres`
  (`tmpresDim`), `min_x_list` — is explicit state of `EnvState`; `reset` says what the code does
  to each of them.

  `resetKeep` is the VARIANT of the code that re-initialises the cache only when the number of
  unknowns changed (seeded change C03-seed2): used for the witness that the erase step is needed.
  Core Lean only.
-/
import Gama.Model.EnvState
namespace Gama.C04

structure HState where
  inp : EnvInput
  s : EnvState

inductive HOp
  | q (op : Op)                     -- an API call on the current input
  | resetNew (inp' : EnvInput)      -- `reset(data')`

/-- one call; `rst old new s` is what `reset(data')` does to the object -/
def hstepWith (rst : EnvInput → EnvInput → EnvState → EnvState) (h : HState) : HOp → HState × Out
  | .q op => (⟨h.inp, (step h.inp h.s op).1⟩, (step h.inp h.s op).2)
  | .resetNew inp' => (⟨inp', rst h.inp inp' h.s⟩, .ok)

def hrunWith (rst : EnvInput → EnvInput → EnvState → EnvState) (h : HState) : List HOp → HState
  | [] => h
  | o :: os => hrunWith rst (hstepWith rst h o).1 os

/-- the code: `reset` does not look at the old input -/
def hstep : HState → HOp → HState × Out := hstepWith fun _ _ s => reset s
def hrun : HState → List HOp → HState := hrunWith fun _ _ s => reset s

/-- the variant "work vectors are reallocated only if the number of unknowns has changed":
    keys and buffers are kept when `parameters` is unchanged -/
def resetKeep (old new : EnvInput) (s : EnvState) : EnvState :=
  if old.n = new.n then
    setStage { s with minx := if s.minxDef then none else s.minx, minxDef := false, haveX0 := false, haveResid := false, haveQ0 := false, haveX := false, xreg := none } 0
  else reset s

end Gama.C04
