/-
  C04 round 3 — histories that switch between inputs.

  `AdjEnvelope::reset(data')` may hand the object ANOTHER input (of the same or of a different
  size).  The machine of Model/EnvState.lean takes the facts of the current input as a parameter
  of every step; here the current input is part of the state and `resetNew inp'` replaces it.
  What survives `reset` physically — `indbuf` keys, the three `qxxbuf` vectors (`content`, tagged
  with the identity `EnvInput.id` of the data set they were computed from), `tmpres`
  (`tmpresDim`), `min_x_list` — is explicit state of `EnvState`; `reset` says what the code does
  to each of them.

  `resetKeep` is the VARIANT of the code that re-initialises the cache only when the vectors are not
  already allocated with the new number of unknowns (seeded change C03-seed2, exactly: round 4 made the
  dimension of the `qxxbuf` vectors a field, `HState.bufDim`): the witness that the erase step is needed.
  Core Lean only.
-/
import Gama.Model.EnvState
namespace Gama.C04

structure HState where
  inp : EnvInput
  s : EnvState
  /-- `qxxbuf[i].dim()` when the last call returned (round 4: the dimension is state; the three vectors are always
      (re)allocated together): 0 after `reset` (`qxxbuf[i].reset()`), `parameters` once `solve_x0` ran on a singular
      system (`if (nullity) … qxxbuf[i].reset(parameters)`) or `q0_xx` took the full-solution branch
      (`if (qxxbuf[0].dim() != parameters) … reset(parameters)`).  The code never reads it across a `reset`; the
      seeded variant `resetKeep` does. -/
  bufDim : Nat := 0

inductive HOp
  | q (op : Op)                     -- an API call on the current input
  | resetNew (inp' : EnvInput)      -- `reset(data')`

/-- dimension of the `qxxbuf` vectors after the call `op` (state `pre` → `post`, answer `out`) -/
def dimAfter (inp : EnvInput) (pre post : EnvState) (op : Op) (out : Out) (d : Nat) : Nat :=
  if op = .reset then 0
  else if inp.nullity ≠ 0 ∧ pre.stage < 2 ∧ 2 ≤ post.stage then inp.n      -- `solve_x0` ran, singular system
  else match out with
    | .q0col _ _ => inp.n                                                    -- `q0_xx` outside the envelope
    | _ => d

/-- one call; `rst h new` is what `reset(data')` does to the object: the new `EnvState` and buffer dimension -/
def hstepWith (rst : HState → EnvInput → EnvState × Nat) (h : HState) : HOp → HState × Out
  | .q op => (⟨h.inp, (step h.inp h.s op).1, dimAfter h.inp h.s (step h.inp h.s op).1 op (step h.inp h.s op).2 h.bufDim⟩,
              (step h.inp h.s op).2)
  | .resetNew inp' => (⟨inp', (rst h inp').1, (rst h inp').2⟩, .ok)

def hrunWith (rst : HState → EnvInput → EnvState × Nat) (h : HState) : List HOp → HState
  | [] => h
  | o :: os => hrunWith rst (hstepWith rst h o).1 os

/-- the code: `reset` looks neither at the old input nor at the buffers; it leaves them with dimension 0 -/
def codeReset : HState → EnvInput → EnvState × Nat := fun h _ => (reset h.s, 0)
def hstep : HState → HOp → HState × Out := hstepWith codeReset
def hrun : HState → List HOp → HState := hrunWith codeReset

/-- the seeded variant (seeded/C03-seed2, exactly): "work vectors are reallocated only if the number of unknowns
    has changed" — `if (qxxbuf.size() != indbuf.size() || qxxbuf[0].dim() != parameters) { erase; resize; reset }`:
    key table and vectors are KEPT when the buffers are already allocated with the new number of unknowns
    (`bufDim = new.n`); everything else as the code (`min_x_default` list dropped, `set_stage(stage_init)`) -/
def resetKeep (h : HState) (new : EnvInput) : EnvState × Nat :=
  if h.bufDim = new.n then
    (setStage { h.s with minx := if h.s.minxDef then none else h.s.minx, minxDef := false, haveX0 := false,
                         haveResid := false, haveQ0 := false, haveX := false, xreg := none } 0, h.bufDim)
  else (reset h.s, 0)

end Gama.C04
