/-
  C19 — hand-written carrier types for the *generated* g3 linearisation
  (`Gama/Gen/G3Linearization.lean`, regenerated from g3_model_linearization.cpp by
  tools/gen/c19_linearization.py).

  * `Trig`        = `Neu.SinCos` + `std::atan2`, `std::acos`, the macro `M_PI` (radian.h)
  * `E3`          = `GNU_gama::E_3` (e3.h / e3.cpp: `+= -= *= dot cross`, `angle(a, b)`)
  * `E3.rotation R c / E3.inverse R c` = `R_3::rotation / R_3::inverse`; `R_3::set_rotation(b, l)` is
    `Neu.transformationMatrix b l` (same nine expressions as `Point::transformation_matrix`;
    the translator checks the text of both)
  * `GPt`         = what `Model::linearization(T*)` reads from a `g3::Point`
  * `GBlock / GRow / GLin` = the guarded coefficient pushes exactly as nested in the source:
        if (P->g1()) { if (P->g2()) { A->add_element(c, P->N.index()); … } }
    becomes a block with guards `[(P, g1), (P, g2)]` and pushes `[(P, N, c), …]`
  * `evalRow`     = what `SparseMatrix::add_element` receives for given point states

  Core Lean only (linked into `drv_g3`).
-/
import Gama.Model.Neu
import Gama.Model.G3Book
namespace Gama
namespace G3Lin
open Neu G3Book

/-- `SinCos` + `std::atan2(y, x)`, `std::acos`, `M_PI` -/
class Trig (K : Type) extends SinCos K where
  atan2 : K → K → K
  acos : K → K
  pi : K

instance : Trig Float where
  atan2 := Float.atan2
  acos := Float.acos
  pi := 3.14159265358979323846264338328

variable {K : Type}

/-- `GNU_gama::E_3` -/
structure E3 (K : Type) where
  e1 : K
  e2 : K
  e3 : K

namespace E3
variable [Scalar K]
/-- `operator +=` -/
def add (a b : E3 K) : E3 K := ⟨a.e1 + b.e1, a.e2 + b.e2, a.e3 + b.e3⟩
/-- `operator -=` -/
def sub (a b : E3 K) : E3 K := ⟨a.e1 - b.e1, a.e2 - b.e2, a.e3 - b.e3⟩
/-- `operator *= (double)` -/
def smul (a : E3 K) (d : K) : E3 K := ⟨a.e1 * d, a.e2 * d, a.e3 * d⟩
/-- `E_3::dot` -/
def dot (a b : E3 K) : K := a.e1 * b.e1 + a.e2 * b.e2 + a.e3 * b.e3
/-- `E_3::cross(a, b)` : `set(+a.e2*b.e3 - b.e2*a.e3, -a.e1*b.e3 + b.e1*a.e3, +a.e1*b.e2 - b.e1*a.e2)` -/
def cross (a b : E3 K) : E3 K :=
  ⟨a.e2 * b.e3 - b.e2 * a.e3, -a.e1 * b.e3 + b.e1 * a.e3, a.e1 * b.e2 - b.e1 * a.e2⟩
end E3

/-- `GNU_gama::angle(a, b)` : `c = a.dot(b); if (c) c /= sqrt(a.dot(a) * b.dot(b)); return acos(c);` -/
def E3.angle [Trig K] (a b : E3 K) : K :=
  let c := a.dot b
  let c := if Scalar.beq c 0 then c else c / Scalar.sqrt (a.dot a * b.dot b)
  Trig.acos c

/-- `R_3::rotation(c, x)` : dif_NEU → dif_XYZ -/
def E3.rotation [Scalar K] (R : Rot K) (c : E3 K) : E3 K :=
  ⟨R.r11 * c.e1 + R.r12 * c.e2 + R.r13 * c.e3,
   R.r21 * c.e1 + R.r22 * c.e2 + R.r23 * c.e3,
   R.r31 * c.e1 + R.r32 * c.e2 + R.r33 * c.e3⟩

/-- `R_3::inverse(c, x)` : dif_XYZ → dif_NEU -/
def E3.inverse [Scalar K] (R : Rot K) (c : E3 K) : E3 K :=
  ⟨R.r11 * c.e1 + R.r21 * c.e2 + R.r31 * c.e3,
   R.r12 * c.e1 + R.r22 * c.e2 + R.r32 * c.e3,
   R.r13 * c.e1 + R.r23 * c.e2 + R.r33 * c.e3⟩

/-- what the linearisation reads from a `g3::Point`: `X()` (= `init_value() + correction()`),
    `X.init_value()`, `B() L() H()`, `geoid() dB() dL()`, the stored frame `r11 … r33`,
    the states of `N E U` and their members `ind` (`index()` = `free() ? ind : 0`) -/
structure GPt (K : Type) where
  X : K
  Y : K
  Z : K
  X0 : K
  Y0 : K
  Z0 : K
  B : K
  L : K
  H : K
  geoid : K
  dB : K
  dL : K
  R : Rot K
  sN : PState
  sE : PState
  sU : PState
  iN : Nat
  iE : Nat
  iU : Nat

namespace GPt
variable [Scalar K] (p : GPt K)
def Xdh (dh : K) : K := p.X + p.R.r13 * dh
def Ydh (dh : K) : K := p.Y + p.R.r23 * dh
def Zdh (dh : K) : K := p.Z + p.R.r33 * dh
def modelHeight : K := p.H - p.geoid
def state : Comp → PState
  | .N => p.sN | .E => p.sE | .U => p.sU
def ind : Comp → Nat
  | .N => p.iN | .E => p.iE | .U => p.iU
/-- `Parameter::index()` -/
def index (c : Comp) : Nat := if (p.state c).isFree then p.ind c else 0
end GPt

/-- the point names an observation carries: `from to` (FromTo), `left right` (Angle), `id` (XYZ, Height) -/
inductive Role where
  | frm | to | left | right | pt
deriving DecidableEq, Repr

/-- the predicates the linearisation guards its pushes with -/
inductive Guard where
  | freeH     -- `free_horizontal_position()` : `N.free() && E.free()`
  | freeU     -- `free_height()`              : `U.free()`
  | freeN     -- `N.free()`
  | freeE     -- `E.free()`
deriving DecidableEq, Repr

def Guard.holds (p : GPt K) : Guard → Bool
  | .freeH => p.sN.isFree && p.sE.isFree
  | .freeU => p.sU.isFree
  | .freeN => p.sN.isFree
  | .freeE => p.sE.isFree

/-- `A->add_element(coef, role->comp.index())` -/
structure GPush (K : Type) where
  role : Role
  comp : Comp
  coef : K

/-- pushes under the conjunction of the enclosing `if (role->guard())` conditions -/
structure GBlock (K : Type) where
  guards : List (Role × Guard)
  pushes : List (GPush K)

/-- one `A->new_row()` -/
abbrev GRow (K : Type) := List (GBlock K)

/-- one `Model::linearization(T*)` -/
structure GLin (K : Type) where
  rows : List (GRow K)
  rhs : List K
  rejected : Bool

/-- the observation's own data: `obs()` / `dx() dy() dz()` / `x() y() z()` as `v1 v2 v3`,
    and the instrument / target heights -/
structure GObs (K : Type) where
  v1 : K
  v2 : K
  v3 : K
  fromDh : K
  toDh : K
  leftDh : K
  rightDh : K

abbrev Pts (K : Type) := Role → GPt K

def GBlock.active (P : Pts K) (b : GBlock K) : Bool := b.guards.all fun (r, g) => g.holds (P r)

/-- what the sparse matrix receives for one row -/
def evalRow (P : Pts K) (r : GRow K) : Row K :=
  r.flatMap fun b => if b.active P then b.pushes.map (fun q => (q.coef, (P q.role).index q.comp)) else []

/-- a row without its coefficient values: the guards and the targets of every block, as nested in the source -/
abbrev Shape := List (List (Role × Guard) × List (Role × Comp))

def GRow.shape (r : GRow K) : Shape := r.map fun b => (b.guards, b.pushes.map fun q => (q.role, q.comp))

/-- the unknowns (role, component) that receive a coefficient, in program order, for given point states -/
def emittedOf (P : Pts K) (sh : Shape) : List (Role × Comp) :=
  sh.flatMap fun (g, qs) => if (g.all fun (r, gd) => gd.holds (P r)) then qs else []

def emitted (P : Pts K) (r : GRow K) : List (Role × Comp) := emittedOf P r.shape

/-- is the unknown (role, component) adjusted (free or constrained)? -/
def adjusted (P : Pts K) (q : Role × Comp) : Bool := ((P q.1).state q.2).isFree

def evalLin (P : Pts K) (l : GLin K) : LinOut K := ⟨l.rows.map (evalRow P), l.rhs, l.rejected⟩

end G3Lin
end Gama
