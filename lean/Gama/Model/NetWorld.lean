/-
  NetWorld — the parameter `World` of `Gama.NetDecision` DERIVED from a solver (properties C02, C20).

  `NetDecision` is parametrised by a "world": configuration of the points ↦ what the decision layer
  reads.  Here the world is built from its two real ingredients:

    * `pe : Net → ProjEq P` — `LocalNetwork::project_equations()`: the revised points, the removals it
      records (`revision_points`, `singular_coords`), the list `unknowns_`, the counts, and the problem `P`
      it feeds to `least_squares` (design matrix, right-hand side, covariances, `min_x` list);
    * `solver : P → SolverObs K` — what `vyrovnani_` / `null_space` / `GeneralParameters` observe of the
      solver OBJECT fed with that problem, in the order they ask:
        `q_xx(i,i)` (huge-covariance pass; the first query runs `solve()`), `residuals()`,
        `sum_of_squares()`, `q_bb(i,i)`; after a `BadRegularization` was caught: `lindep(i)`, `defect()`
        on the SAME object.
      `refused = some e`: the queries that need the regularised solution throw `e`
      (`AdjGSO`/`AdjCholDec`/`AdjSVD::solve()` throw from every such query of a freshly fed object;
      `AdjEnvelope` throws from `unknowns()`/`q_xx` — `solve_x` — only; `vyrovnani_` asks a `q_xx` before
      anything else whenever an unknown exists, so the difference is not observable here).
      `defect`, `lindep` are what the object answers AFTER the throw (`is_solved` stays set: the
      factorisation / the Gram–Schmidt flags are complete before the regularisation step that throws).

  `obsOfAnswer` reads a `SolverObs` off the shared `Ls.Answer` record; the per-algorithm observation
  functions are next to the proofs that they meet the specification: `obsGso` in `Lemmas/NetWorldGso.lean`,
  `obsChol` in `Lemmas/NetWorldChol.lean`, `obsEnv` and `obsSvdCert` in `Lemmas/NetWorldEnv.lean`.

  Core Lean only.
-/
import Gama.Model.NetDecision
namespace Gama.NetDecision
open Gama Gama.Ls

/-- observations of one solver object (see the header) -/
structure SolverObs (K : Type) where
  refused : Option ErrKind
  defect : Nat
  /-- `lindep(i)`, 1-based -/
  lindep : Nat → Bool
  /-- `q_xx(i,i)`, 1-based; read only when `refused = none` -/
  qxx : Nat → K

/-- result of one `project_equations()` -/
structure ProjEq (P : Type) where
  net : Net
  rm : List (String × Rm)
  unknowns : List Unknown
  nObs : Nat
  nPts : Nat
  prob : P

variable {K : Type} {P : Type}

/-- the solver object as `LocalNetwork` queries it -/
def viewOf (q : ProjEq P) (o : SolverObs K) : View K :=
  { unknowns := q.unknowns, nObs := q.nObs, nPts := q.nPts
    defect := o.defect, lindep := o.lindep
    qxx := fun i => match o.refused with
      | some e => .error e
      | none => .ok (o.qxx i)
    resid := match o.refused with
      | some e => .error e
      | none => .ok () }

/-- the world of a network code `pe` run with the solver `solver` -/
def worldOf (pe : Net → ProjEq P) (solver : P → SolverObs K) : World K := fun net =>
  let q := pe net
  { net := q.net, rm := q.rm, view := viewOf q (solver q.prob) }

/-- a `SolverObs` from an `Answer` record: `refusal` is the error of the queries that need `x`
    (`Answer.xErr`, or the error of the whole record), `diag` the diagonal cofactors -/
def obsOfAnswer [Scalar K] (a : Answer K) (refusal : Option ErrKind) : SolverObs K :=
  { refused := refusal
    defect := a.defect
    lindep := fun i => match a.lindep i with
      | .ok b => b
      | .error _ => false
    qxx := fun i => match a.qxx i i with
      | .ok q => q
      | .error _ => 0 }

/-- the unknown that `null_space()` removes on the decision data `a`: that of the FIRST flagged index
    (`none`: nothing flagged — the `for` falls through and `defect()` is returned) -/
def firstUnknown (a : Abs) : Option Unknown :=
  match a.flagged with
  | [] => none
  | i :: _ => a.unknowns[i - 1]?

/-- which point leaves and with which code: all that `removeUnknown` reads of an unknown -/
def removalOf (u : Unknown) : String × Rm :=
  (u.pid, match u.type with
    | .Z => .missing_z
    | _ => .singular_xy)

end Gama.NetDecision
