/-
  C14 round 7 — the dictionary between the two models of `LocalNetwork::revision_observations()`:

    * `PE.revise` (Model/ProjectEquations.lean: `MinX.isRevised`, hand-written for C08, run by `drv_pe`
      as the first step of the executed model of `project_equations()`), and
    * `Rev.revise` (Model/Revise.lean: `LocalRevision` over the REGENERATED requirement table
      `Gen.requirements`, the REGENERATED target-counting loop, run by `drv_revise`).

  `netOf` reads a `PE.Net` as a `Rev.Net`: a point is named by its position in `PD` (that is how the
  `PE` model names points), a `StandPoint` cluster is one with `stand = some _`.  `PE.Net` does not
  carry `test_xy()/test_z()` (its header: "NOT modelled: revision_points, the numeric tests of
  LocalRevision") — it describes a network after `revision_points()`, where every group that takes
  part has its coordinates; `netOf` therefore sets `hxy = hz = true`.
  Core Lean only.
-/
import Gama.Model.ProjectEquations
import Gama.Model.Revise
namespace Gama.RevPE
open Gama

variable {K : Type}

def stOf : Lin.Status → Rev.Status
  | .unused => .unused | .fixed => .fixed | .free => .free | .constrained => .constrained

def tyOf : Lin.Kind → Rev.ObsType
  | .direction => .direction | .distance => .distance | .angle => .angle | .h_diff => .h_diff
  | .s_distance => .s_distance | .z_angle => .z_angle | .x => .x | .y => .y | .z => .z
  | .xdiff => .xdiff | .ydiff => .ydiff | .zdiff => .zdiff | .azimuth => .azimuth

def ptOf (i : Nat) (p : PE.Point K) : Rev.Pt K :=
  { id := i, sxy := stOf p.pt.sxy, sz := stOf p.pt.sz, hxy := true, hz := true,
    x := p.pt.x, y := p.pt.y, z := p.pt.z }

/-- the points of `PD` from position `i` on -/
def ptsFrom : Nat → List (PE.Point K) → List (Rev.Pt K)
  | _, [] => []
  | i, p :: ps => ptOf i p :: ptsFrom (i + 1) ps

def obOf (o : PE.Ob K) : Rev.Obs K :=
  { ty := tyOf o.kind, frm := o.pfrom, «to» := o.pto, fs := o.pfs, active := o.active, value := o.value }

def clOf [Zero K] (c : PE.Cluster K) : Rev.Cluster K :=
  { stand := c.stand.isSome, obs := c.obs.map obOf, actObs := 0, cov := fun i j => c.cov.get i j }

def netOf [Zero K] (net : PE.Net K) : Rev.Net K :=
  { pts := ptsFrom 0 net.points, cls := net.clusters.map clOf
    removed := [], undefined := [], revised := [], rejected := [], pocbod := 0, pocmer := 0 }

/-- an entry of `revised_obs_` as `PE` lists it (`NObs`, with its cluster number) read as the
    observation it points to -/
def ofN (o : Lin.NObs K) : Rev.Obs K :=
  { ty := tyOf o.kind, frm := o.pfrom, «to» := o.pto, fs := o.pfs, active := true, value := o.value }

/-- the C++ constructor invariant the `PE.Cluster` record does not enforce: a `Direction` lives in a
    `StandPoint` cluster (`Direction::ptr_cluster` is a `StandPoint`; the parser builds them no other
    way).  `PE.revise` applies the fewer-than-two-targets rule to the directions of ANY cluster,
    `revision_observations()` only inside `dynamic_cast<StandPoint*>`: without this the two differ. -/
def DirInStand (net : PE.Net K) : Prop :=
  ∀ c ∈ net.clusters, c.stand = none → ∀ ob ∈ c.obs, ob.kind ≠ .direction

/-- **position-stable deletion at the level of the executed model** (`delObs`): the passive observations of
    every cluster go, together with their rows and columns of the covariance matrix
    (`Cov.activeCov`, C10's model of `Cluster::activeCov()`, = the principal sub-matrix); points and
    clusters keep their positions (a point all of whose groups are unused and an emptied cluster stay
    as entries nothing refers to), so the names `⟨position, coordinate⟩` of the unknowns do not move. -/
def delCl [Zero K] (c : PE.Cluster K) : PE.Cluster K :=
  { c with obs := c.obs.filter (·.active)
           cov := Cov.activeCov c.cov (c.obs.map fun o => ⟨o.active, 1⟩) }

def delObs [Zero K] (net : PE.Net K) : PE.Net K := { net with clusters := net.clusters.map delCl }

end Gama.RevPE
