/-
  The GKF parser on SAX events that carry the REAL attribute strings (core Lean only).

  `Model/GkfRun.lean` runs the generated automaton on events whose value checks are one abstract bit
  (`dataOk`).  Here the bit is COMPUTED:

    * for a start tag from the table `Gen/GkfValueChecks.lean` (regenerated from the body of every
      `process_*`): per attribute the conversion applied to its value (`toDouble`, `toInteger`, `toIndex`,
      `deg2gon`-then-`toDouble`), the range test, the enumeration; per handler the required variables, the
      `x`/`y` pair rule, what the observation constructors refuse (`d <= 0`, `from == fs`), `band < dim`;
      the conversions are the recognisers of `Model/Literals.lean` (`Lit.toDoubleOk`, `Lit.toInteger`,
      `Lit.toIndex`, `Lit.deg2gonAccepts`);
    * for an end tag that calls `finish_*`: cov-mat present / `dim` = number of observations of the cluster
      (generated `finishSpec`), the `<cov-mat>` text through `Cov.finishCov`; the only input bit left is
      `pdOk` = "the Cholesky test of the covariance matrix did not throw" (floating point, not modelled here).

  The members of GKFparser that later checks read are carried in `Ctx` (standpoint_id, pp_id, idim, iband,
  observation_list.size() of the open cluster, cov_mat_data).  `crun` is by construction `Gkf.run` on the
  events `toAbs` computes (`crun_st`), so every theorem about `run` holds for it.

  Not modelled: values whose `atof` is a denormal/zero although the decimal value is not (0 < v ≤ 2^-1075 is
  treated exactly for `toDouble`; for the z-angle, whose test is on `atof(v)*G2R`, the sliver up to 32·2^-1074
  is not); `toIndex` values ≥ 2^31 (the cast is undefined in the C++).
-/
import Gama.Gen.GkfValueChecks
import Gama.Model.GkfRun
import Gama.Model.GkfCov
namespace Gama.Gkf
open Gama.Lit

/-! ### sign and size of a literal, exactly as `atof` rounds it -/

/-- the literal starts (after blanks) with `-` -/
def litNeg (s : List Char) : Bool :=
  match trim s with
  | '-' :: _ => true
  | _ => false

/-- `atof(s) == 0` for a string accepted by `IsFloat`: mantissa zero, or the exact value `M·10^e ≤ 2^-1075`
    (half of the smallest denormal; the tie rounds to even = 0) -/
def roundsToZero (s : List Char) : Bool :=
  let (m, nd, f, eneg, e) := floatParts (trim s)
  if m == 0 then true
  else if eneg || e ≤ f then
    let k := if eneg then e + f else f - e            -- value = M / 10^k
    if k ≥ nd + 330 then true                         -- M < 10^nd, so the value is below 10^-330 < 2^-1075
    else decide (m * 2 ^ 1075 ≤ 10 ^ k)
  else false

/-- `atof(s) < 1` for a non-negative literal: the exact value is below `1 - 2^-54` (the midpoint rounds to 1.0) -/
def belowOne (s : List Char) : Bool :=
  let (m, nd, f, eneg, e) := floatParts (trim s)
  if m == 0 then true
  else if eneg || e ≤ f then
    let k := if eneg then e + f else f - e
    if k ≥ nd + 20 then true
    else decide (m * 2 ^ 54 < (2 ^ 54 - 1) * 10 ^ k)
  else false

/-- `atof(s) > 1` for a non-negative literal: the exact value is above `1 + 2^-53` (the midpoint rounds to 1.0) -/
def aboveOne (s : List Char) : Bool :=
  let (m, nd, f, eneg, e) := floatParts (trim s)
  if m == 0 then false
  else if eneg || e ≤ f then
    let k := if eneg then e + f else f - e
    if k ≥ nd then false
    else decide (m * 2 ^ 53 > (2 ^ 53 + 1) * 10 ^ k)
  else true

/-- a string accepted by `deg2gon` has a non-zero value: degrees, minutes or the mantissa of the seconds -/
def dmsNonzero (s : List Char) : Bool :=
  match trim s with
  | [] => false
  | c :: r =>
    let b := if isSign c then r else c :: r
    match scanInt b true with
    | some (_, d, '-' :: r2) =>
      (match scanInt r2 false with
       | some (_, m, '-' :: r4) => d != 0 || m != 0 || (floatParts r4).1 != 0
       | _ => false)
    | _ => false

/-- the converted value is `> 0` -/
def isPos : Conv → List Char → Bool
  | .dbl, s => !litNeg s && !roundsToZero s
  | .angle, s => if deg2gonAccepts s then !litNeg s && dmsNonzero s else !litNeg s && !roundsToZero s
  | .int, s => !litNeg s && digitsVal ((trim s).filter isDigit) != 0
  | .index, s => match toIndex s with | some v => v != 0 | none => false

/-- the converted value is `< 0` -/
def isNeg : Conv → List Char → Bool
  | .dbl, s => litNeg s && !roundsToZero s
  | .angle, s => if deg2gonAccepts s then litNeg s && dmsNonzero s else litNeg s && !roundsToZero s
  | .int, s => litNeg s && digitsVal ((trim s).filter isDigit) != 0
  | .index, _ => false

/-- the converted value is `< 1` (non-negative values; dms strings: only the zero angle) -/
def ltOne : Conv → List Char → Bool
  | .dbl, s => belowOne s
  | .angle, s => if deg2gonAccepts s then !dmsNonzero s else belowOne s
  | .int, s => digitsVal ((trim s).filter isDigit) == 0
  | .index, s => match toIndex s with | some v => v == 0 | none => true

def gtOne : Conv → List Char → Bool
  | .dbl, s => aboveOne s
  | .angle, s => if deg2gonAccepts s then dmsNonzero s else aboveOne s
  | .int, s => digitsVal ((trim s).filter isDigit) > 1
  | .index, s => match toIndex s with | some v => v > 1 | none => false

def rangeOk (c : Conv) : Range → List Char → Bool
  | .any, _ => true
  | .pos, s => isPos c s
  | .nonneg, s => !isNeg c s
  | .open01, s => isPos c s && ltOne c s
  | .ge1, s => !isNeg c s && !ltOne c s
  | .openClosed01, s => isPos c s && !gtOne c s
  | .closedOpen01, s => !isNeg c s && ltOne c s
  | .closed01, s => !isNeg c s && !gtOne c s

/-! ### the checks -/

/-- acceptance of the conversion: the EXISTING literal recognisers.
    `.index`: `toIndex` stores `static_cast<int>(d)`; for d ≥ 2^31 the cast is undefined in C++ and yields INT_MIN on the
    platforms the check runs on, which the following `idim < 1` / `isNegative(iband)` tests refuse: modelled as refused -/
def convOk : Conv → List Char → Bool
  | .dbl, s => toDoubleOk s
  | .int, s => toInteger s
  | .index, s => (match toIndex s with | some v => decide (v < 2147483648) | none => false)
  | .angle, s => deg2gonAccepts s || toDoubleOk s

def checkOk : Check → List Char → Bool
  | .free, _ => true
  | .enum vals, s => vals.any (fun v => v.toList == s)
  | .num c r, s => convOk c s && rangeOk c r s
  | .words n c, s => (Cov.words s).length ≤ n && (Cov.words s).all (convOk c)

def entryOk (e : Entry) (s : List Char) : Bool := (e.emptyAbsent && s.isEmpty) || checkOk e.check s

/-- does `process_h` accept the value `s` of its attribute `a`?  (`true` for a name the handler does not compare:
    that is the business of `attrsOk`) -/
def valueOk (h : Handler) (a : String) (s : List Char) : Bool :=
  match valueCheck h a with
  | none => true
  | some e => entryOk e s

/-- an attribute with its value -/
structure CAttr where
  name : String
  val : List Char
  deriving Repr, DecidableEq

/-- members of GKFparser read by later checks -/
structure Ctx where
  standpointId : List Char := []     -- standpoint_id
  ppId : List Char := []             -- pp_id (cleared at the top of process_point since c9d862c: `varInit .point_ "pp_id"` is `.empty`)
  idim : Nat := 0
  iband : Nat := 0
  nobs : Nat := 0                    -- observation_list.size() of the open cluster
  covData : List Char := []          -- cov_mat_data
  deriving Repr, DecidableEq

def srcVal (ctx : Ctx) : Src → List Char
  | .empty => []
  | .lit s => s.toList
  | .standpointId => ctx.standpointId
  | .ppId => ctx.ppId

/-- the attributes the loop of `process_h` looks at -/
def examined (h : Handler) (attrs : List CAttr) : List CAttr :=
  match attrLoop h with
  | .all => attrs
  | .first => attrs.take 1
  | .none => []

/-- value of the local variable `v` after the attribute loop: the last attribute assigned to it, else its initial value -/
def env (ctx : Ctx) (h : Handler) (attrs : List CAttr) (v : String) : List Char :=
  match attrs.reverse.find? (fun a => bindVar h a.name == some v) with
  | some a => a.val
  | none => srcVal ctx (varInit h v)

/-- `PointID::init`: runs of blanks become one blank, leading/trailing blanks dropped (the text part of the id) -/
def normIdAux : List Char → Bool → List Char
  | [], _ => []
  | c :: cs, prev =>
    if prev && isSpace c then normIdAux cs true
    else (if isSpace c then ' ' else c) :: normIdAux cs (isSpace c)

def normId (s : List Char) : List Char :=
  let t := normIdAux s true
  match t.getLast? with
  | some ' ' => t.dropLast
  | _ => t

def crossOk (ctx : Ctx) (h : Handler) (as : List CAttr) : Cross → Bool
  | .positive v c => isPos c (env ctx h as v)
  | .nonnegative v c => !isNeg c (env ctx h as v)
  | .distinct a b => normId (env ctx h as a) != normId (env ctx h as b)
  | .less a b =>
    match toIndex (env ctx h as a), toIndex (env ctx h as b) with
    | some x, some y => x < y
    | _, _ => false

def valuesOk (h : Handler) (as : List CAttr) : Bool := as.all (fun a => valueOk h a.name a.val)
/-- `if (v == "") return error(..)`; for a `PointID` variable the comparison is made on the normalised id -/
def requiredOk (ctx : Ctx) (h : Handler) (as : List CAttr) : Bool :=
  (requiredVars h).all (fun v =>
    !(if pointIdVars.contains v then normId (env ctx h as v) else env ctx h as v).isEmpty)
def pairsOk (ctx : Ctx) (h : Handler) (as : List CAttr) : Bool :=
  (requiredPairs h).all (fun p => (env ctx h as p.1).isEmpty || !(env ctx h as p.2).isEmpty)
def crossAllOk (ctx : Ctx) (h : Handler) (as : List CAttr) : Bool := (crossRules h).all (crossOk ctx h as)

/-- every value check of `process_h` passes (the attribute NAMES are `attrsOk`'s business) -/
def handlerOk (ctx : Ctx) (h : Handler) (attrs : List CAttr) : Bool :=
  let as := examined h attrs
  valuesOk h as && requiredOk ctx h as && pairsOk ctx h as && crossAllOk ctx h as

/-- the handler whose attribute loop and value checks run inside `process_h` (`process_obs_cov` → `process_cov`) -/
def valueHandler (h : Handler) : Handler :=
  match (handlerOps h).findSome? (fun o => match o with | .attrs g => some g | _ => none) with
  | some g => g
  | none => h

def nonEmptyAttr (attrs : List CAttr) (n : String) : Bool := attrs.any (fun a => a.name == n && !a.val.isEmpty)

/-- what `process_g` (examined attributes `as`, all attributes `attrs`) does to the members -/
def applyEff (ctx : Ctx) (g : Handler) (as attrs : List CAttr) (e : Effects) : Ctx :=
  let c1 := match e.setStandpoint with
    | some v => { ctx with standpointId := env ctx g as v }
    | none => ctx
  let c2 := if e.resetDim then { c1 with idim := 0 } else c1
  let c3 := if e.newCluster then { c2 with nobs := 0 } else c2
  let c4 := { c3 with nobs := c3.nobs + e.pushes + (if nonEmptyAttr attrs "x" then e.pushXY else 0) +
                                (if nonEmptyAttr attrs "z" then e.pushZ else 0) }
  let c5 := match e.cov with
    | some (a, b) => { c4 with idim := (toIndex (env ctx g as a)).getD 0, iband := (toIndex (env ctx g as b)).getD 0 }
    | none => c4
  if (attrNames g).any (fun a => bindVar g a == some "pp_id") then { c5 with ppId := env ctx g as "pp_id" } else c5

def startCtx (ctx : Ctx) (h : Handler) (attrs : List CAttr) : Ctx :=
  let g := valueHandler h
  let c := applyEff ctx g (examined g attrs) attrs (effects g)
  if g == h then c else applyEff c h (examined h attrs) attrs (effects h)

/-- `finish_f` up to the Cholesky test: `if (!idim) error` / `if (idim != size) error`, then `finish_cov` on the collected text -/
def finishOk (ctx : Ctx) (f : Finish) (pdOk : Bool) : Bool :=
  let sp := finishSpec f
  (!sp.requiresCov || ctx.idim != 0) &&
  (!sp.checksDim || ctx.idim == 0 || ctx.idim == ctx.nobs) &&
  (ctx.idim == 0 || (match Cov.finishCov ctx.idim ctx.iband ctx.covData with | .ok _ => true | .error _ => false)) &&
  pdOk

def finishCtx (ctx : Ctx) (f : Finish) : Ctx :=
  let c := if ctx.idim != 0 then { ctx with idim := 0, covData := [] } else ctx
  if finishResetsStandpoint f then { c with standpointId := [] } else c

/-- states in which character data is appended to `cov_mat_data` -/
def covTextState (s : State) : Bool := textAccepting s && s != .description

inductive CEvent where
  | start (t : Tag) (attrs : List CAttr)
  /-- `pdOk`: the Cholesky test of the cluster's covariance matrix passes (read only when `finish_*` runs) -/
  | stop (pdOk : Bool)
  | text (s : List Char)
  deriving Repr

structure CSt where
  st : St
  ctx : Ctx
  deriving Repr, DecidableEq

def CSt.init : CSt := ⟨St.init, {}⟩

def absAttrs (as : List CAttr) : List Attr := as.map (fun a => ⟨a.name, !a.val.isEmpty⟩)

/-- the event of the abstract run: the `dataOk` bit computed from the values and the members -/
def toAbs (cs : CSt) : CEvent → Event
  | .start t as =>
    .start t (absAttrs as) (match start cs.st.state t with
      | .run h => handlerOk cs.ctx (valueHandler h) as
      | _ => true)
  | .stop pd =>
    .stop (match stop cs.st.state with
      | .goto _ (some f) => finishOk cs.ctx f pd
      | _ => true)
  | .text s => .text s

def nextCtx (cs : CSt) : CEvent → Ctx
  | .start t as =>
    (match start cs.st.state t with
     | .run h => startCtx cs.ctx h as
     | _ => cs.ctx)
  | .stop _ =>
    (match stop cs.st.state with
     | .goto _ (some f) => finishCtx cs.ctx f
     | _ => cs.ctx)
  | .text s => if covTextState cs.st.state then { cs.ctx with covData := cs.ctx.covData ++ s } else cs.ctx

def cstep (cs : CSt) (e : CEvent) : CSt := ⟨step cs.st (toAbs cs e), nextCtx cs e⟩

def crun (cs : CSt) (evs : List CEvent) : CSt := evs.foldl cstep cs

/-- the abstract events `crun` feeds to `run` -/
def absEvents : CSt → List CEvent → List Event
  | _, [] => []
  | cs, e :: r => toAbs cs e :: absEvents (cstep cs e) r

theorem crun_st : ∀ (evs : List CEvent) (cs : CSt), (crun cs evs).st = run cs.st (absEvents cs evs) := by
  intro evs
  induction evs with
  | nil => intro cs; rfl
  | cons e r ih =>
    intro cs
    show (crun (cstep cs e) r).st = run cs.st (toAbs cs e :: absEvents (cstep cs e) r)
    rw [ih]
    rfl

end Gama.Gkf
