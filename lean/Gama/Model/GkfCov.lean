/-
  `<cov-mat dim=".." band="..">` accounting of the GKF parser (core Lean only).

    GKFparser::process_cov   dim/band through CoreParser::toIndex, guards `idim < 1`,
                             `isNegative(iband) || iband >= idim`
    GKFparser::finish_cov    `elements = idim*(iband+1) - iband*(iband+1)/2` (GENERATED `covElements`);
                             blank-separated words; "too many" / "bad element" / "not enough";
                             write position (row, col): `col++; if (col > row+iband || col > idim) col = ++row;`
-/
import Gama.Gen.GkfAutomaton
import Gama.Model.Literals
namespace Gama.Cov
open Gama.Lit

inductive Verdict where
  | ok | missing_dim | missing_band | bad_dim | bad_band | too_many | bad_element | not_enough
  deriving DecidableEq, Repr

def Verdict.name : Verdict → String
  | .ok => "ok" | .missing_dim => "cov_missing_dim" | .missing_band => "cov_missing_band"
  | .bad_dim => "cov_bad_dim" | .bad_band => "cov_bad_band" | .too_many => "cov_too_many"
  | .bad_element => "cov_bad_element" | .not_enough => "cov_not_enough"

/-- the outer/inner loops of finish_cov (`skip blanks; w += non-blanks; if (w.size()) …`) produce the
    non-empty blank-separated words of the text, in order; written as one structural pass
    (`cur` = the word being collected, reversed) -/
def wordsAux : List Char → List Char → List (List Char)
  | [], cur => if cur.isEmpty then [] else [cur.reverse]
  | c :: cs, cur =>
    if isSpace c then (if cur.isEmpty then wordsAux cs [] else cur.reverse :: wordsAux cs [])
    else wordsAux cs (c :: cur)

def words (s : List Char) : List (List Char) := wordsAux s []

/-- process_cov: `Except`-style result (dim, band) -/
def processCov (sdim sband : List Char) : Except Verdict (Nat × Nat) :=
  if sdim.isEmpty then .error .missing_dim
  else if sband.isEmpty then .error .missing_band
  else match toIndex sdim with
    | none => .error .bad_dim
    | some d =>
      match toIndex sband with
      | none => .error .bad_band
      | some b =>
        if d < 1 then .error .bad_dim
        else if b ≥ d then .error .bad_band
        else .ok (d, b)

/-- `col++; if (col > row+iband || col > idim) col = ++row;` -/
def nextPos (dim band : Nat) (p : Nat × Nat) : Nat × Nat :=
  if p.2 + 1 > p.1 + band || p.2 + 1 > dim then (p.1 + 1, p.1 + 1) else (p.1, p.2 + 1)

/-- the word loop of finish_cov; returns the (row, col) positions written, in order -/
def fill (dim band : Nat) : List (List Char) → Nat → Nat × Nat → Except Verdict (List (Nat × Nat))
  | [], elements, _ => if elements = 0 then .ok [] else .error .not_enough
  | w :: ws, elements, p =>
    if elements = 0 then .error .too_many
    else if !toDoubleOk w then .error .bad_element
    else match fill dim band ws (elements - 1) (nextPos dim band p) with
      | .ok ps => .ok (p :: ps)
      | .error e => .error e

def finishCov (dim band : Nat) (text : List Char) : Except Verdict (List (Nat × Nat)) :=
  fill dim band (words text) (Gkf.covElements dim band) (1, 1)

def verdict (sdim sband text : List Char) : Verdict :=
  match processCov sdim sband with
  | .error e => e
  | .ok (d, b) =>
    match finishCov d b text with
    | .ok _ => .ok
    | .error e => e

end Gama.Cov
