/-
  Model of `SparseMatrixGraph::connected()` (lib/gnu_gama/sparse/smatrix_graph_connected.h).

  C++: `tag` (size nodes+1, zeroed), an explicit `std::stack`, node 1 pushed and tagged,
  `unreachable = nodes - 1`; every newly tagged neighbour decrements `unreachable`;
  the answer is `unreachable == 0`.

  `if (nodes() == 0) return false;` comes first (since /repo commit fb9ac93; before that the
  C++ wrote `tag(1)` into an `IntegerList` of one cell — finding F13).  The result type is
  still `Option Bool`; `none` is never produced.

  `while (!stack.empty())` has no syntactic bound: fuel.  Every iteration pops one node and a
  node is pushed only when it gets tagged, so `nodes + 1` iterations always suffice
  (`Gama.connLoop_fuel`, Lemmas/Reach.lean).

  Core Lean only.
-/
import Gama.Model.Graph
namespace Gama

/-- loop state: stack (top first), tags, `unreachable` (C++ `Index` is signed: `Int`) -/
structure ConnState where
  stack : List Nat
  tag : Array Nat
  unreachable : Int

/-- `if (tag(y) == 0) { tag(y) = 1; unreachable--; stack.push(y); }` -/
def connVisit (s : ConnState) (y : Nat) : ConnState :=
  if s.tag[y]! == 0 then
    { stack := y :: s.stack, tag := s.tag.setIfInBounds y 1, unreachable := s.unreachable - 1 }
  else s

/-- `while (!stack.empty()) { x = top; pop; for all neighbours y … }` -/
def connLoop (g : Adj) : Nat → ConnState → ConnState
  | 0, s => s
  | fuel + 1, s =>
    match s.stack with
    | [] => s
    | x :: st => connLoop g fuel ((g.nbrs x).foldl connVisit { s with stack := st })

def connInit (g : Adj) : ConnState :=
  { stack := [1], tag := (Array.replicate (g.nodes + 1) 0).setIfInBounds 1 1,
    unreachable := (g.nodes : Int) - 1 }

/-- `connected()` -/
def connected (g : Adj) : Option Bool :=
  if g.nodes = 0 then some false
  else some ((connLoop g (g.nodes + 1) (connInit g)).unreachable == 0)

end Gama
