/-
  C13 — `LocalNetwork::export_xml` (lib/gnu_gama/local/network.cpp) and the attribute handling of
  `GKFparser::process_*` (lib/gnu_gama/xml/gkfparser.cpp) for the observations of an `<obs>` cluster,
  `<dh>` in `<height-differences>`, and `<cov-mat>`.

  * `route`      REGENERATED from gkfparser.cpp (Gen/GkfAttrs.lean): for each element which attribute
                 value reaches which constructor argument / setter.  The parser below is *generic* in that
                 table: a dropped or mis-routed assignment in the C++ changes what `parseObs` returns.
  * `exportObs`  the attributes `export_xml` writes, in its order and under its conditions
                 (`from` only if different from the cluster's, `from_dh/to_dh/bs_dh/fs_dh` only if
                 non-zero, `val`, `stdev`, `extern` if non-empty).
                 `extern` is written only by the repaired export (finding F21); `ext := false` is the
                 export at the pinned commit.
  Numbers are abstract in this file (`NumFmt`): `fmt` = to_xmlstr, `rd` = toDouble.  The theorems of
  `Props/C13.lean` take either the exact law `rd (fmt x) = some x` on the representable numbers
  (`NumFmt.LawfulOn` below, `Codec.LawfulOn`) or the law of a printer with finitely many digits
  (`Codec.PrinterOn`, `Lemmas/ExportQuant.lean`); `Props/C13Codec.lean` instantiates both over ℚ with the
  formats the code uses (`realCodec`, `Lemmas/DecimalCodecC13.lean`: `%.pg`, `%.16e` for `<cov-mat>`,
  gama's sexagesimal text), the format of every number-printing site being regenerated
  (`Gen/GkfFmtSites.lean`).  IEEE doubles are in no law.
-/
import Gama.Gen.GkfAttrs
namespace Gama.Export
open Gama.Gen.GkfAttrs

structure NumFmt (K : Type) where
  fmt : K → String
  rd : String → Option K
  zero : K
  isZero : K → Bool

abbrev Attrs := List (Attr × String)

/-- the `while (*atts)` loop assigns in document order: the last attribute routed to `dest` wins -/
def reach (e : Elem) (dest : Dest) (as : Attrs) : Option String :=
  ((as.filter (fun a => route e a.1 == some dest)).getLast?).map (·.2)

/-- kinds of observation inside `<obs>` -/
inductive Kind where | distance | direction | angle | sdistance | zangle | azimuth
deriving DecidableEq, Repr

def Kind.elem : Kind → Elem
  | .distance => .distance | .direction => .direction | .angle => .angle
  | .sdistance => .sdistance | .zangle => .zangle | .azimuth => .azimuth

/-- what the network keeps of one observation (`to` is the backsight `bs` of an angle) -/
structure Obs (K : Type) where
  kind : Kind
  from_ : String
  to : String
  fs : String
  val : K
  stdev : K
  fromDh : K
  toDh : K
  fsDh : K
  extern : String

variable {K : Type}

def dhAttr (F : NumFmt K) (a : Attr) (x : K) : Attrs := if F.isZero x then [] else [(a, F.fmt x)]

/-- `export_xml`, StandPoint branch, one observation; `cf` = `cluster->station.str()`; `sval` = `info.str_val`, the text
    DisplayObservationVisitor made of the value (`to_xmlstr`, or `gon2deg` for an angular value when degrees are set) -/
def exportObsV (F : NumFmt K) (ext : Bool) (cf : String) (o : Obs K) (sval : String) : Elem × Attrs :=
  (o.kind.elem,
   (if o.from_ ≠ "" ∧ cf ≠ o.from_ then [(Attr.from_, o.from_)] else []) ++
   (if o.kind = .angle then
      [(Attr.bs, o.to), (Attr.fs, o.fs)] ++ dhAttr F .from_dh o.fromDh ++ dhAttr F .bs_dh o.toDh ++ dhAttr F .fs_dh o.fsDh
    else
      [(Attr.to, o.to)] ++ dhAttr F .from_dh o.fromDh ++ dhAttr F .to_dh o.toDh) ++
   [(Attr.val, sval), (Attr.stdev, F.fmt o.stdev)] ++
   (if ext ∧ o.extern ≠ "" then [(Attr.extern, o.extern)] else []))

/-- … with the value written by `to_xmlstr` (gons) -/
def exportObs (F : NumFmt K) (ext : Bool) (cf : String) (o : Obs K) : Elem × Attrs :=
  exportObsV F ext cf o (F.fmt o.val)

inductive Err where
  | undefinedAttribute | missingStandpoint | missingTarget | missingSecondTarget | missingValue | badNumber
  -- whole document (Model/ExportNet.lean)
  | missingPointId | missingCoordinate | undefinedPointType | badParameter | badNetwork | badCovMat | missingCovMat
  | badVector | illegalElement | emptyCoordsPoint
deriving DecidableEq, Repr

def rdOr (F : NumFmt K) (s : Option String) (dflt : K) : Except Err K :=
  match s with
  | none => .ok dflt
  | some t => match F.rd t with
    | some x => .ok x
    | none => .error .badNumber

/-- `process_distance/direction/angle/sdistance/zangle/azimuth`; `cf` = `standpoint_id`,
    `cdh` = `obs_from_dh`, `impl` = the implicit standard deviation of the kind; `rdVal` = how the string of the value
    becomes a number (`toDouble`; for the angular kinds `deg2gon` first, see Model/ExportNet.lean) -/
def parseObsV (F : NumFmt K) (rdVal : String → Option K) (cf : String) (cdh impl : K) (k : Kind) (as : Attrs) :
    Except Err (Obs K) := do
  let e := k.elem
  if as.any (fun a => (route e a.1).isNone) then throw .undefinedAttribute
  let from_ := (reach e (.ctor 0) as).getD cf
  let to := (reach e (.ctor 1) as).getD ""
  let fs := if k = .angle then (reach e (.ctor 2) as).getD "" else ""
  let sval := if k = .angle then reach e (.ctor 3) as else reach e (.ctor 2) as
  if from_ = "" then throw .missingStandpoint
  if to = "" then throw .missingTarget
  if k = .angle ∧ fs = "" then throw .missingSecondTarget
  let val ← match sval with
    | none => throw .missingValue
    | some t => match rdVal t with
      | some x => pure x
      | none => throw .badNumber
  let stdev ← rdOr F (reach e .sigma as) impl
  let fromDh ← rdOr F (reach e .setFromDh as) cdh
  let toDh ← rdOr F (reach e .setToDh as) F.zero
  let fsDh ← if k = .angle then rdOr F (reach e .setFsDh as) F.zero else pure F.zero
  pure ⟨k, from_, to, fs, val, stdev, fromDh, toDh, fsDh, (reach e .setExtern as).getD ""⟩

/-- … the value read by `toDouble` -/
def parseObs (F : NumFmt K) (cf : String) (cdh impl : K) (k : Kind) (as : Attrs) : Except Err (Obs K) :=
  parseObsV F F.rd cf cdh impl k as

/-- invariants of an observation held by a network that came out of the parser -/
structure Obs.WF (F : NumFmt K) (o : Obs K) : Prop where
  from_ne : o.from_ ≠ ""
  to_ne : o.to ≠ ""
  fs_angle : o.kind = .angle → o.fs ≠ ""
  fs_other : o.kind ≠ .angle → o.fs = "" ∧ o.fsDh = F.zero

/-- the hypothesis about numbers, relative to the set `R` of *representable* numbers (the ones the printer gives back
    exactly: everything that was read from a printed file is one).  A printer with a fixed number of digits satisfies it
    with `R x := rd (fmt x) = some x`; `R := fun _ => True` is the exact codec. -/
structure NumFmt.LawfulOn (F : NumFmt K) (R : K → Prop) : Prop where
  rd_fmt : ∀ x, R x → F.rd (F.fmt x) = some x
  isZero_iff : ∀ x, F.isZero x = true ↔ x = F.zero

/-- the numbers of an observation are representable -/
structure Obs.Rep (R : K → Prop) (o : Obs K) : Prop where
  val : R o.val
  stdev : R o.stdev
  fromDh : R o.fromDh
  toDh : R o.toDh
  fsDh : R o.fsDh

/-! ### `<dh>` -/

structure HDiff (K : Type) where
  from_ : String
  to : String
  val : K
  dist : K          -- 0 = not given
  stdev : K
  extern : String

/-- `export_xml`, HeightDifferences branch: `dist` if `> 0` (`pos` = the test `dist > 0`); `stdev` always
    (`always`, the tree since 9f04c51) or only in the `else` of that test (before: finding F28) -/
def exportDh (F : NumFmt K) (ext : Bool) (pos : K → Bool) (always : Bool) (h : HDiff K) : Elem × Attrs :=
  (.dh, [(Attr.from_, h.from_), (Attr.to, h.to), (Attr.val, F.fmt h.val)] ++
        (if pos h.dist then [(Attr.dist, F.fmt h.dist)] else []) ++
        (if always || !pos h.dist then [(Attr.stdev, F.fmt h.stdev)] else []) ++
        (if ext ∧ h.extern ≠ "" then [(Attr.extern, h.extern)] else []))

/-- `process_dh`; `sd d` = `apriori_m_0 * sqrt(d)`, the standard deviation implied by a distance -/
def parseDh (F : NumFmt K) (sd : K → K) (as : Attrs) : Except Err (HDiff K) := do
  if as.any (fun a => (route .dh a.1).isNone) then throw .undefinedAttribute
  let from_ := (reach .dh (.ctor 0) as).getD ""
  let to := (reach .dh (.ctor 1) as).getD ""
  if from_ = "" then throw .missingStandpoint
  if to = "" then throw .missingTarget
  let val ← match reach .dh (.ctor 2) as with
    | none => throw .missingValue
    | some t => match F.rd t with
      | some x => pure x
      | none => throw .badNumber
  let dist ← rdOr F (reach .dh (.ctor 3) as) F.zero
  let stdev ← rdOr F (reach .dh .sigma as) (sd dist)
  pure ⟨from_, to, val, dist, stdev, (reach .dh .setExtern as).getD ""⟩

/-! ### `<cov-mat>` : `updated_xml_covmat` writes `C(i,j)`, `j = i … min(i+band, dim)`, row by row, which is
    the storage order of `CovMat`; `finish_cov` assigns `cov_mat(row,col)` in the same order -/

structure Cov (K : Type) where
  dim : Nat
  band : Nat
  data : List K

def exportCov (F : NumFmt K) (c : Cov K) : Nat × Nat × List String := (c.dim, c.band, c.data.map F.fmt)

def parseCov (F : NumFmt K) (d : Nat × Nat × List String) : Option (Cov K) :=
  (d.2.2.mapM F.rd).map (fun xs => ⟨d.1, d.2.1, xs⟩)

/-! ### covariances under `y_sign() = -1`

  `change_y_signs_for_inconsistent_system_` (network.cpp) negates the value of every `Y` / `Ydiff` observation of a
  cluster and every covariance `C(r,s)`, `r < s ≤ min(N, r+B)`, between a mirrored and a not mirrored component.
  `export_xml` writes `y`, `dy` multiplied by `y_sign()` and (`updated_xml_covmat` with the observation list) negates
  exactly the same entries again.  Both enumerate the packed upper band row by row. -/

/-- for every stored entry `(i, j)`, `j = i … min(i+band, dim)`, row by row: is exactly one of `i`, `j` mirrored? -/
def entrySigns (dim band : Nat) (mir : Nat → Bool) : List Bool :=
  (List.range dim).flatMap (fun i0 =>
    (List.range (min band (dim - 1 - i0) + 1)).map (fun t => mir (i0 + 1) != mir (i0 + 1 + t)))

/-- negate the flagged entries -/
def flipWith (neg : K → K) : List Bool → List K → List K
  | b :: bs, x :: xs => (if b then neg x else x) :: flipWith neg bs xs
  | _, xs => xs

/-- the mirroring of a cluster's covariance matrix (c7fddb0) = what `updated_xml_covmat` undoes when `y_sign() < 0` -/
def mirrorCov (neg : K → K) (mir : Nat → Bool) (c : Cov K) : Cov K :=
  { c with data := flipWith neg (entrySigns c.dim c.band mir) c.data }

/-- `<cov-mat>` of a `<coordinates>` / `<vectors>` cluster as exported: `ysign = true` ⇔ `y_sign() < 0` -/
def exportCovY (F : NumFmt K) (neg : K → K) (ysign : Bool) (mir : Nat → Bool) (c : Cov K) : Nat × Nat × List String :=
  exportCov F (if ysign then mirrorCov neg mir c else c)

/-- parsing and `remove_inconsistency()` -/
def parseCovY (F : NumFmt K) (neg : K → K) (ysign : Bool) (mir : Nat → Bool) (d : Nat × Nat × List String) : Option (Cov K) :=
  (parseCov F d).map (fun c => if ysign then mirrorCov neg mir c else c)

/-! ### a StandPoint cluster -/

structure StandPoint (K : Type) where
  station : String
  obs : List (Obs K)

def exportCluster (F : NumFmt K) (ext : Bool) (c : StandPoint K) : String × List (Elem × Attrs) :=
  (c.station, c.obs.map (exportObs F ext c.station))

def kindOf : Elem → Option Kind
  | .distance => some .distance | .direction => some .direction | .angle => some .angle
  | .sdistance => some .sdistance | .zangle => some .zangle | .azimuth => some .azimuth
  | _ => none

def parseElem (F : NumFmt K) (impl : Kind → K) (cf : String) (ea : Elem × Attrs) : Except Err (Obs K) :=
  match kindOf ea.1 with
  | some k => parseObs F cf F.zero (impl k) k ea.2
  | none => .error .undefinedAttribute

def parseCluster (F : NumFmt K) (impl : Kind → K) (d : String × List (Elem × Attrs)) : Except Err (StandPoint K) :=
  match d.2.mapM (parseElem F impl d.1) with
  | .ok obs => .ok ⟨d.1, obs⟩
  | .error e => .error e

end Gama.Export
