/-
  C04 — `LocalNetwork`'s update cascade (lib/gnu_gama/local/network.h, network.cpp).

  The four validity flags `tst_redbod_`, `tst_redmer_`, `tst_rov_opr_`, `tst_vyrovnani_`,
  `update(Points|Observations|Residuals|Adjustment)` with its switch fall-through, the four
  compute functions `revision_points`, `revision_observations`, `project_equations`,
  `vyrovnani_` — all *as described by the generated table* `Gen/NetCascade.lean` (translator
  tools/gen/c04_cascade.py): guards, guarded call of the level below, the flag set, the
  `update(L)` at the end, and for `vyrovnani_` the fact that the flag is set BEFORE the solver
  is consulted and whether a `catch (...)` handler takes it back when the solver throws
  (without the handler a throw leaves `tst_vyrovnani_ == true` with the artefacts of the previous
  adjustment: finding C04-net-adjusted-flag-after-throw, fixed by the function-try-block).

  Ghost: the configuration is a vector of four change counters (one per level: a change at
  level L is something the artefacts of levels ≥ L depend on); every cached artefact carries the
  prefix of that vector it was computed from.  "Computed from the current configuration" is then
  an equation.  A public member is run as its table row says: artefacts in `uncovered` are read
  before anything is brought up to date, then the compute function of level `ensures`, then the
  remaining reads, then `update(updates)`.

  Not modelled: the loop of `vyrovnani_` that removes points with huge covariances and the
  `singular_coords` restart of `project_equations` (both are configuration changes made by the
  computation itself, followed by `update(Points)` and a recomputation), exceptions other than
  the solver's in `vyrovnani_`.  Core Lean only.
-/
import Gama.Gen.NetCascade
namespace Gama.C04.Net
open Gen

/-- configuration counters per level / the prefix an artefact was computed from (unused entries 0) -/
structure Cfg where
  c0 : Nat
  c1 : Nat
  c2 : Nat
  c3 : Nat
deriving Repr, DecidableEq

def snap (c : Cfg) : Nat → Cfg
  | 0 => ⟨c.c0, 0, 0, 0⟩
  | 1 => ⟨c.c0, c.c1, 0, 0⟩
  | 2 => ⟨c.c0, c.c1, c.c2, 0⟩
  | _ => c

def bump (c : Cfg) : Nat → Cfg
  | 0 => { c with c0 := c.c0 + 1 }
  | 1 => { c with c1 := c.c1 + 1 }
  | 2 => { c with c2 := c.c2 + 1 }
  | _ => { c with c3 := c.c3 + 1 }

structure NState where
  f0 : Bool      -- tst_redbod_
  f1 : Bool      -- tst_redmer_
  f2 : Bool      -- tst_rov_opr_
  f3 : Bool      -- tst_vyrovnani_
  -- ghost
  cfg : Cfg
  a0 : Option Cfg   -- pocbod_, undefined_xy_z_
  a1 : Option Cfg   -- revised_obs_, removed_obs_, pocmer_
  a2 : Option Cfg   -- A, b, rhs_, unknowns_, min_x_, solver input
  a3 : Option Cfg   -- r, suma_pvv_, sigma_L, vahkopr, solved solver
deriving Repr, DecidableEq

def NState.flag (s : NState) : Nat → Bool
  | 0 => s.f0 | 1 => s.f1 | 2 => s.f2 | _ => s.f3
def NState.setFlag (s : NState) (i : Nat) (b : Bool) : NState :=
  match i with
  | 0 => { s with f0 := b } | 1 => { s with f1 := b } | 2 => { s with f2 := b } | _ => { s with f3 := b }
def NState.art (s : NState) : Nat → Option Cfg
  | 0 => s.a0 | 1 => s.a1 | 2 => s.a2 | _ => s.a3
def NState.setArt (s : NState) (i : Nat) (v : Option Cfg) : NState :=
  match i with
  | 0 => { s with a0 := v } | 1 => { s with a1 := v } | 2 => { s with a2 := v } | _ => { s with a3 := v }

/-- `LocalNetwork()`: all flags false, nothing computed -/
def ninit (c : Cfg) : NState :=
  { f0 := false, f1 := false, f2 := false, f3 := false, cfg := c, a0 := none, a1 := none, a2 := none, a3 := none }

/-- `update(lvl)`: jump to the case label, then fall through the rest of the switch -/
def update (s : NState) (lvl : Nat) : NState :=
  let tail := cascade.dropWhile (fun e => e.1 != lvl)
  let tail := if interrupted then tail.take 1 else tail
  tail.foldl (fun s e => e.2.foldl (fun s i => s.setFlag i false) s) s

def entry (L : Nat) : Compute := compute.getD L ⟨"", false, none, none, false, false⟩

structure NInput where
  /-- the solver throws (BadRegularization) when `vyrovnani_` consults it -/
  throws : Bool

/-- one compute function as its table row describes it; `below` runs the level below -/
def compute1 (inp : NInput) (L : Nat) (below : NState → NState × Bool) (s : NState) : NState × Bool :=
  let e := entry L
  if e.guard && s.flag L then (s, false) else
  let r := match e.below with
    | some true => if !s.flag (L - 1) then below s else (s, false)
    | some false => below s
    | none => (s, false)
  if r.2 then r else
  let s := r.1
  if e.flagBeforeSolver then
    let s := s.setFlag L true
    if inp.throws then ((if e.resetOnThrow then s.setFlag L false else s), true)
    else (s.setArt L (some (snap s.cfg L)), false)
  else
    let s := (s.setArt L (some (snap s.cfg L))).setFlag L true
    (match e.endsUpdate with | some u => update s u | none => s, false)

/-- level 0: revision_points, 1: revision_observations, 2: project_equations, 3: vyrovnani_ -/
def run (inp : NInput) : Nat → NState → NState × Bool
  | 0, s => compute1 inp 0 (fun s => (s, false)) s
  | L + 1, s => compute1 inp (L + 1) (run inp L) s

inductive NOp
  | change (lvl : Nat)      -- a configuration change at this level followed by `update(lvl)`
  | touch (lvl : Nat)       -- `update_points()` … `update_adjustment()` without a change
  | call (m : Member)       -- a public member, run as its table row says
deriving Repr, DecidableEq

inductive NOut
  | ok
  | throw
  /-- (level, provenance) of every cached artefact the member read -/
  | read (l : List (Nat × Option Cfg))
deriving Repr, DecidableEq

/-- the unconditional prefix of a member: the compute function it calls first, if any -/
def prefixRun (inp : NInput) (m : Member) (s : NState) : NState × Bool :=
  match m.ensures with
  | some L => run inp L s
  | none => (s, false)

def nstep (inp : NInput) (s : NState) : NOp → NState × NOut
  | .change lvl => (update { s with cfg := bump s.cfg lvl } lvl, .ok)
  | .touch lvl => (update s lvl, .ok)
  | .call m =>
    let pre := m.uncovered.map fun l => (l, s.art l)
    let r := prefixRun inp m s
    if r.2 then (r.1, .throw) else
    let s := r.1
    let post := (m.reads.filter fun l => !m.uncovered.contains l).map fun l => (l, s.art l)
    let s := match m.updates with | some u => update s u | none => s
    (s, .read (pre ++ post))

def nrun (inp : NInput) (s : NState) : List NOp → NState
  | [] => s
  | op :: ops => nrun inp (nstep inp s op).1 ops

/-- the answer of a brand-new network with the same configuration -/
def nfresh (inp : NInput) (c : Cfg) (op : NOp) : NOut := (nstep inp (ninit c) op).2

/-- the table row of a public member by name -/
def member? (name : String) : Option Member := members.find? (fun m => m.name == name)

/-- the row, or an empty row for an unknown name -/
def memberD (name : String) : Member := (member? name).getD ⟨name, none, [], [], none⟩

/-! ### the solver object and its regularisation list (round 4; seeded/C04-seed4; round 9: regenerated sites)

`LocalNetwork` owns the solver object `least_squares`.  `set_algorithm(name)` creates a NEW object of the class the
name selects — which regularises over ALL unknowns until it is told otherwise — and calls `update(Points)`.
`project_equations()` rebuilds the list `min_x_` (the constrained coordinates of a free network) and hands it to the
solver: `least_squares->min_x(min_n_, min_x_)`, on EVERY run.  Which list the CURRENT solver object holds is therefore
state of the network, separate from the list the network computed; the adjustment artefacts (level 3) carry, as ghost,
the list the solver held and the class of the solver when it produced them.

Round 9: neither step is hand-written any more.  `handCode` and `setAlgCode` INTERPRET the two rows the translator
reads from network.cpp (`Gen.handOver`: where the call stands and with which arguments; `Gen.setAlg`: is the object
replaced by a brand-new one, which class, is it told a list, which `update(L)`), so a source change at either site
changes the model, and `Lemmas/NetStateSolver.lean` (`handCode_eq`, `setAlgCode_eq`) stops compiling.
`handOnChange` is the seeded variant that hands the list over only when it differs from the previous run's: after
`set_algorithm` the new object is never told.  The list content is the list itself (round 9; was an abstract `Nat`):
`Model/NetDenote.lean` instantiates it with `np.minx` of `PE.projectEquations`. -/

/-- what a solver object was told to regularise over -/
inductive SList
  | dflt                         -- never told: the solver's default, ALL unknowns
  | given (content : List Nat)   -- `min_x(n, list)` with this list
deriving Repr, DecidableEq

structure MInput where
  net : NInput
  /-- the list `project_equations` computes, a function of the configuration the numbering depends on
      (levels ≤ 2); arbitrary in the theorems of `Lemmas/NetStateSolver.lean` (a constant function = "the list does not
      change", the realistic case across `set_algorithm`); `Model/NetDenote.lean`: `np.minx` of the network the
      configuration names -/
  lst : Cfg → List Nat

structure MState where
  net : NState
  /-- the list the CURRENT solver object holds -/
  held : SList
  /-- `min_x_`/`min_n_` of the network: the list computed by the last `project_equations` (`none` = nullptr, `min_n_ = 0`) -/
  netList : Option (List Nat)
  /-- ghost: the list the solver held when it produced the adjustment artefacts -/
  a3list : Option SList
  /-- class of the CURRENT solver object (`AdjGSO`, `AdjSVD`, `AdjCholDec`, `AdjEnvelope`) -/
  cls : String := Gen.setAlg.dflt.2
  /-- ghost: class of the solver object that produced the adjustment artefacts -/
  a3cls : Option String := none
deriving Repr, DecidableEq

/-- a network on which `set_algorithm` selected class `cls` and nothing else happened -/
def minit (c : Cfg) (cls : String := Gen.setAlg.dflt.2) : MState :=
  { net := ninit c, held := .dflt, netList := none, a3list := none, cls := cls, a3cls := none }

inductive MOp
  | net (op : NOp)
  | setAlgorithm (name : String := "")   -- `set_algorithm(name)`: new solver object, `update(Points)`
deriving Repr, DecidableEq

/-- the hand-over as the generated row describes it.  A single call at depth 0 with the members `min_n_`, `min_x_` as
    arguments, reached on every pass (every earlier `return` is the restart, which reaches its own): the solver is
    told the list just built if the call stands after the last write of the list, the list of the PREVIOUS run
    (`nullptr`, 0 = the empty list on the first) if it stands before.  No call: the solver is never told.  Anything
    else (guarded call, other arguments, several calls): at best "when the list changed" (`handOnChange`). -/
def handGen (h : Gen.HandOver) (prev : Option (List Nat)) (new : List Nat) (held : SList) : SList :=
  if h.count = 0 then held
  else if h.count = 1 && h.depth0 && h.args == ["min_n_", "min_x_"] && h.returnsRestart && h.afterReset && h.beforeFlag then
    (if h.afterBuild then .given new else .given (prev.getD []))
  else if prev = some new then held else .given new

/-- the code: `least_squares->min_x(min_n_, min_x_)` on every run of `project_equations` (`handCode_eq`) -/
def handCode : Option (List Nat) → List Nat → SList → SList := handGen Gen.handOver

/-- seeded/C04-seed4: only when the list differs from the previous run's ("the solver keeps its list over reset()") -/
def handOnChange (prev : Option (List Nat)) (new : List Nat) (held : SList) : SList :=
  if prev = some new then held else .given new

/-- the class `set_algorithm(name)` creates -/
def classOf (t : Gen.SetAlg) (name : String) : String :=
  match t.classes.find? (fun e => e.1 == name) with
  | some e => e.2
  | none => t.dflt.2

/-- the state in which a member reads: after its unconditional prefix (no compute function runs for the other ops) -/
def prefixState (inp : NInput) (s : NState) : NOp → NState
  | .call m => (prefixRun inp m s).1
  | _ => s

def readsAdjustment : NOp → Bool
  | .call m => m.reads.contains 3
  | _ => false

/-- `set_algorithm(name)` as the generated row describes it: a brand-new object (no `return`, `least_squares = new …`
    the only assignment) that is not told a list and was not fed from the old one holds the default and has the class
    the name selects; otherwise the old object's list (and class) stay.  The choice of the algorithm is a
    configuration change at level Points; the `update(L)` issued is the row's (none: no flag is cleared). -/
def setAlgGen (t : Gen.SetAlg) (m : MState) (name : String) : MState :=
  let fresh := t.freshObject && t.listCalls == 0 && !t.readsOld
  let net := { m.net with cfg := bump m.net.cfg 0 }
  let net := match t.update with
    | some l => if t.updateDepth0 then update net l else net
    | none => net
  { m with net := net, held := if fresh then .dflt else m.held, cls := if fresh then classOf t name else m.cls }

/-- one call.  `project_equations` ran iff `tst_rov_opr_` went from false to true during the prefix (its body is the
    only code that sets the flag), `vyrovnani_` produced new artefacts iff `tst_vyrovnani_` did.  The second component
    of the answer is the list held by — and the class of — the solver that produced the adjustment artefacts the
    member reads. -/
def mstepWith (hand : Option (List Nat) → List Nat → SList → SList) (t : Gen.SetAlg) (inp : MInput) (m : MState) :
    MOp → MState × (NOut × Option (SList × String))
  | .setAlgorithm name => (setAlgGen t m name, (.ok, none))
  | .net op =>
    let p := prefixState inp.net m.net op
    let ran := !m.net.f2 && p.f2
    let adj := !m.net.f3 && p.f3
    let new := inp.lst (snap m.net.cfg 2)
    let held := if ran then hand m.netList new m.held else m.held
    let netList := if ran then some new else m.netList
    let a3list := if adj then some held else m.a3list
    let a3cls := if adj then some m.cls else m.a3cls
    ({ net := (nstep inp.net m.net op).1, held := held, netList := netList, a3list := a3list, cls := m.cls, a3cls := a3cls },
     ((nstep inp.net m.net op).2,
      if readsAdjustment op then (match a3list, a3cls with | some l, some c => some (l, c) | _, _ => none) else none))

def mrunWith (hand : Option (List Nat) → List Nat → SList → SList) (t : Gen.SetAlg) (inp : MInput) (m : MState) : List MOp → MState
  | [] => m
  | o :: os => mrunWith hand t inp (mstepWith hand t inp m o).1 os

def mstep : MInput → MState → MOp → MState × (NOut × Option (SList × String)) := mstepWith handCode Gen.setAlg
def mrun : MInput → MState → List MOp → MState := mrunWith handCode Gen.setAlg

/-- variant table: `set_algorithm` keeps the old solver object (e.g. an early `return` for an unchanged name) -/
def setAlgKeep : Gen.SetAlg := { Gen.setAlg with freshObject := false }

end Gama.C04.Net
