/-
  Model of `SymMat<>::cholDec()`, `SymMat<>::solve(Vec&)`, `SymMat<>::invert()`
  (lib/matvec/symmat.h) and of the formula in `pinv()` (lib/matvec/pinv.h).

  Packed lower-triangular storage: element (i,j), i ≥ j ≥ 1, lives at 0-based offset
  `i(i-1)/2 + j - 1`.  The C++ works on `a = begin() - 1` (1-based); the model keeps the
  1-based view `a : Nat → K` (`a k` is `begin()[k-1]`) and the running counters
  `ip, iq, ir` exactly as in the code.  Loops are `forUp` (MatInvert.lean).

  Core Lean only.
-/
import Gama.Model.MatInvert
namespace Gama.MatVec

section
variable {K : Type} [Scalar K]

inductive CholErr where
  | badRank
deriving Repr, DecidableEq

structure CholSt (K : Type) where
  a   : Nat → K
  ip  : Nat
  ir  : Nat
  idf : Nat

/-- `for (k=iq; k<=ip; k++) { ir++; x -= a[k]*a[ir]; }` -/
def cholInner (a : Nat → K) (iq ip : Nat) (x : K) (ir : Nat) : K × Nat :=
  forUp (ip + 1 - iq) (fun t (p : K × Nat) =>
    let k := iq + t
    let ir := p.2 + 1
    (p.1 - a k * a ir, ir)) (x, ir)

/-- body of the `j` loop of `cholDec` for row `i` -/
def cholCell (tol : K) (i j iq : Nat) (s : CholSt K) : Except CholErr (CholSt K) :=
  let x0 := s.a (s.ip + 1)
  let diag := s.a (s.ip + 1)
  let (x, ir) := cholInner s.a iq s.ip x0 s.ir
  let ir := ir + 1
  let ip := s.ip + 1
  if i ≠ j then
    -- if (a[ir]) a[ip] = x/a[ir]; else a[ip] = 0;
    let v := if Scalar.beq (s.a ir) (0 : K) then (0 : K) else x / s.a ir
    .ok ⟨fset s.a ip v, ip, ir, s.idf⟩
  else if diag * tol < x then
    if x < (0 : K) then .error .badRank
    else .ok ⟨fset s.a ip (Scalar.sqrt x), ip, ir, s.idf⟩
  else .ok ⟨fset s.a ip (0 : K), ip, ir, s.idf + 1⟩

/-- `for` loop in `Except` -/
def forUpM {σ ε : Type} : Nat → (Nat → σ → Except ε σ) → σ → Except ε σ
  | 0, _, s => .ok s
  | n+1, body, s => match forUpM n body s with
                    | .error e => .error e
                    | .ok s' => body n s'

/-- `SymMat::cholDec()`; input/output: 1-based view of the packed storage; also returns `idf_` -/
def cholDec1 (n : Nat) (tol : K) (a : Nat → K) : Except CholErr ((Nat → K) × Nat) :=
  match forUpM n (fun i0 (s : CholSt K) =>
      let i := i0 + 1
      let iq := s.ip + 1
      forUpM i (fun j0 s => cholCell tol i (j0 + 1) iq s) { s with ir := 0 }) ⟨a, 0, 0, 0⟩ with
  | .error e => .error e
  | .ok s => .ok (s.a, s.idf)

/-- 0-based storage interface -/
def cholDec (n : Nat) (tol : K) (s : Nat → K) : Except CholErr ((Nat → K) × Nat) :=
  match cholDec1 n tol (fun k => s (k - 1)) with
  | .error e => .error e
  | .ok (a, idf) => .ok (fun p => a (p + 1), idf)

/-- packed offset of (i,j), 1-based i ≥ j -/
def tri (i j : Nat) : Nat := i * (i - 1) / 2 + j - 1

/-- `SymMat::solve(rhs)`: forward then backward substitution with the factor in packed
    storage `s` (0-based), right-hand side `b` (0-based) -/
def cholSolve (N : Nat) (s : Nat → K) (b : Nat → K) : Nat → K :=
  -- forward: `a` walks the packed storage sequentially, i.e. sits at tri i j
  let b := forUp N (fun i0 b =>
    let i := i0 + 1
    let sum := forUp (i - 1) (fun j0 (sum : K) => sum + s (tri i (j0 + 1)) * b j0) (0 : K)
    let bi := b i0 - sum
    fset b i0 (bi / s (tri i i))) b
  -- backward: for (i=N; i>=1; i--)
  forUp N (fun t b =>
    let i := N - t
    -- for (j=N; j>i; j--) sum += a[j*(j-1)/2+i-1] * *(--b);
    let sum := forUp (N - i) (fun u (sum : K) => let j := N - u; sum + s (j * (j - 1) / 2 + i - 1) * b (j - 1)) (0 : K)
    let bi := b (i - 1) - sum
    fset b (i - 1) (bi / s (i * (i - 1) / 2 + i - 1))) b

structure SInvSt (K : Type) where
  a : Nat → K
  w : Nat → K
  ii : Nat
  m : Nat

/-- `SymMat::invert()` on the 1-based view -/
def symInvert1 (n : Nat) (a : Nat → K) : Except CholErr (Nat → K) :=
  if n = 1 then
    if a 1 < (0 : K) then .error .badRank else .ok (fset a 1 ((1 : K) / a 1))
  else
    match forUpM n (fun t (st : SInvSt K) =>
        let k := n - t                                   -- for (k=n; k>=1; k--)
        let p := st.a 1
        if p < (0 : K) then .error .badRank else
        let st := forUp (n - 1) (fun i0 (st : SInvSt K) =>
          let i := i0 + 2                                 -- for (i=2; i<=n; i++)
          let m := st.ii
          let ii := st.ii + i
          let q := st.a (m + 1)
          let wi := if i ≤ k then (-q) / p else q / p
          let w := fset st.w i wi
          -- for (ij=m+2; ij<=ii; ij++) a[ij-i] = a[ij] + q*w(ij-m);
          let a := (forUp (ii + 1 - (m + 2)) (fun u (b : Box (Nat → K)) =>
            let ij := m + 2 + u
            ⟨fset b.val (ij - i) (b.val ij + q * w (ij - m)), b.cnt + 1⟩) ⟨st.a, 0⟩).val
          ⟨a, w, ii, m⟩) { st with ii := 1 }
        let m := st.m - 1
        let a := fset st.a st.ii ((1 : K) / p)
        let a := (forUp (n - 1) (fun i0 (b : Box (Nat → K)) => let i := i0 + 2; ⟨fset b.val (m + i) (st.w i), b.cnt + 1⟩) ⟨a, 0⟩).val
        .ok ⟨a, st.w, st.ii, m⟩) ⟨a, fun _ => (0 : K), 1, 0⟩ with
    | .error e => .error e
    | .ok st => .ok st.a

def symInvert (n : Nat) (s : Nat → K) : Except CholErr (Nat → K) :=
  match symInvert1 n (fun k => s (k - 1)) with
  | .error e => .error e
  | .ok a => .ok (fun p => a (p + 1))

/-! ### pinv from a decomposition (U : M×N, W : N, V : N×N, row-major 0-based) -/

/-- `SVD::set_inv_W` for a given `W_tol`, then `pinv`'s `W_inv(k) = lindep(k) ? 0 : 1/W(k)` -/
def pinvWinv (N : Nat) (tol : K) (W : Nat → K) : Nat → K :=
  let vmax := forUp N (fun k (v : K) => if v < W k then W k else v) (0 : K)
  let vmin := tol * vmax
  let absS (x : K) : K := if (0 : K) ≤ x then x else -x           -- `ABS` of svd.h
  let invW := fun i => if vmin < absS (W i) then (1 : K) / W i else (0 : K)
  fun k => if Scalar.beq (invW k) (0 : K) then (0 : K) else (1 : K) / W k

/-- `pseudo_inverse(i,j) = Σ_k V(i,k)*W_inv(k)*U(j,k)`  (N×M, row-major) -/
def pinvFrom (M N : Nat) (tol : K) (U W V : Nat → K) : Nat → K :=
  let wi := pinvWinv N tol W
  fun p =>
    let i := p / M
    let j := p % M
    forUp N (fun k (s : K) => s + V (i * N + k) * wi k * U (j * N + k)) (0 : K)

end
end Gama.MatVec
