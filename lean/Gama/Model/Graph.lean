/-
  Model of `GNU_gama::Adjacency<Index>` and the constructor of
  `GNU_gama::SparseMatrixGraph<Float,Index>` (lib/gnu_gama/sparse/smatrix_graph.h).

  C++: a `std::set<std::pair<Index,Index>>` collects both orientations of every pair of
  *different* column indices that occur in one row; the set is then read in its
  (lexicographic) iteration order to fill `xadj` (1-based, `xadj(i) .. xadj(i+1)-1` are the
  positions of the neighbours of node `i`) and `adjncy`.
  `std::set` is modelled by a strictly sorted list (`insertPair`).

  Core Lean only.
-/
import Gama.Model.Sparse
namespace Gama

/-- `Adjacency<Index>` : `nods`, `xadj` (size `max(nodes+2,3)`), `adjncy` -/
structure Adj where
  nodes : Nat
  xadj : Array Nat
  adjncy : Array Nat

namespace Adj
/-- `degree(i) = xadj(i+1) - xadj(i)` -/
def degree (g : Adj) (i : Nat) : Nat := g.xadj[i+1]! - g.xadj[i]!
/-- `begin(i) .. end(i)` -/
def nbrs (g : Adj) (i : Nat) : List Nat :=
  (List.range' g.xadj[i]! (g.xadj[i+1]! - g.xadj[i]!)).map fun p => g.adjncy[p]!
end Adj

/-- `operator<` of `std::pair<Index,Index>` -/
def pairLt (a b : Nat × Nat) : Bool := a.1 < b.1 || (a.1 == b.1 && a.2 < b.2)

/-- `std::set<pair>::insert` on the sorted representation -/
def insertPair (p : Nat × Nat) : List (Nat × Nat) → List (Nat × Nat)
  | [] => [p]
  | q :: qs =>
    if pairLt p q then p :: q :: qs
    else if pairLt q p then q :: insertPair p qs
    else q :: qs

/-- `for (j=i+1; j!=e; j++) if (*i != *j) { insert (*i,*j); insert (*j,*i); }` -/
def edgesFrom (ci : Nat) (rest : List Nat) (es : List (Nat × Nat)) : List (Nat × Nat) :=
  rest.foldl (fun es cj => if ci != cj then insertPair (cj, ci) (insertPair (ci, cj) es) else es) es

/-- `for (i=ibegin(k); i!=e; i++) …` over the column indices of one row -/
def rowEdges : List Nat → List (Nat × Nat) → List (Nat × Nat)
  | [], es => es
  | ci :: rest, es => rowEdges rest (edgesFrom ci rest es)

/-- the edge set of the whole matrix, in `std::set` iteration order -/
def edgeSet {K : Type} (A : SMat K) : List (Nat × Nat) :=
  (List.range' 1 A.rows).foldl (fun es k => rowEdges (A.rowCols k) es) []

/-- state of the fill loop: the set iterator (remaining pairs), `xadj`, `adjncy`
    (`adjncy(count++) = …` is a sequential fill: `count = adjncy.size`) -/
structure FillState where
  rest : List (Nat × Nat)
  xadj : Array Nat
  adjncy : Array Nat

/-- body of `for (index=1; index<=nodes; index++)` -/
def fillStep (s : FillState) (index : Nat) : FillState :=
  let xadj := s.xadj.setIfInBounds index s.adjncy.size
  let taken := s.rest.takeWhile (fun p => index == p.1)
  let rest := s.rest.dropWhile (fun p => index == p.1)
  let adjncy := s.adjncy ++ (taken.map Prod.snd).toArray
  { rest := rest, adjncy := adjncy, xadj := xadj.setIfInBounds (index + 1) adjncy.size }

/-- adjacency structure from a sorted edge list.  `xadj` has `max(nodes+2,3)` cells (cell 0
    is never written; placeholder 0) and `xadj(1) = xadj(2) = 0` is set first. -/
def adjOfEdges (nodes : Nat) (edges : List (Nat × Nat)) : Adj :=
  let xadj0 : Array Nat := Array.replicate (max (nodes + 2) 3) 0
  let s := (List.range' 1 nodes).foldl fillStep { rest := edges, xadj := xadj0, adjncy := #[] }
  { nodes := nodes, xadj := s.xadj, adjncy := s.adjncy }

/-- `SparseMatrixGraph(const SparseMatrix*)` : nodes = columns -/
def graphOf {K : Type} (A : SMat K) : Adj := adjOfEdges A.cols (edgeSet A)

end Gama
