/-
  C13 / finding F29 — observations made passive by `remove_huge_abs_terms()` and the export.

  src/gama-local.cpp: after Acord2 and the first `project_equations()` —
      `if (IS->huge_abs_terms()) { OutlyingAbsoluteTerms(IS, cout); IS->remove_huge_abs_terms(); }`   (l.595–598)
  ONCE, at the GIVEN (or Acord-computed) approximate coordinates; then `refine_adjustment()` moves the coordinates;
  then `export_xml()`.

    * `removeHuge test pts obs` — `remove_huge_abs_terms()`: every observation of `revised_obs_` (= active) with
      `test_abs_term(i) ≠ 0` is `set_passive()`.  `test pts o` = "the absolute-term test of `o` fires when `PD` holds
      `pts`"; the real one is C14's regenerated `Rev.outlying pts tol o b_i` (`Gen.absValue`, `Gen.absExceeds` from
      `TestAbsTermVisitor`), with `b_i` the right-hand side of the pass at `pts` — a function of `pts` and `o`.
      (The gate `huge_abs_terms()` = "some test fires" needs no modelling: when none fires the loop changes nothing.)
    * `exported obs` — what comes back from the export: `export_xml` walks `OD` and never consults `obs->active()`
      (the only `active()` it tests is `point.active()`), GKFparser has no attribute for it and constructs every
      observation active: ALL observations, the passive ones included, active again.
    * `rerun test pts' obs` — the abs-term stage of the run on the exported file: `removeHuge` at the EXPORTED coordinates
      on the re-activated observations.

  Core Lean only.  Observation / point records: C14's (`Rev.Obs`, `Rev.Pt`), read-only.
-/
import Gama.Model.Revise
namespace Gama.Removed
open Gama Gama.Rev

variable {K : Type}

/-- `remove_huge_abs_terms()` -/
def removeHuge (test : List (Pt K) → Obs K → Bool) (pts : List (Pt K)) (obs : List (Obs K)) : List (Obs K) :=
  obs.map fun o => if o.active && test pts o then { o with active := false } else o

/-- the observations as the re-import of the export has them -/
def exported (obs : List (Obs K)) : List (Obs K) := obs.map fun o => { o with active := true }

/-- the abs-term stage of the run on the exported file -/
def rerun (test : List (Pt K) → Obs K → Bool) (pts' : List (Pt K)) (obs : List (Obs K)) : List (Obs K) :=
  removeHuge test pts' (exported obs)

/-- number of project equations the stage leaves -/
def nActive (obs : List (Obs K)) : Nat := (obs.filter (·.active)).length

/-- C05's right-hand side of a `Ydiff` observation (`ydiff_correct`: `1000·(value − (y_to − y_from))`) — the entry of
    `b` C14's test reads for the witness below -/
def ydiffRhs [Scalar K] (pts : List (Pt K)) (o : Obs K) : K :=
  let f := (findPt pts o.frm).getD (defaultPt o.frm)
  let t := (findPt pts o.to).getD (defaultPt o.to)
  (o.value - (t.y - f.y)) * Scalar.ofNat 1000

/-- the real test for coordinate-difference observations: C14's regenerated `test_abs_term` on C05's right-hand side -/
def ydiffTest [Scalar K] (tol : K) (pts : List (Pt K)) (o : Obs K) : Bool := outlying pts tol o (ydiffRhs pts o)

/-! ### the corpus reproducer corpus/C13/f29-poor-approx-removed-obs.gkf, its observation 61 (`<vec from="P3" to="P4"
    dy="247.4657029619">`, axes `en` + left-handed angles ⇒ internal y mirrored), `tol-abs = 1000`, over ℚ -/

def wObs : Obs Rat := ⟨.ydiff, 3, 4, 0, true, -2474657029619 / 10000000000⟩
/-- P3, P4 as GIVEN in the input (internal y = −y) -/
def wGiven : List (Pt Rat) :=
  [⟨3, .free, .free, true, true, 8238628 / 10000, -5073832 / 10000, 84⟩,
   ⟨4, .free, .free, true, true, 1443465 / 10000, -7535003 / 10000, 35⟩]
/-- P3, P4 as EXPORTED after the adjustment (gama-local's own output, 13 of the 16 digits) -/
def wExported : List (Pt Rat) :=
  [⟨3, .free, .free, true, true, 8240509520326 / 10000000000, -5069866057117 / 10000000000, 84⟩,
   ⟨4, .free, .free, true, true, 1443906620509 / 10000000000, -7544483673580 / 10000000000, 35⟩]

end Gama.Removed
