/-
  C13 — the invariants of a network the round-trip theorems assume (`Net.WF`: what GKFparser and the setters it calls
  establish, as far as export_xml can write it back), as definitions next to the model, with `Decidable` instances so
  that the hypothesis can be evaluated on a concrete network (Driver/Export.lean does, on every document of the `doc`
  stream; Lemmas/ExportPrinter.lean does by `decide`).  `R` = the numbers the printer gives back exactly, `Rd` = the
  angles the sexagesimal text gives back exactly.
-/
import Gama.Model.ExportNet
namespace Gama.Export
open Gama.Gen.GkfAttrs Gama.Gen.GkfDoc

variable {K : Type} {R : K → Prop}

/-- the coordinates of a point are representable -/
def Point.Rep (R : K → Prop) (p : Point K) : Prop :=
  (match p.xy with | some v => R v.1 ∧ R v.2 | none => True) ∧ (match p.z with | some z => R z | none => True)


/-- what `process_parameters` and the LocalNetwork setters establish -/
structure Params.WF (C : Codec K) (R : K → Prop) (p : Params K) : Prop where
  sigma : C.pos p.sigmaApr = true
  conf : C.pos p.confPr = true ∧ C.lt1 p.confPr = true
  tol : C.pos p.tolAbs = true
  alg : ∀ a, p.algorithm = some a → a ∈ algNames
  ell : ∀ e, p.ellipsoid = some e → C.ellKnown e = true
  band : -1 ≤ p.covBand
  rep : R p.sigmaApr ∧ R p.confPr ∧ R p.tolAbs ∧ ∀ l, p.latitude = some l → R (C.latOut l)


/-- what `process_cov` / `finish_cov` / `finish_<cluster>` establish for a cluster of `n` observations -/
structure Cov.WF (R : K → Prop) (c : Cov K) (n : Nat) : Prop where
  dim_pos : 1 ≤ c.dim
  band_lt : c.band < c.dim
  dim_eq : c.dim = n
  len : c.data.length = c.dim * (c.band + 1) - c.band * (c.band + 1) / 2
  rep : ∀ x ∈ c.data, R x


/-- the covariance matrix of an `<obs>` cluster in the unit of the file: in degrees the rows of the angular
    observations are in sexagesimal seconds -/
def covOut (C : Codec K) (gons : Bool) (ang : Nat → Bool) (c : Cov K) : Cov K :=
  if gons then c else scaleCov C.toSec ang c


/-- the numbers of an observation as they appear in the file are representable: in degrees the value of an angular
    observation as a sexagesimal string (`Rd`), its standard deviation in seconds -/
def Obs.RepU (C : Codec K) (R Rd : K → Prop) (gons : Bool) (o : Obs K) : Prop :=
  if gons || !o.kind.angular then o.Rep R
  else Rd o.val ∧ R (C.toSec o.stdev) ∧ R o.fromDh ∧ R o.toDh ∧ R o.fsDh


structure Vec.WF (C : Codec K) (R : K → Prop) (v : Vec K) : Prop where
  from_ne : v.from_ ≠ ""
  to_ne : v.to ≠ ""
  dh : v.fromDh = C.zero ∧ v.toDh = C.zero        -- from_dh / to_dh of a vector are not exported (and not used)
  rep : R v.dx ∧ R v.dy ∧ R v.dz


structure CPoint.WF (R : K → Prop) (p : CPoint K) : Prop where
  id_ne : p.id ≠ ""
  some_coord : p.xy.isSome = true ∨ p.z.isSome = true
  rep : (match p.xy with | some v => R v.1 ∧ R v.2 | none => True) ∧ (match p.z with | some z => R z | none => True)


/-- the point named by a coordinate observation has the coordinate groups the observation has: what
    `process_coords_point → process_point(atts, true)` establishes.  Since 6848bc2a the observed values do NOT replace
    coordinates the point already has, so the values need not be equal (before, the clause was `p.xy = c.xy`, `p.z = c.z`:
    the observed coordinates overwrote the approximate ones — and the adjusted ones of an export) -/
def agrees (p : Point K) (c : CPoint K) : Prop :=
  (c.xy.isSome = true → p.xy.isSome = true) ∧ (c.z.isSome = true → p.z.isSome = true)


/-- invariants of a cluster; `Rc` = the covariance elements the `<cov-mat>` text gives back exactly (they are printed by
    `updated_xml_covmat` with its own format, not by `to_xmlstr`, which `R` is about); `gons` = the unit of the output, `ps` = the active points (`s0` = sigma-apr: needed until
    9f04c51, when a `<dh>` with a distance had to carry the implied standard deviation; kept in the signature) -/
def Cluster.WFc (C : Codec K) (R Rc Rd : K → Prop) (gons : Bool) (s0 : K) (ps : List (Point K)) : Cluster K → Prop
  | .obs sp cov =>
    (∀ o ∈ sp.obs, o.WF C.toNumFmt ∧ o.RepU C R Rd gons ∧ (o.kind = .direction → o.from_ = sp.station)) ∧
    (∀ c, cov = some c → c.band ≠ 0 ∧
      (covOut C gons (flagOf (sp.obs.map (fun o => o.kind.angular))) c).WF Rc sp.obs.length)
  | .hdiffs dhs cov =>
    (∀ h ∈ dhs, h.from_ ≠ "" ∧ h.to ≠ "" ∧ (C.pos h.dist = false → h.dist = C.zero) ∧
                (R h.val ∧ (C.pos h.dist = true → R h.dist) ∧ R h.stdev)) ∧
    (∀ c, cov = some c → c.band ≠ 0 ∧ c.WF Rc dhs.length)
  | .coords _ pts cov =>
    (∀ c ∈ pts, c.WF R) ∧ cov.WF Rc (coordFlags pts).length ∧
    (∀ c ∈ pts, (∃ p ∈ ps, p.id = c.id) ∧ ∀ p ∈ ps, p.id = c.id → agrees p c)
  | .vectors vecs cov => (∀ v ∈ vecs, v.WF C R) ∧ cov.WF Rc (vecFlags vecs).length


/-- the invariants with `Rc` = `Codec.CovRep` (`rd (fmtCov x) = some x`): the form the round-trip theorems assume -/
abbrev Cluster.WF (C : Codec K) (R Rd : K → Prop) (gons : Bool) (s0 : K) (ps : List (Point K)) (c : Cluster K) : Prop :=
  c.WFc C R C.CovRep Rd gons s0 ps

/-- what GKFparser (+ the setters it calls) establishes, as far as export_xml can write it back:
    parameters within their guards, point ids non-empty and distinct, every cluster well-formed
    (`Cluster.WF`, in the unit of the output `n.par.gons`).  All components are bounded quantifications over the lists
    of the network and equalities (decided by the instances below). -/
structure Net.WFc (C : Codec K) (R Rc Rd : K → Prop) (n : Net K) : Prop where
  par : n.par.WF C R
  epoch : ∀ e, n.head.epoch = some e → R e
  ids : ∀ p ∈ n.points, p.id ≠ "" ∧ p.Rep R
  nodup : (n.points.map (·.id)).Nodup
  clusters : ∀ c ∈ n.clusters, c.WFc C R Rc Rd n.par.gons n.par.sigmaApr (n.points.filter Point.active)

/-- `Net.WFc` with `Rc` = `Codec.CovRep`: the hypothesis of the round-trip theorems for an exact codec.  (For a printer
    that rounds, `Rc x ↔ qc x = x`: `Net.WFc … (fun x => qc x = x) …` is the same condition, in arithmetic.) -/
abbrev Net.WF (C : Codec K) (R Rd : K → Prop) (n : Net K) : Prop := n.WFc C R C.CovRep Rd

/-- export_xml skips the points that are not active (`if (!point.active()) continue;`) -/
def canon (n : Net K) : Net K := { n with points := n.points.filter Point.active }


/-! ## `Decidable (Net.WF C R Rd n)` — for decidable `R`, `Rd` and decidable equality of numbers -/

section decide
variable {Rd : K → Prop}

instance decForallEqSome {α : Type} (o : Option α) (P : α → Prop) [DecidablePred P] : Decidable (∀ a, o = some a → P a) :=
  match o with
  | none => isTrue (fun _ h => by cases h)
  | some a => if h : P a then isTrue (fun b hb => by cases hb; exact h) else isFalse (fun hf => h (hf a rfl))

instance [DecidablePred R] (p : Point K) : Decidable (p.Rep R) := by
  unfold Point.Rep
  cases p.xy <;> cases p.z <;> infer_instance

instance [DecidablePred R] (C : Codec K) (p : Params K) : Decidable (p.WF C R) :=
  decidable_of_iff
    (C.pos p.sigmaApr = true ∧ (C.pos p.confPr = true ∧ C.lt1 p.confPr = true) ∧ C.pos p.tolAbs = true ∧
     (∀ a, p.algorithm = some a → a ∈ algNames) ∧ (∀ e, p.ellipsoid = some e → C.ellKnown e = true) ∧ -1 ≤ p.covBand ∧
     (R p.sigmaApr ∧ R p.confPr ∧ R p.tolAbs ∧ ∀ l, p.latitude = some l → R (C.latOut l)))
    ⟨fun ⟨a, b, c, d, e, f, g⟩ => ⟨a, b, c, d, e, f, g⟩, fun ⟨a, b, c, d, e, f, g⟩ => ⟨a, b, c, d, e, f, g⟩⟩

instance [DecidablePred R] (c : Cov K) (n : Nat) : Decidable (c.WF R n) :=
  decidable_of_iff
    (1 ≤ c.dim ∧ c.band < c.dim ∧ c.dim = n ∧ c.data.length = c.dim * (c.band + 1) - c.band * (c.band + 1) / 2 ∧ ∀ x ∈ c.data, R x)
    ⟨fun ⟨a, b, c, d, e⟩ => ⟨a, b, c, d, e⟩, fun ⟨a, b, c, d, e⟩ => ⟨a, b, c, d, e⟩⟩

instance [DecidableEq K] (F : NumFmt K) (o : Obs K) : Decidable (o.WF F) :=
  decidable_of_iff
    (o.from_ ≠ "" ∧ o.to ≠ "" ∧ (o.kind = .angle → o.fs ≠ "") ∧ (o.kind ≠ .angle → o.fs = "" ∧ o.fsDh = F.zero))
    ⟨fun ⟨a, b, c, d⟩ => ⟨a, b, c, d⟩, fun ⟨a, b, c, d⟩ => ⟨a, b, c, d⟩⟩

instance [DecidablePred R] (o : Obs K) : Decidable (o.Rep R) :=
  decidable_of_iff (R o.val ∧ R o.stdev ∧ R o.fromDh ∧ R o.toDh ∧ R o.fsDh)
    ⟨fun ⟨a, b, c, d, e⟩ => ⟨a, b, c, d, e⟩, fun ⟨a, b, c, d, e⟩ => ⟨a, b, c, d, e⟩⟩

instance [DecidablePred R] [DecidablePred Rd] (C : Codec K) (gons : Bool) (o : Obs K) : Decidable (o.RepU C R Rd gons) := by
  unfold Obs.RepU
  infer_instance

instance [DecidablePred R] [DecidableEq K] (C : Codec K) (v : Vec K) : Decidable (v.WF C R) :=
  decidable_of_iff
    (v.from_ ≠ "" ∧ v.to ≠ "" ∧ (v.fromDh = C.zero ∧ v.toDh = C.zero) ∧ (R v.dx ∧ R v.dy ∧ R v.dz))
    ⟨fun ⟨a, b, c, d⟩ => ⟨a, b, c, d⟩, fun ⟨a, b, c, d⟩ => ⟨a, b, c, d⟩⟩

instance [DecidablePred R] (p : CPoint K) : Decidable (p.WF R) :=
  decidable_of_iff
    (p.id ≠ "" ∧ (p.xy.isSome = true ∨ p.z.isSome = true) ∧ (⟨"", p.xy, p.z, .unused, .unused⟩ : Point K).Rep R)
    ⟨fun ⟨a, b, c⟩ => ⟨a, b, c⟩, fun ⟨a, b, c⟩ => ⟨a, b, c⟩⟩

instance [DecidableEq K] (p : Point K) (c : CPoint K) : Decidable (agrees p c) := by
  unfold agrees
  infer_instance

instance {Rc : K → Prop} [DecidablePred R] [DecidablePred Rc] [DecidablePred Rd] [DecidableEq K] (C : Codec K) (gons : Bool) (s0 : K)
    (ps : List (Point K)) (c : Cluster K) : Decidable (c.WFc C R Rc Rd gons s0 ps) := by
  cases c <;> unfold Cluster.WFc <;> infer_instance

instance {Rc : K → Prop} [DecidablePred R] [DecidablePred Rc] [DecidablePred Rd] [DecidableEq K] (C : Codec K) (n : Net K) :
    Decidable (n.WFc C R Rc Rd) :=
  decidable_of_iff
    (n.par.WF C R ∧ (∀ e, n.head.epoch = some e → R e) ∧ (∀ p ∈ n.points, p.id ≠ "" ∧ p.Rep R) ∧
     (n.points.map (·.id)).Nodup ∧ ∀ c ∈ n.clusters, c.WFc C R Rc Rd n.par.gons n.par.sigmaApr (n.points.filter Point.active))
    ⟨fun ⟨a, b, c, d, e⟩ => ⟨a, b, c, d, e⟩, fun ⟨a, b, c, d, e⟩ => ⟨a, b, c, d, e⟩⟩

end decide

end Gama.Export
