/-
  C19 — model of the serialisation of the adjustment input:
  * `AdjInputData::write_xml`                    (lib/gnu_gama/adj/adj_input_data.cpp) → `writeAdj`
  * the `<adj-input-data>` part of `DataParser`  (lib/gnu_gama/xml/dataparser_adj.cpp, the
    generic `init` / `start_tag` / `end_tag` / `add_text` / `white_spaces` of dataparser.cpp)
                                                                                          → `readAdj`
  as lists of SAX events.  Character data is an abstract type `S` with a `Codec`: in this file
  `operator<<` / `istringstream >>` are parameters.  `C19_dump_roundtrip` (Props/C19.lean) assumes the law of a
  printer with finitely many digits (`Codec.Printer q`: `rd (fmt x) = q x`, `fmt (q x) = fmt x`; the exact law
  `rd (fmt x) = x` is `Codec.Lawful`, `C19_dump_roundtrip_exact`); the stream formats are modelled over ℚ by
  `streamCodec` (`Lemmas/DecimalCodecC19.lean`, `%.pg` through `Model/DecimalCodec.lean`) and the law is proved
  for it: `C19_stream_codec_printer`, `C19_dump_roundtrip_stream` (Props/C19Codec.lean).  IEEE doubles are in no law.

  Data model (`AdjData`): the sparse matrix is its header `rows, cols` and the list of rows
  built by `new_row` / `add_element` (column index, value); the block-diagonal matrix is the
  list of `(dim, width, packed values)`; `rhs`; the optional `minx` list.
  Indices and counters are `Nat` (`int` / `std::size_t` in the C++; gama-g3 never writes a
  negative one).

  Core Lean only (linked into `drv_g3`).
-/
namespace Gama
namespace AdjXml

inductive Tag where
  | adjInputData | sparseMat | rows | cols | nonz | row | int | flt
  | blockDiagonal | blocks | block | dim | width | vector | array
  | other            -- any other tag known to `DataParser::tag`
deriving DecidableEq, Repr

/-- SAX events; `ws` is white-space-only character data -/
inductive Ev (S : Type) where
  | start (t : Tag)
  | stop (t : Tag)
  | text (s : S)
  | ws
deriving Repr

structure Codec (K S : Type) where
  fmtF : K → S
  rdF : S → Option K
  fmtN : Nat → S
  rdN : S → Option Nat

structure Block (K : Type) where
  dim : Nat
  width : Nat
  vals : List K
deriving Repr

structure SpMat (K : Type) where
  rows : Nat
  cols : Nat
  rowsL : List (List (Nat × K))
deriving Repr

structure AdjData (K : Type) where
  mat : Option (SpMat K)
  cov : Option (List (Block K))
  rhs : List K
  minx : Option (List Nat)
deriving Repr

variable {K S : Type}

/-- `SparseMatrix::nonzeroes()` -/
def SpMat.nonz (m : SpMat K) : Nat := (m.rowsL.map List.length).sum

/-- `N = bdim*(bwidth+1) - bwidth*(bwidth+1)/2` (`BlockDiagonal::add_block`, `block_diagonal_block_w`) -/
def packedSize (dim width : Nat) : Nat := dim * (width + 1) - width * (width + 1) / 2

/-- `BlockDiagonal::nonzeroes()` -/
def covNonz (bs : List (Block K)) : Nat := (bs.map fun b => packedSize b.dim b.width).sum

/-! ### writer -/

def el (t : Tag) (s : S) : List (Ev S) := [.start t, .text s, .stop t]

def writeRow (c : Codec K S) (r : List (Nat × K)) : List (Ev S) :=
  [.start .row] ++ el .nonz (c.fmtN r.length) ++
  (r.flatMap fun (i, x) => el .int (c.fmtN i) ++ el .flt (c.fmtF x)) ++ [.stop .row]

def writeMat (c : Codec K S) (m : SpMat K) : List (Ev S) :=
  [.start .sparseMat] ++ el .rows (c.fmtN m.rows) ++ el .cols (c.fmtN m.cols) ++ el .nonz (c.fmtN m.nonz) ++
  (m.rowsL.flatMap (writeRow c)) ++ [.stop .sparseMat]

def writeBlock (c : Codec K S) (b : Block K) : List (Ev S) :=
  [.start .block] ++ el .dim (c.fmtN b.dim) ++ el .width (c.fmtN b.width) ++
  (b.vals.flatMap fun x => el .flt (c.fmtF x)) ++ [.stop .block]

def writeCov (c : Codec K S) (bs : List (Block K)) : List (Ev S) :=
  [.start .blockDiagonal] ++ el .blocks (c.fmtN bs.length) ++ el .nonz (c.fmtN (covNonz bs)) ++
  (bs.flatMap (writeBlock c)) ++ [.stop .blockDiagonal]

def writeVec (c : Codec K S) (v : List K) : List (Ev S) :=
  [.start .vector] ++ el .dim (c.fmtN v.length) ++ (v.flatMap fun x => el .flt (c.fmtF x)) ++ [.stop .vector]

def writeArr (c : Codec K S) (a : List Nat) : List (Ev S) :=
  [.start .array] ++ el .dim (c.fmtN a.length) ++ (a.flatMap fun i => el .int (c.fmtN i)) ++ [.stop .array]

/-- `AdjInputData::write_xml` (white space omitted).  `A->check()` holds for every matrix
    representable as a list of rows. -/
def writeAdj (c : Codec K S) (d : AdjData K) : List (Ev S) :=
  [.start .adjInputData] ++
  (match d.mat with | some m => writeMat c m | none => []) ++
  (match d.cov with | some bs => writeCov c bs | none => []) ++
  (if d.rhs.length ≠ 0 then writeVec c d.rhs else []) ++
  (match d.minx with | some a => writeArr c a | none => []) ++
  [.stop .adjInputData]

/-! ### reader -/

/-- the parser states used by `init_adj` (+ the enclosing `s_gama_data`, and `s_error`) -/
inductive St where
  | error | gamaData
  | aid1 | aid2 | aid3 | aid4 | aid5
  | sm1 | smRows | sm2 | smCols | sm3 | smNonz | sm4
  | smRow1 | smRowNonz | smRow2 | smRowInt | smRow3 | smRowFlt
  | bd1 | bdBlocks | bd2 | bdNonz | bd3 | bdBlock1 | bdBlockD | bdBlock2 | bdBlockW | bdBlock3 | bdBlockF
  | vec1 | vecDim | vec2 | vecFlt
  | arr1 | arrDim | arr2 | arrInt
deriving DecidableEq, Repr

/-- `next[s][t]` as filled by the `init` calls of `init_adj`; `none` = `s_error` with
    `stag = parser_error` -/
def next : St → Tag → Option St
  | .gamaData, .adjInputData => some .aid1
  | .aid1, .sparseMat => some .sm1
  | .sm1, .rows => some .smRows
  | .sm2, .cols => some .smCols
  | .sm3, .nonz => some .smNonz
  | .sm4, .row => some .smRow1
  | .smRow1, .nonz => some .smRowNonz
  | .smRow2, .int => some .smRowInt
  | .smRow3, .flt => some .smRowFlt
  | .aid2, .blockDiagonal => some .bd1
  | .bd1, .blocks => some .bdBlocks
  | .bd2, .nonz => some .bdNonz
  | .bd3, .block => some .bdBlock1
  | .bdBlock1, .dim => some .bdBlockD
  | .bdBlock2, .width => some .bdBlockW
  | .bdBlock3, .flt => some .bdBlockF
  | .aid3, .vector => some .vec1
  | .vec1, .dim => some .vecDim
  | .vec2, .flt => some .vecFlt
  | .aid4, .array => some .arr1
  | .arr1, .dim => some .arrDim
  | .arr2, .int => some .arrInt
  | _, _ => none

/-- `after[z]` (`s_error` where no `init` call set it) -/
def after : St → St
  | .aid5 => .gamaData | .aid4 => .gamaData
  | .sm4 => .aid2 | .smRows => .sm2 | .smCols => .sm3 | .smNonz => .sm4
  | .smRow2 => .sm4 | .smRowNonz => .smRow2 | .smRowInt => .smRow3 | .smRowFlt => .smRow2
  | .bd3 => .aid3 | .bdBlocks => .bd2 | .bdNonz => .bd3 | .bdBlock3 => .bd3
  | .bdBlockD => .bdBlock2 | .bdBlockW => .bdBlock3 | .bdBlockF => .bdBlock3
  | .vec2 => .aid4 | .vecDim => .vec2 | .vecFlt => .vec2
  | .arr2 => .aid5 | .arrDim => .arr2 | .arrInt => .arr2
  | _ => .error

/-- `data[n] == &DataParser::add_text` (otherwise `white_spaces`) -/
def addsText : St → Bool
  | .smRows | .smCols | .smNonz | .smRowNonz | .smRowInt | .smRowFlt
  | .bdBlocks | .bdNonz | .bdBlockD | .bdBlockW | .bdBlockF
  | .vecDim | .vecFlt | .arrDim | .arrInt => true
  | _ => false

inductive Err where
  | badContext      -- parser_error: tag cannot be used in this context
  | illegalText     -- white_spaces: non-blank text
  | badData         -- "### bad data …" of the individual handlers
  | tooMany | notEnough
  | nullDeref       -- a handler would dereference a null pointer (unreachable through `next`)
deriving DecidableEq, Repr

/-- the members of `DataParser` used by the adj handlers -/
structure RS (K S : Type) where
  st : St
  buf : List S                         -- text_buffer, as the tokens `>>` will see
  mat : Option (SpMat K)               -- adj_sparse_mat
  matNonz : Nat                        -- adj_sparse_mat_nonz
  rowNonz : Nat                        -- adj_sparse_mat_row_nonz
  cov : Option (List (Block K))        -- adj_block_diagonal
  bdBlocks : Nat                       -- block_diagonal_blocks_
  bdNonz : Nat                         -- block_diagonal_nonz_
  bdDim : Nat
  bdWidth : Nat
  bdVec : List K                       -- bd_vector[0 .. iterator)
  bdVecDim : Nat                       -- bd_vector_dim
  vec : List K                         -- adj_vector[0 .. iterator)
  vecCap : Nat                         -- adj_vector.dim()
  vecDim : Nat                         -- adj_vector_dim
  arr : Option (List Nat)              -- adj_array[0 .. iterator)
  arrDim : Nat                         -- adj_array_dim
  out : List (AdjData K)               -- objects.push_back(new DataObject::AdjInput(data))

def RS.init : RS K S :=
  { st := .gamaData, buf := [], mat := none, matNonz := 0, rowNonz := 0, cov := none, bdBlocks := 0,
    bdNonz := 0, bdDim := 0, bdWidth := 0, bdVec := [], bdVecDim := 0, vec := [], vecCap := 0, vecDim := 0,
    arr := none, arrDim := 0, out := [] }

/-- `SparseMatrix::add_element` on the row opened by the last `new_row` -/
def addElement (m : SpMat K) (i : Nat) (x : K) : SpMat K :=
  { m with rowsL := match m.rowsL.reverse with
      | [] => []               -- no row open: the C++ writes through rptr[1]; not reachable
      | last :: init => (((last ++ [(i, x)]) :: init).reverse) }

/-- `int DataParser::endElement` : the `etag[state]` handlers -/
def endEl (c : Codec K S) (r : RS K S) : Except Err (RS K S) :=
  let fin (r : RS K S) : RS K S := { r with st := after r.st }          -- `return end_tag(name)`
  match r.st with
  | .aid5 | .aid4 =>                                                     -- adj_input_data(name)
    let d : AdjData K :=
      { mat := r.mat, cov := r.cov, rhs := if r.vecCap ≠ 0 then r.vec else [], minx := r.arr }
    pure (fin { r with out := r.out ++ [d], mat := none, cov := none, arr := none })
  | .sm4 => pure (fin r)                                                 -- sparse_mat: check() holds
  | .smNonz =>                                                           -- sparse_mat_nonz
    match r.buf.map c.rdN with
    | [some rows, some cols, some nonz] =>
      pure (fin { r with buf := [], matNonz := nonz, mat := some ⟨rows, cols, []⟩ })
    | _ => throw .badData
  | .smRow2 => pure (fin r)                                              -- sparse_mat_row(name)
  | .smRowNonz =>                                                        -- sparse_mat_row_n
    match r.buf.map c.rdN with
    | [some n] => pure (fin { r with buf := [], rowNonz := n })
    | _ => throw .badData
  | .smRowFlt =>                                                         -- sparse_mat_row_f
    if r.matNonz = 0 then throw .badData
    else if r.rowNonz = 0 then throw .badData
    else match r.buf, r.mat with
      | [si, sx], some m =>
        match c.rdN si, c.rdF sx with
        | some i, some x =>
          pure (fin { r with buf := [], matNonz := r.matNonz - 1, rowNonz := r.rowNonz - 1,
                             mat := some (addElement m i x) })
        | _, _ => throw .badData
      | _, none => throw .nullDeref
      | _, _ => throw .badData
  | .bd3 => if r.bdBlocks ≠ 0 then throw .notEnough else pure (fin r)    -- block_diagonal
  | .bdNonz =>                                                           -- block_diagonal_nonz
    match r.buf.map c.rdN with
    | [some b, some n] => pure (fin { r with buf := [], bdBlocks := b, bdNonz := n, cov := some [] })
    | _ => throw .badData
  | .bdBlockW =>                                                         -- block_diagonal_block_w
    match r.buf.map c.rdN with
    | [some dim, some width] =>
      if 0 < dim ∧ width < dim then
        pure (fin { r with buf := [], bdDim := dim, bdWidth := width,
                           bdVecDim := packedSize dim width, bdVec := [] })
      else throw .badData
    | _ => throw .badData
  | .bdBlockF =>                                                         -- block_diagonal_vec_flt
    if r.bdVecDim = 0 ∨ r.bdNonz = 0 then throw .tooMany
    else match r.buf.map c.rdF with
      | [some x] =>
        pure (fin { r with buf := [], bdVecDim := r.bdVecDim - 1, bdNonz := r.bdNonz - 1, bdVec := r.bdVec ++ [x] })
      | _ => throw .badData
  | .bdBlock3 =>                                                         -- block_diagonal_block
    if r.bdVecDim ≠ 0 then throw .notEnough
    else if r.bdBlocks = 0 then throw .tooMany
    else match r.cov with
      | some bs => pure (fin { r with bdBlocks := r.bdBlocks - 1, cov := some (bs ++ [⟨r.bdDim, r.bdWidth, r.bdVec⟩]) })
      | none => throw .nullDeref
  | .vec2 => if r.vecDim ≠ 0 then throw .notEnough else pure (fin r)     -- vector
  | .vecDim =>                                                           -- vector_dim
    match r.buf.map c.rdN with
    | [some n] => pure (fin { r with buf := [], vecDim := n, vecCap := n, vec := [] })
    | _ => throw .badData
  | .vecFlt =>                                                           -- vector_flt
    if r.vecDim = 0 then throw .tooMany
    else match r.buf.map c.rdF with
      | [some x] => pure (fin { r with buf := [], vecDim := r.vecDim - 1, vec := r.vec ++ [x] })
      | _ => throw .badData
  | .arr2 => if r.arrDim ≠ 0 then throw .notEnough else pure (fin r)     -- array
  | .arrDim =>                                                           -- array_dim
    match r.buf.map c.rdN with
    | [some n] => pure (fin { r with buf := [], arrDim := n, arr := some [] })
    | _ => throw .badData
  | .arrInt =>                                                           -- array_int
    if r.arrDim = 0 then throw .tooMany
    else match r.buf.map c.rdN, r.arr with
      | [some i], some a => pure (fin { r with buf := [], arrDim := r.arrDim - 1, arr := some (a ++ [i]) })
      | _, none => throw .nullDeref
      | _, _ => throw .badData
  | _ => pure (fin r)                                                    -- end_tag

/-- one SAX event -/
def step (c : Codec K S) (r : RS K S) : Ev S → Except Err (RS K S)
  | .start t =>
    match next r.st t with
    | none => throw .badContext
    | some n =>
      match r.st, t with
      | .gamaData, .adjInputData =>                                      -- adj_input_data(name, atts)
        pure { r with st := n, mat := none, cov := none, vec := [], vecCap := 0, arr := none }
      | .sm4, .row =>                                                    -- sparse_mat_row(name, atts)
        match r.mat with
        | some m => pure { r with st := n, mat := some { m with rowsL := m.rowsL ++ [[]] }, rowNonz := 0 }
        | none => throw .nullDeref
      | _, _ => pure { r with st := n }                                  -- start_tag
  | .stop _ => endEl c r
  | .text s => if addsText r.st then pure { r with buf := r.buf ++ [s] } else throw .illegalText
  | .ws => pure r

def run (c : Codec K S) (r : RS K S) (evs : List (Ev S)) : Except Err (RS K S) := evs.foldlM (step c) r

/-- the `AdjInputData` objects a `<gnu-gama-data>` body yields -/
def readAll (c : Codec K S) (evs : List (Ev S)) : Except Err (List (AdjData K)) :=
  (run c RS.init evs).map (·.out)

/-- reader for a single `<adj-input-data>` -/
def readAdj (c : Codec K S) (evs : List (Ev S)) : Except Err (AdjData K) :=
  match readAll c evs with
  | .ok [d] => .ok d
  | .ok _ => .error .badData
  | .error e => .error e

end AdjXml
end Gama
