/-
  `GNU_gama::Cluster<Observation>::update()` — the part that numbers the observations of a cluster —
  `Cluster::stdDev(int)` (lib/gnu_gama/obsdata.h) and `Observation::stdDev()`
  (lib/gnu_gama/local/observation.cpp), as coded.  Core Lean only.  Reference model; the version
  REGENERATED from the C++ text on every run is `Gama/Gen/ClusterUpdate.lean`, and
  `Props/C09Cluster.lean` proves the two equal (`gen_clusterUpdate`, `gen_clusterStdDev`).

      int index = 0;
      for (i = observation_list.begin(); i != observation_list.end(); ++i) {
          p = (*i);
          p->cluster = this;
          p->cluster_index = index++;          // EVERY observation, active or not
          if (p->active()) { act_obs++; act_dim += p->dimension(); }
      }

      double stdDev(int i) const { i++; return std::sqrt(covariance_matrix(i,i)); }
      double Observation::stdDev() const { return cluster->stdDev(cluster_index); }

  `cluster_index` is the 0-based position in the FULL `observation_list`; `covariance_matrix` is the
  covariance matrix of ALL observations of the cluster (the adjustment takes the sub-matrix of the active
  ones through `activeCov()`, `Model/ActiveCov.lean`).  `LocalNetwork::weight_obs(i)` is
  `(m_0_apr / revised_obs_[i-1]->stdDev())^2`, so the two index conventions must agree: that is
  `C09_weight_obs_is_own_variance`.
-/
import Gama.Model.ActiveCov
namespace Gama.Cov

/-- the `cluster_index` values `update()` assigns, in list order: the loop counter `index` is handed out
    and incremented for every observation regardless of `active()` -/
def updateIdx : Nat → List ObsInfo → List Nat
  | _, [] => []
  | index, _ :: rest => index :: updateIdx (index + 1) rest

/-- `Cluster::stdDev(int i)`: `i++; return std::sqrt(covariance_matrix(i,i));` -/
def stdDevAt {K : Type} [Scalar K] (cov : CovMat K) (i : Nat) : K :=
  let i := i + 1
  Scalar.sqrt (cov.get i i)

/-- `cluster_index` of the observation at position `j` of the list after `update()` -/
def clusterIndex (obs : List ObsInfo) (j : Nat) : Option Nat := (updateIdx 0 obs)[j]?

/-- `Observation::stdDev()` of the observation at position `j` of its cluster's list:
    `cluster->stdDev(cluster_index)` (`none`: no such observation) -/
def observationStdDev {K : Type} [Scalar K] (cov : CovMat K) (obs : List ObsInfo) (j : Nat) : Option K :=
  (clusterIndex obs j).map (stdDevAt cov)

end Gama.Cov
