/-
  C06 — executable model of lib/gnu_gama/local/acord/acordzderived.cpp (AcordZderived::execute, as
  repaired by 2bd0b4a (instrument / target heights of the zenith angle are applied) and 50e5b35 (second-face
  readings are reduced).  Core Lean only.

  `execute` only *reads* `PD_` and appends to `candidate_z_`; the heights are published by
  Acord2::get_medians_z (`getMediansZ`, AcordBase.lean) at the end of the round.

  Per stand-point cluster, in cluster order:
  * branch A (station height unknown): zenith angles / distances / slope distances of the cluster whose
    *target* has a height; every zenith angle contributes, in this order, one station height per
    horizontal distance to the same target, one per slope distance to the same target and — if both
    end points have xy — one from the coordinate distance; median `(s[(N-1)/2] + s[N/2])/2`; the
    candidate is inserted and the median is used as `station_z` for branch B;
    `continue` (nothing at all for this cluster) when there is no usable zenith angle, no usable distance
    of either kind, or no height came out;
  * branch B (with `station_z`): the same three sources for every target whose height is unknown.
  `vertical_angle = pi/2 - zenith` with `pi = std::acos(-1)`, `zenith` = the reading, `2*pi −` reading if it is `> pi`;
  branch A: `dh = to_dh - from_dh`, `h = z_to - d*tan(va) + dh` (slope: `sin`);
  branch B: `dh = from_dh - to_dh`, `h = station_z + d*tan(va) + dh`.
  The dh of the *slope distance* itself is not used.
-/
import Gama.Model.AcordBase
namespace Gama.Acord
open Scalar Trig Cogo Median

variable {K : Type} [Scalar K] [Trig K] {ι : Type} [DecidableEq ι]

/-- a zenith angle of the cluster: from, to, value, from_dh, to_dh -/
structure ZA (ι K : Type) where
  f : ι
  t : ι
  v : K
  fdh : K
  tdh : K

/-- `const double pi = std::acos(-1);` -/
def zdPi : K := acos (-(1 : K))

/-- the three vectors collected from `spc->observation_list`; `keep` = the test on the target's height -/
def zdAngles (keep : ι → Bool) (obs : List (Obs ι K)) : List (ZA ι K) :=
  obs.filterMap (fun o => match o with
    | .zangle f t v fdh tdh => if keep t then some ⟨f, t, v, fdh, tdh⟩ else none
    | _ => none)
def zdDistances (keep : ι → Bool) (obs : List (Obs ι K)) : List (ι × K) :=
  obs.filterMap (fun o => match o with
    | .distance _ t v => if keep t then some (t, v) else none
    | _ => none)
def zdSDistances (keep : ι → Bool) (obs : List (Obs ι K)) : List (ι × K) :=
  obs.filterMap (fun o => match o with
    | .sdistance _ t v _ _ => if keep t then some (t, v) else none
    | _ => none)

/-- fix 50e5b35: `zenith = za->value() > pi ? 2*pi - za->value() : za->value()` (second-face reading) -/
def zdZenith (v : K) : K := if (zdPi : K) < v then two * zdPi - v else v

/-- `dx = from.x - to.x; dy = from.y - to.y; d = sqrt(dx*dx + dy*dy)` -/
def zdCoordDist (pd : PD ι K) (za : ZA ι K) : K :=
  let dx := (pd za.f).x - (pd za.t).x
  let dy := (pd za.f).y - (pd za.t).y
  sqrt (dx * dx + dy * dy)

/-- branch A: the station heights one zenith angle contributes (`sp_height.push_back` in order) -/
def zdStationHeights (pd : PD ι K) (ds ss : List (ι × K)) (za : ZA ι K) : List K :=
  let va := zdPi / two - zdZenith za.v
  let dh := za.tdh - za.fdh
  ((ds.filter (fun d => decide (za.t = d.1))).map (fun d => (pd d.1).z - d.2 * tan va + dh)) ++
  ((ss.filter (fun s => decide (za.t = s.1))).map (fun s => (pd s.1).z - s.2 * sin va + dh)) ++
  (if (pd za.f).bxy && (pd za.t).bxy then [(pd za.t).z - zdCoordDist pd za * tan va + dh] else [])

/-- branch B: the target candidates one zenith angle contributes (`candidate_z_.insert` in order) -/
def zdTargetHeights (pd : PD ι K) (stationZ : K) (ds ss : List (ι × K)) (za : ZA ι K) : List (ι × K) :=
  let va := zdPi / two - zdZenith za.v
  let dh := za.fdh - za.tdh
  ((ds.filter (fun d => decide (za.t = d.1))).map (fun d => (d.1, stationZ + d.2 * tan va + dh))) ++
  ((ss.filter (fun s => decide (za.t = s.1))).map (fun s => (s.1, stationZ + s.2 * sin va + dh))) ++
  (if (pd za.f).bxy && (pd za.t).bxy then [(za.t, stationZ + zdCoordDist pd za * tan va + dh)] else [])

/-- branch B for a whole cluster -/
def zdTargets (pd : PD ι K) (stationZ : K) (obs : List (Obs ι K)) : List (ι × K) :=
  let unk := fun t => !(pd t).bz
  (zdAngles unk obs).flatMap (zdTargetHeights pd stationZ (zdDistances unk obs) (zdSDistances unk obs))

/-- branch A: `none` = one of the `continue`s -/
def zdStation (pd : PD ι K) (obs : List (Obs ι K)) : Option K :=
  let kn := fun t => (pd t).bz
  let zs := zdAngles kn obs
  let ds := zdDistances kn obs
  let ss := zdSDistances kn obs
  if zs.isEmpty || (ds.isEmpty && ss.isEmpty) then none
  else
    let sp := zs.flatMap (zdStationHeights pd ds ss)
    if sp.isEmpty then none else some (median2 sp)

/-- the candidates one stand-point cluster appends -/
def zdCluster (pd : PD ι K) (station : ι) (obs : List (Obs ι K)) : List (ι × K) :=
  if (pd station).bz then zdTargets pd (pd station).z obs
  else
    match zdStation pd obs with
    | none => []
    | some z => (station, z) :: zdTargets pd z obs

def zdAll (pd : PD ι K) : List (Cluster ι K) → List (ι × K)
  | [] => []
  | .standpoint s obs :: cs => zdCluster pd s obs ++ zdAll pd cs
  | _ :: cs => zdAll pd cs

/-- `prepared_`, `completed_` -/
structure ZdAlg where
  prepared : Bool
  completed : Bool

def ZdAlg.fresh : ZdAlg := ⟨false, false⟩

/-- AcordZderived::execute: `completed_ = AC.missing_z_.empty(); if (completed_) return;` -/
def zdExecute (od : List (Cluster ι K)) (_alg : ZdAlg) (st : St ι K) : ZdAlg × St ι K :=
  if st.missZ.isEmpty then (⟨true, true⟩, st)
  else (⟨true, false⟩, { st with candZ := st.candZ ++ zdAll st.pd od })

end Gama.Acord
