/-
  C19 — the adjustment input gama-g3 hands to class `Adj` (and writes with `--project-equations`):
  `AdjInputData` as `Model::update_linearization` fills it, as ONE value `dumpOf net sd clusters`.

  Anchors (lib/gnu_gama/g3/g3_model_linearization.cpp, `Model::update_linearization`):
    * `A = new SparseMatrix<>(dm_floats, dm_rows, dm_cols)`, filled by the loop over `active_obs`
      (`G3Net.netEqs`), `adj_input_data->set_mat(A)`, `set_rhs(rhs)`;
    * the `minx` list: `set_minx` only `if (minx)` (`G3Book.minx`);
    * the covariance blocks: first loop `if (int n = (*ci)->activeNonz()) { nonzeroes += n; blocks++; }`,
      `bd = new BlockDiagonal<>(blocks, nonzeroes)`, second loop `CovMat<> C = (*ci)->activeCov();
      C /= (apriori_sd*apriori_sd); if (C.dim()) bd->add_block(C.dim(), C.bandWidth(), C.begin());`
      — `Cluster::update / activeCov` are C10's models (`Model/ActiveCov.lean`), `operator/=` is `*= 1/f`
      (`Neu.cofactorBlock`), `add_block` copies `dim·(w+1) − w(w+1)/2` doubles (`Packed.size`);
    * `adj->set(adj_input_data)`: the value is a `Ls.Problem`, the input type of the model of class `Adj`
      (`Model/Ls/Adj.lean`: `adjSolve alg`, `AdjM.homogenise` = block Cholesky + forward substitution).

  Observations are iterated cluster by cluster (`obsdata.begin() … end()`); a record carries its `active()`
  flag on entry of `update_observations` (false: rejected in an earlier pass of the `do … while` loop).

  Core Lean only (linked into `drv_g3`).
-/
import Gama.Model.G3Net
import Gama.Model.ActiveCov
import Gama.Model.Ls.Adj
namespace Gama
namespace G3Dump
open Neu G3Book G3Lin G3Net

variable {ι K : Type}

/-- a `g3Cluster`: its covariance matrix and its observation list, each record with the `active()` flag it
    has when `Model::update_observations` starts -/
structure Cluster (ι K : Type) where
  cov : Cov.CovMat K
  obs : List (Bool × NObs ι K)

/-- `obsdata.begin() … obsdata.end()`: cluster by cluster, list order -/
def records (cls : List (Cluster ι K)) : List (Bool × NObs ι K) := cls.flatMap (·.obs)

/-- the records `Model::revision(T*)` does not leave at its first line (`if (!obs->active()) return false`) -/
def nobsOf (cls : List (Cluster ι K)) : List (NObs ι K) := ((records cls).filter (·.1)).map (·.2)

/-- what `Cluster::update()` / `activeCov()` see of the observation list after the revision: `active()`
    (= was active and the revision succeeded), `dimension()` -/
def infoOf [DecidableEq ι] (net : Net ι K) (cl : Cluster ι K) : List Cov.ObsInfo :=
  cl.obs.map fun e => ⟨e.1 && (revision net.points e.2.obs).isSome, e.2.obs.dimension⟩

/-- `C /= (apriori_sd*apriori_sd)` on the packed buffer -/
def cofactor [Scalar K] (sd : K) (c : Cov.CovMat K) : Cov.CovMat K :=
  { c with buf := (Neu.cofactorBlock sd c.buf.toList).toArray }

/-- `CovMat<> C = (*ci)->activeCov(); C /= sd²` of one cluster -/
def clusterBlock [DecidableEq ι] [Scalar K] (net : Net ι K) (sd : K) (cl : Cluster ι K) : Cov.CovMat K :=
  cofactor sd (Cov.activeCov cl.cov (infoOf net cl))

/-- the second loop: `if (C.dim()) bd->add_block(C.dim(), C.bandWidth(), C.begin())` -/
def covBlocks [DecidableEq ι] [Scalar K] (net : Net ι K) (sd : K) (cls : List (Cluster ι K)) : List (Ls.CovBlock K) :=
  cls.filterMap fun cl =>
    let C := clusterBlock net sd cl
    if C.dim ≠ 0 then some ⟨C.dim, C.band, C.buf⟩ else none

/-- the first loop: `(blocks, nonzeroes)` the `BlockDiagonal` is allocated with, from the members `act_nonz`
    cached by `Cluster::update()` -/
def bdAnnounced [DecidableEq ι] (net : Net ι K) (cls : List (Cluster ι K)) : Nat × Int :=
  cls.foldl (fun acc cl =>
    let n := (Cov.clusterUpdate (infoOf net cl) cl.cov.band).2.2
    if n ≠ 0 then (acc.1 + 1, acc.2 + n) else acc) (0, 0)

/-- what `add_block` is called with: number of calls and number of doubles copied (`memcpy(b, mem, N*sizeof)`,
    `N = dim·(w+1) − w(w+1)/2`) -/
def bdWritten (bs : List (Ls.CovBlock K)) : Nat × Int :=
  (bs.length, (bs.map fun b => Cov.Packed.size b.dim b.width).sum)

/-- the number of `add_element` calls of the linearisation loop (`SparseMatrix::nonzeroes()` afterwards) -/
def floatsWritten (eqs : List (Row K × K)) : Nat := (eqs.map fun e => e.1.length).sum

/-- one sparse row as `AdjInputData` / `Ls.Problem` stores it: (1-based column, value) in storage order -/
def rowOf (r : Row K) : Array (Nat × K) := (r.map fun ci => (ci.2, ci.1)).toArray

/-- `set_minx` only `if (minx)`; `Adj::init_least_squares` calls `min_x(dim, list)` only if the data has a list -/
def regOf (mx : List Nat) : Ls.Reg := if mx.isEmpty then .none else .subset mx

/-- **the adjustment input of gama-g3**: `adj_input_data` after `Model::update_linearization`, in the type
    class `Adj`'s model consumes.  `m` is the number of rows the loop appended (`= dm_rows`:
    `G3Net.netEqs_length`), `n = dm_cols`. -/
def dumpOf [DecidableEq ι] [Trig K] (net : Net ι K) (sd : K) (cls : List (Cluster ι K)) : Ls.Problem K :=
  let nobs := nobsOf cls
  let bk := bookOf net nobs
  let eqs := netEqs net nobs
  { m := eqs.length
    n := bk.idx.cols
    rows := (eqs.map fun e => rowOf e.1).toArray
    cov := (covBlocks net sd cls).toArray
    rhs := (eqs.map (·.2)).toArray
    reg := regOf (minx net.points bk) }

/-- `A_dot`, `b_dot` of `Adj::init_least_squares` (full solvers) on gama-g3's own input: the cluster cofactors
    through `CovMat::cholDec` + `Adj::choldec` + `Adj::forwardSubstitution` -/
def homogenised [DecidableEq ι] [Trig K] (net : Net ι K) (sd : K) (cls : List (Cluster ι K)) :
    Except Ls.ErrKind (Ls.DMat K × Array K) :=
  Ls.AdjM.homogenise (dumpOf net sd cls)

end G3Dump
end Gama
