/-
  Types shared by the generated linearisation (`Gama/Gen/Linearization.lean`, regenerated
  from /repo/lib/gnu_gama/local/local_linearization.cpp on every run) and by the
  hand-written index model.  Core Lean only (linked into `drv_lin`).

  * `TrigScalar`   – `Scalar` + `sin cos atan2 acos` and the constant `M_PI`
  * `Pt`, `Obs`    – what `LocalLinearization::<type>` reads: the points by role
                     (`PD[obs->from()]`, `PD[obs->to()]` (= `bs()`), `PD[obs->fs()]`), their
                     status bits (lpoint.h), `obs->value()`, `sp->orientation()`,
                     `PD.xNorthAngle()`
  * `Ev`, `LinOut` – what it writes: `rhs` and, in program order, the index
                     allocations `if (!i) i = ++maxn` (`touch`) and the pushes
                     `index[size] = i; coeff[size] = c; size++` (`push`)
  * `whileLoop`    – `while (c(a)) a = f(a);` with fuel; `none` = fuel exhausted
  * `LinIndex`     – "index on first use" (`maxn`, `LocalPoint::index_*`,
                     `StandPoint::index_orientation`) as `project_equations` drives it
-/
import Gama.Scalar
namespace Gama

class TrigScalar (K : Type) extends Scalar K where
  sin   : K → K
  cos   : K → K
  /-- `std::atan2(y, x)` -/
  atan2 : K → K → K
  acos  : K → K
  /-- the macro `M_PI` -/
  pi    : K

instance : TrigScalar Float where
  sin := Float.sin
  cos := Float.cos
  atan2 := Float.atan2
  acos := Float.acos
  pi := 3.14159265358979323846

namespace Lin

/-- `obs->from()`, `obs->to()` (`Angle::bs()` is `to()`), `Angle::fs()`; `station` is the
    `StandPoint` cluster of a direction (carrier of the orientation unknown) -/
inductive Role where
  | pfrom | pto | pfs | station
deriving DecidableEq, Repr

inductive Coord where
  | x | y | z | ori
deriving DecidableEq, Repr

/-- point status (lpoint.h `pst_`, per coordinate group): `set_unused_*`, `set_fixed_*`,
    `set_free_*`, `set_constrained_*` -/
inductive Status where
  | unused | fixed | free | constrained
deriving DecidableEq, Repr

namespace Status
/-- `free_xy()` / `free_z()` : `pst_ & *_adjusted_` (constrained points are adjusted too) -/
def isFree : Status → Bool
  | free => true | constrained => true | _ => false
def isFixed : Status → Bool
  | fixed => true | _ => false
def isConstrained : Status → Bool
  | constrained => true | _ => false
def isActive : Status → Bool
  | unused => false | _ => true
end Status

structure Pt (K : Type) where
  x : K
  y : K
  z : K
  sxy : Status
  sz : Status

namespace Pt
variable {K : Type}
def free_xy (p : Pt K) : Bool := p.sxy.isFree
def free_z (p : Pt K) : Bool := p.sz.isFree
def fixed_xy (p : Pt K) : Bool := p.sxy.isFixed
def fixed_z (p : Pt K) : Bool := p.sz.isFixed
def constrained_xy (p : Pt K) : Bool := p.sxy.isConstrained
def constrained_z (p : Pt K) : Bool := p.sz.isConstrained
def active_xy (p : Pt K) : Bool := p.sxy.isActive
def active_z (p : Pt K) : Bool := p.sz.isActive
end Pt

/-- everything one call `obs->accept(&loclin)` reads (besides the index state) -/
structure Obs (K : Type) where
  pfrom : Pt K
  pto : Pt K
  pfs : Pt K
  /-- `obs->value()` -/
  value : K
  /-- `sp->orientation()` of the direction's cluster -/
  orientation : K
  /-- `PD.xNorthAngle()` -/
  xNorth : K

def Obs.pt {K : Type} (o : Obs K) : Role → Pt K
  | .pfrom => o.pfrom | .pto => o.pto | .pfs => o.pfs | .station => o.pfrom

/-- the exceptions thrown by the linearisation (language-independent tags of the C++
    message macros) and non-termination of a `while` within the given fuel -/
inductive LinErr where
  | zeroSlopeDistance     -- T_POBS_zero_or_negative_slope_distance
  | zeroZenithAngle       -- T_POBS_zero_or_negative_zenith_angle
  | other (tag : String)
  | fuel
deriving DecidableEq, Repr

inductive Ev (K : Type) where
  | touch (r : Role) (c : Coord)
  | push (r : Role) (c : Coord) (v : K)

structure LinOut (K : Type) where
  rhs : K
  evs : List (Ev K)

def pushes {K : Type} : List (Ev K) → List (Role × Coord × K)
  | [] => []
  | .push r c v :: t => (r, c, v) :: pushes t
  | .touch _ _ :: t => pushes t

def touches {K : Type} : List (Ev K) → List (Role × Coord)
  | [] => []
  | .touch r c :: t => (r, c) :: touches t
  | .push _ _ _ :: t => touches t

def LinOut.pushes {K : Type} (o : LinOut K) := Lin.pushes o.evs
def LinOut.touches {K : Type} (o : LinOut K) := Lin.touches o.evs

/-- `while (c a) a = f a;`  (`none`: still looping after `fuel` iterations) -/
def whileLoop {K : Type} (c : K → Bool) (f : K → K) : Nat → K → Option K
  | 0, a => if c a then none else some a
  | n + 1, a => if c a then whileLoop c f n (f a) else some a

/-! ### `PointData::xNorthAngle` (gamadata.cpp), hand-written, compared by correspondence -/

/-- `LocalCoordinateSystem::CS` in declaration order -/
inductive CS where
  | EN | NW | SE | WS | NE | SW | ES | WN
deriving DecidableEq, Repr

def CS.ofNat? : Nat → Option CS
  | 0 => some .EN | 1 => some .NW | 2 => some .SE | 3 => some .WS
  | 4 => some .NE | 5 => some .SW | 6 => some .ES | 7 => some .WN | _ => none

/-- the integer `lh` (gons) before conversion -/
def xNorthGon (cs : CS) (rightHandedAngles : Bool) : Nat :=
  let lh := match cs with
    | .EN | .ES => 300
    | .NW | .NE => 400
    | .SE | .SW => 200
    | .WS | .WN => 100
  let lh := if rightHandedAngles then 400 - lh else lh
  if lh = 400 then 0 else lh

/-- `lh*G2R` with `G2R = M_PI/200.0` expanded textually: `(lh*M_PI)/200.0` -/
def xNorthAngle {K : Type} [TrigScalar K] (cs : CS) (rh : Bool) : K :=
  (Scalar.ofNat (xNorthGon cs rh) * TrigScalar.pi) / Scalar.ofNat 200

/-! ### observation constructors (observation.h), hand-written, compared by correspondence -/

/-- `Observation::norm_rad_val` : `while (v >= 2*M_PI) v -= 2*M_PI; while (v < 0) v += 2*M_PI;` -/
def normRadVal {K : Type} [TrigScalar K] (fuel : Nat) (v : K) : Option K :=
  let twoPi : K := Scalar.ofNat 2 * TrigScalar.pi
  match whileLoop (fun v => decide (twoPi ≤ v)) (fun v => v - twoPi) fuel v with
  | none => none
  | some v => whileLoop (fun v => decide (v < Scalar.ofNat 0)) (fun v => v + twoPi) fuel v

inductive CtorErr where
  | nonPositive | fromEqualsTo | fuel
deriving DecidableEq, Repr

/-- the value stored by the constructor of class `cls`
    (`Distance/S_Distance/Z_Angle`: `d <= 0` throws; `Direction/Angle/Azimuth`: normalised) -/
def ctorValue {K : Type} [TrigScalar K] (fuel : Nat) (cls : String) (v : K) : Except CtorErr K :=
  if cls = "Distance" ∨ cls = "S_Distance" ∨ cls = "Z_Angle" then
    if v ≤ Scalar.ofNat 0 then .error .nonPositive else .ok v
  else if cls = "Direction" ∨ cls = "Angle" ∨ cls = "Azimuth" then
    match normRadVal fuel v with
    | some v => .ok v
    | none => .error .fuel
  else .ok v

/-! ### index on first use -/

/-- identity of an unknown: a point's coordinate or a stand-point's orientation -/
structure Unk where
  id : Nat        -- point number / cluster number
  c : Coord
deriving DecidableEq, Repr

/-- the index state: `maxn` and the non-zero `index_*` fields -/
structure IdxState where
  maxn : Nat
  tab : List (Unk × Nat)

def IdxState.init : IdxState := ⟨0, []⟩

/-- `p.index_c()` : 0 when not yet assigned -/
def IdxState.get (s : IdxState) (u : Unk) : Nat :=
  match s.tab.find? (fun e => e.1 = u) with
  | some e => e.2
  | none => 0

/-- `if (!p.index_c()) p.index_c() = ++maxn;` -/
def IdxState.touch (s : IdxState) (u : Unk) : IdxState :=
  if s.get u = 0 then ⟨s.maxn + 1, (u, s.maxn + 1) :: s.tab⟩ else s

/-- prologue of `LocalNetwork::project_equations()`: the three indexes of every point that
    satisfies the guard are zeroed, `index_orientation(0)` for every stand-point, and a new
    `LocalLinearization` starts with `maxn = 0`.  Points failing the guard KEEP their indexes. -/
def IdxState.resetPass (guard : Nat → Bool) (s : IdxState) : IdxState :=
  ⟨0, s.tab.filter (fun e => match e.1.c with
                             | .ori => false
                             | _ => !(guard e.1.id))⟩

/-- one observation: the events in program order; returns the rows `(index, coeff)` -/
def runEvs {K : Type} (name : Role → Coord → Unk) :
    List (Ev K) → IdxState → IdxState × List (Nat × K)
  | [], s => (s, [])
  | .touch r c :: t, s => runEvs name t (s.touch (name r c))
  | .push r c v :: t, s =>
      let (s', rows) := runEvs name t s
      (s', (s.get (name r c), v) :: rows)

end Lin
end Gama
