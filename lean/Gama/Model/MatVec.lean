/-
  Model of the dense matrix/vector classes of lib/matvec: `Mat`, `Vec`, `SymMat`,
  `TransMat`, `TransVec` (mat.h, vec.h, vecbase.h, symmat.h, transmat.h, transvec.h,
  matvecbase.h): index maps, dimension guards, sums, differences, scalar multiples,
  every product implementation, transposes and conversions.

  Storage is an `Array K`; *every* element access of the C++ is a checked read `rd`
  that reports `Err.oob` when the offset lies outside the operand's storage, so
  "does not read outside the operands" is a statement about the model
  (`op … = .ok _` excludes it).  Pointer walks (`*a++`, `b += B.cols()`) appear as the
  closed-form offsets they visit; loops are `sumLoop` (`s = 0; for k: s += …`) and
  `tabulate` (`*c++ = …`).

  The arithmetic needs only `+ - * 0`, all of which `[Scalar K]` provides
  (`Scalar K` extends `Add K, Sub K, Mul K, Zero K`); the functions are declared over
  these sub-signatures so that `Float`, `Rat` and any field instantiate them directly.

  Core Lean only.
-/
import Gama.Scalar
namespace Gama.MatVec

inductive Err where
  /-- `throw Exc(Exception::BadRank, …)` -/
  | badRank
  /-- the C++ reads outside the storage of an operand (no exception: undefined behaviour) -/
  | oob
deriving Repr, DecidableEq

structure Mat (K : Type) where
  rows : Nat
  cols : Nat
  data : Array K          -- row major, `rows*cols` elements
deriving Repr, DecidableEq

/-- `TransMat`: `rows = row_`, `cols = col_`; the storage is the *source* matrix'
    row-major storage, i.e. column major for the transposed view -/
structure TMat (K : Type) where
  rows : Nat
  cols : Nat
  data : Array K
deriving Repr, DecidableEq

structure SMat (K : Type) where
  dim  : Nat
  data : Array K          -- packed lower triangle, `dim*(dim+1)/2` elements
deriving Repr, DecidableEq

abbrev Vec (K : Type) := Array K

/-! ### index maps (1-based `operator()`), as 0-based storage offsets -/

/-- `Mat::operator()(r,c)` : `m[--r*cols() + --c]` -/
def matIdx (cols r c : Nat) : Nat := (r - 1) * cols + (c - 1)
/-- `TransMat::operator()(r,c)` : `m[--c*rows() + --r]` -/
def tmatIdx (rows r c : Nat) : Nat := (c - 1) * rows + (r - 1)
/-- `SymMat::operator()(i,j)` : `i>=j ? p[i*(i-1)/2+j-1] : p[j*(j-1)/2+i-1]` -/
def symIdx (i j : Nat) : Nat := if i ≥ j then i * (i - 1) / 2 + j - 1 else j * (j - 1) / 2 + i - 1

/-- the (i,j) with j ≤ i whose packed offset is `p` -/
def triRow (n p : Nat) : Nat × Nat :=
  (List.range n).foldl (fun (acc : Nat × Nat) i0 =>
    if (i0 + 1) * i0 / 2 ≤ p then (i0 + 1, p - (i0 + 1) * i0 / 2 + 1) else acc) (1, 1)

section
variable {K : Type}

def rd (a : Array K) (p : Nat) : Except Err K :=
  match a[p]? with
  | some v => .ok v
  | none => .error .oob

/-- `*c++ = f 0; *c++ = f 1; …` -/
def tabulate : Nat → (Nat → Except Err K) → Except Err (Array K)
  | 0, _ => .ok #[]
  | n+1, f => match tabulate n f with
              | .error e => .error e
              | .ok a => match f n with
                         | .error e => .error e
                         | .ok x => .ok (a.push x)

/-- `s = 0; for (k=0; k<n; k++) s += f k;` -/
def sumLoop [Add K] [Zero K] : Nat → (Nat → Except Err K) → Except Err K
  | 0, _ => .ok 0
  | n+1, f => match sumLoop n f with
              | .error e => .error e
              | .ok s => match f n with
                         | .error e => .error e
                         | .ok x => .ok (s + x)

/-- `x * y` of two checked reads -/
def mulRd [Mul K] (a : Array K) (p : Nat) (b : Array K) (q : Nat) : Except Err K :=
  match rd a p with
  | .error e => .error e
  | .ok x => match rd b q with
             | .error e => .error e
             | .ok y => .ok (x * y)

def zipRd (f : K → K → K) (a b : Array K) (p : Nat) : Except Err K :=
  match rd a p with
  | .error e => .error e
  | .ok x => match rd b p with
             | .error e => .error e
             | .ok y => .ok (f x y)

/-- anything derived from `MatBase`: dimensions and the virtual `operator()(r,c)` (1-based) -/
structure MB (K : Type) where
  rows : Nat
  cols : Nat
  get  : Nat → Nat → Except Err K

def Mat.mb (A : Mat K) : MB K := ⟨A.rows, A.cols, fun r c => rd A.data (matIdx A.cols r c)⟩
def TMat.mb (A : TMat K) : MB K := ⟨A.rows, A.cols, fun r c => rd A.data (tmatIdx A.rows r c)⟩
def SMat.mb (A : SMat K) : MB K := ⟨A.dim, A.dim, fun r c => rd A.data (symIdx r c)⟩

/-- entries row by row through the accessor (how the harness prints any `MatBase`) -/
def MB.entries (A : MB K) : Except Err (Array K) :=
  tabulate (A.rows * A.cols) (fun p => A.get (p / A.cols + 1) (p % A.cols + 1))

/-! ### `MatVecBase::mul/add/sub` : element-wise over the whole storage, guarded by `size()` -/

def baseMul [Mul K] (a : Array K) (f : K) (xsize : Nat) : Except Err (Array K) :=
  if a.size ≠ xsize then .error .badRank
  else tabulate xsize (fun p => match rd a p with | .error e => .error e | .ok x => .ok (x * f))

def baseAdd [Add K] (a b : Array K) (xsize : Nat) : Except Err (Array K) :=
  if a.size ≠ b.size ∨ a.size ≠ xsize then .error .badRank
  else tabulate xsize (zipRd (· + ·) a b)

def baseSub [Sub K] (a b : Array K) (xsize : Nat) : Except Err (Array K) :=
  if a.size ≠ b.size ∨ a.size ≠ xsize then .error .badRank
  else tabulate xsize (zipRd (· - ·) a b)

/-! ### Vec -/

def vecScale [Mul K] (a : Vec K) (f : K) : Except Err (Vec K) := baseMul a f a.size
def vecAdd [Add K] (a b : Vec K) : Except Err (Vec K) := baseAdd a b a.size      -- Vec t(dim()); add(x,t)
def vecSub [Sub K] (a b : Vec K) : Except Err (Vec K) := baseSub a b a.size

/-- `VecBase::dot` -/
def dot [Add K] [Mul K] [Zero K] (a b : Vec K) : Except Err K :=
  if a.size ≠ b.size then .error .badRank else sumLoop a.size (fun k => mulRd a k b k)

/-! ### Mat -/

def matScale [Mul K] (A : Mat K) (f : K) : Except Err (Mat K) :=
  match baseMul A.data f (A.rows * A.cols) with
  | .error e => .error e
  | .ok d => .ok ⟨A.rows, A.cols, d⟩

/-- `Mat::operator+(const Mat&)` (member) -/
def matAdd [Add K] (A B : Mat K) : Except Err (Mat K) :=
  if A.rows ≠ B.rows ∨ A.cols ≠ B.cols then .error .badRank
  else match baseAdd A.data B.data (A.rows * A.cols) with
       | .error e => .error e
       | .ok d => .ok ⟨A.rows, A.cols, d⟩

def matSub [Sub K] (A B : Mat K) : Except Err (Mat K) :=
  if A.rows ≠ B.rows ∨ A.cols ≠ B.cols then .error .badRank
  else match baseSub A.data B.data (A.rows * A.cols) with
       | .error e => .error e
       | .ok d => .ok ⟨A.rows, A.cols, d⟩

/-- free `operator+(const MatBase&, const MatBase&)`: `C(i,j) = A(i,j) + B(i,j)` through the accessors -/
def mbZip (f : K → K → K) (A B : MB K) : Except Err (Mat K) :=
  if A.rows ≠ B.rows ∨ A.cols ≠ B.cols then .error .badRank
  else match tabulate (A.rows * A.cols) (fun p =>
          let i := p / A.cols + 1
          let j := p % A.cols + 1
          match A.get i j with
          | .error e => .error e
          | .ok x => match B.get i j with
                     | .error e => .error e
                     | .ok y => .ok (f x y)) with
       | .error e => .error e
       | .ok d => .ok ⟨A.rows, A.cols, d⟩

/-- `A(i,k) * B(k,j)` through the accessors -/
def getMul [Mul K] (A B : MB K) (i k j : Nat) : Except Err K :=
  match A.get i k with
  | .error e => .error e
  | .ok x => match B.get k j with
             | .error e => .error e
             | .ok y => .ok (x * y)

/-- free `operator*(const MatBase&, const MatBase&)`:
    `for i, j: s = 0; for (k=1; k<=B.rows(); k++) s += A(i,k)*B(k,j); *c++ = s` -/
def mbMul [Add K] [Mul K] [Zero K] (A B : MB K) : Except Err (Mat K) :=
  if A.cols ≠ B.rows then .error .badRank
  else match tabulate (A.rows * B.cols) (fun p =>
          let i := p / B.cols + 1
          let j := p % B.cols + 1
          sumLoop B.rows (fun k0 => getMul A B i (k0 + 1) j)) with
       | .error e => .error e
       | .ok d => .ok ⟨A.rows, B.cols, d⟩

/-- `operator*(const Mat&, const Mat&)`: `a = ab` walks row `i` of `A`, `b = bb + j` steps by `B.cols()` -/
def matMul [Add K] [Mul K] [Zero K] (A B : Mat K) : Except Err (Mat K) :=
  if A.cols ≠ B.rows then .error .badRank
  else match tabulate (A.rows * B.cols) (fun p =>
          let i := p / B.cols          -- 0-based: ab = A.begin() + i*A.cols()
          let j := p % B.cols
          sumLoop A.cols (fun k => mulRd A.data (i * A.cols + k) B.data (j + k * B.cols))) with
       | .error e => .error e
       | .ok d => .ok ⟨A.rows, B.cols, d⟩

/-- `operator*(const MatBase&, const Vec&)` -/
def mbMulVec [Add K] [Mul K] [Zero K] (A : MB K) (b : Vec K) : Except Err (Vec K) :=
  if A.cols ≠ b.size then .error .badRank
  else tabulate A.rows (fun i0 =>
         sumLoop A.cols (fun j0 =>
           match A.get (i0 + 1) (j0 + 1) with
           | .error e => .error e
           | .ok x => match rd b j0 with
                      | .error e => .error e
                      | .ok y => .ok (x * y)))

/-- `operator*(const Mat&, const Vec&)`: `*ai++ * *bi++` -/
def matMulVec [Add K] [Mul K] [Zero K] (A : Mat K) (b : Vec K) : Except Err (Vec K) :=
  if A.cols ≠ b.size then .error .badRank
  else tabulate A.rows (fun i => sumLoop A.cols (fun j => mulRd A.data (i * A.cols + j) b j))

/-! ### TransMat -/

/-- `trans(const Mat&)` = `TransMat(M)`: dimensions swapped, storage copied -/
def trans (A : Mat K) : TMat K := ⟨A.cols, A.rows, A.data⟩

/-- `Mat(const TransMat&)` : `for i, j: *p++ = M(i,j)` -/
def matOfTrans (T : TMat K) : Except Err (Mat K) :=
  match tabulate (T.rows * T.cols) (fun p => rd T.data (tmatIdx T.rows (p / T.cols + 1) (p % T.cols + 1))) with
  | .error e => .error e
  | .ok d => .ok ⟨T.rows, T.cols, d⟩

/-- `trans(const TransMat&)` : `Mat T(M.cols(), M.rows()); for j, i: *p++ = M(i,j)` -/
def transT (T : TMat K) : Except Err (Mat K) :=
  match tabulate (T.cols * T.rows) (fun p => rd T.data (tmatIdx T.rows (p % T.rows + 1) (p / T.rows + 1))) with
  | .error e => .error e
  | .ok d => .ok ⟨T.cols, T.rows, d⟩

/-- `Mat::transpose()` : `*this = trans(*this)` (through `Mat(const TransMat&)`) -/
def matTranspose (A : Mat K) : Except Err (Mat K) := matOfTrans (trans A)

/-- `operator+(const Mat& A, const TransMat& B)` : `Mat T(B); *t++ += *b++` over `A`'s storage -/
def matAddT [Add K] (A : Mat K) (B : TMat K) : Except Err (Mat K) :=
  if A.rows ≠ B.rows ∨ A.cols ≠ B.cols then .error .badRank
  else match matOfTrans B with
       | .error e => .error e
       | .ok T => match tabulate A.data.size (zipRd (fun t a => t + a) T.data A.data) with
                  | .error e => .error e
                  | .ok d => .ok ⟨T.rows, T.cols, d⟩

/-- `operator-(const Mat& A, const TransMat& B)` : `*t = *b++ - *t` -/
def matSubT [Sub K] (A : Mat K) (B : TMat K) : Except Err (Mat K) :=
  if A.rows ≠ B.rows ∨ A.cols ≠ B.cols then .error .badRank
  else match matOfTrans B with
       | .error e => .error e
       | .ok T => match tabulate A.data.size (zipRd (fun t a => a - t) T.data A.data) with
                  | .error e => .error e
                  | .ok d => .ok ⟨T.rows, T.cols, d⟩

/-- `operator+(const TransMat& A, const Mat& B)` -/
def tAddMat [Add K] (A : TMat K) (B : Mat K) : Except Err (Mat K) :=
  if A.rows ≠ B.rows ∨ A.cols ≠ B.cols then .error .badRank
  else match matOfTrans A with
       | .error e => .error e
       | .ok T => match tabulate B.data.size (zipRd (fun t b => t + b) T.data B.data) with
                  | .error e => .error e
                  | .ok d => .ok ⟨T.rows, T.cols, d⟩

def tSubMat [Sub K] (A : TMat K) (B : Mat K) : Except Err (Mat K) :=
  if A.rows ≠ B.rows ∨ A.cols ≠ B.cols then .error .badRank
  else match matOfTrans A with
       | .error e => .error e
       | .ok T => match tabulate B.data.size (zipRd (fun t b => t - b) T.data B.data) with
                  | .error e => .error e
                  | .ok d => .ok ⟨T.rows, T.cols, d⟩

/-- `TransMat::operator+(const TransMat&)`: `TransMat T(this->rows(), this->cols()); add(M, T)`.
    Models the current code (fix f2f37a8d, formerly notes/proposed/C15-transmat-ctor-dims.diff), i.e. the
    constructor `TransMat(Index r, Index c) : MatBase(r, c, r*c)`.  (Before the fix the constructor swapped
    its arguments and the result had `rows = this->cols()`, `cols = this->rows()`.) -/
def tAddT [Add K] (A B : TMat K) : Except Err (TMat K) :=
  if A.rows ≠ B.rows ∨ A.cols ≠ B.cols then .error .badRank
  else match baseAdd A.data B.data (A.rows * A.cols) with
       | .error e => .error e
       | .ok d => .ok ⟨A.rows, A.cols, d⟩

def tSubT [Sub K] (A B : TMat K) : Except Err (TMat K) :=
  if A.rows ≠ B.rows ∨ A.cols ≠ B.cols then .error .badRank
  else match baseSub A.data B.data (A.rows * A.cols) with
       | .error e => .error e
       | .ok d => .ok ⟨A.rows, A.cols, d⟩

/-- `operator*(const TransMat&, const Vec&)` : `ai = ab + i`, `ai += A.rows()` -/
def tMulVec [Add K] [Mul K] [Zero K] (A : TMat K) (b : Vec K) : Except Err (Vec K) :=
  if A.cols ≠ b.size then .error .badRank
  else tabulate A.rows (fun i => sumLoop A.cols (fun j => mulRd A.data (i + j * A.rows) b j))

/-- `operator*(const TransMat&, const Mat&)` : `a = ab (+= A.rows())`, `b = bb + j (+= B.cols())` -/
def tMulMat [Add K] [Mul K] [Zero K] (A : TMat K) (B : Mat K) : Except Err (Mat K) :=
  if A.cols ≠ B.rows then .error .badRank
  else match tabulate (A.rows * B.cols) (fun p =>
          let i := p / B.cols
          let j := p % B.cols
          sumLoop A.cols (fun k => mulRd A.data (i + k * A.rows) B.data (j + k * B.cols))) with
       | .error e => .error e
       | .ok d => .ok ⟨A.rows, B.cols, d⟩

/-- `operator*(const Mat&, const TransMat&)` : `a = ab (++)`, `b = bb + j*B.rows() (++)` -/
def matMulT [Add K] [Mul K] [Zero K] (A : Mat K) (B : TMat K) : Except Err (Mat K) :=
  if A.cols ≠ B.rows then .error .badRank
  else match tabulate (A.rows * B.cols) (fun p =>
          let i := p / B.cols
          let j := p % B.cols
          sumLoop A.cols (fun k => mulRd A.data (i * A.cols + k) B.data (j * B.rows + k))) with
       | .error e => .error e
       | .ok d => .ok ⟨A.rows, B.cols, d⟩

/-- `operator*(const TransMat&, const TransMat&)` : `a = ab (+= A.rows())`, `b = bb + j*B.rows() (++)`.
    Models the current code (fix cb8c13f3, formerly notes/proposed/C15-transmat-transmat-stride.diff;
    before the fix the stride was `B.cols()`: wrong for a non-square right operand, reads outside it
    when cols > rows) -/
def tMulT [Add K] [Mul K] [Zero K] (A B : TMat K) : Except Err (Mat K) :=
  if A.cols ≠ B.rows then .error .badRank
  else match tabulate (A.rows * B.cols) (fun p =>
          let i := p / B.cols
          let j := p % B.cols
          sumLoop A.cols (fun k => mulRd A.data (i + k * A.rows) B.data (j * B.rows + k))) with
       | .error e => .error e
       | .ok d => .ok ⟨A.rows, B.cols, d⟩

/-! ### TransVec -/

/-- `operator*(const TransVec&, const Mat&)` : `ai = aj (+= a_cols)`, `i < a_rows` -/
def tvecMulMat [Add K] [Mul K] [Zero K] (b : Vec K) (A : Mat K) : Except Err (Vec K) :=
  if b.size ≠ A.rows then .error .badRank
  else tabulate A.cols (fun j => sumLoop A.rows (fun i => mulRd b i A.data (j + i * A.cols)))

/-- `operator*(const TransVec&, const MatBase&)` : `for j ≤ A.cols(): for i ≤ A.rows(): s += b(i)*A(i,j)`.
    Models the current code (fix ef27491e, formerly notes/proposed/C15-transvec-matbase-bound.diff;
    before the fix the inner loop ran to `A.cols()`) -/
def tvecMulMB [Add K] [Mul K] [Zero K] (b : Vec K) (A : MB K) : Except Err (Vec K) :=
  if b.size ≠ A.rows then .error .badRank
  else tabulate A.cols (fun j0 =>
         sumLoop A.rows (fun i0 =>
           match rd b i0 with
           | .error e => .error e
           | .ok x => match A.get (i0 + 1) (j0 + 1) with
                      | .error e => .error e
                      | .ok y => .ok (x * y)))

/-- `operator*(const Vec& b, const TransMat& A)` (returns a `TransVec`).
    AS CODED: guard `A.rows() != b.dim()`, result of dimension `A.rows()`,
    `ai = ab + i (+= a_cols)`, `j ≤ a_cols`, `*bi++` -/
def vecMulT [Add K] [Mul K] [Zero K] (b : Vec K) (A : TMat K) : Except Err (Vec K) :=
  if A.rows ≠ b.size then .error .badRank
  else tabulate A.rows (fun i => sumLoop A.cols (fun j => mulRd A.data (i + j * A.cols) b j))

/-! ### SymMat -/

def symScale [Mul K] (A : SMat K) (f : K) : Except Err (SMat K) :=
  match baseMul A.data f (A.dim * (A.dim + 1) / 2) with
  | .error e => .error e
  | .ok d => .ok ⟨A.dim, d⟩

/-- `SymMat::operator+` (member, through `MatVecBase::add`) -/
def symAdd [Add K] (A B : SMat K) : Except Err (SMat K) :=
  if A.dim ≠ B.dim then .error .badRank
  else match baseAdd A.data B.data (A.dim * (A.dim + 1) / 2) with
       | .error e => .error e
       | .ok d => .ok ⟨A.dim, d⟩

def symSub [Sub K] (A B : SMat K) : Except Err (SMat K) :=
  if A.dim ≠ B.dim then .error .badRank
  else match baseSub A.data B.data (A.dim * (A.dim + 1) / 2) with
       | .error e => .error e
       | .ok d => .ok ⟨A.dim, d⟩

/-- free `operator+(const SymMat&, const SymMat&)`, `operator+=` : `while (a != e) *m++ = *a++ + *b++` -/
def symZipFree (f : K → K → K) (A B : SMat K) : Except Err (SMat K) :=
  if A.dim ≠ B.dim then .error .badRank
  else match tabulate A.data.size (zipRd f A.data B.data) with
       | .error e => .error e
       | .ok d => .ok ⟨A.dim, d⟩

/-- the offsets `l` visited by `l = i(i-1)/2; for k: l++; if (k > i) l += k-2;` (1-based `a[l]`),
    i.e. the packed position of `(i,k)` read through the symmetric accessor -/
def symWalk (i k : Nat) : Nat :=
  if k ≤ i then i * (i - 1) / 2 + k else k * (k - 1) / 2 + i

/-- `operator*(const SymMat&, const SymMat&)`.
    AS CODED the result is a `SymMat` holding `c(i,j) = Σ_k a(i,k) b(j,k)` for `j ≤ i` only. -/
def symMul [Add K] [Mul K] [Zero K] (A B : SMat K) : Except Err (SMat K) :=
  if A.dim ≠ B.dim then .error .badRank
  else
    let n := A.dim
    match tabulate (n * (n + 1) / 2) (fun p =>
        -- p ↦ (i,j) with j ≤ i, row by row
        let ij := triRow n p
        let i := ij.1
        let j := ij.2
        sumLoop n (fun k0 => mulRd A.data (symWalk i (k0 + 1) - 1) B.data (symWalk j (k0 + 1) - 1))) with
    | .error e => .error e
    | .ok d => .ok ⟨n, d⟩

/-- `operator*(const Mat&, const SymMat&)` : `C(m,n)`, `n = A.cols()`;
    `for k ≤ j: b[++l]` from `l = j(j-1)/2`, then `for k > j: l += j … l += k` -/
def matMulSym [Add K] [Mul K] [Zero K] (A : Mat K) (B : SMat K) : Except Err (Mat K) :=
  if A.cols ≠ B.dim then .error .badRank
  else
    let n := A.cols
    match tabulate (A.rows * n) (fun p =>
        let i := p / n
        let j := p % n + 1
        sumLoop n (fun k0 => mulRd A.data (i * n + k0) B.data (symWalk j (k0 + 1) - 1))) with
    | .error e => .error e
    | .ok d => .ok ⟨A.rows, n, d⟩

/-- `Square(const SymMat&)`, `Lower`, `Upper` (→ Mat) : `M(i,j) = M(j,i) = *m++` -/
def symSquare (A : SMat K) : Except Err (Mat K) :=
  match tabulate (A.dim * A.dim) (fun p => rd A.data (symIdx (p / A.dim + 1) (p % A.dim + 1))) with
  | .error e => .error e
  | .ok d => .ok ⟨A.dim, A.dim, d⟩

def symLowerMat [Zero K] (A : SMat K) : Except Err (Mat K) :=
  match tabulate (A.dim * A.dim) (fun p =>
      let i := p / A.dim + 1
      let j := p % A.dim + 1
      if j ≤ i then rd A.data (symIdx i j) else .ok 0) with
  | .error e => .error e
  | .ok d => .ok ⟨A.dim, A.dim, d⟩

def symUpperMat [Zero K] (A : SMat K) : Except Err (Mat K) :=
  match tabulate (A.dim * A.dim) (fun p =>
      let i := p / A.dim + 1
      let j := p % A.dim + 1
      if i ≤ j then rd A.data (symIdx i j) else .ok 0) with
  | .error e => .error e
  | .ok d => .ok ⟨A.dim, A.dim, d⟩

/-- `Lower(const Mat&)` → SymMat : `*m++ = A(i,j)`, j ≤ i -/
def matLowerSym (A : Mat K) : Except Err (SMat K) :=
  if A.rows ≠ A.cols then .error .badRank
  else match tabulate (A.rows * (A.rows + 1) / 2) (fun p =>
          let ij := triRow A.rows p
          rd A.data (matIdx A.cols ij.1 ij.2)) with
       | .error e => .error e
       | .ok d => .ok ⟨A.rows, d⟩

def matUpperSym (A : Mat K) : Except Err (SMat K) :=
  if A.rows ≠ A.cols then .error .badRank
  else match tabulate (A.rows * (A.rows + 1) / 2) (fun p =>
          let ij := triRow A.rows p
          rd A.data (matIdx A.cols ij.2 ij.1)) with
       | .error e => .error e
       | .ok d => .ok ⟨A.rows, d⟩

end
end Gama.MatVec
