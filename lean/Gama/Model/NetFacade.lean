/-
  Model of the SECOND entry point of property C01: class `LocalNetwork`
  (lib/gnu_gama/local/network.cpp), the façade gama-local puts in front of the four solvers.

  Input of the model = what `project_equations()` has assembled when it calls
  `prepareProjectEquations()` (the assembly itself is C05's `Model/LinPass.lean` and C08's
  `Model/MinX.lean`):
    * the sparse rows `Asp` of the design matrix (active observations only, in cluster order),
      the right-hand side `rhs_` (= `b` before homogenisation), the number of unknowns;
    * per cluster of `OD.clusters`: `covariance_matrix` (packed band `CovMat`) and the
      `active()` flag of every observation of `observation_list`
      (`Observation::dimension()` is 1 in gama-local, observation.h:171, so
      `activeObs() = activeDim() = activeCov().rows()`);
    * `m_0_apr_`; the list `min_x_` handed to `least_squares->min_x(min_n_, min_x_)` — ALWAYS a
      list, also when it is empty.

  `prepareProjectEquations()` (every algorithm; the dense `A`, `b` of the base class):
      for every cluster with `N = activeObs() ≠ 0`:
          C = cluster->activeCov();              -- `Cov.activeCov` (C10, Model/ActiveCov.lean)
          C /= (m_0_apr_*m_0_apr_);              -- `MatVecBase::operator/=(f)` = `operator*=(1/f)`
          Adj::choldec(C);                       -- `Cov.adjCholdec` (C10, Model/BandChol.lean):
                                                    `CovMat::cholDec` (`pivot ≤ N·ε·max diag` →
                                                    `NonPositiveDefinite`, "CovMat::cholDec(Float  tol) -
                                                    Matrix is not positive definite") + sqrt scaling
          for j = 1..cols:  t(k) = A(ind_0+k, j);  if every t(k) == 0: continue;
                            Adj::forwardSubstitution(C, t);  A(ind_0+l, j) = t(l);
          t(k) = b(ind_0+k);  Adj::forwardSubstitution(C, t);  b(ind_0+l) = t(l);
          ind_0 += N;
  The clusters partition the rows; the loop over clusters is written with `AdjM.locate`
  (block index and offset `ind_0` of a row), as in the models of class `Adj` and of
  `Homogenization::run`.

  `project_equations()` then hands over:
    * full solvers (gso, svd, cholesky — `AdjBaseFull`): `full->reset(A, b)` with the homogenised
      dense `A`, `b`;
    * sparse solver (envelope — `AdjBaseSparse`): `input.set_mat(Asp)`, a `BlockDiagonal` with one
      block `add_block(N, C.bandWidth(), C.begin())` per cluster, `C = activeCov()/m0²`,
      `input.set_rhs(rhs_)`, `sparse->reset(&input)` — i.e. the solver gets the ORIGINAL system
      with the cofactor blocks (`toProblem`), and homogenises itself (`Homogenization::run`,
      `Ls.Env.homogenize`);
    * `least_squares->min_x(min_n_, min_x_)`.

  `vyrovnani_()` post-processing:
    * full:   `r = full->residuals()` (homogenised residuals v̄); `suma_pvv_ = Σ v̄ₖ²`;
              per cluster again `C = activeCov()/m0²; Adj::choldec(C)` and
              `u(i) = Σ_{j=max(1,i-b)..i} CC(i,j)·t(j)`, `r(ind_0+l) = u(l)` — the residuals are
              transformed back to the original observations, `r = L̃ v̄`, `L̃` the LOWER factor
              (`CC(i,j)`, `j ≤ i`, of the const `CovMat`);
    * sparse: `r = sparse->residuals()`, `suma_pvv_ = sparse->sum_of_squares()`.
  Accessors: `solve()` = `least_squares->unknowns()`, `residuals()` = `r`,
  `trans_VWV()` = `suma_pvv_`, `rhs(i)` = `rhs_(i)` (never homogenised).

  Cofactors (network.h:214-228, network.cpp `vyrovnani_()` last two blocks):
    * `qxx(i,j)` = `least_squares->q_xx(i,j)`, `qbb(i,j)` = `least_squares->q_bb(i,j)` — plain
      delegation to the solver object: for the full solvers that is the solver on the HOMOGENISED
      dense system `(A, b)` of `prepareProjectEquations()` (`q_bb` = its hat matrix, NOT transformed
      back with the cluster factor), for the envelope solver the solver on `AdjInputData`
      (which homogenises itself);
    * `weight_obs(i)` = `(m_0_apr_/revised_obs_[i-1]->stdDev())²`, `stdDev()` =
      `sqrt(cluster->covariance_matrix(k,k))`, `k` the position of the observation in ITS cluster
      (passive observations keep their position), `revised_obs_` = the active observations in
      cluster order = the rows;
    * `stdev_obs(i)` = `sigma_L(i)` = `m_0()/m_0_apr_ * sqrt(q_bb(n,n)) * stdDev` with `n` running
      over the ACTIVE observations only; `wcoef_res(i)` = `vahkopr(i)` =
      `max(0, (1 - q_bb(i,i))/weight_obs(i))`.  The arithmetic of these two, of `m_0()` and of
      `degrees_of_freedom()` is NOT restated here: it is C09's regenerated `Gen/StatsGen.lean`
      (`sigmaL`, `wcoefRes`, `weightObs`, `m0`, `degreesOfFreedom`); this model only says to WHICH
      numbers they are applied.

  NOT modelled here: the repeat loop of `vyrovnani_` (huge covariances → points removed, C20),
  `singular_coords`; caching flags (C04).
  Core Lean only.
-/
import Gama.Model.ActiveCov
import Gama.Model.BandChol
import Gama.Model.Ls.Adj
import Gama.Gen.StatsGen
namespace Gama.Ls.Net
open Gama Gama.Ls Gama.Ls.Dn Gama.Ls.AdjM
variable {K : Type} [Scalar K]

/-- one `Cluster<Observation>`: covariance matrix and the `active()` flags of its observations -/
structure Cluster (K : Type) where
  cov : Cov.CovMat K
  active : List Bool
deriving Repr

/-- what `project_equations()` has assembled when the homogenisation starts -/
structure NetProblem (K : Type) where
  /-- `pocmer_` (rows), `pocet_neznamych_` (columns) -/
  m : Nat
  n : Nat
  /-- `Asp`: (1-based column, coefficient) in storage order -/
  rows : Array (Array (Nat × K))
  /-- `rhs_` -/
  rhs : Array K
  clusters : List (Cluster K)
  /-- `m_0_apr_` -/
  m0 : K
  /-- `min_x_[0..min_n_)` (1-based indices of the constrained unknowns) -/
  minx : List Nat
deriving Repr

/-- `Cluster::activeObs()` -/
def Cluster.nAct (c : Cluster K) : Nat := (c.active.filter id).length

/-- the observations as `activeCov()` sees them (`dimension() = 1`) -/
def Cluster.obs (c : Cluster K) : List Cov.ObsInfo := c.active.map fun a => ⟨a, 1⟩

/-- `MatVecBase::operator*=(f)`: every element of the buffer -/
def scaleBuf (C : Cov.CovMat K) (f : K) : Cov.CovMat K := { C with buf := C.buf.map (· * f) }

/-- `CovMat C = cluster->activeCov();  C /= (m_0_apr_*m_0_apr_);`  (covariances ⇒ cofactors) -/
def Cluster.cofactor (m0 : K) (c : Cluster K) : Cov.CovMat K :=
  scaleBuf (Cov.activeCov c.cov c.obs) (1 / (m0 * m0))

/-- `if (const int N = cluster->activeObs())` -/
def activeClusters (np : NetProblem K) : List (Cluster K) := np.clusters.filter fun c => c.nAct != 0

/-- the cofactor blocks in cluster order -/
def cofs (np : NetProblem K) : List (Cov.CovMat K) := (activeClusters np).map (Cluster.cofactor np.m0)

/-- block dimensions (`N`; `= C.rows()`) -/
def dimsN (np : NetProblem K) : List Nat := (cofs np).map (·.dim)

def errOf : Cov.Err → ErrKind
  | .BadRank => .BadRank | .BadIndex => .BadIndex | .NonPositiveDefinite => .NonPositiveDefinite

/-- `Adj::choldec(C)` of every cluster in order; the first rejected cluster throws -/
def factors : List (Cov.CovMat K) → Except ErrKind (List (Cov.CovMat K))
  | [] => .ok []
  | C :: cs =>
    match Cov.adjCholdec C with
    | .error e => .error (errOf e)
    | .ok U =>
      match factors cs with
      | .error e => .error e
      | .ok Us => .ok (U :: Us)

/-- one dense row of `A`: `A.set_zero(); … A(row, *i++) += *a++` (a repeated column is SUMMED) -/
def rowSum (n : Nat) (r : Array (Nat × K)) : Array K :=
  r.foldl (fun (acc : Array K) (cv : Nat × K) => acc.setIfInBounds (cv.1 - 1) (acc.getD (cv.1 - 1) 0 + cv.2))
    (Array.replicate n 0)

/-- the dense design matrix `A` before homogenisation -/
def denseA (np : NetProblem K) : DMat K := mmk np.m np.n fun i j => vget (rowSum np.n (np.rows.getD i #[])) j

/-- one column segment of a cluster: the `empty` test, then `Adj::forwardSubstitution(C, t)` -/
def homSeg (U : Cov.CovMat K) (t : Array K) : Array K :=
  if t.all (fun x => Scalar.beq x 0) then t else Cov.forwardSubst U t

structure Hom (K : Type) where
  /-- the Cholesky factors `Adj::choldec` left in `C`, one per active cluster -/
  Us : List (Cov.CovMat K)
  /-- `A`, `b` of the base class after `prepareProjectEquations()` -/
  Ad : DMat K
  bd : Array K

/-- `prepareProjectEquations()` -/
def prepare (np : NetProblem K) : Except ErrKind (Hom K) :=
  match factors (cofs np) with
  | .error e => .error e
  | .ok Us =>
    let A := denseA np
    let dims := dimsN np
    let Ad := mmk np.m np.n fun s j =>
      let kr := locate dims s
      let N := dims.getD kr.1 0
      vget (homSeg (Us.getD kr.1 ⟨0, 0, #[]⟩) (vmk N fun k => mget A (kr.2 + k) j)) (s - kr.2)
    let bd := vmk np.m fun s =>
      let kr := locate dims s
      let N := dims.getD kr.1 0
      vget (Cov.forwardSubst (Us.getD kr.1 ⟨0, 0, #[]⟩) (vmk N fun k => vget np.rhs (kr.2 + k))) (s - kr.2)
    .ok ⟨Us, Ad, bd⟩

/-- the system as `AdjInputData` gets it on the sparse path (and the carrier of the specification:
    `A`, `b`, the cofactor matrix `C = blockdiag(activeCov_k / m0²)`, the regularisation list) -/
def toProblem (np : NetProblem K) : Problem K :=
  { m := np.m, n := np.n, rows := np.rows
    cov := ((cofs np).map fun C => (⟨C.dim, C.band, C.buf⟩ : CovBlock K)).toArray
    rhs := np.rhs
    reg := .subset np.minx }

/-- the unit-weight problem `full->reset(A, b)` + `min_x(min_n_, min_x_)` gives a full solver -/
def dotProblem (np : NetProblem K) (h : Hom K) : Problem K :=
  AdjM.dotProblem (toProblem np) h.Ad h.bd (.subset np.minx)

/-- back-transformation of the residuals in `vyrovnani_()`:
    `m = i > b+1 ? i-b : 1;  u(i) = Σ_{j=m..i} CC(i,j)·t(j)` on the cluster containing row `s` -/
def backRes (np : NetProblem K) (Us : List (Cov.CovMat K)) (v : Array K) : Array K :=
  let dims := dimsN np
  vmk np.m fun s =>
    let kr := locate dims s
    let U := Us.getD kr.1 ⟨0, 0, #[]⟩
    let i := s - kr.2 + 1
    let m := if i > U.band + 1 then i - U.band else 1
    sumFrom m (i + 1) fun j => U.get i j * vget v (kr.2 + j - 1)

/-- `suma_pvv_ = 0; … tmp = r(ind_0+k); suma_pvv_ += tmp*tmp` over all rows in order -/
def sumSq (m : Nat) (v : Array K) : K := sumFrom 0 m fun i => vget v i * vget v i

/-- answers of a `LocalNetwork` through `solve()`, `residuals()`, `trans_VWV()` -/
structure NetAnswer (K : Type) where
  x : Array K
  r : Array K
  pvv : K
  defect : Nat
  /-- the dense `A`, `b` of the base class (homogenised), as the probe reads them -/
  Ad : DMat K
  bd : Array K
  /-- `qxx(i,j)` = `least_squares->q_xx(i,j)` (1-based) -/
  qxx : Nat → Nat → Except ErrKind K := fun _ _ => .error .NotModelled
  /-- `qbb(i,j)` = `least_squares->q_bb(i,j)` (1-based; cofactors of the HOMOGENISED adjusted observations) -/
  qbb : Nat → Nat → Except ErrKind K := fun _ _ => .error .NotModelled

/-- full solvers: gso, svd, cholesky -/
def netFull (alg : Alg) (np : NetProblem K) : Except ErrKind (NetAnswer K) :=
  match prepare np with
  | .error e => .error e
  | .ok h =>
    match solverOf (K := K) alg (dotProblem np h) with
    | .error e => .error e
    | .ok s =>
      match s.xErr with
      | some e => .error e
      | none =>
        .ok { x := s.x, r := backRes np h.Us s.r, pvv := sumSq np.m s.r, defect := s.defect, Ad := h.Ad, bd := h.bd
              qxx := s.qxx, qbb := s.qbb }

/-- sparse solver: envelope (`prepareProjectEquations()` still runs on the dense `A`, `b`, and its
    rejection comes first) -/
def netSparse (np : NetProblem K) : Except ErrKind (NetAnswer K) :=
  match prepare np with
  | .error e => .error e
  | .ok h =>
    match solverOf (K := K) .env (toProblem np) with
    | .error e => .error e
    | .ok s =>
      match s.xErr with
      | some e => .error e
      | none => .ok { x := s.x, r := s.r, pvv := s.rtr, defect := s.defect, Ad := h.Ad, bd := h.bd
                      qxx := s.qxx, qbb := s.qbb }

/-- answers of a `LocalNetwork` configured with `alg` -/
def netSolve (alg : Alg) (np : NetProblem K) : Except ErrKind (NetAnswer K) :=
  match alg with
  | .env => netSparse np
  | _ => netFull alg np

/-! ### cofactor accessors and the statistics vectors `vyrovnani_()` fills -/

/-- the answers in the vocabulary of the solver models (`Answer`): what C03/C08/C09 statements about
    `q_xx`, `q_bb`, `defect` read -/
def NetAnswer.toAnswer (a : NetAnswer K) : Answer K :=
  { x := a.x, r := a.r, rtr := a.pvv, defect := a.defect, qxx := a.qxx, qbb := a.qbb
    q0xx := fun _ _ => .error .NotModelled, qbx := fun _ _ => .error .NotModelled
    lindep := fun _ => .error .NotModelled }

/-- `revised_obs_[i]->stdDev()` in row order: `sqrt(covariance_matrix(k,k))` with `k` the (1-based)
    position of the active observation inside its cluster -/
def obsStdDev (np : NetProblem K) : Array K :=
  (np.clusters.flatMap fun c => (Cov.activeIdx 1 c.obs).map fun k => Scalar.sqrt (c.cov.get k k)).toArray

/-- `weight_obs(i)` (1-based) -/
def weightObs (np : NetProblem K) (i : Nat) : K := StatsGen.weightObs np.m0 (vget (obsStdDev np) (i - 1))

/-- `degrees_of_freedom()` = `A.rows() - A.cols() + least_squares->defect()` -/
def NetAnswer.dof (np : NetProblem K) (a : NetAnswer K) : Int := StatsGen.degreesOfFreedom np.m np.n a.defect

/-- `m_0()` for the configured kind of actual reference standard deviation -/
def NetAnswer.m0 (np : NetProblem K) (a : NetAnswer K) (act : Stats.SigmaAct) : Except String K :=
  StatsGen.m0 act np.m0 a.pvv (a.dof np)

/-- `stdev_obs(i)` = `sigma_L(i)` (1-based): `MM * sqrt(least_squares->q_bb(n,n)) * (*i)->stdDev()` -/
def NetAnswer.stdevObs (np : NetProblem K) (a : NetAnswer K) (act : Stats.SigmaAct) (i : Nat) : Except ErrKind K :=
  match a.m0 np act with
  | .error _ => .error .NotModelled
  | .ok m0 =>
    match a.qbb i i with
    | .error e => .error e
    | .ok q => .ok (StatsGen.sigmaL m0 np.m0 q (vget (obsStdDev np) (i - 1)))

/-- `wcoef_res(i)` = `vahkopr(i)` (1-based): `(1 - q_bb(i,i))/weight_obs(i)`, negative values set to 0 -/
def NetAnswer.wcoefRes (np : NetProblem K) (a : NetAnswer K) (i : Nat) : Except ErrKind K :=
  match a.qbb i i with
  | .error e => .error e
  | .ok q => .ok (StatsGen.wcoefRes q (weightObs np i))

end Gama.Ls.Net
