/-
  C13 — "adjusting the exported file gives the same adjusted coordinates, residuals and statistics without further
  linearisation iterations", with the REAL models in the place of the abstract `adj` / `step` of
  `C13_readjustment_identical`:

    * the adjustment of a state of the loop = `PE.projectEquations` (Model/ProjectEquations.lean: revision, prologue,
      the pass of the regenerated linearisation, `unknowns_`, `prepareProjectEquations()`, `singular_coords`,
      `min_x_`) followed by `Ls.Net.netSolve alg` (Model/NetFacade.lean: envelope / cholesky / gso / svd) — `peAdjust`;
    * the loop = `RA.refineAdjustment` (Model/RefineAdjustment.lean) with the tests found in the source
      (`Gen.Obsdh.refineTests`: `refine_obsdh_reductions(this)`, `TestLinearization(this)` = `TL.testLinearization` over the
      regenerated visitor, `refine_obsdh_reductions(this, true)`) — `peEnv` is the `RA.Env` whose `adjust` is `peAdjust`;
    * src/gama-local.cpp: `Acord2`, `refine_obsdh_reductions(IS)` (l.547), …, `IS->refine_adjustment()` (l.623),
      `IS->export_xml()` (l.716) — `start`, `runLocal`.

  `withState frame σ obs` puts what the loop changes — coordinates (`PD`, by position), orientations of the stand-points,
  `value() = value_ + reduction()` of the observations (`OD` in iteration order) — into the `PE.Net` that holds the rest
  (ids, clusters with their covariance matrices and `active()` flags, `m_0_apr_`): `frame`.

  `refine_approx_coordinates()` stays a parameter `ra` of `peEnv` (C13's own model of it is `Export.refineNet`, C06's is
  `GN.refine`): the theorems about the RE-adjustment hold for every `ra`, because the re-adjustment never calls it.

  `fresh` : what GKFparser builds of an observation the export wrote — class, points, stored value `value_`, `from_dh`,
  `to_dh` are in the document (`C13_roundtrip_obs`), `reduction()` is not: a new observation has reduction 0.

  `Loader` : the part that is NOT modelled — how the parsed document (`Export.Net`) becomes `PD` / `OD` (GKFparser's
  constructors, Acord2): any function of the document.  Core Lean only.
-/
import Gama.Model.RefineAdjustment
import Gama.Model.ProjectEquations
import Gama.Model.ExportAdj
namespace Gama.Rerun
open Gama Gama.Lin Gama.RA

variable {K : Type}

/-- `PD[i]` takes coordinates and status from the state of the loop -/
def setPoints (σ : Lin.Net K) : Nat → List (PE.Point K) → List (PE.Point K)
  | _, [] => []
  | i, p :: ps => { p with pt := σ.pt i } :: setPoints σ (i + 1) ps

/-- the observations of one cluster take `value()` from the next entries of `OD` -/
def setObs [TrigScalar K] : List (PE.Ob K) → List (DObs K) → List (PE.Ob K) × List (DObs K)
  | [], d => ([], d)
  | o :: os, [] => (o :: os, [])
  | o :: os, d :: ds =>
    let r := setObs os ds
    ({ o with value := d.nobs.value } :: r.1, r.2)

/-- clusters in `OD` order; the orientation of stand-point `k` is `σ.ori k` -/
def setClusters [TrigScalar K] (σ : Lin.Net K) : Nat → List (PE.Cluster K) → List (DObs K) → List (PE.Cluster K)
  | _, [], _ => []
  | k, c :: cs, d =>
    let r := setObs c.obs d
    { c with stand := c.stand.map (fun s => (s.1, s.2.map (fun _ => σ.ori k))), obs := r.1 }
      :: setClusters σ (k + 1) cs r.2

/-- the network `project_equations()` reads when the loop is in the state `(σ, obs)` -/
def withState [TrigScalar K] (frame : PE.Net K) (σ : Lin.Net K) (obs : List (DObs K)) : PE.Net K :=
  { frame with points := setPoints σ 0 frame.points, clusters := setClusters σ 0 frame.clusters obs,
               xNorth := σ.xNorth }

/-- **the real adjustment**: `project_equations()` then the solver `alg`; what the loop reads of it — the index
    fields, `solve()`, `residuals()`, `revised_obs_`.  `none` = one of the two threw -/
def peAdjust [TrigScalar K] (alg : Ls.Alg) (frame : PE.Net K) (σ : Lin.Net K) (_xyz : Nat → Bool)
    (obs : List (DObs K)) : Option (RA.Adj K) :=
  match PE.projectEquations (withState frame σ obs) with
  | .error _ => none
  | .ok (np, u) =>
    match Ls.Net.netSolve alg np with
    | .error _ => none
    | .ok a => some ⟨u.net.idx, a.x.toList, a.r.toList, PE.revisedObs u.net⟩

/-- the environment of `refine_adjustment()` with the real adjustment -/
def peEnv [TrigScalar K] (alg : Ls.Alg) (frame : PE.Net K)
    (ra : Lin.Net K → (Nat → Bool) → List (DObs K) → RA.Adj K → Lin.Net K × (Nat → Bool)) (fuel : Nat) : Env K :=
  ⟨peAdjust alg frame, ra, fuel⟩

/-- an observation as the parser builds it from the exported element: no reduction stored yet -/
def fresh [TrigScalar K] (o : DObs K) : DObs K := { o with red := 0 }

/-- gama-local.cpp l.547: `refine_obsdh_reductions(IS)` once, before anything is adjusted -/
def start [TrigScalar K] (σ : Lin.Net K) (xyz : Nat → Bool) (obs : List (DObs K)) : St K :=
  ⟨σ, xyz, (refineObsdh false σ xyz IdxState.init [] obs).1, 0⟩

/-- gama-local on a network: the state `refine_adjustment()` leaves, "left by break", `iterations > 0` -/
def runLocal [TrigScalar K] (E : Env K) (maxIter : Nat) (σ : Lin.Net K) (xyz : Nat → Bool) (obs : List (DObs K)) :
    Option (St K × Bool × Bool) :=
  refineAdjustment E maxIter (start σ xyz obs)

/-- what a run reports: the adjustment of the state the loop left (adjusted coordinates = coordinates of the state +
    `x/1000`, residuals `v`; every statistic is a function of this adjustment's problem) -/
def report [TrigScalar K] (E : Env K) (s : St K) : Option (RA.Adj K) := E.adjust s.σ s.xyz s.obs

/-- the NOT modelled stage between the parsed document and the program's `PD` / `OD`: GKFparser's constructors
    (`value_ = dm*G2R`, …), Acord2, the order of `PD`.  Any function of the document -/
structure Loader (D K : Type) where
  frame : D → PE.Net K
  σ : D → Lin.Net K
  xyz : D → Nat → Bool
  obs : D → List (DObs K)

/-- gama-local on a document: load, then run with the real adjustment -/
def runDoc {D : Type} [TrigScalar K] (L : Loader D K) (alg : Ls.Alg)
    (ra : Lin.Net K → (Nat → Bool) → List (DObs K) → RA.Adj K → Lin.Net K × (Nat → Bool)) (fuel maxIter : Nat) (d : D) :
    Option (St K × Bool × Bool) :=
  runLocal (peEnv alg (L.frame d) ra fuel) maxIter (L.σ d) (L.xyz d) (L.obs d)

/-- the document `d'` describes the state `s'` a run on `d` left: same frame (ids, statuses' carrier, clusters,
    covariances, flags), the coordinates / orientations / `test_xyz()` of `s'`, and the observations of `s'` without their
    reductions — what `export_xml` is meant to write (`C13_roundtrip_*`: the document → network half is proved; the
    `PD`/`OD` → document half is this predicate) -/
def Describes {D : Type} [TrigScalar K] (L : Loader D K) (d d' : D) (s' : St K) : Prop :=
  L.frame d' = L.frame d ∧ L.σ d' = s'.σ ∧ L.xyz d' = s'.xyz ∧ L.obs d' = s'.obs.map fresh

/-- k export–adjust rounds of a (partial) round function -/
def rounds {N E : Type} (rt : N → Except E N) : Nat → N → Except E N
  | 0, n => .ok n
  | k + 1, n =>
    match rounds rt k n with
    | .ok m => rt m
    | .error e => .error e

end Gama.Rerun
