/-
  C12 — escaping in the adjustment-XML writer.

  * `str2xmlT tbl`  : `GNU_gama::str2xml(const std::string&)` (lib/gnu_gama/xml/str2xml.cpp): a byte-wise
                      if-chain `c == k₁ → e₁ | c == k₂ → e₂ | … | else c`; the chain itself (`escMap`) is
                      regenerated from the source into `Gen/XmlSites.lean`.  C++ `std::string` = bytes,
                      so the model works on `List UInt8`.
  * `unescape`      : what an XML 1.0 processor delivers for element content that consists of character
                      data and references to the five predefined entities (XML 1.0 §2.4, §4.1, §4.6),
                      written from the recommendation, not from gama.  `none` = not well-formed
                      (`<`, an `&` that does not start `&lt; &gt; &amp; &apos; &quot;`).
                      (Character references `&#…;` are not produced by the writer and are treated as
                      not well-formed: the predicate is a sub-language of XML's `content`.)
  * `wellFormedText`/`wellFormedAttr` : CharData / AttValue (double-quoted) well-formedness.
  * `emit`          : what a writer site (Gen.XmlSites.Site) puts between its tags for a string operand.
-/
import Gama.Gen.XmlSites
namespace Gama.XmlEsc
open Gama.Gen.XmlSites

abbrev Byte := UInt8
abbrev Bytes := List UInt8

/-! ### the writer side -/

/-- one step of the if-chain: first matching key wins, default is the byte itself -/
def escByte (tbl : List (Byte × Bytes)) (c : Byte) : Bytes :=
  match tbl.lookup c with
  | some e => e
  | none => [c]

/-- `std::string str2xml(const std::string& str)` for a given if-chain -/
def str2xmlT (tbl : List (Byte × Bytes)) : Bytes → Bytes
  | [] => []
  | c :: s => escByte tbl c ++ str2xmlT tbl s

/-- `str2xml` as it is in the source tree the translator read -/
def str2xml : Bytes → Bytes := str2xmlT escMap

/-- the if-chain at the pinned commit (kept for the regression witness F10: `'` ↦ `&quot;`) -/
def escMapPinned : List (Byte × Bytes) :=
  [(60, [38, 108, 116, 59]), (62, [38, 103, 116, 59]), (38, [38, 97, 109, 112, 59]),
   (39, [38, 113, 117, 111, 116, 59])]

/-! ### the XML side (from the recommendation) -/

/-- §4.6 predefined entities: name (without `&` `;`) ↦ character -/
def entity : Bytes → Option Byte
  | [108, 116] => some 60                 -- lt   <
  | [103, 116] => some 62                 -- gt   >
  | [97, 109, 112] => some 38             -- amp  &
  | [97, 112, 111, 115] => some 39        -- apos '
  | [113, 117, 111, 116] => some 34       -- quot "
  | _ => none

/-- scanner: `none` = in character data, `some acc` = inside a reference whose name so far is
    `acc.reverse`.  Returns the replacement text or `none` if not well-formed. -/
def scan : Option Bytes → Bytes → Option Bytes
  | none, [] => some []
  | some _, [] => none
  | none, c :: r =>
    if c = 38 then scan (some []) r
    else if c = 60 then none
    else (scan none r).map (c :: ·)
  | some acc, c :: r =>
    if c = 59 then
      match entity acc.reverse with
      | some ch => (scan none r).map (ch :: ·)
      | none => none
    else scan (some (c :: acc)) r

def unescape (s : Bytes) : Option Bytes := scan none s

/-- the literal `]]>` (§2.4: must not appear in character data) -/
def hasCDEnd : Bytes → Bool
  | 93 :: 93 :: 62 :: _ => true
  | _ :: r => hasCDEnd r
  | [] => false

/-- element content made of CharData and predefined entity references only -/
def wellFormedText (s : Bytes) : Bool := (unescape s).isSome && !hasCDEnd s

/-- the value of a double-quoted attribute (§2.3 AttValue): no `<`, no bare `&`, no `"` -/
def wellFormedAttr (s : Bytes) : Bool := (unescape s).isSome && !s.contains 34

/-! ### writer sites -/

/-- what a site writes for the string operand `s` -/
def emit (site : Site) (s : Bytes) : Bytes := if site.escaped then str2xml s else s

/-- a site is safe for arbitrary strings if its operand is a number or a constant, or is escaped -/
def siteOK (site : Site) : Bool := site.kind != .text || site.escaped

/-- conditions on the if-chain under which escaping is correct; decidable, checked on the generated table:
    every replacement is the predefined entity of its key, and `<`, `>`, `&` are keys -/
def predefined : List (Bytes × Byte) :=
  [([38, 108, 116, 59], 60), ([38, 103, 116, 59], 62), ([38, 97, 109, 112, 59], 38),
   ([38, 97, 112, 111, 115, 59], 39), ([38, 113, 117, 111, 116, 59], 34)]

def goodTable (tbl : List (Byte × Bytes)) : Bool :=
  tbl.all (fun p => predefined.contains (p.2, p.1)) &&
  (tbl.lookup 60).isSome && (tbl.lookup 62).isSome && (tbl.lookup 38).isSome

/-- enough for well-formedness (not for the round trip): every replacement is *a* predefined entity -/
def weakTable (tbl : List (Byte × Bytes)) : Bool :=
  tbl.all (fun p => predefined.any (fun q => q.1 == p.2)) &&
  (tbl.lookup 60).isSome && (tbl.lookup 62).isSome && (tbl.lookup 38).isSome

/-- additionally `"` is a key: escaped text is safe inside a double-quoted attribute value -/
def goodAttrTable (tbl : List (Byte × Bytes)) : Bool := goodTable tbl && (tbl.lookup 34).isSome

end Gama.XmlEsc
