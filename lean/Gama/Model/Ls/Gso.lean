/-
  Model of `AdjGSO<double,int,Exception::matvec>` (lib/gnu_gama/adj/adj_gso.h, non-legacy
  branch: ICGS) — history-free answers of a fresh object.

  `AdjGSO::solve`: block matrix `[A -b; I 0]` stored by columns (column c ≤ N: rows 1..M = A(·,c),
  rows M+1..M+N = unit vector e_c; column N+1: −b, then zeros), `icgs.reset(data, M, N, N, 1)`,
  `icgs1()`, `icgs2()`, x = rows M+1..M+N of column N+1, r = rows 1..M of column N+1.
  `q_xx(i,j) = rowdot(M+i, M+j)`, `q_bb(i,j) = rowdot(i,j)`, `q_bx(i,j) = rowdot(i, M+j)`,
  `defect() = lindep.size()`, `lindep(i) = i ∈ lindep` (both solve first since 09cba0d),
  `sum_of_squares() = r.dot(r)` (AdjBaseFull), `q0_xx = q_xx`, `cond() = 0` (AdjBase defaults).
  Regularisation: `ICGS::min_x()` (all; also the default of a fresh object) or
  `min_x(n, list)` (a `std::set<int>`).

  The C++ performs no index checks: a regularisation index outside 1..N (used only when the
  defect is positive) or a cofactor index outside its range reads outside the array; the model
  answers `NotModelled` there.

  `gsoSolveWith refuse`: `refuse = true` is the code as it is since f703dbb (`solve()` throws
  `BadRegularization` when `icgs.error() != 0`, after x and r have been copied and `is_solved`
  set, as AdjCholDec does; a FRESH object therefore throws on every query); `refuse = false`
  is the code before that commit (`ICGS::error()` was never read: finding F6; witness in
  corpus/C02/F6-gso-nonresolving-1.txt) — no obligation refers to it any more.

  Core Lean only.
-/
import Gama.Model.Ls.Common
import Gama.Model.Ls.Gso.Icgs
namespace Gama.Ls
open Gama

namespace Gso
variable {K : Type} [Scalar K]

/-- `std::numeric_limits<double>::epsilon()*1e5` (icgs.h) -/
def tolerance : K := (1 / Scalar.ofNat (2 ^ 52)) * Scalar.ofNat 100000

/-- the columns 1..N and the column N+1 of `icgs_data` as `AdjGSO::solve` fills it -/
def augmented (M N : Nat) (a : Nat → Nat → K) (b : Nat → K) : List (Col K) × Col K :=
  ((List.range N).map fun c =>
      { top := (List.range M).map fun r => a r c,
        bot := (List.range N).map fun r => if r = c then 1 else 0 },
   { top := (List.range M).map fun r => - b r, bot := List.replicate N 0 })

/-- characteristic list of `minx` over the rows 1..N of the lower block -/
def maskOf (N : Nat) : Reg → List Bool
  | .subset l => (List.range N).map fun i => l.contains (i + 1)
  | _ => List.replicate N true

/-- `icgs1(); icgs2();` on the augmented matrix -/
def run (tol : K) (M N : Nat) (a : Nat → Nat → K) (b : Nat → K) (mask : List Bool) : R2 K :=
  let (cols, rhs) := augmented M N a b
  icgs2 tol mask (icgs1 tol cols rhs)

def entry (A : DMat K) (r c : Nat) : K := (A.getD r #[]).getD c 0

def regInRange (N : Nat) : Reg → Bool
  | .subset l => l.all fun i => 1 ≤ i && i ≤ N
  | _ => true

/-- the ICGS object of a fresh `AdjGSO` after `solve()` on problem `p` -/
def runOf (p : Problem K) : R2 K :=
  run (tolerance : K) p.m p.n (entry p.dense) (fun i => p.rhs.getD i 0) (maskOf p.n p.reg)

end Gso

open Gso in
def gsoSolveWith {K : Type} [Scalar K] (refuse : Bool) : Solver K := fun p =>
  let M := p.m
  let N := p.n
  let R := runOf p
  if !R.dep.isEmpty && !regInRange N p.reg then .error .NotModelled
  else if refuse && R.err != 0 then .error .BadRegularization
  else
    let q (lo hi : Nat) (f g : Nat → Col K → K) (i j : Nat) : Except ErrKind K :=
      if 1 ≤ i ∧ i ≤ lo ∧ 1 ≤ j ∧ j ≤ hi then .ok (rowdot R.cols (f (i - 1)) (g (j - 1)))
      else .error .NotModelled
    let t (i : Nat) (c : Col K) : K := c.top.getD i 0
    let u (i : Nat) (c : Col K) : K := c.bot.getD i 0
    .ok { x := R.rhs.bot.toArray
          r := R.rhs.top.toArray
          rtr := dot R.rhs.top R.rhs.top
          defect := R.dep.length
          qxx := q N N u u
          q0xx := q N N u u
          qbb := q M M t t
          qbx := q M N t u
          lindep := fun i => .ok (R.dep.contains i)
          cond := .ok 0 }

variable {K : Type} [Scalar K]

/-- answers of a fresh `AdjGSO` object on problem `p` (dense A, b, unit covariance) -/
def gsoSolve : Solver K := gsoSolveWith true

end Gama.Ls
