/-
  ObsNet — what the decision layer of `LocalNetwork` (`vyrovnani_`, `null_space`, `GeneralParameters`;
  `Model/NetDecision.lean`) observes of the solver OBJECT that `project_equations()` has fed, read off the
  same pieces `netSolve` (`Model/NetFacade.lean`) is made of.

  `netSolve alg np` is the composition
        prepare np            -- `prepareProjectEquations()`; its rejection leaves `project_equations()`
     ↦  fedProblem alg np     -- the system handed to `least_squares`: `full->reset(A_hom, b_hom)` +
                                 `min_x(min_n_, min_x_)` for gso / svd / cholesky (`dotProblem`), the ORIGINAL
                                 sparse system with the cofactor blocks for the envelope (`toProblem`)
     ↦  solverOf alg          -- a fresh solver object
     ↦  `s.xErr`              -- `unknowns()` throws ⇒ no `NetAnswer`
  (`netSolve_fed` in `Lemmas/C20ObsNet.lean`).  A `NetAnswer` exists only when nothing threw, but `null_space()`
  reads `defect()` and `lindep(i)` of the SAME object AFTER it caught `BadRegularization` — that state is not in
  `NetAnswer` (and must not be put there: a refused `netSolve` has no answer).  `solverObj alg p` is that object:

    * envelope:   the record `envSolve p` returns also when `unknowns()` throws (`xErr`): refusal = `xErr`,
                  `defect`, `lindep`, `q_xx` of the same record;
    * gso:        refusal = the error of `gsoSolve p`; `defect`, `lindep`, `q_xx` = the state `AdjGSO::solve()`
                  leaves before it throws (`gsoSolveWith false p`: `is_solved = true` precedes the throw);
    * cholesky:   the answer, or — after the throw — `nullity` / `invp(i) > N0` of the SAME factorisation
                  (`cholFact` does not look at the list: the record on `{p with reg := .all}`);
    * svd:        the answer, or — after the throw — the null singular values of the SAME decomposition
                  (the record on `{p with reg := .all}`: `min_subset_x` is not run).
  These are, definition by definition, the observation functions `obsEnv`, `obsGso`, `obsChol` (and, for the
  factors `Svd.decompose` returns, `obsSvdCert true wTol d`) of `Lemmas/NetWorld{Env,Gso,Chol}.lean`, which are
  stated there over an ordered field; here they are over the bare `Scalar` signature so that they run
  (`Float`, `Rat`) next to `netSolve` and `PE.projectEquations`.

  `obsNet alg : Option (NetProblem K) → SolverObs K` is the `solver` argument of `worldOf (PE.peWorld base) ·`
  (`none`: `project_equations()` threw or the configuration is not a `PointData` — nothing is asked).
  Core Lean only.
-/
import Gama.Model.NetFacade
import Gama.Model.NetWorld
namespace Gama.Ls.Net
open Gama Gama.Ls Gama.NetDecision
variable {K : Type} [Scalar K]

/-- an object every query of which throws `e` -/
def refusedObs (e : ErrKind) : SolverObs K :=
  { refused := some e, defect := 0, lindep := fun _ => false, qxx := fun _ => 0 }

/-- an object that is never asked (no system was handed over) -/
def idleObs : SolverObs K :=
  { refused := none, defect := 0, lindep := fun _ => false, qxx := fun _ => 0 }

/-- the solver object of algorithm `alg` fed with `p`, as `LocalNetwork` observes it (see the header) -/
def solverObj (alg : Alg) (p : Problem K) : SolverObs K :=
  match alg with
  | .env =>
    match envSolve p with
    | .ok a => obsOfAnswer a a.xErr
    | .error e => { refused := some e, defect := 0, lindep := fun _ => false, qxx := fun _ => 0 }
  | .gso =>
    match gsoSolveWith false p with
    | .ok a => obsOfAnswer a (match gsoSolve p with
        | .error e => some e
        | .ok _ => none)
    | .error e => { refused := some e, defect := 0, lindep := fun _ => false, qxx := fun _ => 0 }
  | .chol =>
    match cholSolve p with
    | .ok a => obsOfAnswer a none
    | .error e =>
      match cholSolve { p with reg := .all } with
      | .ok a => obsOfAnswer a (some e)
      | .error _ => { refused := some e, defect := 0, lindep := fun _ => false, qxx := fun _ => 0 }
  | .svd =>
    match svdSolve p with
    | .ok a => obsOfAnswer a none
    | .error e =>
      match svdSolve { p with reg := .all } with
      | .ok a => obsOfAnswer a (some e)
      | .error _ => { refused := some e, defect := 0, lindep := fun _ => false, qxx := fun _ => 0 }

/-- the system `project_equations()` hands to `least_squares` (after `prepareProjectEquations()`) -/
def fedProblem (alg : Alg) (np : NetProblem K) : Except ErrKind (Problem K) :=
  match prepare np with
  | .error e => .error e
  | .ok h =>
    match alg with
    | .env => .ok (toProblem np)
    | _ => .ok (dotProblem np h)

/-- **what the decision layer observes of the solver behind `netSolve alg`** -/
def obsNet (alg : Alg) : Option (NetProblem K) → SolverObs K
  | none => idleObs
  | some np =>
    match fedProblem alg np with
    | .error e => refusedObs e
    | .ok p => solverObj alg p

/-- the linearly dependent unknowns `null_space()` would read off the object behind `netSolve alg np`
    (1-based, ascending) — the observation `NetAnswer` does not carry -/
def netLindep (alg : Alg) (np : NetProblem K) : List Nat :=
  flaggedOf np.n (obsNet alg (some np)).lindep

end Gama.Ls.Net
