/-
  Shared vocabulary of the adjustment-core models (C01–C04, C08, C20):
  the problem (A, b, C, S) as it crosses the line protocol of
  `harness/adj_harness.cpp`, the error kinds of `Exception::matvec`, and the
  history-free answer record every solver model produces.

  Core Lean only.  Indices are 1-based in the protocol and in `Reg`/queries,
  0-based inside arrays.
-/
import Gama.Scalar
import Gama.Proto
namespace Gama.Ls
open Gama

/-- `GNU_gama::Exception` codes (lib/matvec/inderr.h) + markers used by the models -/
inductive ErrKind
  | BadRank | BadIndex | Singular | BadRegularization | NoConvergence | ZeroDivision
  | NonPositiveDefinite | NotImplemented | StreamError
  | adjustment      -- Exception::adjustment thrown by class Adj
  | NotModelled     -- the model does not cover this query (never produced by the C++)
deriving Repr, DecidableEq, Inhabited

def ErrKind.name : ErrKind → String
  | .BadRank => "BadRank" | .BadIndex => "BadIndex" | .Singular => "Singular"
  | .BadRegularization => "BadRegularization" | .NoConvergence => "NoConvergence"
  | .ZeroDivision => "ZeroDivision" | .NonPositiveDefinite => "NonPositiveDefinite"
  | .NotImplemented => "NotImplemented" | .StreamError => "StreamError"
  | .adjustment => "adjustment" | .NotModelled => "NotModelled"

/-- one covariance block as `BlockDiagonal` stores it: row `r` holds the diagonal element
    followed by `min(width, dim-r)` off-diagonal elements of the upper band -/
structure CovBlock (K : Type) where
  dim : Nat
  width : Nat
  v : Array K
deriving Repr

/-- regularisation list as configured: `none` (nothing configured: solver default),
    `all` (`min_x()`), `subset l` (`min_x(n, l)`, 1-based unknown indices) -/
inductive Reg
  | none | all | subset (l : List Nat)
deriving Repr, DecidableEq, Inhabited

structure Problem (K : Type) where
  m : Nat
  n : Nat
  /-- sparse rows: (1-based column, value) in storage order -/
  rows : Array (Array (Nat × K))
  cov : Array (CovBlock K)
  rhs : Array K
  reg : Reg
deriving Repr

abbrev DMat (K : Type) := Array (Array K)

namespace Problem
variable {K : Type} [Scalar K]

/-- dense design matrix: `A_dot.set_zero(); … A_dot(k,*i) += *n` — coefficients a sparse row stores with the same
    column index ADD up (class `Adj`, `LocalNetwork::project_equations` since 52e994b, `Homogenization::run` since
    6d0f7107, `Envelope::set`) -/
def dense (p : Problem K) : DMat K :=
  p.rows.map fun r => r.foldl (fun (acc : Array K) (c, v) => acc.setIfInBounds (c - 1) (acc.getD (c - 1) 0 + v))
    (Array.replicate p.n 0)

/-- dense symmetric covariance matrix -/
def covDense (p : Problem K) : DMat K := Id.run do
  let mut C : DMat K := Array.replicate p.m (Array.replicate p.m 0)
  let mut off := 0
  for b in p.cov do
    let mut k := 0
    for r in [0:b.dim] do
      for j in [r:min b.dim (r + b.width + 1)] do
        let x := b.v.getD k 0
        C := C.modify (off + r) (·.setIfInBounds (off + j) x)
        C := C.modify (off + j) (·.setIfInBounds (off + r) x)
        k := k + 1
    off := off + b.dim
  return C

def unitCov (p : Problem K) : Bool :=
  p.cov.all fun b => b.width == 0 && b.v.all (fun x => Scalar.beq x 1)

end Problem

/-- history-free answers of one solver configuration (what a fresh object returns) -/
structure Answer (K : Type) where
  x : Array K
  r : Array K
  rtr : K
  defect : Nat
  qxx : Nat → Nat → Except ErrKind K     -- 1-based
  q0xx : Nat → Nat → Except ErrKind K
  qbb : Nat → Nat → Except ErrKind K
  qbx : Nat → Nat → Except ErrKind K
  lindep : Nat → Except ErrKind Bool
  cond : Except ErrKind K := .error .NotModelled
  /-- set when `unknowns()` throws although the other queries still answer (e.g. AdjEnvelope with a
      regularisation subset that does not resolve the defect: r, rtr, defect, lindep, q0_xx, q_bb only
      need x0); the driver then prints `throw <kind>` for `x` -/
  xErr : Option ErrKind := none

/-- which queries need a successful solve (throwing kinds are propagated per query) -/
abbrev Solver (K : Type) := Problem K → Except ErrKind (Answer K)

inductive Alg | env | chol | gso | svd deriving Repr, DecidableEq, Inhabited
inductive Entry | solver | adj deriving Repr, DecidableEq, Inhabited

def Alg.parse : String → Option Alg
  | "env" => some .env | "chol" => some .chol | "gso" => some .gso | "svd" => some .svd | _ => none
def Entry.parse : String → Option Entry
  | "solver" => some .solver | "adj" => some .adj | _ => none

-- ------------------------------------------------------------------ protocol parsing
open Proto

structure PBuild (K : Type) where
  m : Nat := 0
  n : Nat := 0
  rows : Array (Array (Nat × K)) := #[]
  cov : Array (CovBlock K) := #[]
  rhs : Array K := #[]
  reg : Reg := .none

def parseRow {K} [Wire K] (ts : List String) : Option (Array (Nat × K)) :=
  let rec go : List String → Array (Nat × K) → Option (Array (Nat × K))
    | [], acc => some acc
    | c :: v :: rest, acc => do
        let ci ← c.toNat?
        let x ← Wire.parse v
        go rest (acc.push (ci, x))
    | _, _ => none
  go ts #[]

/-- feed one definition line; `none` = malformed -/
def PBuild.feed {K} [Wire K] (b : PBuild K) (ts : List String) : Option (PBuild K) :=
  match ts with
  | "row" :: k :: rest => do
      let kn ← k.toNat?
      let r ← parseRow rest
      if r.size = kn then some { b with rows := b.rows.push r } else none
  | "cov" :: d :: w :: rest => do
      let dn ← d.toNat?
      let wn ← w.toNat?
      let vs ← parseAll (K := K) rest
      some { b with cov := b.cov.push ⟨dn, wn, vs.toArray⟩ }
  | "rhs" :: rest => do
      let vs ← parseAll (K := K) rest
      some { b with rhs := vs.toArray }
  | ["minx", "none"] => some { b with reg := .none }
  | ["minx", "all"] => some { b with reg := .all }
  | "minx" :: k :: rest => do
      let kn ← k.toNat?
      let l ← rest.mapM (·.toNat?)
      if l.length = kn then some { b with reg := .subset l } else none
  | _ => none

/-- the harness' well-formedness test at `end` -/
def PBuild.finish {K} (b : PBuild K) : Option (Problem K) :=
  let covDim := b.cov.foldl (fun s c => s + c.dim) 0
  let covOk := b.cov.all fun c => c.v.size == c.dim * (c.width + 1) - c.width * (c.width + 1) / 2
  if b.rows.size = b.m ∧ b.rhs.size = b.m ∧ covDim = b.m ∧ covOk then
    some ⟨b.m, b.n, b.rows, b.cov, b.rhs, b.reg⟩
  else none

end Gama.Ls
