/-
  Model of the svd solver: `AdjSVD<double,int,Exception::matvec>` (lib/gnu_gama/adj/adj_svd.h)
  on top of `GNU_gama::SVD` (lib/matvec/svd.h) — history-free answers of a fresh object.

  A fresh `AdjSVD` (harness: `min_x…` first, then `reset(A, b)`; `Adj::init_least_squares` does the
  same) answers every query after `svd.reset(A)`, `svd()`:
    `svd()`        : `Svd.decompose` (Svd/Decomp.lean; execution only), `decomposed = 1`,
                     `set_inv_W()` (`Svd.invW` with `W_tol = Svd.wTol`), and when `defect > 0`:
                     `minV = V_` and, if `minx == subset`, `min_subset_x()` (`Svd.minSubsetX`);
    `solve()`      : `svd.solve(b, x)`, `r = A x − b`;
    `sum_of_squares` = `r·r` (AdjBaseFull); `defect()` = `svd.nullity()`;
    `lindep(i)`    = `inv_W_(i) == 0` — the i-th singular value, NOT unknown i (finding F7,
                     Props/C20/Svd.lean);
    `q_xx/q_bb/q_bx` : solve first, then the SVD sums (`BadRank` outside the index range);
    `q0_xx = q_xx` (AdjBase default); `cond()` as coded.
  A throw inside `svd()` (`NoConvergence`, `BadRegularization`) is thrown by every query of a
  fresh object.  `Reg.none` = `Reg.all` (a fresh `SVD` has `minx = all`).

  Code as it is after the fix commits 55cd4d5 (`min_x(n_list, list)` no longer shadows `n`),
  0604f50 (`is_solved = false` in `min_x`), 8e8bcb2 (`min_x()` restores `V` only when saved) —
  these three concern histories (C04), not the fresh-object answers modelled here — and b39e70e
  (`min_subset_x` refuses `s <= W_tol·‖V_k‖` instead of `s == 0`; `svdSolveBefore` is the code
  before that commit).

  `svdSolveCert` is the same solver with the factors supplied from outside: the object of the
  theorems `C01_svd_cert`, `C03_svd_*`, `C20_svd_*` (factors as a parameter); for the factors
  `decompose` returns their hypothesis is proved up to `Unambiguous tol W`
  (`Svd.decompose_svdCert`; `Props/*/SvdDecompose.lean`, `Props/C01/SvdDecomp.lean`).

  Core Lean only.
-/
import Gama.Model.Ls.Common
import Gama.Model.Ls.Svd.Post
import Gama.Model.Ls.Svd.Decomp
namespace Gama.Ls
variable {K : Type} [Scalar K]

/-- the solver with given factors `(U, W, V)` and tolerance (post-decomposition model) -/
def svdSolveCert (fixed : Bool) (tol : K) (d : Svd.Dec K) (p : Problem K) : Except ErrKind (Answer K) :=
  Svd.answerOf fixed tol p.m p.n p.dense p.rhs p.reg d

/-- answers of a fresh solver object of this algorithm on problem `p` (solver-level entry:
    dense A, b with unit covariance) -/
def svdSolveWith (fixed : Bool) : Solver K := fun p =>
  match Svd.decompose p.m p.n p.dense with
  | .error e => .error e
  | .ok d => svdSolveCert fixed Svd.wTol d p

/-- the code as it is (since b39e70e): `min_subset_x` refuses a null column whose S-norm is
    `<= W_tol·‖V_k‖` -/
def svdSolve : Solver K := svdSolveWith true

/-- the code before b39e70e: `min_subset_x` refused only on an EXACT zero `s == 0`, so a subset
    that does not resolve the defect was refused only when rounding happened to give exactly 0
    (finding SVD-F1; witness corpus/C20/svd-nonresolving-subset.ops).  Kept for that witness. -/
def svdSolveBefore : Solver K := svdSolveWith false

end Gama.Ls
