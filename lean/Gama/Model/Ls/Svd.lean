/-
  Model of the svd solver (history-free answers).  STUB: to be replaced by the real model.
-/
import Gama.Model.Ls.Common
namespace Gama.Ls
variable {K : Type} [Scalar K]

/-- answers of a fresh solver object of this algorithm on problem `p` (solver-level entry:
    sparse solvers take (A, b, C); full solvers take dense A, b with unit covariance) -/
def svdSolve : Solver K := fun _ => .error .NotModelled

end Gama.Ls
