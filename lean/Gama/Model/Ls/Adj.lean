/-
  Model of class `Adj` (lib/gnu_gama/adj/adj.cpp): history-free answers of a fresh object.

  `init_least_squares`:
    * the regularisation list of the input data (if one is stored) is handed to the solver
      (`min_x(dim, list)`); `minx none` / `minx all` of the protocol store no list, so the solver
      keeps its default;
    * sparse solver (envelope): `x`, `r`, `rtr` are the solver's, on the original (A, b, C);
    * full solvers (gso, svd, cholesky): `A_dot`, `b_dot` are homogenised block by block —
      `CovMat::cholDec` (LDLᵀ, `pivot ≤ N·ε·max diag → NonPositiveDefinite`, `N = 0 → BadRank`),
      `Adj::choldec` (scaling to a Cholesky factor `L̃`), `Adj::forwardSubstitution` of `b` and of
      every column of `A`; the solver gets `(A_dot, b_dot)`; `rtr = vᵀv` of ITS residuals;
      `r_(i) = Σ a_ik x_k - rhs(i)` with the ORIGINAL sparse row and right-hand side;
    * `q_xx` delegated; `q_bb(i,j) = Σ_{jn} a_j,jn · (Σ_{in} a_i,in · q0_xx(in, jn))` over the
      ORIGINAL sparse rows.

  The homogenisation is restated densely: the block is expanded to the dense symmetric matrix
  (zeros outside the band) and factored / substituted over all indices.  On a band matrix the
  arithmetic on the entries inside the band is the C++ one, the entries outside stay exactly 0
  (`0 - (0/pivot)·x`).  NO THEOREM relates this dense restatement (`AdjM.ldl/choldec/forwardSubst`)
  to the band-limited pointer walk (`Cov.cholDec/adjCholdec/forwardSubst`, `Model/BandChol.lean`,
  the subject of C10 and what `Net.prepare` uses): that the two compute the same numbers is
  checked by the correspondence of `drv_ls` with the C++ class `Adj` only.  What is proved about
  this model is `L̃ L̃ᵀ = C`, `L̃·A_dot = A` (Lemmas/Ls/AdjChol.lean), which is all the C01/C03
  theorems about `adjSolve` use.  The elimination step is `Chol.elim` with the identity ordering
  (the same `S -= v vᵀ/pivot`, column `/= pivot`).
-/
import Gama.Model.Ls.Common
import Gama.Model.Ls.Env
import Gama.Model.Ls.Chol
import Gama.Model.Ls.Gso
import Gama.Model.Ls.Svd
namespace Gama.Ls
variable {K : Type} [Scalar K]

def solverOf : Alg → Solver K
  | .env => envSolve | .chol => cholSolve | .gso => gsoSolve | .svd => svdSolve

namespace AdjM
open Dn

/-- `std::numeric_limits<double>::epsilon()` = 2⁻⁵² -/
def epsilon : K := Scalar.ofNat 1 / Scalar.ofNat 4503599627370496

/-- number of packed elements before row `r` (0-based) of a `dim`/`width` block -/
def rowOff (dim width r : Nat) : Nat :=
  (List.range r).foldl (fun s r' => s + (min dim (r' + width + 1) - r')) 0

/-- the block as a dense symmetric matrix, one triangle stored (`v ≤ u`), zeros outside the band -/
def blockDense (b : CovBlock K) : DMat K :=
  mmk b.dim b.dim fun u v =>
    if v ≤ u then (if u ≤ v + b.width then vget b.v (rowOff b.dim b.width v + (u - v)) else 0) else 0

/-- `q = 0; for row: q = max(B[n], q)` -/
def maxDiag (d : Nat) (a : DMat K) : K :=
  (List.range d).foldl (fun q i => Scalar.max (mget a i i) q) (0 : K)

/-- rows `row, row+1, …` of `CovMat::cholDec` (`fuel = N - row`) -/
def ldlRows (d : Nat) (tol : K) : Nat → Nat → DMat K → Except ErrKind (DMat K)
  | 0, _, a => .ok a
  | fuel + 1, row, a =>
    let pivot := mget a row row
    if pivot ≤ tol then .error .NonPositiveDefinite
    else ldlRows d tol fuel (row + 1) (Chol.elim d (pmk d id) row pivot a)

/-- `CovMat::cholDec` -/
def ldl (d : Nat) (a : DMat K) : Except ErrKind (DMat K) :=
  if d = 0 then .error .BadRank else
  ldlRows d (Scalar.ofNat d * (epsilon : K) * maxDiag d a) d 0 a

/-- scaling loop of `Adj::choldec`: `d = sqrt(chol(i,i)); chol(i,i) = d; chol(i,j) *= d` -/
def scaleChol (d : Nat) (a : DMat K) : DMat K :=
  mmk d d fun u v =>
    if v ≤ u then (if u = v then Scalar.sqrt (mget a u u) else mget a u v * Scalar.sqrt (mget a v v)) else 0

/-- `Adj::choldec`: lower Cholesky factor `L̃` (stored `v ≤ u`) -/
def choldec (b : CovBlock K) : Except ErrKind (DMat K) :=
  if b.dim ≤ b.width ∧ b.dim ≠ 0 then .error .NotModelled else
  (ldl b.dim (blockDense b)).map (scaleChol b.dim)

/-- `Adj::forwardSubstitution`: `for i: for j < i: v(i) -= chol(i,j)·v(j); v(i) /= chol(i,i)` -/
def forwardSubst (d : Nat) (L : DMat K) (v : Array K) : Array K :=
  sweep (List.range d) (fun i => i) (fun _ => 0) (fun i => i) (fun i j => mget L i j)
    (fun i => some (mget L i i)) v

/-- `Adj::choldec` of every block, in order (the first rejected block throws) -/
def factorsL : List (CovBlock K) → Except ErrKind (List (DMat K))
  | [] => .ok []
  | b :: bs =>
    match choldec b with
    | .error e => .error e
    | .ok L =>
      match factorsL bs with
      | .error e => .error e
      | .ok Ls => .ok (L :: Ls)

/-- block index and offset of the observation `s` (0-based) for the block dimensions `dims` -/
def locate : List Nat → Nat → Nat × Nat
  | [], _ => (0, 0)
  | d :: ds, s => if s < d then (0, 0) else ((locate ds (s - d)).1 + 1, (locate ds (s - d)).2 + d)

/-- homogenised `(A_dot, b_dot)` (dense `m × n`, `m`): within the block (offset `r`, dimension `d`,
    factor `L̃`) that contains row `s`, column `j` of `A_dot` is `forwardSubstitution(L̃, A(r+1..r+d, j))`
    and `b_dot` is `forwardSubstitution(L̃, rhs(r+1..r+d))` -/
def homogenise (p : Problem K) : Except ErrKind (DMat K × Array K) :=
  let A := p.dense
  let dims := p.cov.toList.map (·.dim)
  match factorsL p.cov.toList with
  | .error e => .error e
  | .ok Ls =>
    let Ad := mmk p.m p.n fun s j =>
      let kr := locate dims s
      let d := dims.getD kr.1 0
      vget (forwardSubst d (Ls.getD kr.1 #[]) (vmk d fun i => mget A (kr.2 + i) j)) (s - kr.2)
    let bd := vmk p.m fun s =>
      let kr := locate dims s
      let d := dims.getD kr.1 0
      vget (forwardSubst d (Ls.getD kr.1 #[]) (vmk d fun i => vget p.rhs (kr.2 + i))) (s - kr.2)
    .ok (Ad, bd)

/-- the unit-covariance problem handed to a full solver -/
def dotProblem (p : Problem K) (Ad : DMat K) (bd : Array K) (reg : Reg) : Problem K :=
  { m := p.m, n := p.n
    rows := Array.ofFn (n := p.m) fun i => ((List.range p.n).map fun j => (j + 1, mget Ad i.val j)).toArray
    cov := #[⟨p.m, 0, Array.replicate p.m (Scalar.ofNat 1)⟩]
    rhs := bd
    reg := reg }

/-- `r_(i) = Σ a·x_(col) - rhs(i)` over the stored sparse row -/
def origResiduals (p : Problem K) (x : Array K) : Array K :=
  vmk p.m fun i =>
    (p.rows.getD i #[]).foldl (fun s (cv : Nat × K) => s + cv.2 * vget x (cv.1 - 1)) (0 : K) - vget p.rhs i

/-- `Adj::q_bb(i,j)` (1-based) with the solver's `q0_xx` -/
def qbb (p : Problem K) (q0 : Nat → Nat → Except ErrKind K) (i j : Nat) : Except ErrKind K :=
  if 1 ≤ i ∧ i ≤ p.m ∧ 1 ≤ j ∧ j ≤ p.m then
    (p.rows.getD (j - 1) #[]).foldlM (fun (sum : K) (cj : Nat × K) => do
        let t ← (p.rows.getD (i - 1) #[]).foldlM (fun (t : K) (ci : Nat × K) => do
            let q ← q0 ci.1 cj.1
            pure (t + ci.2 * q)) (0 : K)
        pure (sum + cj.2 * t)) (0 : K)
  else .error .NotModelled

/-- the regularisation the solver object ends up with -/
def regOf : Reg → Reg
  | .subset l => .subset l
  | _ => .none

end AdjM

open AdjM Dn in
/-- sparse branch of `init_least_squares` (`AdjBaseSparse`): everything is the solver's -/
def adjSparse (alg : Alg) : Solver K := fun p =>
  let nm : Nat → Nat → Except ErrKind K := fun _ _ => .error .NotModelled
  match solverOf (K := K) alg { p with reg := regOf p.reg } with
  | .error e => .error e
  | .ok s =>
    -- `x_ = least_squares->unknowns()` : a throw there leaves `Adj` unsolved (every query throws)
    match s.xErr with
    | some e => .error e
    | none =>
    .ok { x := s.x, r := s.r, rtr := s.rtr, defect := s.defect, qxx := s.qxx, q0xx := nm,
          qbb := qbb p s.q0xx, qbx := nm, lindep := fun _ => .error .NotModelled }

open AdjM Dn in
/-- full branch of `init_least_squares` (`AdjBaseFull`): homogenise, solve, `rtr = v̄ᵀv̄`,
    residuals from the original rows -/
def adjFull (alg : Alg) : Solver K := fun p =>
  let nm : Nat → Nat → Except ErrKind K := fun _ _ => .error .NotModelled
  match homogenise p with
  | .error e => .error e
  | .ok (Ad, bd) =>
    match solverOf (K := K) alg (dotProblem p Ad bd (regOf p.reg)) with
    | .error e => .error e
    | .ok s =>
      match s.xErr with
      | some e => .error e
      | none =>
      .ok { x := s.x
            r := origResiduals p s.x
            rtr := sumFrom 0 p.m fun i => vget s.r i * vget s.r i
            defect := s.defect, qxx := s.qxx, q0xx := nm
            qbb := qbb p s.q0xx, qbx := nm, lindep := fun _ => .error .NotModelled }

/-- answers of a fresh `Adj` object configured with `alg` on problem `p` -/
def adjSolve (alg : Alg) : Solver K := fun p =>
  match alg with
  | .env => adjSparse alg p
  | _ => adjFull alg p

end Gama.Ls
