/-
  Model of class `Adj` (lib/gnu_gama/adj/adj.cpp): history-free answers of a fresh object.

  `init_least_squares`:
    * the regularisation list of the input data (if one is stored) is handed to the solver
      (`min_x(dim, list)`); `minx none` / `minx all` of the protocol store no list, so the solver
      keeps its default;
    * sparse solver (envelope): `x`, `r`, `rtr` are the solver's, on the original (A, b, C);
    * full solvers (gso, svd, cholesky): `A_dot`, `b_dot` are homogenised block by block —
      `CovMat::cholDec` (LDLᵀ, `pivot ≤ N·ε·max diag → NonPositiveDefinite`, `N = 0 → BadRank`),
      `Adj::choldec` (scaling to a Cholesky factor `L̃`), `Adj::forwardSubstitution` of `b` and of
      every column of `A`; the solver gets `(A_dot, b_dot)`; `rtr = vᵀv` of ITS residuals;
      `r_(i) = Σ a_ik x_k - rhs(i)` with the ORIGINAL sparse row and right-hand side;
    * `q_xx` delegated; `q_bb(i,j) = Σ_{jn} a_j,jn · (Σ_{in} a_i,in · q0_xx(in, jn))` over the
      ORIGINAL sparse rows.

  The homogenisation is restated densely: the block is expanded to the dense symmetric matrix
  (zeros outside the band) and factored / substituted over all indices.  On a band matrix the
  arithmetic on the entries inside the band is the C++ one, the entries outside stay exactly 0
  (`0 - (0/pivot)·x`), so the two agree; the band-limited pointer walk itself is the subject of
  C10 (`Model/BandChol.lean`).  The elimination step is `Chol.elim` with the identity ordering
  (the same `S -= v vᵀ/pivot`, column `/= pivot`).
-/
import Gama.Model.Ls.Common
import Gama.Model.Ls.Env
import Gama.Model.Ls.Chol
import Gama.Model.Ls.Gso
import Gama.Model.Ls.Svd
namespace Gama.Ls
variable {K : Type} [Scalar K]

def solverOf : Alg → Solver K
  | .env => envSolve | .chol => cholSolve | .gso => gsoSolve | .svd => svdSolve

namespace AdjM
open Dn

/-- `std::numeric_limits<double>::epsilon()` = 2⁻⁵² -/
def epsilon : K := Scalar.ofNat 1 / Scalar.ofNat 4503599627370496

/-- number of packed elements before row `r` (0-based) of a `dim`/`width` block -/
def rowOff (dim width r : Nat) : Nat :=
  (List.range r).foldl (fun s r' => s + (min dim (r' + width + 1) - r')) 0

/-- the block as a dense symmetric matrix, one triangle stored (`v ≤ u`), zeros outside the band -/
def blockDense (b : CovBlock K) : DMat K :=
  mmk b.dim b.dim fun u v =>
    if v ≤ u then (if u ≤ v + b.width then vget b.v (rowOff b.dim b.width v + (u - v)) else 0) else 0

/-- `q = 0; for row: q = max(B[n], q)` -/
def maxDiag (d : Nat) (a : DMat K) : K :=
  (List.range d).foldl (fun q i => Scalar.max (mget a i i) q) (0 : K)

/-- rows `row, row+1, …` of `CovMat::cholDec` (`fuel = N - row`) -/
def ldlRows (d : Nat) (tol : K) : Nat → Nat → DMat K → Except ErrKind (DMat K)
  | 0, _, a => .ok a
  | fuel + 1, row, a =>
    let pivot := mget a row row
    if pivot ≤ tol then .error .NonPositiveDefinite
    else ldlRows d tol fuel (row + 1) (Chol.elim d (pmk d id) row pivot a)

/-- `CovMat::cholDec` -/
def ldl (d : Nat) (a : DMat K) : Except ErrKind (DMat K) :=
  if d = 0 then .error .BadRank else
  ldlRows d (Scalar.ofNat d * (epsilon : K) * maxDiag d a) d 0 a

/-- scaling loop of `Adj::choldec`: `d = sqrt(chol(i,i)); chol(i,i) = d; chol(i,j) *= d` -/
def scaleChol (d : Nat) (a : DMat K) : DMat K :=
  mmk d d fun u v =>
    if v ≤ u then (if u = v then Scalar.sqrt (mget a u u) else mget a u v * Scalar.sqrt (mget a v v)) else 0

/-- `Adj::choldec`: lower Cholesky factor `L̃` (stored `v ≤ u`) -/
def choldec (b : CovBlock K) : Except ErrKind (DMat K) :=
  if b.dim ≤ b.width ∧ b.dim ≠ 0 then .error .NotModelled else
  (ldl b.dim (blockDense b)).map (scaleChol b.dim)

/-- `Adj::forwardSubstitution`: `for i: for j < i: v(i) -= chol(i,j)·v(j); v(i) /= chol(i,i)` -/
def forwardSubst (d : Nat) (L : DMat K) (v : Array K) : Array K :=
  (List.range d).foldl (fun (x : Array K) i =>
      x.setIfInBounds i (subFrom (vget x i) 0 i (fun j => mget L i j * vget x j) / mget L i i)) v

/-- homogenised `(A_dot, b_dot)` (dense `m × n`, `m`) -/
def homogenise (p : Problem K) : Except ErrKind (DMat K × Array K) :=
  let A := p.dense
  let step := fun (st : Nat × Array (Array K) × Array K) (blk : CovBlock K) => do
    let L ← choldec blk
    let r := st.1
    let d := blk.dim
    let t := forwardSubst d L (vmk d fun i => vget p.rhs (r + i))
    let cols : Array (Array K) := Array.ofFn (n := p.n) fun j =>
      forwardSubst d L (vmk d fun i => mget A (r + i) j.val)
    let rowsNew : Array (Array K) := Array.ofFn (n := d) fun i => vmk p.n fun j => vget (cols.getD j #[]) i.val
    pure (r + d, st.2.1 ++ rowsNew, st.2.2 ++ t)
  (p.cov.foldlM step (0, #[], #[])).map fun st => (st.2.1, st.2.2)

/-- the unit-covariance problem handed to a full solver -/
def dotProblem (p : Problem K) (Ad : DMat K) (bd : Array K) (reg : Reg) : Problem K :=
  { m := p.m, n := p.n
    rows := Array.ofFn (n := p.m) fun i => Array.ofFn (n := p.n) fun j => (j.val + 1, mget Ad i.val j.val)
    cov := #[⟨p.m, 0, Array.replicate p.m (Scalar.ofNat 1)⟩]
    rhs := bd
    reg := reg }

/-- `r_(i) = Σ a·x_(col) - rhs(i)` over the stored sparse row -/
def origResiduals (p : Problem K) (x : Array K) : Array K :=
  vmk p.m fun i =>
    (p.rows.getD i #[]).foldl (fun s (cv : Nat × K) => s + cv.2 * vget x (cv.1 - 1)) (0 : K) - vget p.rhs i

/-- `Adj::q_bb(i,j)` (1-based) with the solver's `q0_xx` -/
def qbb (p : Problem K) (q0 : Nat → Nat → Except ErrKind K) (i j : Nat) : Except ErrKind K :=
  if 1 ≤ i ∧ i ≤ p.m ∧ 1 ≤ j ∧ j ≤ p.m then
    (p.rows.getD (j - 1) #[]).foldlM (fun (sum : K) (cj : Nat × K) => do
        let t ← (p.rows.getD (i - 1) #[]).foldlM (fun (t : K) (ci : Nat × K) => do
            let q ← q0 ci.1 cj.1
            pure (t + ci.2 * q)) (0 : K)
        pure (sum + cj.2 * t)) (0 : K)
  else .error .NotModelled

/-- the regularisation the solver object ends up with -/
def regOf : Reg → Reg
  | .subset l => .subset l
  | _ => .none

end AdjM

open AdjM Dn in
/-- answers of a fresh `Adj` object configured with `alg` on problem `p` -/
def adjSolve (alg : Alg) : Solver K := fun p =>
  let nm : Nat → Nat → Except ErrKind K := fun _ _ => .error .NotModelled
  match alg with
  | .env => do
    let s ← solverOf (K := K) alg { p with reg := regOf p.reg }
    pure { x := s.x, r := s.r, rtr := s.rtr, defect := s.defect, qxx := s.qxx, q0xx := nm,
           qbb := qbb p s.q0xx, qbx := nm, lindep := fun _ => .error .NotModelled }
  | _ => do
    let (Ad, bd) ← homogenise p
    let s ← solverOf (K := K) alg (dotProblem p Ad bd (regOf p.reg))
    pure { x := s.x
           r := origResiduals p s.x
           rtr := sumFrom 0 p.m fun i => vget s.r i * vget s.r i
           defect := s.defect, qxx := s.qxx, q0xx := nm
           qbb := qbb p s.q0xx, qbx := nm, lindep := fun _ => .error .NotModelled }

end Gama.Ls
