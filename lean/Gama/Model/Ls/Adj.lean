/-
  Model of class `Adj` (lib/gnu_gama/adj/adj.cpp): homogenisation for the full solvers,
  delegation for the sparse one, `x`, `r`, `rtr`, `q_xx`, `q_bb`.
  STUB: to be replaced by the real model.
-/
import Gama.Model.Ls.Common
import Gama.Model.Ls.Env
import Gama.Model.Ls.Chol
import Gama.Model.Ls.Gso
import Gama.Model.Ls.Svd
namespace Gama.Ls
variable {K : Type} [Scalar K]

def solverOf : Alg → Solver K
  | .env => envSolve | .chol => cholSolve | .gso => gsoSolve | .svd => svdSolve

/-- answers of a fresh `Adj` object configured with `alg` on problem `p` -/
def adjSolve (alg : Alg) : Solver K := fun _ => .error .NotModelled

end Gama.Ls
