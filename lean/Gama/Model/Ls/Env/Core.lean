/-
  Dense functional restatement of the numeric kernels of the envelope solver
  (lib/gnu_gama/adj/envelope.h, adj_envelope.h), core Lean only, over `[Scalar K]`.

  Everything here works in the *new numbering* (after the ordering has been applied): the
  normal matrix is a function `N : Nat → Nat → K` (0-based), vectors are `Nat → K` or arrays.

    `Envelope::cholDec`       ↦ `ldl`      (row by row: lowerSolve, diagonalSolve, pivot,
                                             `|d| < tol → d := 0; defect++` for EVERY row,
                                             the first one included — repo commit a4c88cc)
    `Envelope::lowerSolve`    ↦ `lower`
    `Envelope::diagonalSolve` ↦ `diagS`    (`if (*d) rhs /= d else rhs = 0`)
    `Envelope::upperSolve`    ↦ `upper`
    `Envelope::solve`         ↦ `solve`
    `Envelope::inverse`       ↦ `invRec`   (Z = D⁻¹L⁻¹ + (I − Lᵀ)Z, zero rows on zero pivots)
    kernel basis of `AdjEnvelope::solve_x` ↦ `kerCol`
    Gram–Schmidt of `solve_x` ↦ `gs`

  MODELLED, not verified here: the C++ stores and visits only the cells inside the envelope
  profile; the dense model visits all cells of the lower triangle.  Cells outside the profile
  are zero in `N` and stay zero in the factor (no fill outside the envelope), so the extra
  terms are `+ 0·x`.  That equivalence (packed profile storage = dense) is property C16's
  obligation (`Gama/Model/Envelope.lean`, `Lemmas/Envelope*.lean`).

  Summation order: sums run over increasing index (`sumTo`), the C++ `lowerSolve` accumulates
  over decreasing index and `upperSolve` is column oriented; no decision depends on that.

  Tables that are filled sequentially with later cells depending on earlier ones are written
  with `build` (cell `k` is computed from the cells `0..k-1`), which gives the recursion
  equations used by the proofs (`Lemmas/Ls/EnvBuild.lean`) without a separate refinement layer.
-/
import Gama.Model.Ls.Common
namespace Gama.Ls.Env
variable {K : Type} [Scalar K]

/-- `Σ_{k<n} f k`, accumulated from `0` in increasing `k` -/
def sumTo : Nat → (Nat → K) → K
  | 0, _ => 0
  | n + 1, f => sumTo n f + f n

/-- table `#[v 0, …, v (n-1)]` with `v k = f k #[v 0, …, v (k-1)]` -/
def build {α : Type} (f : Nat → Array α → α) : Nat → Array α
  | 0 => #[]
  | k + 1 => (build f k).push (f k (build f k))

/-- vector component, `0` outside -/
@[reducible] def vget (v : Array K) (i : Nat) : K := v.getD i 0

/-- matrix entry, `0` outside -/
def mget (M : DMat K) (i j : Nat) : K := vget (M.getD i #[]) j

/-- `#[f 0, …, f (n-1)]` -/
def vecOf (n : Nat) (f : Nat → K) : Array K := Array.ofFn (n := n) fun i => f i.1

/-- `sqrt(numeric_limits<double>::epsilon())` = 2⁻²⁶, exact at `Float` and `Rat`
    (default `tol` of `Envelope::cholDec`, `s_tol` of `AdjEnvelope::solve_x`) -/
def sqrtEps : K := 1 / Scalar.ofNat 67108864

/-! ### `Envelope::cholDec` -/

/-- one row of the factor: strictly lower part `l`, pivot `d` (after the zero test) and
    whether the test fired (`defect_++`) -/
structure Row (K : Type) where
  l : Array K
  d : K
  dep : Bool

instance : Inhabited (Row K) := ⟨⟨#[], 0, false⟩⟩

/-- `L(i,j)` for `j < i` as stored in the rows computed so far -/
def Lget (rows : Array (Row K)) (i j : Nat) : K := vget (rows.getD i default).l j
def Dget (rows : Array (Row K)) (i : Nat) : K := (rows.getD i default).d
def depGet (rows : Array (Row K)) (i : Nat) : Bool := (rows.getD i default).dep

/-- `lowerSolve(start, stop, begin(row))` : `y_j = N_ij − Σ_{k<j} L_jk y_k` -/
def yRow (N : Nat → Nat → K) (rows : Array (Row K)) (i : Nat) : Array K :=
  build (fun j acc => N i j - sumTo j (fun k => Lget rows j k * vget acc k)) i

/-- `diagonalSolve(start, stop, begin(row))` : `u_j = y_j / D_j`, or `0` when `D_j == 0` -/
def lRow (rows : Array (Row K)) (y : Array K) (i : Nat) : Array K :=
  vecOf i fun j => if Scalar.beq (Dget rows j) 0 then 0 else vget y j / Dget rows j

/-- body of `for (row=1; row<=dim_; row++)` -/
def rowStep (N : Nat → Nat → K) (tol : K) (i : Nat) (rows : Array (Row K)) : Row K :=
  let l := lRow rows (yRow N rows i) i
  let d := N i i - sumTo i (fun j => vget l j * vget l j * Dget rows j)
  if Scalar.abs d < tol then ⟨l, 0, true⟩ else ⟨l, d, false⟩

/-- `cholDec(tol)` on the leading `n × n` block -/
def ldl (N : Nat → Nat → K) (tol : K) (n : Nat) : Array (Row K) := build (rowStep N tol) n

/-- `defect()` : how often the zero test fired -/
def defectOf (rows : Array (Row K)) : Nat := rows.foldl (fun c r => if r.dep then c + 1 else c) 0

/-! ### solves -/

/-- `lowerSolve(1, n, rhs)` : `z_i = c_i − Σ_{j<i} L_ij z_j` -/
def lower (rows : Array (Row K)) (n : Nat) (c : Nat → K) : Array K :=
  build (fun i acc => c i - sumTo i (fun j => Lget rows i j * vget acc j)) n

/-- `diagonalSolve(1, n, rhs)` -/
def diagS (rows : Array (Row K)) (n : Nat) (z : Nat → K) : Array K :=
  vecOf n fun i => if Scalar.beq (Dget rows i) 0 then 0 else z i / Dget rows i

/-- `upperSolve(1, n, rhs)` in reversed storage: cell `t` holds `x_{n-1-t}`,
    `x_i = w_i − Σ_{j>i} L_ji x_j` -/
def upperRev (rows : Array (Row K)) (n : Nat) (w : Nat → K) : Array K :=
  build (fun t acc => w (n - 1 - t) - sumTo t (fun s => Lget rows (n - 1 - s) (n - 1 - t) * vget acc s)) n

def upper (rows : Array (Row K)) (n : Nat) (w : Nat → K) : Array K :=
  let xr := upperRev rows n w
  vecOf n fun i => vget xr (n - 1 - i)

/-- `Envelope::solve(rhs, n)` -/
def solve (rows : Array (Row K)) (n : Nat) (c : Nat → K) : Array K :=
  upper rows n (vget (diagS rows n (vget (lower rows n c))))

/-- unit vector -/
def unit (k : Nat) : Nat → K := fun i => if i = k then 1 else 0

/-- the particular-solution cofactor `Q0(i,j)` as `AdjEnvelope::q0_xx` computes it outside the
    envelope: component `min i j` of `solve(e_{max i j})` -/
def q0 (rows : Array (Row K)) (n : Nat) (i j : Nat) : K :=
  vget (solve rows n (unit (max i j))) (min i j)

/-! ### `Envelope::inverse` (dense profile) -/

/-- entries of the symmetric `Z`; `zcols` holds, in reversed order, the columns already
    computed: cell `t` is column `step = n-1-t`, an array with `Z(i, step)` for `i ≤ step` -/
def Zget (n : Nat) (zcols : Array (Array K)) (i j : Nat) : K :=
  let a := max i j
  let b := min i j
  vget (zcols.getD (n - 1 - a) #[]) b

/-- one pass of `for (step=dim_; step>=1; step--)` : the cells `Z(i, step)`, `i ≤ step`.
    `d == 0` → zero row; else `Z(step,step) = 1/d − Σ_{k>step} L(k,step) Z(step,k)` and, for
    `i = step-1 … 0`, `Z(i,step) = − Σ_{k>i} L(k,i) Z(k,step)` (cells `k ≤ step` of the column
    being built, cells `k > step` from earlier columns) -/
def invCol (rows : Array (Row K)) (n : Nat) (t : Nat) (zcols : Array (Array K)) : Array K :=
  let step := n - 1 - t
  let d := Dget rows step
  if Scalar.beq d 0 then vecOf (step + 1) fun _ => 0 else
    let dd := (1 / d) - sumTo (n - 1 - step) (fun m => Lget rows (step + 1 + m) step * Zget n zcols step (step + 1 + m))
    -- reversed build: cell `u` is row `step - u`
    let colRev := build (fun u acc =>
        if u = 0 then dd else
          let i := step - u
          0 - sumTo (n - 1 - i) (fun m =>
                let k := i + 1 + m
                Lget rows k i * (if k ≤ step then vget acc (step - k) else Zget n zcols k step))) (step + 1)
    vecOf (step + 1) fun i => vget colRev (step - i)

/-- `q0.inverse(envelope)` : all columns, reversed -/
def invRec (rows : Array (Row K)) (n : Nat) : Array (Array K) := build (invCol rows n) n

/-- `*q0.element(i,j)` -/
def zEntry (rows : Array (Row K)) (n : Nat) (i j : Nat) : K := Zget n (invRec rows n) i j

/-! ### kernel basis and Gram–Schmidt of `AdjEnvelope::solve_x` -/

/-- `tmp(i) = *envelope.element(i, column)` (0 outside), `upperSolve`, `tmp(column) = -1` -/
def kerCol (rows : Array (Row K)) (n : Nat) (col : Nat) : Array K :=
  let tmp : Nat → K := fun i =>
    if i < col then Lget rows col i else if i = col then Dget rows col else Lget rows i col
  let g := upper rows n tmp
  vecOf n fun i => if i = col then 0 - 1 else vget g i

/-- columns with `envelope.diagonal(column) == 0`, in increasing order -/
def depCols (rows : Array (Row K)) (n : Nat) : List Nat :=
  (List.range n).filter fun c => Scalar.beq (Dget rows c) 0

/-- `dot(i,j)` over the regularisation list (positions in the new numbering, list order) -/
def dotS (S : List Nat) (a b : Array K) : K := S.foldl (fun s k => s + vget a k * vget b k) 0

/-- `a − dp·g` componentwise -/
def axmy (n : Nat) (a : Array K) (dp : K) (g : Array K) : Array K :=
  vecOf n fun i => vget a i - dp * vget g i

/-- `h` minus its `S`-components along the columns `qs`, one after the other
    (`dp = dot(column, col); G(i,col) -= dp*G(i,column)` for `column = 1, 2, …`) -/
def orthAgainst (n : Nat) (S : List Nat) (qs : List (Array K)) (h : Array K) : Array K :=
  qs.foldl (fun h q => axmy n h (dotS S q h) q) h

/-- the Gram–Schmidt loop over the kernel columns: `qs` are the columns already normalised;
    the next column (already reduced by every earlier one) is normalised over `S`,
    `pivot < s_tol → BadRegularization`.  (The C++ updates all later columns eagerly; the
    values are the same.) -/
def gsCols (n : Nat) (S : List Nat) (stol : K) : List (Array K) → List (Array K) → Except ErrKind (List (Array K))
  | qs, [] => .ok qs
  | qs, g :: rest =>
    let g' := orthAgainst n S qs g
    let pivot := Scalar.sqrt (dotS S g' g')
    if pivot < stol then .error .BadRegularization
    else gsCols n S stol (qs ++ [vecOf n fun i => vget g' i / pivot]) rest

/-- normalised kernel columns and the regularised solution (last column of `G`) -/
def gs (n : Nat) (S : List Nat) (stol : K) (cols : List (Array K)) (x : Array K) :
    Except ErrKind (List (Array K) × Array K) :=
  (gsCols n S stol [] cols).map fun qs => (qs, orthAgainst n S qs x)

/-- `T_row(row, i)` in the new numbering: `δ_ij − [j ∈ S] Σ_c G(i,c) G(j,c)` -/
def tRow (S : List Nat) (G : List (Array K)) (i : Nat) : Nat → K := fun j =>
  let t : K := if i = j then 1 else 0
  if S.contains j then G.foldl (fun t g => t - vget g i * vget g j) t else t

/-- singular `q_xx` : `Σ_k a_k / d_k · b_k` over the non-zero pivots, `a = L⁻¹ T_row(i)` -/
def qxxSing (rows : Array (Row K)) (n : Nat) (S : List Nat) (G : List (Array K)) (i j : Nat) : K :=
  let a := lower rows n (tRow S G i)
  let b := lower rows n (tRow S G j)
  sumTo n fun k => if Scalar.beq (Dget rows k) 0 then 0 else vget a k / Dget rows k * vget b k

end Gama.Ls.Env
