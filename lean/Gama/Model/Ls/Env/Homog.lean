/-
  Homogenisation as the sparse solvers do it (lib/gnu_gama/adj/homogenization.h,
  `BlockDiagonal::cholDec` and `UpperBlockDiagonal` of lib/gnu_gama/sparse/sbdiagonal.h),
  restated on dense blocks; core Lean only.

  `BlockDiagonal::cholDec(tol = 1e-14)` : per block, row by row, right looking:
      `if ((pivot = *B) < tol) return block;`            (not positive definite)
      `q = B[n]/pivot;  p[l] -= q*B[l]`                   (rows row+1 … row+k, inside the band)
      `*B++ = pivot = sqrt(pivot);  *B++ /= pivot`        (pivot row scaled)
  so the block becomes the upper factor `U` with `C = UᵀU`.
  `Homogenization::run` then sweeps the right-hand side and every column of the design
  matrix with the rows of `U` (`x = v(i)/U(i,i); v(i) = x; v(i+t) -= U(i,i+t)*x`), i.e.
  `ṽ = U⁻ᵀ v`.

  `Homogenization::run` ignores the non-zero return value of `cholDec` (a block that is not
  positive definite is used half-factored).  That path belongs to property C10
  (notes/proposed/C10-homogenization-nonpd.diff); here it is `NotModelled`.

  A sparse row with a repeated column index is outside the model (the C++ keeps both
  elements for uncorrelated blocks and overwrites for correlated ones).
-/
import Gama.Model.Ls.Env.Core
namespace Gama.Ls.Env
variable {K : Type} [Scalar K]

/-- `1e-14` -/
def bdTol : K := Scalar.ofSci 1 true 14

/-- dense upper triangle of one block (`dim × dim`, zero outside the band) -/
def blockDense (b : CovBlock K) : DMat K := Id.run do
  let mut C : DMat K := Array.replicate b.dim (Array.replicate b.dim 0)
  let mut k := 0
  for r in [0:b.dim] do
    for j in [r:min b.dim (r + b.width + 1)] do
      C := C.modify r (·.setIfInBounds j (b.v.getD k 0))
      k := k + 1
  return C

/-- `BlockDiagonal::cholDec` on one block; `none` = `return block` -/
def blockChol (tol : K) (dim width : Nat) (C0 : DMat K) : Option (DMat K) := Id.run do
  let mut C := C0
  for r in [0:dim] do
    let pivot := mget C r r
    if pivot < tol then return none
    let k := min width (dim - 1 - r)
    for n in [1:k+1] do
      let q := mget C r (r + n) / pivot
      for l in [n:k+1] do
        C := C.modify (r + n) (fun row => row.setIfInBounds (r + l) (vget row (r + l) - q * mget C r (r + l)))
    let s := Scalar.sqrt pivot
    C := C.modify r (·.setIfInBounds r s)
    for j in [1:k+1] do
      C := C.modify r (fun row => row.setIfInBounds (r + j) (vget row (r + j) / s))
  return some C

/-- forward substitution of `Homogenization::run` on the segment `off … off+dim-1` of `v` -/
def sweep (U : DMat K) (dim width off : Nat) (v0 : Array K) : Array K := Id.run do
  let mut v := v0
  for i in [0:dim] do
    let x := vget v (off + i) / mget U i i
    v := v.setIfInBounds (off + i) x
    let k := min width (dim - 1 - i)
    for t in [1:k+1] do
      v := v.setIfInBounds (off + i + t) (vget v (off + i + t) - mget U i (i + t) * x)
  return v

structure Homog (K : Type) where
  /-- homogenised design matrix, dense `m × n` -/
  At : DMat K
  /-- homogenised right-hand side -/
  bt : Array K
  /-- column pattern of each homogenised sparse row (1-based), for the ordering -/
  pat : Array (List Nat)

/-- `Homogenization::run` -/
def homogenize (p : Problem K) : Except ErrKind (Homog K) := Id.run do
  let A := p.dense
  let n := p.n
  -- columns of A as vectors of length m
  let mut cols : Array (Array K) := Array.ofFn (n := n) fun j => Array.ofFn (n := p.m) fun i => mget A i.1 j.1
  let mut bt := p.rhs
  let mut pat : Array (List Nat) := #[]
  let mut off := 0
  for blk in p.cov do
    match blockChol bdTol blk.dim blk.width (blockDense blk) with
    | none => return .error .NotModelled
    | some U =>
      bt := sweep U blk.dim blk.width off bt
      cols := cols.map fun c => sweep U blk.dim blk.width off c
      if blk.width == 0 then
        for i in [0:blk.dim] do
          pat := pat.push ((p.rows.getD (off + i) #[]).toList.map (·.1))
      else
        -- columns that occur in the block, in order of first appearance
        let mut occ : List Nat := []
        for i in [0:blk.dim] do
          for e in p.rows.getD (off + i) #[] do
            if !occ.contains e.1 then occ := occ ++ [e.1]
        for i in [0:blk.dim] do
          pat := pat.push (occ.filter fun c => !(Scalar.beq (vget (cols.getD (c - 1) #[]) (off + i)) 0))
      off := off + blk.dim
  let At : DMat K := Array.ofFn (n := p.m) fun i => Array.ofFn (n := n) fun j => vget (cols.getD j.1 #[]) i.1
  return .ok { At := At, bt := bt, pat := pat }

end Gama.Ls.Env
