/-
  Homogenisation as the sparse solvers do it (lib/gnu_gama/adj/homogenization.h,
  `BlockDiagonal::cholDec` and `UpperBlockDiagonal` of lib/gnu_gama/sparse/sbdiagonal.h);
  core Lean only.

  `BlockDiagonal::cholDec(tol = 1e-14)` : per block, row by row, right looking:
      `if ((pivot = *B) < tol) return block;`            (not positive definite)
      `q = B[n]/pivot;  p[l] -= q*B[l]`                   (rows row+1 … row+k, inside the band)
      `*B++ = pivot = sqrt(pivot);  *B++ /= pivot`        (pivot row scaled)
  so the block becomes the upper factor `U` with `C = UᵀU`.
  `Homogenization::run` then sweeps the right-hand side and every column of the design
  matrix with the rows of `U` (`x = v(i)/U(i,i); v(i) = x; v(i+t) -= U(i,i+t)*x`), i.e.
  `ṽ = U⁻ᵀ v`.

  Both kernels are the ones of property C10 (`Gama/Model/BandChol.lean`: `Cov.bdCholBlock` — the
  C++ pointer walk over the packed band storage — and `Cov.sweep`), so that ONE model of
  `BlockDiagonal::cholDec` / `Homogenization::run` is executed next to the C++ by C10 and by the
  solver checks (C01/C02/C03/C20), and the C10 theorems (`Lemmas/CovBd.lean`:
  `bdCholBlock_reproduces`, `sweep_spec`) apply to what `envSolve` runs
  (`Lemmas/Ls/ComposeHomog.lean`: `homogenize_spec`).

  A covariance block `(dim, width, v)` of the problem IS the packed `CovMat(dim, width)` buffer
  (`blockMat`).  The sweep touches, for every block, only the segment `off … off+dim-1` of the
  vector; `homVec` states that per component (block `locate`d by its row).

  A block that `cholDec` rejects (`return block`) makes `Homogenization::run` throw
  `Exception::NonPositiveDefinite` (repo commit 7e9fd7d2, C10's patch; before it the return value
  was ignored and the half-factored block was used): every query of `AdjEnvelope` then throws.

  A sparse row with a repeated column index: every consumer in the C++ adds the entries (project_equations since
  /repo 52e994b, Homogenization::run since 6d0f7107, class Adj since a7902736; Envelope::set always did), and so
  does the model since round 11 (`Problem.dense` / `rowDense` are sums, `RowsOK` is the range condition only).
-/
import Gama.Model.Ls.Env.Core
import Gama.Model.BandChol
namespace Gama.Ls.Env
variable {K : Type} [Scalar K]

/-- `1e-14` -/
def bdTol : K := Scalar.ofSci 1 true 14

/-- the covariance block as `BlockDiagonal` stores it: a packed `CovMat(dim, width)` buffer -/
def blockMat (b : CovBlock K) : Cov.CovMat K := ⟨b.dim, b.width, b.v⟩

/-- `BlockDiagonal::cholDec(1e-14)` : every block in order; `none` = some block was rejected
    (`return block`) -/
def factorsU : List (CovBlock K) → Option (List (Cov.CovMat K))
  | [] => some []
  | b :: bs =>
    match Cov.bdCholBlock bdTol (blockMat b) with
    | .error _ => none
    | .ok F =>
      match factorsU bs with
      | none => none
      | some Fs => some (F :: Fs)

/-- block index and offset of the observation `s` (0-based) for the block dimensions `dims` -/
def locate : List Nat → Nat → Nat × Nat
  | [], _ => (0, 0)
  | d :: ds, s => if s < d then (0, 0) else ((locate ds (s - d)).1 + 1, (locate ds (s - d)).2 + d)

/-- forward substitution of `Homogenization::run` on a whole vector `v` of length `m`: within the
    block (offset `r`, dimension `d`, factor `F`) that contains row `s`, the result is
    `sweep F (v(r) … v(r+d-1))` -/
def homVec (dims : List Nat) (Fs : List (Cov.CovMat K)) (m : Nat) (v : Nat → K) : Array K :=
  vecOf m fun s =>
    let kr := locate dims s
    let d := dims.getD kr.1 0
    vget (Cov.sweep (Fs.getD kr.1 ⟨0, 0, #[]⟩) (vecOf d fun i => v (kr.2 + i))) (s - kr.2)

/-- columns that occur in the rows of one block, in order of first appearance -/
def occOf (rows : List (Array (Nat × K))) : List Nat :=
  rows.foldl (fun occ r => r.foldl (fun occ e => if occ.contains e.1 then occ else occ ++ [e.1]) occ) []

/-- column pattern of the homogenised sparse rows of one block: an uncorrelated block keeps the
    pattern of each row; a correlated block gets, in every row, the columns that occur anywhere in
    the block and whose homogenised value is non-zero -/
def blockPat (p : Problem K) (At : DMat K) (off : Nat) (blk : CovBlock K) : List (List Nat) :=
  if blk.width == 0 then
    (List.range blk.dim).map fun i => (p.rows.getD (off + i) #[]).toList.map (·.1)
  else
    let occ := occOf ((List.range blk.dim).map fun i => p.rows.getD (off + i) #[])
    (List.range blk.dim).map fun i => occ.filter fun c => !(Scalar.beq (mget At (off + i) (c - 1)) 0)

def patOf (p : Problem K) (At : DMat K) : List (CovBlock K) → Nat → List (List Nat)
  | [], _ => []
  | b :: bs, off => blockPat p At off b ++ patOf p At bs (off + b.dim)

structure Homog (K : Type) where
  /-- homogenised design matrix, dense `m × n` -/
  At : DMat K
  /-- homogenised right-hand side -/
  bt : Array K
  /-- column pattern of each homogenised sparse row (1-based), for the ordering -/
  pat : Array (List Nat)

/-- `Homogenization::run` -/
def homogenize (p : Problem K) : Except ErrKind (Homog K) :=
  match factorsU p.cov.toList with
  | none => .error .NonPositiveDefinite
  | some Fs =>
    let A := p.dense
    let dims := p.cov.toList.map (·.dim)
    -- homogenised columns of A (vectors of length m)
    let cols : Array (Array K) := Array.ofFn (n := p.n) fun j => homVec dims Fs p.m (fun i => mget A i j.1)
    let At : DMat K := Array.ofFn (n := p.m) fun i => Array.ofFn (n := p.n) fun j => vget (cols.getD j.1 #[]) i.1
    .ok { At := At, bt := homVec dims Fs p.m (vget p.rhs), pat := (patOf p At p.cov.toList 0).toArray }

end Gama.Ls.Env
