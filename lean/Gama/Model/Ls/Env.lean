/-
  Model of `GNU_gama::AdjEnvelope` (lib/gnu_gama/adj/adj_envelope.h): history-free answers
  of a fresh object.  Core Lean only.

  Order of decisions as coded:
    solve_ordering : homogenisation (`Env/Homog.lean`), ordering, `tmpvec = Ãᵀb̃` and the
                     normal matrix `N = ÃᵀÃ` in the new numbering (`Envelope::set`);
    solve_x0       : `cholDec`, `solve`, `x0(perm(i)) = tmpvec(i)`, `squares = Σ(ã·x0 − b̃)²`,
                     `nullity = envelope.defect()`;
    residuals      : `A x0 − b` with the ORIGINAL `A`, `b` (and `x0`, not `x`);
    solve_x        : `defect = 0 → x = x0`; else kernel columns from the zero pivots,
                     Gram–Schmidt over `min_x_list` (`pivot < s_tol → BadRegularization`);
    q0_xx          : full-inverse column `solve(e_max)[min]` as the C++ computes it outside the
                     envelope.  Inside the envelope the C++ reads the sparse inverse
                     `Envelope::inverse` (dense restatement: `Env.invRec`/`Env.zEntry`); in exact
                     arithmetic both are `L⁻ᵀD⁺L⁻¹` — PROVED for all sizes
                     (`C03_env_sparse_inverse_eq_full`, Props/C03/EnvInverse.lean; also compared on
                     every index pair by the C03 correspondence, max deviation 5e-15);
    q_xx           : regular → `q0_xx`; singular → `solve_x` (may throw), `Σ a_k/d_k·b_k`;
    q_bb           : `ã_i · solve(ã_jᵀ)` (both C++ branches);
    q_bx           : throws `Exception::BadRegularization` ("q_bx not implemented");
    lindep(i)      : `envelope.diagonal(ordering.invp(i)) == 0` (`lindepFixed`; repo commit
                     fcb9aa0).  Before that fix the C++ indexed the factor (which lives in the
                     new numbering) with the ORIGINAL index `i`; `lindepAsCoded` keeps that
                     behaviour for the recorded witness (Props/C20/Env.lean,
                     corpus/C20/env-lindep-ordering.ops).

  The ordering is an input (`EnvOrd`): theorems hold for every permutation; the executable
  model computes the same reverse Cuthill–McKee ordering as the code (`Gama/Model/RCM.lean`,
  property C16) from the column pattern of the homogenised sparse matrix.

  The ordering is the code's (`rcmOrd`) and valid: `C01_envsolve_ordering` (from C16's
  `rcm_isPerm`); the homogenisation computes `(W A, W b)` with `WᵀW = C⁻¹`:
  `C01_envsolve_homogenize` (from C10's theorems about the very kernels `homogenize` calls);
  the theorems about `envSolve p` itself are in Props/C01/EnvSolve.lean, Props/C03/EnvSolve.lean,
  Props/C02EnvSolve.lean.
  MODELLED (not verified here): profile/packed storage of the envelope = dense lower
  triangle (C16).
-/
import Gama.Model.Ls.Common
import Gama.Model.Ls.Env.Core
import Gama.Model.Ls.Env.Homog
import Gama.Model.RCM
namespace Gama.Ls
variable {K : Type} [Scalar K]

/-- ordering, 0-based: `perm[new] = old`, `invp[old] = new` -/
structure EnvOrd where
  perm : Array Nat
  invp : Array Nat
deriving Repr

namespace Env

def idOrd (n : Nat) : EnvOrd := ⟨Array.range n, Array.range n⟩

/-- `SparseMatrixGraph(hom.mat())` + `ReverseCuthillMcKee` on the homogenised pattern -/
def rcmOrd (n : Nat) (pat : Array (List Nat)) : EnvOrd :=
  let edges := pat.foldl (fun es cols => rowEdges cols es) []
  let o := rcm (adjOfEdges n edges)
  ⟨Array.ofFn (n := n) fun i => o.perm[i.1 + 1]! - 1, Array.ofFn (n := n) fun i => o.invp[i.1 + 1]! - 1⟩

/-- everything `solve_x0` leaves behind, in the new numbering -/
structure Fact (K : Type) where
  m : Nat
  n : Nat
  /-- homogenised design matrix with permuted columns: `Ap r i = Ã r (perm i)` -/
  Ap : Nat → Nat → K
  bt : Nat → K
  N : DMat K
  c : Array K
  rows : Array (Row K)
  x0p : Array K

def factor (tol : K) (m n : Nat) (At : DMat K) (bt : Array K) (o : EnvOrd) : Fact K :=
  let Ap : Nat → Nat → K := fun r i => mget At r (o.perm.getD i 0)
  let N : DMat K := Array.ofFn (n := n) fun i => vecOf n fun j => sumTo m fun r => Ap r i.1 * Ap r j
  let c : Array K := vecOf n fun i => sumTo m fun r => Ap r i * vget bt r
  let rows := ldl (mget N) tol n
  { m := m, n := n, Ap := Ap, bt := vget bt, N := N, c := c, rows := rows, x0p := solve rows n (vget c) }

/-- `squares` : `Σ_r (Σ_j ã_rj x0_j − b̃_r)²` -/
def squares (f : Fact K) : K :=
  sumTo f.m fun r =>
    let t := sumTo f.n (fun i => f.Ap r i * vget f.x0p i) - f.bt r
    t * t

/-- regularisation list in the new numbering (`ordering.invp(min_x_list[k])`) -/
def regList (n : Nat) (o : EnvOrd) : Reg → List Nat
  | .none => (List.range n).map fun i => o.invp.getD i 0
  | .all => (List.range n).map fun i => o.invp.getD i 0
  | .subset l => l.map fun k => o.invp.getD (k - 1) 0

/-- `solve_x` : normalised kernel columns `G` and `x` (both in the new numbering) -/
def solveX (f : Fact K) (S : List Nat) (stol : K) : Except ErrKind (List (Array K) × Array K) :=
  if defectOf f.rows = 0 then .ok ([], f.x0p)
  else gs f.n S stol ((depCols f.rows f.n).map (kerCol f.rows f.n)) f.x0p

end Env

open Env

/-- per-query answers (the shared `Answer` cannot express that `unknowns()` throws while
    `residuals()`, `sum_of_squares()`, `defect()`, `lindep()` do not) -/
structure EnvAnswer (K : Type) where
  fact : Fact K
  ord : EnvOrd
  x : Except ErrKind (Array K)
  r : Array K
  rtr : K
  defect : Nat
  qxx : Nat → Nat → Except ErrKind K
  q0xx : Nat → Nat → Except ErrKind K
  qbb : Nat → Nat → Except ErrKind K
  qbx : Nat → Nat → Except ErrKind K
  lindepAsCoded : Nat → Except ErrKind Bool
  lindepFixed : Nat → Except ErrKind Bool

/-- the solver on an already homogenised system `(At, bt)`; residuals with the original `(A, b)` -/
def envCore (tol stol : K) (m n : Nat) (A : DMat K) (b : Array K) (At : DMat K) (bt : Array K)
    (reg : Reg) (o : EnvOrd) : EnvAnswer K :=
  let f := factor tol m n At bt o
  let S := regList n o reg
  let sx := solveX f S stol
  let x0 : Array K := vecOf n fun j => vget f.x0p (o.invp.getD j 0)
  let inr (i : Nat) (k : Nat) : Bool := 1 ≤ i && i ≤ k
  let nw (i : Nat) : Nat := o.invp.getD (i - 1) 0
  { fact := f, ord := o
    x := sx.map fun gx => vecOf n fun j => vget gx.2 (o.invp.getD j 0)
    r := vecOf m fun i => sumTo n (fun j => mget A i j * vget x0 j) - vget b i
    rtr := squares f
    defect := defectOf f.rows
    q0xx := fun i j => if inr i n && inr j n then .ok (q0 f.rows n (nw i) (nw j)) else .error .NotModelled
    qxx := fun i j =>
      if !(inr i n && inr j n) then .error .NotModelled
      else if defectOf f.rows = 0 then .ok (q0 f.rows n (nw i) (nw j))
      else sx.map fun gx => qxxSing f.rows n S gx.1 (nw i) (nw j)
    qbb := fun i j =>
      if inr i m && inr j m then
        let t := solve f.rows n (fun k => f.Ap (j - 1) k)
        .ok (sumTo n fun k => f.Ap (i - 1) k * vget t k)
      else .error .NotModelled
    qbx := fun _ _ => .error .BadRegularization
    lindepAsCoded := fun i => if inr i n then .ok (Scalar.beq (Dget f.rows (i - 1)) 0) else .error .NotModelled
    lindepFixed := fun i => if inr i n then .ok (Scalar.beq (Dget f.rows (nw i)) 0) else .error .NotModelled }

/-- `AdjEnvelope` on problem `p` with a given ordering -/
def envAnswerOrd (p : Problem K) (ord : Array (List Nat) → EnvOrd) : Except ErrKind (EnvAnswer K) :=
  match homogenize p with
  | .error e => .error e
  | .ok h => .ok (envCore sqrtEps sqrtEps p.m p.n p.dense p.rhs h.At h.bt p.reg (ord h.pat))

/-- `AdjEnvelope` as coded: reverse Cuthill–McKee ordering of the homogenised pattern -/
def envAnswer (p : Problem K) : Except ErrKind (EnvAnswer K) := envAnswerOrd p (rcmOrd p.n)

/-- answers of a fresh solver object of this algorithm on problem `p` (shared vocabulary);
    `lindep` is the repaired `diagonal(ordering.invp(i))` (repo commit fcb9aa0) -/
def envSolve : Solver K := fun p =>
  match envAnswer p with
  | .error e => .error e
  | .ok a =>
    let xs : Array K × Option ErrKind := match a.x with
      | .error e => (#[], some e)
      | .ok x => (x, none)
    .ok { x := xs.1, xErr := xs.2, r := a.r, rtr := a.rtr, defect := a.defect, qxx := a.qxx, q0xx := a.q0xx
          qbb := a.qbb, qbx := a.qbx, lindep := a.lindepFixed }

end Gama.Ls
