/-
  Model of class `ICGS` (lib/gnu_gama/adj/icgs.{h,cpp}) as `AdjGSO::solve` uses it:
  block matrix `[A11 A12; A21 A22]` stored by columns, `N2 = 1` (one right-hand side).

  A storage column is a pair (top = rows 1..M1, bottom = rows M1+1..M1+M2).  Every loop of the
  C++ that runs over a whole column (`while (p < p_end_M12)`, `cscale1st`, `ccopy1st`) acts on
  both parts; the loops of the second phase (`cscale2nd`, `ccopy2nd`, `p_ak + M1 …`) act on the
  bottom only.  The arithmetic (operands, order of the additions) is the C++'s:

    dot      `s = 0; while (…) s += *p++ * *q++;`
    axpy     `*p++ -= r_jk * *q++`
    scale    `*column++ *= sc`     with `sc = 1/rkk`
    dotM     `for (int i : minx) s += p[i]*q_j[i];`  (`std::set` iterates in ascending order;
             the set is represented by its characteristic list over rows 1..M2)

  `icgs1`: for k = 1..N1+1: copy column k, two classical passes against the columns 1..min(k-1,N1)
  already processed (all `r_jk` of a pass are computed from the same `p`, then subtracted in
  order), for k ≤ N1 the test `rkk > tolerance` (normalise) else `lindep.insert(k)`.
  (The C++ treats k = 1 before the loop; it is the general step with `jmax = 0`.)

  `icgs2`: nothing if `defect() == 0`; column *pointers* of the dependent columns are swapped to
  the front (`std::swap(column[t++], column[z])`, z ascending), the storage does not move;
  second orthogonalisation of the bottoms in pointer order over the rows in `minx`, test
  `rkk > tolerance` else `error_icgs2_defect++`; bottoms of the first `defect()` pointer columns
  are multiplied by 0.

  Every norm that is compared with the tolerance is also recorded in `tested`, so that the
  hypothesis "rank numerically unambiguous" can be stated about the model's own run.

  Core Lean only.
-/
import Gama.Scalar
namespace Gama.Ls.Gso
open Gama

variable {K : Type} [Scalar K]

-- ------------------------------------------------------------------ vector kernels

def dotAux : K → List K → List K → K
  | s, a :: u, b :: v => dotAux (s + a * b) u v
  | s, _, _ => s

/-- `s = 0; s += u_i * v_i` -/
def dot (u v : List K) : K := dotAux 0 u v

/-- `p_i -= r * q_i` -/
def vaxpy (p : List K) (r : K) (q : List K) : List K := List.zipWith (fun a b => a - r * b) p q

/-- `p_i *= s` -/
def vscale (p : List K) (s : K) : List K := p.map (· * s)

def dotMAux : K → List Bool → List K → List K → K
  | s, m :: ms, a :: u, b :: v => dotMAux (if m then s + a * b else s) ms u v
  | s, _, _, _ => s

/-- dot product over the rows selected by the mask (`minx`) -/
def dotM (mask : List Bool) (u v : List K) : K := dotMAux 0 mask u v

/-- one storage column of the block matrix -/
structure Col (K : Type) where
  top : List K
  bot : List K
deriving Repr

def Col.axpy (p : Col K) (r : K) (q : Col K) : Col K := ⟨vaxpy p.top r q.top, vaxpy p.bot r q.bot⟩
def Col.scale (p : Col K) (s : K) : Col K := ⟨vscale p.top s, vscale p.bot s⟩

-- ------------------------------------------------------------------ icgs1

/-- `for j: p -= q_j * r_jk` over the whole column -/
def subAll : Col K → List K → List (Col K) → Col K
  | p, r :: rs, q :: qs => subAll (p.axpy r q) rs qs
  | p, _, _ => p

/-- one classical Gram–Schmidt pass of `icgs1` (dot products over the top block) -/
def cgs1 (qs : List (Col K)) (p : Col K) : Col K :=
  subAll p (qs.map fun q => dot p.top q.top) qs

/-- `for (iter = 1; iter <= 2; iter++)` -/
def orth1 (qs : List (Col K)) (p : Col K) : Col K := cgs1 qs (cgs1 qs p)

/-- `norm1st` -/
def norm1 (p : Col K) : K := Scalar.sqrt (dot p.top p.top)

structure S1 (K : Type) where
  /-- processed columns 1..k-1 in storage order -/
  qs : List (Col K) := []
  /-- `lindep` (1-based column numbers, ascending) -/
  dep : List Nat := []
  /-- the norms compared with the tolerance so far -/
  tested : List K := []

def step1 (tol : K) (s : S1 K) (c : Col K) : S1 K :=
  let p := orth1 s.qs c
  let rkk := norm1 p
  if tol < rkk then { qs := s.qs ++ [p.scale (1 / rkk)], dep := s.dep, tested := s.tested ++ [rkk] }
  else { qs := s.qs ++ [p], dep := s.dep ++ [s.qs.length + 1], tested := s.tested ++ [rkk] }

/-- state of the object after `icgs1()` -/
structure R1 (K : Type) where
  cols : List (Col K)
  rhs : Col K
  dep : List Nat
  tested : List K

def icgs1 (tol : K) (cols : List (Col K)) (rhs : Col K) : R1 K :=
  let s := cols.foldl (step1 tol) {}
  { cols := s.qs, rhs := orth1 s.qs rhs, dep := s.dep, tested := s.tested }

-- ------------------------------------------------------------------ icgs2

def swapAt {α : Type} (l : List α) (i j : Nat) : List α :=
  match l[i]?, l[j]? with
  | some a, some b => (l.set i b).set j a
  | _, _ => l

/-- `int t = 1; for (int z : lindep) std::swap(column[t++], column[z]);` (0-based `t`) -/
def movePtrsAux {α : Type} : Nat → List α → List Nat → List α
  | _, l, [] => l
  | t, l, z :: zs => movePtrsAux (t + 1) (swapAt l t (z - 1)) zs

def movePtrs {α : Type} (l : List α) (dep : List Nat) : List α := movePtrsAux 0 l dep

def subAllB : List K → List K → List (List K) → List K
  | p, r :: rs, q :: qs => subAllB (vaxpy p r q) rs qs
  | p, _, _ => p

/-- one pass of `icgs2`: dot products over `minx`, subtraction over the whole lower block -/
def cgs2 (mask : List Bool) (ks : List (List K)) (p : List K) : List K :=
  subAllB p (ks.map fun q => dotM mask p q) ks

def orth2 (mask : List Bool) (ks : List (List K)) (p : List K) : List K :=
  cgs2 mask ks (cgs2 mask ks p)

/-- `norm2nd` -/
def norm2 (mask : List Bool) (p : List K) : K := Scalar.sqrt (dotM mask p p)

structure S2 (K : Type) where
  /-- processed bottoms of the pointer columns 1..k-1 (k ≤ defect) -/
  ks : List (List K) := []
  /-- `error_icgs2_defect` -/
  err : Nat := 0
  tested : List K := []

def step2 (tol : K) (mask : List Bool) (s : S2 K) (c : List K) : S2 K :=
  let p := orth2 mask s.ks c
  let rkk := norm2 mask p
  if tol < rkk then { ks := s.ks ++ [vscale p (1 / rkk)], err := s.err, tested := s.tested ++ [rkk] }
  else { ks := s.ks ++ [p], err := s.err + 1, tested := s.tested ++ [rkk] }

/-- state of the object after `icgs2()` -/
structure R2 (K : Type) where
  /-- columns 1..N1 in *storage* order (what `row[]`/`rowdot` walk over) -/
  cols : List (Col K)
  rhs : Col K
  dep : List Nat
  err : Nat
  tested : List K
  /-- the second-phase kernel basis before it is zeroed (pointer columns 1..defect); not
      observable in the C++ after `icgs2`, kept for the statements of the theorems -/
  ks : List (List K)

/-- pointer-order processing of the lower block; `ord` = (storage index, column) in pointer order -/
def phase2 (tol : K) (mask : List Bool) (d : Nat) (ord : List (Nat × Col K)) (rhs : Col K) :
    S2 K × List (Nat × Col K) × Col K :=
  let s := (ord.take d).foldl (fun s c => step2 tol mask s c.2.bot) {}
  let rest := (ord.drop d).map fun c => (c.1, ({ top := c.2.top, bot := orth2 mask s.ks c.2.bot } : Col K))
  -- `for (i = 1; i <= defect(); i++) cscale2nd(column[i], 0);`
  let zeroed := (List.zip (ord.take d) s.ks).map fun (c, k) => (c.1, ({ top := c.2.top, bot := vscale k 0 } : Col K))
  (s, zeroed ++ rest, { top := rhs.top, bot := orth2 mask s.ks rhs.bot })

def icgs2 (tol : K) (mask : List Bool) (r : R1 K) : R2 K :=
  if r.dep.isEmpty then
    { cols := r.cols, rhs := r.rhs, dep := r.dep, err := 0, tested := r.tested, ks := [] }
  else
    let idx := (List.range r.cols.length).zip r.cols
    let ord := movePtrs idx r.dep
    let (s, out, rhs) := phase2 tol mask r.dep.length ord r.rhs
    { cols := (out.mergeSort fun a b => a.1 ≤ b.1).map (·.2), rhs := rhs, dep := r.dep, err := s.err,
      tested := r.tested ++ s.tested, ks := s.ks }

/-- `ICGS::rowdot`: `s = 0; for n = 1..N1: s += *ri * *rj` over the storage columns -/
def rowdot (cols : List (Col K)) (fi fj : Col K → K) : K := dot (cols.map fi) (cols.map fj)

end Gama.Ls.Gso
