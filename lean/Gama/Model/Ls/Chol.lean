/-
  Model of `GNU_gama::AdjCholDec` (lib/gnu_gama/adj/adj_chol.h): history-free answers of a
  fresh object.  Dense functional restatement of `solve()` and of the queries, same order of
  decisions.  Core Lean only; indices are 0-based inside (`perm k` = original index of the
  unknown at position `k`).

  solve():
    * normal equations `mat = AᵀA` (SymMat: one stored triangle), `rhs = Aᵀb`;
    * for column = 1..N: pivot = largest diagonal among positions ≥ column (strict `>`: the first
      of equal candidates wins), swap in `perm`; `pivot ≤ s_tol` → zero the trailing block,
      `nullity = N - column + 1`, stop; else Schur update `S -= v vᵀ/pivot`, column `/= pivot`
      (an LDLᵀ factorisation: no square root);
    * `N0 = N - nullity`; x0: forward substitution, division by the pivots, backward
      substitution over the positions `1..N0`, in place, indexed through `perm`;
    * `r = A x0 - b` over the independent columns;
    * `Q0`: the recursion `Z = D⁻¹L⁻¹ + (I - Lᵀ)Z` over positions `N0..1`;
    * nullity ≠ 0: `G = [L11⁻ᵀ L21ᵀ; -I | x0]`, pivoted (modified) Gram–Schmidt over the rows in
      the regularisation list, `pivot < s_tol` (tested on the candidate in place *before* the
      pivot search) → `BadRegularization`; x = last column.
  queries: `q_xx = T Q0 Tᵀ` (`Q0` when nullity = 0), `q_bb = A Q0 Aᵀ`, `q_bx = A Q0 Tᵀ`,
  `lindep(n) = nullity ≠ 0 ∧ invp(n) > N0`, `q0_xx = q_xx` (AdjBase default), `cond = 0`.

  Not modelled (C++ has undefined behaviour there): indices outside `1..N` in a query or in the
  regularisation list (`NotModelled`).  `minx_n` is not initialised by `init()`; with nothing
  configured the C++ reads it in `minx_t == ALL && minx_n != N` — the model takes the branch
  (a list `1..N` is installed), which is what happens unless the garbage equals `N`.
-/
import Gama.Model.Ls.Common
namespace Gama.Ls
open Gama

/-! ### small dense vocabulary (arrays built by `ofFn`, read by `getD`) -/
namespace Dn
variable {K : Type} [Scalar K]

def mget (M : DMat K) (i j : Nat) : K := (M.getD i #[]).getD j 0
def mmk (r c : Nat) (f : Nat → Nat → K) : DMat K :=
  Array.ofFn (n := r) fun i => Array.ofFn (n := c) fun j => f i.val j.val
def vget (v : Array K) (i : Nat) : K := v.getD i 0
def vmk (n : Nat) (f : Nat → K) : Array K := Array.ofFn (n := n) fun i => f i.val
def pget (p : Array Nat) (k : Nat) : Nat := p.getD k 0
def pmk (n : Nat) (f : Nat → Nat) : Array Nat := Array.ofFn (n := n) fun i => f i.val

/-- `s = 0; for k = lo..hi-1: s += f k` -/
def sumFrom (lo hi : Nat) (f : Nat → K) : K := (List.range' lo (hi - lo)).foldl (fun s k => s + f k) 0
/-- `for k = lo..hi-1: s -= f k` -/
def subFrom (init : K) (lo hi : Nat) (f : Nat → K) : K :=
  (List.range' lo (hi - lo)).foldl (fun s k => s - f k) init
/-- `for k = lo..hi-1: s += f k` -/
def addFrom (init : K) (lo hi : Nat) (f : Nat → K) : K :=
  (List.range' lo (hi - lo)).foldl (fun s k => s + f k) init

/-- `SymMat::operator()(u,v)`: one triangle is stored (`v ≤ u`) -/
def sget (a : DMat K) (u v : Nat) : K := if v ≤ u then mget a u v else mget a v u
/-- `SymMat(u,v) = x` -/
def sset (a : DMat K) (u v : Nat) (x : K) : DMat K :=
  let (i, j) := if v ≤ u then (u, v) else (v, u)
  a.setIfInBounds i ((a.getD i #[]).setIfInBounds j x)

/-- in-place triangular sweep over the positions in `order`:
    `for ii in order: i = idx ii; for jj = lo ii .. hi ii - 1: x(i) -= coef ii jj · x(idx jj); [x(i) /= d]` -/
def sweep (order : List Nat) (idx : Nat → Nat) (lo hi : Nat → Nat) (coef : Nat → Nat → K)
    (dv : Nat → Option K) (x : Array K) : Array K :=
  order.foldl (fun (x : Array K) ii =>
      let i := idx ii
      let s := subFrom (vget x i) (lo ii) (hi ii) fun jj => coef ii jj * vget x (idx jj)
      x.setIfInBounds i (match dv ii with | some d => s / d | none => s)) x

end Dn

namespace Chol
open Dn
variable {K : Type} [Scalar K]

/-- `sqrt(std::numeric_limits<double>::epsilon())` = 2⁻²⁶ (exact at `Float` and at `Rat`) -/
def sTol : K := Scalar.ofNat 1 / Scalar.ofNat 67108864

/-- `mat(i,j) = Σ_k A(k,i)·A(k,j)` -/
def normalMat (m n : Nat) (A : DMat K) : DMat K :=
  mmk n n fun u v => if v ≤ u then sumFrom 0 m (fun k => mget A k v * mget A k u) else 0
/-- `rhs(i) = Σ_k A(k,i)·b(k)` -/
def normalRhs (m n : Nat) (A : DMat K) (b : Array K) : Array K :=
  vmk n fun i => sumFrom 0 m (fun k => mget A k i * vget b k)

structure Fact (K : Type) where
  perm : Array Nat
  mat : DMat K
  nullity : Nat
  /-- the pivot that was rejected (`pivot ≤ s_tol`), if any — recorded for the `Unambiguous`
      hypothesis of the theorems, not used by the model -/
  rej : Option K := none

def diagAt (a : DMat K) (perm : Array Nat) (i : Nat) : K := mget a (pget perm i) (pget perm i)

/-- `pivot = mat(perm(column),perm(column)); ipvt = 0; for i > column: if (t > pivot) {pivot = t; ipvt = i;}` -/
def pivotSearch (n : Nat) (a : DMat K) (perm : Array Nat) (c : Nat) : K × Option Nat :=
  (List.range' (c + 1) (n - (c + 1))).foldl
    (fun (st : K × Option Nat) i => let t := diagAt a perm i; if st.1 < t then (t, some i) else st)
    (diagAt a perm c, none)

/-- `std::swap(perm(c), perm(i))` -/
def swapP (n : Nat) (perm : Array Nat) (c i : Nat) : Array Nat :=
  pmk n fun k => if k = c then pget perm i else if k = i then pget perm c else pget perm k

/-- position of the original index `u` in `perm` (`n` if absent) -/
def posOf (n : Nat) (perm : Array Nat) (u : Nat) : Nat :=
  ((List.range n).find? (fun k => pget perm k == u)).getD n

/-- `invp(perm(i)) = i` -/
def invPerm (n : Nat) (perm : Array Nat) : Array Nat := pmk n fun u => posOf n perm u

/-- Schur update + scaling of the pivot column, at the stored positions `v ≤ u`:
    `t = mat(pj,pc)/pivot; mat(pi,pj) -= t*mat(pi,pc)` (position j ≤ position i), then
    `mat(pi,pc) /= pivot` -/
def elim (n : Nat) (perm : Array Nat) (c : Nat) (pivot : K) (a : DMat K) : DMat K :=
  let pc := pget perm c
  let invp := invPerm n perm
  mmk n n fun u v =>
    if v ≤ u then
      let qu := pget invp u
      let qv := pget invp v
      if c < qu ∧ c < qv then
        let hi := if qv ≤ qu then u else v
        let lo := if qv ≤ qu then v else u
        sget a u v - (sget a lo pc / pivot) * sget a hi pc
      else if v = pc ∧ c < qu then sget a u pc / pivot
      else if u = pc ∧ c < qv then sget a v pc / pivot
      else mget a u v
    else 0

/-- "remove junk": `mat(perm(j),perm(i)) = 0` for positions `i, j ≥ column` -/
def junk (n : Nat) (perm : Array Nat) (c : Nat) (a : DMat K) : DMat K :=
  let invp := invPerm n perm
  mmk n n fun u v =>
    if v ≤ u then (if c ≤ pget invp u ∧ c ≤ pget invp v then 0 else mget a u v) else 0

/-- the column loop (`fuel = N - column`, `c` = 0-based column) -/
def factor (n : Nat) : Nat → Nat → Array Nat → DMat K → Fact K
  | 0, _, perm, a => ⟨perm, a, 0, none⟩
  | fuel + 1, c, perm, a =>
    let ps := pivotSearch n a perm c
    let perm' := match ps.2 with
      | some i => swapP n perm c i
      | none => perm
    if ps.1 ≤ (sTol : K) then ⟨perm', junk n perm' c a, n - c, some ps.1⟩
    else factor n fuel (c + 1) perm' (elim n perm' c ps.1 a)

/-- forward substitution: `for ii = 2..N0: for jj < ii: x0(p ii) -= mat(p ii, p jj)·x0(p jj)` -/
def fwdSub (N0 : Nat) (perm : Array Nat) (a : DMat K) (x : Array K) : Array K :=
  sweep (List.range' 1 (N0 - 1)) (pget perm) (fun _ => 0) (fun ii => ii)
    (fun ii jj => sget a (pget perm ii) (pget perm jj)) (fun _ => none) x

/-- `for ii = 1..N0: x0(p ii) /= mat(p ii, p ii)` -/
def diagDiv (N0 : Nat) (perm : Array Nat) (a : DMat K) (x : Array K) : Array K :=
  sweep (List.range N0) (pget perm) (fun _ => 0) (fun _ => 0)
    (fun ii jj => sget a (pget perm ii) (pget perm jj)) (fun ii => some (mget a (pget perm ii) (pget perm ii))) x

/-- backward substitution: `for ii = N0-1..1: for jj = ii+1..N0: x0(p ii) -= mat(p ii, p jj)·x0(p jj)` -/
def backSub (N0 : Nat) (perm : Array Nat) (a : DMat K) (x : Array K) : Array K :=
  sweep (List.range (N0 - 1)).reverse (pget perm) (fun ii => ii + 1) (fun _ => N0)
    (fun ii jj => sget a (pget perm ii) (pget perm jj)) (fun _ => none) x

/-- `x0 = rhs; x0(perm(i)) = 0 for i > N0;` then the three sweeps -/
def solveX0 (n N0 : Nat) (perm : Array Nat) (a : DMat K) (rhs : Array K) : Array K :=
  let invp := invPerm n perm
  let x0 := vmk n fun u => if N0 ≤ pget invp u then 0 else vget rhs u
  backSub N0 perm a (diagDiv N0 perm a (fwdSub N0 perm a x0))

/-- `r(i) = -b(i); for jj = 1..N0: r(i) += A(i,p jj)·x0(p jj)` -/
def residuals (m N0 : Nat) (perm : Array Nat) (A : DMat K) (b x0 : Array K) : Array K :=
  vmk m fun i => addFrom (- vget b i) 0 N0 fun jj => mget A i (pget perm jj) * vget x0 (pget perm jj)

/-- column `column` (0-based position, `j = perm(column)`) of the `Q0` recursion, as an in-place
    sweep on the vector `u ↦ Q0(u, j)`: the entries at positions `> column` are known already
    (`Q0` is a `SymMat`: `Q0(p kk, j)` was computed in column `kk`), the diagonal entry starts from
    `1/mat(j,j)`, the entries above it from 0; for `row = column, column-1, …`:
    `z -= mat(p row, p kk)·Q0(p kk, j)` for `kk = row+1..N0`; then the column is stored. -/
def q0Column (n N0 : Nat) (perm : Array Nat) (a : DMat K) (Q : DMat K) (column : Nat) : DMat K :=
  let j := pget perm column
  let invp := invPerm n perm
  let init := vmk n fun u =>
    if pget invp u = column then Scalar.ofNat 1 / mget a j j
    else if column < pget invp u ∧ pget invp u < N0 then sget Q u j else 0
  let z := sweep (List.range (column + 1)).reverse (pget perm) (fun ii => ii + 1) (fun _ => N0)
    (fun ii jj => sget a (pget perm ii) (pget perm jj)) (fun _ => none) init
  mmk n n fun u v =>
    if v ≤ u then
      (if v = j ∧ pget invp u ≤ column then vget z u
       else if u = j ∧ pget invp v ≤ column then vget z v
       else mget Q u v)
    else 0

/-- `Q0.set_zero(); for column = N0..1 …` -/
def q0Mat (n N0 : Nat) (perm : Array Nat) (a : DMat K) : DMat K :=
  (List.range N0).reverse.foldl (q0Column n N0 perm a) (mmk n n fun _ _ => 0)

/-! ### singular part: `G`, Gram–Schmidt over the regularisation list -/

/-- `dot(G,i,j) = Σ_{r ∈ minx} G(r,i)·G(r,j)` (list order; 0-based rows) -/
def dotS (S : List Nat) (g h : Array K) : K := S.foldl (fun s r => s + vget g r * vget h r) 0

/-- columns `1..nullity` of `G` before the orthogonalisation, and `x0` as the last one.
    Column `j`: `G(perm(i),j) = mat(perm(i),perm(N0+j))` for `i ≤ N0`, backward substitution,
    then `-1` at `perm(N0+j)` and `0` at the other dependent rows. -/
def gInit (n N0 nullity : Nat) (perm : Array Nat) (a : DMat K) (x0 : Array K) : Array (Array K) :=
  let invp := invPerm n perm
  (Array.ofFn (n := nullity) fun j =>
      let top := vmk n fun u => if pget invp u < N0 then sget a u (pget perm (N0 + j.val)) else 0
      let sol := backSub N0 perm a top
      vmk n fun u =>
        if pget invp u < N0 then vget sol u
        else if pget invp u = N0 + j.val then - (Scalar.ofNat 1 : K) else 0).push x0

/-- pivot search of the Gram–Schmidt loop over `g_perm(column+1..nullity)` -/
def gsSearch (S : List Nat) (G : Array (Array K)) (gperm : Array Nat) (nullity column : Nat) (p0 : K) : K × Option Nat :=
  (List.range' (column + 1) (nullity - (column + 1))).foldl
    (fun (st : K × Option Nat) i =>
      let c := pget gperm i
      let t := dotS S (G.getD c #[]) (G.getD c #[])
      if st.1 < t then (t, some i) else st)
    (p0, none)

/-- one pass of the Gram–Schmidt loop after the `pivot < s_tol` test: pivot search, swap,
    normalisation of the pivot column, orthogonalisation of the later columns (incl. `x0`);
    returns the new `g_perm`, the new `G` and the pivot (before the square root) -/
def gsStep (n nullity : Nat) (S : List Nat) (column : Nat) (gperm : Array Nat) (G : Array (Array K)) (p0 : K) :
    Array Nat × Array (Array K) × K :=
  let ps := gsSearch S G gperm nullity column p0
  let gperm' := match ps.2 with
    | some i => swapP (nullity + 1) gperm column i
    | none => gperm
  let pc := pget gperm' column
  let pivot := Scalar.sqrt ps.1
  let gpc := vmk n fun i => vget (G.getD pc #[]) i / pivot
  let G1 := G.setIfInBounds pc gpc
  let G2 := (List.range' (column + 1) (nullity + 1 - (column + 1))).foldl
    (fun (G : Array (Array K)) col =>
      let c := pget gperm' col
      let gc := G.getD c #[]
      let dp := dotS S gpc gc
      G.setIfInBounds c (vmk n fun i => vget gc i - dp * vget gpc i)) G1
  (gperm', G2, ps.1)

/-- the Gram–Schmidt loop (`fuel = nullity - column`) -/
def gsLoop (n nullity : Nat) (S : List Nat) : Nat → Nat → Array Nat → Array (Array K) → Except ErrKind (Array (Array K))
  | 0, _, _, G => .ok G
  | fuel + 1, column, gperm, G =>
    let c0 := pget gperm column
    let p0 := dotS S (G.getD c0 #[]) (G.getD c0 #[])
    if p0 < (sTol : K) then .error .BadRegularization else
    let st := gsStep n nullity S column gperm G p0
    gsLoop n nullity S fuel (column + 1) st.1 st.2.1

/-- `T(i,j) = δ_ij - [j ∈ minx] Σ_c G(i,c)·G(j,c)` -/
def tEntry (S : List Nat) (G : Array (Array K)) (nullity : Nat) (i j : Nat) : K :=
  let t : K := if i = j then Scalar.ofNat 1 else 0
  if S.contains j then subFrom t 0 nullity fun c => vget (G.getD c #[]) i * vget (G.getD c #[]) j else t

/-- the regularisation list the solver uses (0-based), `none` if an index is outside `1..n` -/
def regList (n : Nat) : Reg → Option (List Nat)
  | .none => some (List.range n)
  | .all => some (List.range n)
  | .subset l => if l.all (fun i => decide (1 ≤ i ∧ i ≤ n)) then some (l.map (· - 1)) else none

/-- everything `solve()` leaves in the object -/
structure Solved (K : Type) where
  m : Nat
  n : Nat
  A : DMat K
  perm : Array Nat
  invp : Array Nat
  mat : DMat K
  nullity : Nat
  N0 : Nat
  x0 : Array K
  Q0 : DMat K
  r : Array K
  S : List Nat
  G : Array (Array K)
  x : Array K

def solve (p : Problem K) : Except ErrKind (Solved K) :=
  let m := p.m
  let n := p.n
  let A := p.dense
  let b := p.rhs
  match regList n p.reg with
  | none => .error .NotModelled
  | some S =>
  let f := factor n n 0 (pmk n id) (normalMat m n A)
  let N0 := n - f.nullity
  let x0 := solveX0 n N0 f.perm f.mat (normalRhs m n A b)
  let r := residuals m N0 f.perm A b x0
  let Q0 := q0Mat n N0 f.perm f.mat
  let invp := invPerm n f.perm
  if f.nullity = 0 then
    .ok ⟨m, n, A, f.perm, invp, f.mat, 0, N0, x0, Q0, r, S, #[], x0⟩
  else
    let G0 := gInit n N0 f.nullity f.perm f.mat x0
    match gsLoop n f.nullity S f.nullity 0 (pmk (f.nullity + 1) id) G0 with
    | .error e => .error e
    | .ok G => .ok ⟨m, n, A, f.perm, invp, f.mat, f.nullity, N0, x0, Q0, r, S, G, G.getD f.nullity #[]⟩

def Solved.idx (s : Solved K) (i : Nat) : Bool := decide (1 ≤ i ∧ i ≤ s.n)
def Solved.obs (s : Solved K) (i : Nat) : Bool := decide (1 ≤ i ∧ i ≤ s.m)

/-- `q_xx(i,j)`, 0-based -/
def Solved.qxx0 (s : Solved K) (i j : Nat) : K :=
  if s.nullity = 0 then sget s.Q0 i j else
  sumFrom 0 s.n fun k =>
    sumFrom 0 s.n (fun l => tEntry s.S s.G s.nullity i l * sget s.Q0 l k) * tEntry s.S s.G s.nullity j k

/-- `aq(k) = Σ_l A(i,l)·Q0(l,k)` -/
def Solved.aq (s : Solved K) (i k : Nat) : K := sumFrom 0 s.n fun l => mget s.A i l * sget s.Q0 l k

def Solved.qbb0 (s : Solved K) (i j : Nat) : K := sumFrom 0 s.n fun c => s.aq i c * mget s.A j c

def Solved.qbx0 (s : Solved K) (i j : Nat) : K :=
  if s.nullity = 0 then sumFrom 0 s.n fun k => mget s.A i k * sget s.Q0 k j
  else sumFrom 0 s.n fun k => s.aq i k * tEntry s.S s.G s.nullity j k

def Solved.lindep0 (s : Solved K) (i : Nat) : Bool := s.nullity != 0 && decide (s.N0 ≤ pget s.invp i)

def Solved.answer (s : Solved K) : Answer K :=
  let q := fun i j => if s.idx i && s.idx j then Except.ok (s.qxx0 (i - 1) (j - 1)) else .error .NotModelled
  { x := s.x
    r := s.r
    rtr := sumFrom 0 s.m fun i => vget s.r i * vget s.r i
    defect := s.nullity
    qxx := q
    q0xx := q
    qbb := fun i j => if s.obs i && s.obs j then .ok (s.qbb0 (i - 1) (j - 1)) else .error .NotModelled
    qbx := fun i j => if s.obs i && s.idx j then .ok (s.qbx0 (i - 1) (j - 1)) else .error .NotModelled
    lindep := fun i => if s.idx i then .ok (s.lindep0 (i - 1)) else .error .NotModelled
    cond := .ok 0 }

end Chol

/-- answers of a fresh `AdjCholDec` object on problem `p` (dense `A`, `b`, unit covariance) -/
def cholSolve {K : Type} [Scalar K] : Solver K := fun p => (Chol.solve p).map Chol.Solved.answer

end Gama.Ls
