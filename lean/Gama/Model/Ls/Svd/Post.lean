/-
  Post-decomposition part of `GNU_gama::SVD` (lib/matvec/svd.h) and `AdjSVD`
  (lib/gnu_gama/adj/adj_svd.h) as functions of the factors (U, W, V).  Core Lean only,
  over `[Scalar K]`; 0-based indices.

    `SVD::set_inv_W`     ↦ `wTol` (bisection for the machine epsilon, `W_tol = 1000·eps`),
                            `vmaxOf`, `invW`  (`|W_i| > W_tol·max W ? 1/W_i : 0`), `defectOf`
    `SVD::lindep(i)`     ↦ `isNull iw i`     (`inv_W_(i) == 0`: tests the i-th SINGULAR VALUE)
    `SVD::min_subset_x`  ↦ `minSubsetX`      (`defect > n_min → BadRegularization`; for every
                            null column k in increasing order: S-norm `s`, `s <= W_tol·‖V_k‖ →
                            BadRegularization` (`refuse`), column k `/= s`, every other column j (null or not)
                            `-= ⟨V_j, V_k⟩_S · V_k`)
    `SVD::solve`         ↦ `solveX`          (`t_i = (Σ_k U_ki b_k)·inv_W_i`, `x = V t`)
    `AdjSVD::solve`      ↦ `residuals`       (`r = A x − b`), `AdjBaseFull::sum_of_squares` ↦ `rtr`
    `SVD::q_xx/q_bb/q_bx`↦ `qxx`, `qbb`, `qbx`
    `AdjSVD::cond`       ↦ `cond`

  All sums run from 0 over increasing index, as in the C++.  `q_bb` skips the null columns
  (`if (inv_W[k] != 0)`); the model adds `0` there.

  The theorems (Lemmas/Ls/Svd*.lean, Props/C01|C03|C20/Svd.lean) are about THESE functions, with
  the factorisation `A = U diag(W) Vᵀ` as a hypothesis on the factors — proved for the factors
  `Svd.decompose` returns (Lemmas/Ls/SvdDecompCert.lean; Props/*/SvdDecompose.lean).  The tolerance is a
  parameter (`wTol` does not terminate in exact arithmetic: `1 + eps == 1` never holds in a field).
-/
import Gama.Model.Ls.Common
namespace Gama.Ls.Svd
variable {K : Type} [Scalar K]

/-- vector component, `0` outside -/
@[reducible] def vget (v : Array K) (i : Nat) : K := v.getD i 0
/-- matrix entry, `0` outside -/
def mget (M : DMat K) (i j : Nat) : K := vget (M.getD i #[]) j
def vmk (n : Nat) (f : Nat → K) : Array K := Array.ofFn (n := n) fun i => f i.1
def mmk (r c : Nat) (f : Nat → Nat → K) : DMat K := Array.ofFn (n := r) fun i => vmk c (f i.1)

/-- `Σ_{k<n} f k`, accumulated from `0` in increasing `k` -/
def sumTo : Nat → (Nat → K) → K
  | 0, _ => 0
  | n + 1, f => sumTo n f + f n

/-- `template ABS(x) = (x >= 0) ? x : -x` -/
def absC (x : K) : K := if (0 : K) ≤ x then x else -x

/-! ### `set_inv_W` -/

/-- the do–while of `set_inv_W` that finds the machine epsilon by bisection:
    state `(eps_min, eps_max, eps)`; `fuel` bounds the iterations (about 40 at `double`) -/
def epsLoop : Nat → K → K → K → K
  | 0, _, _, eps => eps
  | fuel + 1, emin, emax, eps1 =>
    let eps := (emin + emax) / Scalar.ofNat 2
    let sum := (1 : K) + eps
    let emin' := if Scalar.beq sum 1 then eps else emin
    let emax' := if Scalar.beq sum 1 then emax else eps
    if Scalar.ofSci 1 true 1 < absC (eps - eps1) / eps then epsLoop fuel emin' emax' eps else eps

/-- `W_tol = 1000*eps` (when not set by the user; `AdjSVD` never sets it) -/
def wTol : K := Scalar.ofNat 1000 * epsLoop 200 (0 : K) (Scalar.ofSci 1 true 5) (Scalar.ofSci 1 true 5)

/-- `vmax = 0; for k: if (W[k] > vmax) vmax = W[k]` -/
def vmaxOf (n : Nat) (W : Nat → K) : K :=
  (List.range n).foldl (fun v k => if v < W k then W k else v) (0 : K)

/-- `inv_W[i] = (ABS(W[i]) > W_tol*vmax) ? 1/W[i] : 0` -/
def invW (tol : K) (n : Nat) (W : Nat → K) (i : Nat) : K :=
  if tol * vmaxOf n W < absC (W i) then 1 / W i else 0

/-- `inv_W[k] == 0` -/
def isNull (iw : Nat → K) (k : Nat) : Bool := Scalar.beq (iw k) 0

/-- `defect` : number of `inv_W[i] = 0` -/
def defectOf (n : Nat) (iw : Nat → K) : Nat := ((List.range n).filter (isNull iw)).length

/-! ### `min_subset_x` -/

/-- `Σ_{i ∈ list} f(i)·g(i)`, accumulated from `0` in list order -/
def dotS (S : List Nat) (f g : Nat → K) : K := S.foldl (fun s im => s + f im * g im) 0

/-- the refusal test of `min_subset_x` on the S-norm `s` of the null column `k`:
    `some tol`  — the code as it is (repo commit b39e70e): `s <= W_tol·‖V_k‖` with the norm of
                  the whole column;
    `none`      — the code before that commit: EXACT test `s == 0`. -/
def refuse (n : Nat) (fix : Option K) (V : DMat K) (k : Nat) (s : K) : Bool :=
  match fix with
  | none => Scalar.beq s 0
  | some tol => decide (s ≤ tol * Scalar.sqrt (sumTo n fun i => mget V i k * mget V i k))

/-- body of `for (k = 1; k <= n; k++) if (inv_W[k] == 0) {…}` (`S`: 0-based regularisation rows) -/
def msStep (fix : Option K) (n : Nat) (S : List Nat) (iw : Nat → K) (V : DMat K) (k : Nat) :
    Except ErrKind (DMat K) :=
  if isNull iw k then
    let s := Scalar.sqrt (dotS S (fun i => mget V i k) (fun i => mget V i k))
    if refuse n fix V k s then .error .BadRegularization
    else
      let vk := vmk n fun i => mget V i k / s
      let sj := vmk n fun j => dotS S (fun i => mget V i j) (vget vk)
      .ok (mmk n n fun i j => if j = k then vget vk i else mget V i j - vget sj j * vget vk i)
  else .ok V

/-- the `k` loop -/
def msLoop (fix : Option K) (n : Nat) (S : List Nat) (iw : Nat → K) (V : DMat K) : Except ErrKind (DMat K) :=
  (List.range n).foldlM (msStep fix n S iw) V

/-- what `svd()` does after `set_inv_W()`: `if (defect > 0) { minV = V_; if (minx == subset)
    min_subset_x(); }`.  A regularisation index outside `1..n` is read outside the matrix by the
    C++ (only when the defect is positive): `NotModelled`. -/
def minSubsetX (fix : Option K) (n : Nat) (reg : Reg) (iw : Nat → K) (V : DMat K) : Except ErrKind (DMat K) :=
  match reg with
  | .subset l =>
    if defectOf n iw = 0 then .ok V
    else if l.length < defectOf n iw then .error .BadRegularization
    else if l.all (fun i => decide (1 ≤ i ∧ i ≤ n)) then msLoop fix n (l.map (· - 1)) iw V
    else .error .NotModelled
  | _ => .ok V

/-! ### `solve`, cofactors -/

/-- `SVD::solve` -/
def solveX (m n : Nat) (U : Nat → Nat → K) (iw : Nat → K) (V : Nat → Nat → K) (b : Nat → K) : Array K :=
  let t := vmk n fun i => sumTo m (fun k => U k i * b k) * iw i
  vmk n fun i => sumTo n fun j => V i j * vget t j

/-- `r = A*x; r -= b` -/
def residuals (m n : Nat) (A : Nat → Nat → K) (b : Nat → K) (x : Array K) : Array K :=
  vmk m fun i => sumTo n (fun j => A i j * vget x j) - b i

/-- `res.dot(res)` -/
def rtrOf (m : Nat) (r : Array K) : K := sumTo m fun i => vget r i * vget r i

/-- `c += V[i][k] * inv_W[k] * inv_W[k] * V[j][k]` -/
def qxx (n : Nat) (iw : Nat → K) (V : Nat → Nat → K) (i j : Nat) : K :=
  sumTo n fun k => V i k * iw k * iw k * V j k

/-- `if (inv_W[k] != 0) c += U[i][k] * U[j][k]` -/
def qbb (n : Nat) (iw : Nat → K) (U : Nat → Nat → K) (i j : Nat) : K :=
  sumTo n fun k => if isNull iw k then 0 else U i k * U j k

/-- `c += U[i][k] * inv_W[k] * V[j][k]` -/
def qbx (n : Nat) (iw : Nat → K) (U V : Nat → Nat → K) (i j : Nat) : K :=
  sumTo n fun k => U i k * iw k * V j k

/-- `AdjSVD::cond`: `sv_min = sv_max = W(1)` whatever `lindep(1)` says, then the non-null `|W(i)|` -/
def cond (n : Nat) (W iw : Nat → K) : K :=
  let mm := (List.range' 1 (n - 1)).foldl (fun (p : K × K) i =>
      if isNull iw i then p
      else
        let f := if W i < 0 then - W i else W i
        (if f < p.1 then f else p.1, if p.2 < f then f else p.2)) (W 0, W 0)
  mm.2 / mm.1

/-- the factors as `svd()` leaves them -/
structure Dec (K : Type) where
  U : DMat K
  W : Array K
  V : DMat K

/-- everything a fresh `AdjSVD` answers, from the factors: `tol` = `W_tol`; `fixed = true` is the
    current refusal test of `min_subset_x` (b39e70e), `false` the exact test before it -/
def answerOf (fixed : Bool) (tol : K) (m n : Nat) (A : DMat K) (b : Array K) (reg : Reg) (d : Dec K) :
    Except ErrKind (Answer K) :=
  let iw := invW tol n (vget d.W)
  match minSubsetX (if fixed then some tol else none) n reg iw d.V with
  | .error e => .error e
  | .ok V' =>
    let x := solveX m n (mget d.U) iw (mget V') (vget b)
    let r := residuals m n (mget A) (vget b) x
    let inr (i k : Nat) : Bool := decide (1 ≤ i ∧ i ≤ k)
    let q : Nat → Nat → Except ErrKind K := fun i j =>
      if inr i n && inr j n then .ok (qxx n iw (mget V') (i - 1) (j - 1)) else .error .BadRank
    .ok { x := x, r := r, rtr := rtrOf m r
          defect := defectOf n iw
          qxx := q
          q0xx := q
          qbb := fun i j => if inr i m && inr j m then .ok (qbb n iw (mget d.U) (i - 1) (j - 1)) else .error .BadRank
          qbx := fun i j => if inr i m && inr j n then .ok (qbx n iw (mget d.U) (mget V') (i - 1) (j - 1)) else .error .BadRank
          lindep := fun i => if inr i n then .ok (isNull iw (i - 1)) else .error .NotModelled
          cond := if n = 0 then .error .NotModelled else .ok (cond n (vget d.W) iw) }

end Gama.Ls.Svd
