/-
  Straight transliteration of `SVD::svd()` (lib/matvec/svd.h; Golub–Reinsch: Householder
  bidiagonalisation, accumulation of the right- and left-hand transformations, implicit-shift
  QR sweeps with the `#_LH_#` shift formulas).

  Same statements in the same order on the same variables (the C++ declares them `volatile`,
  i.e. every intermediate is a stored `double`), 1-based indices as in the source (`g1/s1/mg/ms`
  translate), `goto test_for_convergence` = leaving the search / cancellation loop with a flag.
  The only unbounded loop, `for (;;)` per singular value `k`, runs at most 31 times: the code
  throws `NoConvergence` when a 31st QR step would be needed (`its++ == 30`); the model's `for`
  over `[0:31]` with the same test is the explicit fuel.

  PROVED about this function (Lemmas/Ls/SvdDecomp*.lean, `Svd.decompose_cert`; Props/C01/SvdDecomp.lean),
  over every linearly ordered field with a square root, for every `m`, `n`, `A`: whenever it returns
  (`decompose m n A = .ok d`), `A = U diag(W) Vᵀ`, `VᵀV = 1`, the columns of `U` that belong to
  non-zero singular values are orthonormal, `W ≥ 0`; with the invariant after every Householder
  step, accumulation step, Givens rotation pair and pass (`Svd.decompose_invariant`).
  NOT proved: that it returns (convergence of the QR iteration within 30 sweeps per singular
  value), and anything about IEEE rounding — for `double` the output is compared with the C++
  through x, r, Q (drv_ls) and the factors of the REAL code are checked numerically on every run
  (tools/props/svd_cert.py), which stands for convergence / negligibility only.
-/
import Gama.Model.Ls.Svd.Post
namespace Gama.Ls.Svd
variable {K : Type} [Scalar K]

/-- 1-based vector read (`0` for index 0 or outside) -/
@[inline] def g1 (v : Array K) (i : Nat) : K := if i = 0 then 0 else v.getD (i - 1) 0
/-- 1-based vector write -/
@[inline] def s1 (v : Array K) (i : Nat) (x : K) : Array K := if i = 0 then v else v.setIfInBounds (i - 1) x
/-- 1-based matrix read -/
@[inline] def mg (M : DMat K) (i j : Nat) : K := if i = 0 then 0 else g1 (M.getD (i - 1) #[]) j
/-- 1-based matrix write -/
@[inline] def ms (M : DMat K) (i j : Nat) (x : K) : DMat K :=
  if i = 0 ∨ j = 0 then M else M.modify (i - 1) (·.setIfInBounds (j - 1) x)

/-- `C++ if (x)` on a floating value -/
@[inline] def nz (x : K) : Bool := !Scalar.beq x 0

/-- `PYTHAG(a, b)` -/
def pythag (a b : K) : K :=
  let at' := absC a
  let bt := absC b
  if bt < at' then
    let ct := bt / at'
    at' * Scalar.sqrt ((1 : K) + ct * ct)
  else if nz bt then
    let ct := at' / bt
    bt * Scalar.sqrt ((1 : K) + ct * ct)
  else 0

/-- `SVD::svd()` up to `decomposed = 1` -/
def decompose (m n : Nat) (A : DMat K) : Except ErrKind (Dec K) := do
  let ZERO : K := 0
  let ONE : K := 1
  let TWO : K := Scalar.ofNat 2
  let mut U : DMat K := mmk m n (mget A)
  let mut W : Array K := Array.replicate n ZERO
  let mut V : DMat K := Array.replicate n (Array.replicate n ZERO)
  let mut rv1 : Array K := Array.replicate n ZERO
  let mut sOne : K := ZERO        -- s1
  let mut g : K := ZERO
  let mut scale : K := ZERO
  let mut s : K := ZERO
  let mut f : K := ZERO
  let mut h : K := ZERO
  let mut L : Nat := 0
  /- Householder reduction to bidiagonal form -/
  for i in [1:n+1] do
    L := i + 1
    rv1 := s1 rv1 i (scale * g)
    g := ZERO; s := ZERO; scale := ZERO
    if i ≤ m then
      for k in [i:m+1] do scale := scale + absC (mg U k i)
      if nz scale then
        for k in [i:m+1] do
          let tmp1 := mg U k i / scale
          U := ms U k i tmp1
          s := s + tmp1 * tmp1
        f := mg U i i
        g := Scalar.sqrt s
        if ZERO ≤ f then g := -g
        h := f * g - s
        U := ms U i i (f - g)
        if i ≠ n then
          for j in [L:n+1] do
            s := ZERO
            for k in [i:m+1] do s := s + mg U k i * mg U k j
            f := s / h
            for k in [i:m+1] do U := ms U k j (mg U k j + f * mg U k i)
        for k in [i:m+1] do U := ms U k i (mg U k i * scale)
    W := s1 W i (scale * g)
    g := ZERO; s := ZERO; scale := ZERO
    if i ≤ m ∧ i ≠ n then
      for k in [L:n+1] do scale := scale + absC (mg U i k)
      if nz scale then
        for k in [L:n+1] do
          let tmp1 := mg U i k / scale
          U := ms U i k tmp1
          s := s + tmp1 * tmp1
        f := mg U i L
        g := Scalar.sqrt s
        if ZERO ≤ f then g := -g
        h := f * g - s
        U := ms U i L (f - g)
        for k in [L:n+1] do rv1 := s1 rv1 k (mg U i k / h)
        if i ≠ m then
          for j in [L:m+1] do
            s := ZERO
            for k in [L:n+1] do s := s + mg U j k * mg U i k
            for k in [L:n+1] do U := ms U j k (mg U j k + s * g1 rv1 k)
        for k in [L:n+1] do U := ms U i k (mg U i k * scale)
    let r := absC (g1 W i) + absC (g1 rv1 i)
    if sOne < r then sOne := r
  /- Accumulation of right-hand transformations -/
  for t in [0:n] do
    let i := n - t
    if i ≠ n then
      if nz g then
        for j in [L:n+1] do V := ms V j i ((mg U i j / mg U i L) / g)
        for j in [L:n+1] do
          s := ZERO
          for k in [L:n+1] do s := s + mg U i k * mg V k j
          for k in [L:n+1] do V := ms V k j (mg V k j + s * mg V k i)
      for j in [L:n+1] do
        V := ms V i j ZERO
        V := ms V j i ZERO
    V := ms V i i ONE
    g := g1 rv1 i
    L := i
  /- Accumulation of left-hand transformations -/
  let mn := if m < n then m else n
  for t in [0:mn] do
    let i := mn - t
    L := i + 1
    g := g1 W i
    if i ≠ n then
      for j in [L:n+1] do U := ms U i j ZERO
    if nz g then
      if i ≠ mn then
        for j in [L:n+1] do
          s := ZERO
          for k in [L:m+1] do s := s + mg U k i * mg U k j
          f := (s / mg U i i) / g
          for k in [i:m+1] do U := ms U k j (mg U k j + f * mg U k i)
      for j in [i:m+1] do U := ms U j i (mg U j i / g)
    else
      for j in [i:m+1] do U := ms U j i ZERO
    U := ms U i i (mg U i i + ONE)
  /- Diagonalization of the bidiagonal form -/
  let mut c : K := ZERO
  let mut x : K := ZERO
  let mut y : K := ZERO
  let mut z : K := ZERO
  let mut L1 : Nat := 0
  for tk in [0:n] do
    let k := n - tk
    let k1 := k - 1
    let mut its : Nat := 0
    let mut done := false
    for _ in [0:32] do
      if done then break
      /- test for splitting -/
      let mut viaGoto := false
      let mut found := false
      L := 0
      for tl in [0:k] do
        if found then break
        let L' := k - tl
        let s2 := sOne + absC (g1 rv1 L')
        if Scalar.beq sOne s2 then
          L := L'; viaGoto := true; found := true
        else
          /- rv1[1] is always zero, so there is no exit through the bottom of the loop -/
          L1 := L' - 1
          let s2 := sOne + absC (g1 W L1)
          if Scalar.beq sOne s2 then
            L := L'; found := true
      if !viaGoto then
        /- cancellation of rv1[L], if L greater then 1 -/
        c := ZERO
        s := ONE
        let mut stop := false
        for i in [L:k+1] do
          if stop then break
          f := s * g1 rv1 i
          rv1 := s1 rv1 i (c * g1 rv1 i)
          let s2 := sOne + absC f
          if Scalar.beq sOne s2 then stop := true
          else
            g := g1 W i
            h := pythag f g
            W := s1 W i h
            c := g / h
            s := (-f) / h
            for j in [1:m+1] do
              let y' := mg U j L1
              let z' := mg U j i
              U := ms U j L1 (y' * c + z' * s)
              U := ms U j i ((-y') * s + z' * c)
      /- test_for_convergence: -/
      z := g1 W k
      if L = k then
        /- W[k] is made nonnegative -/
        if z < ZERO then
          W := s1 W k (-z)
          for j in [1:n+1] do V := ms V j k (- mg V j k)
        done := true
      else
        /- shift from bottom 2 by 2 minor -/
        if its = 30 then throw ErrKind.NoConvergence
        its := its + 1
        x := g1 W L
        y := g1 W k1
        g := g1 rv1 k1
        h := g1 rv1 k
        f := ((y - z) * (y + z) + (g - h) * (g + h)) / (TWO * h * y)
        g := pythag f ONE
        s := if ZERO ≤ f then g else -g
        f := ((x - z) * (x + z) + h * (y / (f + s) - h)) / x
        /- next QR transformation -/
        c := ONE
        s := ONE
        for i1 in [L:k1+1] do
          let i := i1 + 1
          g := g1 rv1 i
          y := g1 W i
          h := s * g
          g := c * g
          z := pythag f h
          rv1 := s1 rv1 i1 z
          c := f / z
          s := h / z
          f := x * c + g * s
          g := (-x) * s + g * c
          h := y * s
          y := y * c
          for j in [1:n+1] do
            let x' := mg V j i1
            let z' := mg V j i
            V := ms V j i1 (x' * c + z' * s)
            V := ms V j i ((-x') * s + z' * c)
          z := pythag f h
          W := s1 W i1 z
          /- rotation can be arbitrary if z is zero -/
          if nz z then
            c := f / z
            s := h / z
          f := c * g + s * y
          x := (-s) * g + c * y
          for j in [1:m+1] do
            let y' := mg U j i1
            let z' := mg U j i
            U := ms U j i1 (y' * c + z' * s)
            U := ms U j i ((-y') * s + z' * c)
        rv1 := s1 rv1 L ZERO
        rv1 := s1 rv1 k f
        W := s1 W k x
    if !done then throw ErrKind.NoConvergence
  return { U := U, W := W, V := V }

end Gama.Ls.Svd
