/-
  C06 — medians of the approximate-coordinate machinery.

  * `median`  : Acord2::median (acord2.cpp) — also the form used by Statistics_g2d::calculation
                and ApproxPoint::ArrangeObservations ((s[n/2-1]+s[n/2])/2 for even n, s[(n+1)/2-1] for odd n);
  * `median2` : the form `(s[(n-1)/2] + s[n/2])/2` of Acord2::get_medians_z, AcordZderived;
  * `orientation` : Orientation::orientation (orientation.cpp, after fix 01e764d): shifts bearing − direction
                wrapped to [−π, π] by the two `while` loops; median + mean deviation in that wrapping and in
                [0, 2π); the wrapping with the smaller mean deviation wins; `+2π` if negative.

  `std::sort` is modelled by insertion sort (the sorted sequence of values is unique).
  Precondition of `median` in the C++: non-empty vector (size 0 indexes v[-1]); all callers guarantee it.
  The `while` loops have no syntactic bound: `fuel` bounds them (one iteration suffices when bearing and
  direction are both in [0,2π), which the parser and bearing() guarantee).
-/
import Gama.Model.Cogo
namespace Gama.Median
open Scalar Trig Cogo
variable {K : Type} [Scalar K]

def insertSorted (a : K) : List K → List K
  | [] => [a]
  | b :: l => if a ≤ b then a :: b :: l else b :: insertSorted a l

def sort (l : List K) : List K := l.foldr insertSorted []

def nth (l : List K) (i : Nat) : K := l.getD i 0

/-- Acord2::median -/
def median (v : List K) : K :=
  let s := sort v
  let n := s.length
  if n % 2 = 0 then (nth s (n / 2) + nth s (n / 2 - 1)) / two
  else nth s (n / 2)

/-- `(values[(n-1)/2] + values[n/2])/2` -/
def median2 (v : List K) : K :=
  let s := sort v
  let n := s.length
  (nth s ((n - 1) / 2) + nth s (n / 2)) / two

variable [Trig K]

/-- `while (df > M_PI) df -= 2*M_PI;` -/
def wrapDown : Nat → K → K
  | 0, x => x
  | n + 1, x => if (pi : K) < x then wrapDown n (x - twoPi) else x

/-- `while (df < -M_PI) df += 2*M_PI;` -/
def wrapUp : Nat → K → K
  | 0, x => x
  | n + 1, x => if x < -(pi : K) then wrapUp n (x + twoPi) else x

def wrap (fuel : Nat) (x : K) : K := wrapUp fuel (wrapDown fuel x)

/-- one shift `df = zn - sn` wrapped -/
def shift (fuel : Nat) (zn sn : K) : K := wrap fuel (zn - sn)

/-- the lambda `median(s, dev)` of Orientation::orientation (fix 01e764d): sorts, takes
    `(s[(n-1)/2] + s[n/2])/2` (the lower one when `n < 3` and the two differ by more than π/2)
    and the mean absolute deviation from it; returns (sorted s, med, dev) -/
def medianDev (s : List K) : List K × K × K :=
  let n := s.length
  let ss := sort s
  let l1a := nth ss ((n - 1) / 2)
  let l1b := nth ss (n / 2)
  let med := if (pi : K) / two < abs (l1b - l1a) ∧ n < 3 then l1a else (l1a + l1b) / two
  let dev := ss.foldl (fun acc x => acc + abs (x - med)) (0 : K) / ofNat n
  (ss, med, dev)

/-- the part of Orientation::orientation after the shifts have been collected: the median is taken
    in the wrapping [−π,π] and, over the same (now sorted) shifts moved to [0,2π), once more; the one
    with the smaller mean deviation wins (`dw < d`), then `+2π` if negative -/
def orientationOfShifts (sz : List K) : K × Nat :=
  let n := sz.length
  if n = 0 then (0, 0)
  else
    let r := medianDev sz
    let sw := r.1.map (fun x => if x < 0 then x + twoPi else x)
    let rw := medianDev sw
    let l1 := if rw.2.2 < r.2.2 then rw.2.1 else r.2.1
    (if l1 < 0 then l1 + twoPi else l1, n)

/-- Orientation::orientation on the (bearing to target, direction value) pairs of the
    directions whose target has coordinates -/
def orientation (fuel : Nat) (dirs : List (K × K)) : K × Nat :=
  orientationOfShifts (dirs.map (fun p => shift fuel p.1 p.2))

end Gama.Median
