/-
  Model of `GNU_gama::MemRep<Float,Index,Exc>` (lib/matvec/memrep.h): the owning
  buffer underneath every Vec / Mat / SymMat / Array.

  The heap is explicit: `heap : Addr → Option (List K)` (`none` = not allocated),
  `next` = bump pointer of `operator new[]` (every address `≥ next` is fresh).
  A C++ object is `(rep, sz)`; `rep = none` is `nullptr`.  Objects live in
  numbered slots `objs : Nat → Option Obj` (`none` = no live object in the slot).

  Every special member is transcribed statement by statement, including
    * the copy constructor's `new Float[sz]` for `sz = 0` (a non-null empty block),
    * copy assignment's `sz == x.sz` memcpy branch and its reallocate branch,
      which overwrites `rep` WITHOUT `delete[]` (the old block is recorded in `leaked`),
    * the guard `if (sz) std::memcpy(…)` of the copy constructor and of the same-size
      branch (commit 87f5175; before it `memcpy` received null pointers when both sides
      were empty — undefined behaviour, UBSan `nonnull`).  `ubNull` counts `memcpy` calls
      with a null argument; `Props.C15.no_null_memcpy` proves it stays 0.

  `new Float[n]` leaves the elements indeterminate; the model fills a fresh block
  with `default` (the correspondence harness never observes an element before it
  has been written).

  Core Lean only.
-/
namespace Gama.MemRep

/-- addresses are natural numbers (written `Nat` below so that `omega` sees them) -/
abbrev Addr := Nat

/-- function update (object table and heap) -/
def upd {α : Type} (f : Nat → α) (i : Nat) (v : α) : Nat → α := fun j => if j = i then v else f j

/-- the two data members of `MemRep` -/
structure Obj where
  rep : Option Nat
  sz  : Nat
deriving Repr, DecidableEq

/-- why an operation did not complete -/
inductive Stop where
  /-- `throw Exc(Exception::BadRank, …)` -/
  | badRank
  /-- the caller broke the operation's C++ precondition (slot holds no live object /
      already holds one, element index `≥ sz`): unchecked in the C++, outside the model -/
  | precondition
  /-- a block that is not allocated was freed, read or written (double free,
      use after free, null dereference).  Proved unreachable (`Lemmas/MemRep`). -/
  | heapFault
deriving Repr, DecidableEq

structure St (K : Type) where
  heap   : Nat → Option (List K)
  next   : Nat
  objs   : Nat → Option Obj
  /-- blocks whose only pointer was overwritten (never freed afterwards) -/
  leaked : List Nat
  /-- number of `memcpy` calls that received a null pointer (with byte count 0) -/
  ubNull : Nat

def St.init {K : Type} : St K := ⟨fun _ => none, 0, fun _ => none, [], 0⟩

inductive Op (K : Type) where
  /-- `MemRep(Index nsz)` in slot `i` -/
  | ctor (i : Nat) (n : Int)
  /-- `MemRep(const MemRep& x)`, new object in slot `i` from slot `j` -/
  | copyCtor (i j : Nat)
  /-- `MemRep(MemRep&& x)` -/
  | moveCtor (i j : Nat)
  /-- `operator=(const MemRep& x)` : slot `i` = slot `j` -/
  | assign (i j : Nat)
  /-- `operator=(MemRep&& x)` -/
  | moveAssign (i j : Nat)
  /-- `resize(Index nsz)` (`Vec::reset`, `Mat::reset` end here) -/
  | resize (i : Nat) (n : Nat)
  /-- `begin()[k] = v` -/
  | write (i k : Nat) (v : K)
  /-- `~MemRep()` -/
  | dtor (i : Nat)
deriving Repr

section
variable {K : Type} [Inhabited K]

/-- `new Float[n]` (also for `n = 0`): a fresh block, distinct from every block handed out before -/
def alloc (s : St K) (n : Nat) : St K × Nat :=
  ({ s with heap := upd s.heap s.next (some (List.replicate n default)), next := s.next + 1 }, s.next)

/-- `delete[] p` -/
def free (s : St K) : Option Nat → Except Stop (St K)
  | none => .ok s                                  -- `delete[] nullptr` is a no-op
  | some a =>
    match s.heap a with
    | some _ => .ok { s with heap := upd s.heap a none }
    | none => .error .heapFault

/-- `std::memcpy(dst, src, n*sizeof(Float))` -/
def memcpy (s : St K) (dst src : Option Nat) (n : Nat) : Except Stop (St K) :=
  if n = 0 then
    .ok (if dst.isNone || src.isNone then { s with ubNull := s.ubNull + 1 } else s)
  else
    match dst, src with
    | some d, some r =>
      match s.heap d, s.heap r with
      | some bd, some br =>
        if n ≤ bd.length ∧ n ≤ br.length then
          .ok { s with heap := upd s.heap d (some (br.take n ++ bd.drop n)) }
        else .error .heapFault
      | _, _ => .error .heapFault
    | _, _ => .error .heapFault

/-- `if (sz) std::memcpy(dst, src, sz*sizeof(Float));` -/
def memcpyIf (s : St K) (dst src : Option Nat) (n : Nat) : Except Stop (St K) :=
  if n = 0 then .ok s else memcpy s dst src n

def setObj (s : St K) (i : Nat) (o : Option Obj) : St K := { s with objs := upd s.objs i o }

def step (s : St K) : Op K → Except Stop (St K)
  | .ctor i n =>
    match s.objs i with
    | some _ => .error .precondition
    | none =>
      if 0 < n then                                 -- sz = nsz; rep = new Float[sz];
        let (s1, a) := alloc s n.toNat
        .ok (setObj s1 i (some ⟨some a, n.toNat⟩))
      else if n = 0 then                            -- sz = 0; rep = nullptr;
        .ok (setObj s i (some ⟨none, 0⟩))
      else .error .badRank
  | .copyCtor i j =>
    match s.objs i, s.objs j with
    | none, some x =>                               -- sz = x.sz; rep = new Float[sz];
      let (s1, a) := alloc s x.sz
      do let s2 ← memcpyIf s1 (some a) x.rep x.sz   -- if (sz) memcpy(rep, x.rep, sz*sizeof(Float));
         .ok (setObj s2 i (some ⟨some a, x.sz⟩))
    | _, _ => .error .precondition
  | .moveCtor i j =>
    match s.objs i, s.objs j with
    | none, some x =>                               -- sz = x.sz; rep = x.rep; x.sz = 0; x.rep = nullptr;
      .ok (setObj (setObj s j (some ⟨none, 0⟩)) i (some x))
    | _, _ => .error .precondition
  | .assign i j =>
    match s.objs i, s.objs j with
    | some t, some x =>
      if i = j then .ok s                           -- if (&x == this) return *this;
      else if t.sz = x.sz then                      -- if (sz == x.sz) { if (sz) memcpy(rep, x.rep, …); return *this; }
        memcpyIf s t.rep x.rep t.sz
      else
        -- `rep` is about to be overwritten without `delete[] rep`
        let s0 := match t.rep with
                  | some a => { s with leaked := a :: s.leaked }
                  | none => s
        if 0 < x.sz then                            -- rep = new Float[sz]; memcpy(…)
          let (s1, a) := alloc s0 x.sz
          do let s2 ← memcpy s1 (some a) x.rep x.sz
             .ok (setObj s2 i (some ⟨some a, x.sz⟩))
        else                                        -- rep = nullptr;
          .ok (setObj s0 i (some ⟨none, 0⟩))
    | _, _ => .error .precondition
  | .moveAssign i j =>
    match s.objs i, s.objs j with
    | some t, some x =>
      if i = j then .ok s                           -- if (&x != this) { … }
      else
        do let s1 ← free s t.rep                    -- if (rep != nullptr) delete[] rep;
           .ok (setObj (setObj s1 j (some ⟨none, 0⟩)) i (some x))
    | _, _ => .error .precondition
  | .resize i n =>
    match s.objs i with
    | some t =>
      if n = t.sz then .ok s                        -- if (nsz == sz) return;
      else
        do let s1 ← free s t.rep                    -- sz = nsz; delete[] rep;
           if 0 < n then
             let (s2, a) := alloc s1 n              -- rep = new Float[sz];
             .ok (setObj s2 i (some ⟨some a, n⟩))
           else .ok (setObj s1 i (some ⟨none, 0⟩))  -- rep = nullptr;
    | none => .error .precondition
  | .write i k v =>
    match s.objs i with
    | some t =>
      if k < t.sz then
        match t.rep with
        | some a =>
          match s.heap a with
          | some b => .ok { s with heap := upd s.heap a (some (b.set k v)) }
          | none => .error .heapFault
        | none => .error .heapFault
      else .error .precondition
    | none => .error .precondition
  | .dtor i =>
    match s.objs i with
    | some t =>
      do let s1 ← free s t.rep                      -- delete[] rep;
         .ok (setObj s1 i none)
    | none => .error .precondition

/-- run a script; stops at the first operation that does not complete -/
def run (s : St K) : List (Op K) → Except Stop (St K)
  | [] => .ok s
  | op :: ops => do let s' ← step s op; run s' ops

/-- the value held by slot `i`: `[begin(), end())` -/
def val (s : St K) (i : Nat) : Option (List K) :=
  match s.objs i with
  | none => none
  | some o =>
    match o.rep with
    | none => some []
    | some a => some ((s.heap a).getD [])

/-- `begin()[k]` -/
def read (s : St K) (i k : Nat) : Except Stop K :=
  match s.objs i with
  | some t =>
    if k < t.sz then
      match t.rep with
      | some a =>
        match s.heap a with
        | some b => match b[k]? with
                    | some v => .ok v
                    | none => .error .heapFault
        | none => .error .heapFault
      | none => .error .heapFault
    else .error .precondition
  | none => .error .precondition

/-! ### Specification: independent values -/

abbrev Vals (K : Type) := Nat → Option (List K)

/-- the same operations on independent values: copy duplicates, move transfers and
    leaves the source empty, nothing is shared -/
def spec (v : Vals K) : Op K → Except Stop (Vals K)
  | .ctor i n =>
    match v i with
    | some _ => .error .precondition
    | none => if 0 ≤ n then .ok (upd v i (some (List.replicate n.toNat default))) else .error .badRank
  | .copyCtor i j =>
    match v i, v j with
    | none, some x => .ok (upd v i (some x))
    | _, _ => .error .precondition
  | .moveCtor i j =>
    match v i, v j with
    | none, some x => .ok (upd (upd v j (some [])) i (some x))
    | _, _ => .error .precondition
  | .assign i j =>
    match v i, v j with
    | some _, some x => .ok (upd v i (some x))
    | _, _ => .error .precondition
  | .moveAssign i j =>
    match v i, v j with
    | some _, some x => if i = j then .ok v else .ok (upd (upd v j (some [])) i (some x))
    | _, _ => .error .precondition
  | .resize i n =>
    match v i with
    | some t => if n = t.length then .ok v else .ok (upd v i (some (List.replicate n default)))
    | none => .error .precondition
  | .write i k x =>
    match v i with
    | some t => if k < t.length then .ok (upd v i (some (t.set k x))) else .error .precondition
    | none => .error .precondition
  | .dtor i =>
    match v i with
    | some _ => .ok (upd v i none)
    | none => .error .precondition

def specRun (v : Vals K) : List (Op K) → Except Stop (Vals K)
  | [] => .ok v
  | op :: ops => do let v' ← spec v op; specRun v' ops

end
end Gama.MemRep
