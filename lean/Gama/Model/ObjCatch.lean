/-
  HISTORIES THAT CONTINUE AFTER A CAUGHT EXCEPTION (`try { op } catch (const Exc&) { }`), for the
  object-history machines of `Mat` (Model/MatObj.lean), `SymMat` (Model/SymObj.lean) and `Vec`
  (Model/VecObj.lean).

  A machine gives `step : St → Op → Except Stop St` (the operation completes, or stops with a reason)
  and `thrown : St → Op → St`: the state the C++ leaves behind when the operation throws — the members
  and blocks written before the `throw`, temporaries constructed before it destroyed by unwinding
  (`tempGone`).  `runC` runs a history, catching every C++ exception (`BadRank`, `Singular`) and going
  on from `thrown`; a broken caller precondition / heap fault is not an exception and still stops.
  The same rule on independent values is `specRunC`.

  This file: the generic runner, `tempGone`, and `thrown` for `Mat`:
    * `BadRank` of `Mat::invert` (`rows() != cols()`, the first statement): nothing was touched;
    * `Singular` of `Mat::invert`: thrown at the top of elimination step `k` (after the pivot search,
      before the first write of that step): the block holds the storage after `k` completed steps —
      HALF-ELIMINATED, row/column permutation not undone —, `pentry` has been set, the index arrays
      `indr`, `indc` (two blocks of `N` cells) are destroyed by unwinding.

  Core Lean only.
-/
import Gama.Model.MatObj
namespace Gama.ObjCatch
open Gama.MatObj (Stop)

/-- C++ exceptions (caught by `catch (const Exc&)`); the other reasons are not exceptions -/
def isExc : Stop → Bool
  | .badRank | .singular => true
  | .precondition | .heapFault => false

section
variable {St Op : Type}

/-- one operation under `try`/`catch`: the state it leaves and the exception caught, if any -/
def stepC (step : St → Op → Except Stop St) (thrown : St → Op → St) (s : St) (op : Op) :
    Except Stop (St × Option Stop) :=
  match step s op with
  | .ok s' => .ok (s', none)
  | .error e => if isExc e then .ok (thrown s op, some e) else .error e

/-- a history with every exception caught: final state and the exception caught at each operation -/
def runC (step : St → Op → Except Stop St) (thrown : St → Op → St) (s : St) :
    List Op → Except Stop (St × List (Option Stop))
  | [] => .ok (s, [])
  | op :: ops =>
    match stepC step thrown s op with
    | .error e => .error e
    | .ok (s', o) =>
      match runC step thrown s' ops with
      | .error e => .error e
      | .ok (s'', tr) => .ok (s'', o :: tr)

end

/-- the heap after a temporary of `n` cells was constructed (`new Float[n]`, only if `0 < n`:
    `MemRep(Index)`) and destroyed again (`delete[]`) -/
def tempGone {K : Type} [Inhabited K] (s : MemRep.St K) (n : Nat) : MemRep.St K :=
  if 0 < n then
    let (s1, a) := MemRep.alloc s n
    { s1 with heap := MemRep.upd s1.heap a none }
  else s

end Gama.ObjCatch

namespace Gama.MatObj
open Gama.MemRep (upd)
open Gama.MatVec

section
variable {K : Type} [Scalar K] [Inhabited K]

/-- the elimination state at which `gjEliminate N tol s g` throws `Singular` (the state after the
    last completed step), if it throws within `s` steps -/
def gjThrowState (N : Nat) (tol : K) : Nat → GJ K → Option (GJ K)
  | 0, _ => none
  | s+1, g => match gjEliminate N tol s g with
              | none => gjThrowState N tol s g
              | some g' => match gjStep N tol s g' with
                           | none => some g'
                           | some _ => none

/-- value level: the half-eliminated storage left by `Mat::invert` throwing `Singular` -/
def invertThrownList (N : Nat) (tol : K) (l : List K) : List K :=
  match gjThrowState N tol N ⟨fun k => l.getD k 0, id, id, 0, 0⟩ with
  | none => l
  | some g => (List.range l.length).map g.m

/-- the state a throwing operation leaves behind (`PInit.always`) -/
def thrown (s : St K) : Op K → St K
  | .invert i tol =>
    match s.mem.objs i with
    | none => s
    | some t =>
      let e := s.ext i
      if e.row ≠ e.col then s                     -- BadRank: first statement of invert()
      else
        -- pentry = this->begin();  Array indr(N), indc(N);  … elimination …  throw Singular
        match rewriteAt s.mem t.rep t.sz (invertThrownList e.row tol) with
        | .ok m => ⟨ObjCatch.tempGone (ObjCatch.tempGone m e.row) e.row, upd s.ext i { e with pentry := t.rep }⟩
        | .error _ => s
  | _ => s

def specThrown (v : Vals K) : Op K → Vals K
  | .invert i tol =>
    match v i with
    | none => v
    | some t =>
      if t.rows ≠ t.cols then v
      else upd v i (some { t with data := invertThrownList t.rows tol t.data })
  | _ => v

def runC (pi : PInit) (s : St K) (ops : List (Op K)) := ObjCatch.runC (step pi) thrown s ops
def specRunC (v : Vals K) (ops : List (Op K)) := ObjCatch.runC spec specThrown v ops

end
end Gama.MatObj
