/-
  Models of the numeric-literal recognisers the XML parsers run before `atof`/`atoi`
  (core Lean only; executed by Driver/Gkf.lean next to the C++).

    lib/gnu_gama/intfloat.h      SkipWhiteSpaces, TrimWhiteSpaces, IsInteger, IsFloat
    lib/gnu_gama/xml/baseparser.cpp   CoreParser::toDouble / toInteger / toIndex
    lib/gnu_gama/gon2deg.cpp     deg2gon (accepted language; the `istringstream`
                                 extractions are modelled by the explicit scanners below)

  Strings are `List Char`; a C `char` with the high bit set is any `Char ≥ 128`
  (`isspace`/`isdigit` are false there in the "C" locale).
-/
import Gama.Gen.GkfAutomaton
namespace Gama.Lit

/-- `isspace` in the "C" locale: space, \t \n \v \f \r -/
def isSpace (c : Char) : Bool :=
  c == ' ' || c == '\t' || c == '\n' || c == '\x0b' || c == '\x0c' || c == '\r'

/-- `isdigit` -/
def isDigit (c : Char) : Bool := '0' ≤ c && c ≤ '9'

def isSign (c : Char) : Bool := c == '+' || c == '-'
def isExp (c : Char) : Bool := c == 'e' || c == 'E'

/-- `SkipWhiteSpaces(b, e)` -/
def skipWs : List Char → List Char
  | [] => []
  | c :: cs => if isSpace c then skipWs cs else c :: cs

/-- the second loop of `TrimWhiteSpaces`: `e` moves just behind the last non-blank.
    (`dropBack s` = `s` without its trailing blanks) -/
def dropBack : List Char → List Char
  | [] => []
  | c :: cs =>
    match dropBack cs with
    | [] => if isSpace c then [] else [c]
    | r => c :: r

/-- `TrimWhiteSpaces(b, e)` -/
def trim (s : List Char) : List Char := dropBack (skipWs s)

/-- `while (b != e && isdigit(*b)) ++b;` -/
def skipDigits : List Char → List Char
  | [] => []
  | c :: cs => if isDigit c then skipDigits cs else c :: cs

/-- `switch (*b) { case '+': case '-': ++b; }` (only when `b != e`) -/
def skipSign : List Char → List Char
  | c :: cs => if isSign c then cs else c :: cs
  | [] => []

/-- `IsInteger(b, e)` after trimming and the optional sign: digits up to `e` -/
def allDigits : List Char → Bool
  | [] => true
  | c :: cs => isDigit c && allDigits cs

/-- `IsInteger(const String&)`.  NB: in the pinned code a lone sign is accepted (`"+"` ↦ true);
    whether the guard `if (b == e) return false;` follows the sign is read from the source
    (`Gkf.intLoneSignRejected`, generated). -/
def isInteger (s : List Char) : Bool :=
  match trim s with
  | [] => false
  | t =>
    let r := skipSign t
    if Gkf.intLoneSignRejected && r.isEmpty then false else allDigits r

/-- the exponent part of `IsFloat`, entered with `b != e`:
      `if (*b != 'e' && *b != 'E') return false; ++b; if (b == e) return false;`
      sign; `if (b == e) return false; while (digit) ++b; if (b != e) return false;` -/
def expPart : List Char → Bool
  | [] => true       -- not entered: `if (b != e) { … }`
  | c :: cs =>
    if !isExp c then false else
    match cs with
    | [] => false
    | _ =>
      match skipSign cs with
      | [] => false
      | r => (skipDigits r).isEmpty

/-- `IsFloat(b, e)` on the trimmed, non-empty range -/
def floatBody (t : List Char) : Bool :=
  let t1 := skipSign t
  let t2 := skipDigits t1
  let d1 := t2.length < t1.length          -- first `hasdigit = true`
  let t3 := match t2 with
            | '.' :: r => r
            | r => r
  let t4 := skipDigits t3
  let d2 := t4.length < t3.length          -- second `hasdigit = true`
  if t4.isEmpty then d1 || d2
  else if expPart t4 then d1 || d2 else false

/-- `IsFloat(const String&)` -/
def isFloat (s : List Char) : Bool :=
  match trim s with
  | [] => false
  | t => floatBody t

/-- value of a digit string (most significant first) -/
def digitsVal (ds : List Char) : Nat := ds.foldl (fun a c => a * 10 + (c.toNat - '0'.toNat)) 0

/-- smallest real that `atof` (correctly rounded `strtod`, round to nearest even) turns into +inf:
    `2^1024 - 2^970` = DBL_MAX + half an ulp -/
def dblOverflow : Nat :=
  179769313486231580793728971405303415079934132710037826936173778980444968292764750946649017977587207096330286416692887910946555547851940402630657488671505820681908902000708383676273854845817711531764475730270069855571366959622842914819860834936475292719074168444365510704342711559699508093042880177904174497792

/-- an upper bound used only to avoid evaluating `10 ^ e` for absurd exponents: `10 ^ 310 > dblOverflow` -/
def expCut : Nat := 310

/-- mantissa and decimal exponent of a string of the shape accepted by `IsFloat`
    (`[+-]? d* '.'? d* ([eE][+-]?d+)?` after trimming): (M, number of mantissa digits, F, exponent negative?, E);
    the value is `± M · 10^(±E - F)` with `M` = all mantissa digits read as one integer,
    `F` = number of digits after the point -/
def floatParts (t : List Char) : Nat × Nat × Nat × Bool × Nat :=
  let t1 := skipSign t
  let ip := t1.takeWhile isDigit
  let r1 := t1.dropWhile isDigit
  let r2 := match r1 with
            | '.' :: r => r
            | r => r
  let fp := r2.takeWhile isDigit
  let r3 := r2.dropWhile isDigit
  let (eneg, ed) := match r3 with
    | _ :: '-' :: r => (true, r.takeWhile isDigit)
    | _ :: '+' :: r => (false, r.takeWhile isDigit)
    | _ :: r => (false, r.takeWhile isDigit)
    | [] => (false, [])
  (digitsVal (ip ++ fp), (ip ++ fp).length, fp.length, eneg, digitsVal ed)

/-- `std::isfinite(atof(s))` for a string accepted by `IsFloat`: the exact decimal value is below `dblOverflow`
    (underflow to 0 / denormals are finite).  `10 ^ k` is only evaluated for `k` bounded by the length of the
    string or by `expCut`. -/
def finiteLit (s : List Char) : Bool :=
  let (m, nd, f, eneg, e) := floatParts (trim s)
  if m == 0 then true
  else if eneg || e ≤ f then
    let k := if eneg then e + f else f - e           -- value = M / 10^k
    if k ≥ nd then true                              -- M < 10^nd ≤ 10^k
    else decide (m < dblOverflow * 10 ^ k)
  else
    let k := e - f                                   -- value = M · 10^k, k ≥ 1
    if k > expCut then false
    else decide (m * 10 ^ k < dblOverflow)

/-- `CoreParser::toDouble` acceptance: `IsFloat(s)` and `std::isfinite(atof(s))` (since 425dbdc) -/
def toDoubleOk (s : List Char) : Bool := isFloat s && finiteLit s

/-- `CoreParser::toIndex`: every character blank or digit, then `toDouble`;
    the value is `static_cast<int>(atof(s))`, i.e. the digit string read in base 10
    (`none` = rejected).  For a digit string `atof` is finite iff the integer is below `dblOverflow`.
    Values ≥ 2^31 are accepted by the C++ (the cast is undefined there);
    the model returns the mathematical value. -/
def toIndex (s : List Char) : Option Nat :=
  if s.all (fun c => isSpace c || isDigit c) then
    if isFloat s && decide (digitsVal (trim s) < dblOverflow) then some (digitsVal (trim s)) else none
  else none

/-- `CoreParser::toInteger` acceptance -/
def toInteger (s : List Char) : Bool := isInteger s

/-! ### deg2gon -/

def intMax : Nat := 2147483647

/-- `dms >> d` for an `int` (libstdc++ `num_get`): skip blanks, optional sign, at least one digit,
    the value must fit an `int`; returns (negative, value, rest) -/
def scanInt (s : List Char) (skipws : Bool) : Option (Bool × Nat × List Char) :=
  let s0 := if skipws then skipWs s else s
  let (neg, s1) := match s0 with
    | '-' :: r => (true, r)
    | '+' :: r => (false, r)
    | r => (false, r)
  let s2 := skipDigits s1
  if s2.length < s1.length then
    let v := digitsVal (s1.take (s1.length - s2.length))
    if (neg && v ≤ intMax + 1) || (!neg && v ≤ intMax) then some (neg, v, s2) else none
  else none

/-- `dms >> s` for a `double` entered on a digit (libstdc++ `_M_extract_float` + `strtod`),
    followed by `dms.eof()`: the whole rest must be
      `d+ ('.' d*)? ([eE] [+-]? d+)?`.
    (Overflow to ±HUGE_VAL, which sets failbit, is outside the modelled alphabet/length.) -/
def scanSecondsToEnd (s : List Char) : Bool :=
  let s1 := skipDigits s
  if s1.length < s.length then
    let s2 := match s1 with
              | '.' :: r => skipDigits r
              | r => r
    match s2 with
    | [] => true
    | c :: r =>
      if isExp c then
        let r1 := skipSign r
        match r1 with
        | [] => false
        | _ => (skipDigits r1).isEmpty && r1.all isDigit
      else false
  else false

/-- accepted language of `deg2gon(string, double&)` -/
def deg2gonAccepts (s : List Char) : Bool :=
  match trim s with
  | [] => false
  | c :: r =>
    let b := if isSign c then r else c :: r
    if b.isEmpty then false else
    match scanInt b true with
    | none => false
    | some (neg, d, r1) =>
      if neg && d ≠ 0 then false else            -- `d < 0`
      match r1 with
      | '-' :: r2 =>
        (match r2 with
         | c2 :: _ =>
           if !isDigit c2 then false else
           match scanInt r2 false with
           | none => false
           | some (_, _, r3) =>
             match r3 with
             | '-' :: r4 =>
               (match r4 with
                | c4 :: _ => if !isDigit c4 then false else scanSecondsToEnd r4
                | [] => false)
             | _ => false
         | [] => false)
      | _ => false

end Gama.Lit
