/-
  Run of the GKF input parser over a sequence of SAX events (core Lean only).

  Models, on top of the GENERATED tables of Gama/Gen/GkfAutomaton.lean:

    CoreParser::error            "store only the first detected error": `if (errCode) return 1;`
                                 otherwise errString/errCode/errLineNumber are set and `state = 0`
    GKFparser::startElement      table `start`; a `process_*` handler is executed as the generated
                                 list of `Op`s (state assignments in source order, the attribute loop,
                                 early returns) — so a handler that assigns `state` *after* an error
                                 was recorded takes the automaton out of the error state, as in the C++
    GKFparser::endElement        table `stop`
    GKFparser::characterDataHandler
    BaseParser::xml_parse        after every chunk: `if (state == 0) throw ParserException(…)`

  What is abstracted: the *value* checks inside `process_*` / `finish_*` (numeric formats,
  missing ids, covariance data …) are one bit per event (`dataOk`); attribute *names* are
  checked by the model against the generated sets.  The line number of an error is
  represented by the index of the event during which `error()` was first called.
-/
import Gama.Gen.GkfAutomaton
import Gama.Model.Literals
namespace Gama.Gkf

/-- an attribute as the handlers see it: its name and whether its value is `!= ""` -/
structure Attr where
  name : String
  nonEmpty : Bool
  deriving DecidableEq, Repr

inductive Event where
  /-- element start; `dataOk` = every value check of the handler passes -/
  | start (t : Tag) (attrs : List Attr) (dataOk : Bool)
  /-- element end; `dataOk` = every check of the `finish_*` called (if any) passes -/
  | stop (dataOk : Bool)
  /-- character data -/
  | text (s : List Char)
  deriving Repr

/-- parser state: `state`, the first recorded error (event index stands for `errLineNumber`,
    kind for `errString`; `none` ⇔ `errCode == 0`), number of events seen -/
structure St where
  state : State
  err : Option (Nat × ErrKind)
  n : Nat
  deriving Repr, DecidableEq

/-- constructor of GKFparser: `state = state_start`, `errCode = 0` -/
def St.init : St := ⟨.start_, none, 0⟩

/-- `CoreParser::error` -/
def St.error (st : St) (k : ErrKind) : St :=
  match st.err with
  | some _ => st
  | none => { st with err := some (st.n, k), state := .error_ }

/-- the attribute loop of `process_h`: is every examined attribute name one of those compared? -/
def attrsOk (h : Handler) (attrs : List Attr) : Bool :=
  match attrLoop h with
  | .all => attrs.all (fun a => (attrNames h).contains a.name)
  | .first => match attrs with
              | [] => true
              | a :: _ => (attrNames h).contains a.name
  | .none => true

/-- `pp_xydef || pp_zdef` after a `process_point` whose value checks passed -/
def hasXYorZ (attrs : List Attr) : Bool :=
  attrs.any (fun a => (a.name == "x" || a.name == "z") && a.nonEmpty)

/-- execute the skeleton of a handler; `failed` = the last check/callee signalled an error -/
def execOps : List Op → List Attr → Bool → St → Bool → St
  | [], _, _, st, _ => st
  | .setState s :: r, as, d, st, f => execOps r as d { st with state := s } f
  | .attrs h :: r, as, d, st, _ =>
      if attrsOk h as && d then execOps r as d st false
      else execOps r as d (st.error .handler) true
  | .retIfFailed :: r, as, d, st, f => if f then st else execOps r as d st f
  | .needXYorZ :: r, as, d, st, _ =>
      if hasXYorZ as then execOps r as d st false
      else execOps r as d (st.error .handler) true
  | .ret :: _, _, _, st, _ => st

def isBlank (s : List Char) : Bool := s.all Lit.isSpace

/-- what one handler call does to (state, err); the event counter is advanced by `step` -/
def react (st : St) : Event → St
  | .start t as d =>
    match start st.state t with
    | .run h => execOps (handlerOps h) as d st false
    | .set s => { st with state := s }
    | .err k => st.error k
    | .ignore => st
  | .stop d =>
    match stop st.state with
    | .goto s f =>
      let st1 := { st with state := s }
      match f with
      | none => st1
      | some _ => if d then st1 else st1.error .finish
    | .fail k => st.error k
    | .silent => { st with state := .error_ }
  | .text s =>
    if textAccepting st.state || isBlank s then st else st.error textErr

def step (st : St) (e : Event) : St := { react st e with n := st.n + 1 }

def run (st : St) (evs : List Event) : St := evs.foldl step st

/-- result of `xml_parse` for a chunk that expat accepted -/
inductive Outcome where
  | accepted
  /-- `throw ParserException(errString, errLineNumber, -1)`; `none` = line 0, empty message -/
  | refused (err : Option (Nat × ErrKind))
  deriving Repr, DecidableEq

def outcome (st : St) : Outcome :=
  if st.state = .error_ then .refused st.err else .accepted

/-- chunked delivery: after each chunk `xml_parse` throws if `state == 0`; later chunks are not fed -/
def runChunks (st : St) : List (List Event) → St
  | [] => st
  | c :: cs =>
    let st' := run st c
    if st'.state = .error_ then st' else runChunks st' cs

end Gama.Gkf
