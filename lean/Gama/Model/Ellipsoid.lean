/-
  Model of lib/gnu_gama/ellipsoid.{h,cpp} (class `GNU_gama::Ellipsoid`) and of
  `GNU_gama::set(Ellipsoid*, gama_ellipsoid)` over the regenerated table
  (Gama/Gen/Ellipsoids.lean).  Core Lean only; same operations in the same order.
  Every function here that transcribes a member function of the class is proved equal to its regenerated
  counterpart `Gen.Ell.*` (Gen/EllipsoidExpr.lean, rewritten from ellipsoid.{h,cpp} on every run) in
  Lemmas/GeoGenTie.lean.
-/
import Gama.Model.GeoScalar
import Gama.Model.EllipsoidData
import Gama.Gen.Ellipsoids
import Gama.Gen.GeoVariants
namespace Gama
open Scalar Transc

/- `structure Ellipsoid` (the private data members): Model/EllipsoidData.lean -/

namespace Ellipsoid
variable {K : Type} [Scalar K]

/-- `Ellipsoid::set_abff1(pa, pb, pf, pf1)`; `if (pb)` is `pb != 0` -/
def setAbff1 (pa pb pf pf1 : K) : Ellipsoid K :=
  let A := pa
  let Bf : K × K :=
    if !(Scalar.beq pb 0) then (pb, (A - pb) / A)
    else if !(Scalar.beq pf 0) then (A * (1 - pf), pf)
    else
      let ff : K := 1 / pf1
      (A * (1 - ff), ff)
  let B := Bf.1
  let ff := Bf.2
  let a2 := A * A
  let b2 := B * B
  let n := (A - B) / (A + B)
  let e2 := (a2 - b2) / a2
  let e22 := (a2 - b2) / b2
  let Ime2 := 1 - e2
  let Ipe22 := 1 + e22
  let AIme2 := A * Ime2
  let AB := A / B
  { A, B, ff, n, e2, e22, Ime2, Ipe22, AIme2, AB }

def setAb  (pa pb : K) : Ellipsoid K := setAbff1 pa pb 0 0
def setAf  (pa pf : K) : Ellipsoid K := setAbff1 pa 0 pf 0
def setAf1 (pa pf : K) : Ellipsoid K := setAbff1 pa 0 0 pf

/-- a source literal `(mantissa, decimals)` -/
def lit (p : Nat × Nat) : K := Scalar.ofSci p.1 true p.2

/-- `set(E, T)` for one table row / the default constructor -/
def ofRow (r : Gen.EllRow) : Ellipsoid K :=
  match r.kind with
  | .ab  => setAb  (lit r.a) (lit r.p)
  | .af  => setAf  (lit r.a) (lit r.p)
  | .af1 => setAf1 (lit r.a) (lit r.p)

/-- `ellipsoid(const char*)` followed by `set`: `none` is `ellipsoid_unknown` (set returns 1) -/
def byId (s : String) : Option Gen.EllRow := Gen.ellipsoidTable.find? (fun r => r.id == s)

variable [Transc K]

/-- `Ellipsoid::W` -/
def W (e : Ellipsoid K) (b : K) : K :=
  let p := sin b
  Scalar.sqrt (1 - e.e2 * p * p)

/-- `Ellipsoid::N` -/
def N (e : Ellipsoid K) (b : K) : K := e.A / e.W b

/-- `Ellipsoid::M` -/
def M (e : Ellipsoid K) (b : K) : K :=
  let w := e.W b
  e.AIme2 / (w * w * w)

/-- `Ellipsoid::V` -/
def V (e : Ellipsoid K) (b : K) : K :=
  let p := cos b
  Scalar.sqrt (1 + e.e22 * p * p)

/-- `Ellipsoid::F` -/
def F (e : Ellipsoid K) (b : K) : K :=
  Scalar.sqrt (1 + e.n * cos (b + b) + e.n * e.n)

/-- `Ellipsoid::blh2xyz` -/
def blh2xyz (e : Ellipsoid K) (b l h : K) : K × K × K :=
  let sb := sin b
  let cb := cos b
  let sl := sin l
  let cl := cos l
  let nn := e.N b
  let n1 := nn * e.Ime2 + h
  let nh := nn + h
  (nh * cb * cl, nh * cb * sl, n1 * sb)

/-- distance from the axis as coded: `x = |x|, y = |y|`, the larger one times
    `sqrt(1 + t*t)`; `none` on the axis (x = y = 0) -/
def axisDist (x y : K) : Option K :=
  let x := Scalar.abs x
  let y := Scalar.abs y
  if y < x then
    let t := y / x
    some (x * Scalar.sqrt (1 + t * t))
  else if !(Scalar.beq y 0) then
    let t := x / y
    some (y * Scalar.sqrt (1 + t * t))
  else none

/-- the argument pair of the `atan2` of one Bowring pass -/
def bowringYX (e : Ellipsoid K) (x z sin_u sin2_u cos_u cos2_u : K) : K × K :=
  (z + e.e22 * e.B * sin2_u * sin_u, x - e.e2 * e.A * cos2_u * cos_u)

/-- first pass: parametric latitude from `tan u = (a/b) z / x` -/
def bowring1 (e : Ellipsoid K) (x z : K) : K :=
  let tan_u := e.AB * z / x
  let cos2_u := 1 / (1 + tan_u * tan_u)
  let cos_u := Scalar.sqrt cos2_u
  let sin2_u := 1 - cos2_u
  let sin_u0 := Scalar.sqrt sin2_u
  let sin_u := if z < 0 then - sin_u0 else sin_u0
  let yx := e.bowringYX x z sin_u sin2_u cos_u cos2_u
  atan2 yx.1 yx.2

/-- second pass: parametric latitude from the latitude of the first pass.
    `clamp`: the repaired code adds `if (cos2_u < 0) cos2_u = 0;` (at the poles rounding can make
    |sin_u| > 1 and the original takes the square root of a negative number) -/
def bowring2 (clamp : Bool) (e : Ellipsoid K) (x z b : K) : K :=
  let sin_u := e.Ime2 * e.N b / e.B * sin b
  let sin2_u := sin_u * sin_u
  let cos2_u := 1 - sin2_u
  let cos2_u := if clamp && decide (cos2_u < 0) then 0 else cos2_u
  let cos_u := Scalar.sqrt cos2_u
  let yx := e.bowringYX x z sin_u sin2_u cos_u cos2_u
  atan2 yx.1 yx.2

/-- the two height formulas at the end of `xyz2blh` -/
def heightOf (e : Ellipsoid K) (x z b : K) : K :=
  if Scalar.abs z < x then x / cos b - e.N b
  else z / sin b - e.Ime2 * e.N b

/-- `M_PI/2` -/
def halfPi : K := (pi : K) / Scalar.ofNat 2

/-- `-M_PI/2` as C parses it: `(-M_PI)/2` -/
def negHalfPi : K := (-(pi : K)) / Scalar.ofNat 2

/-- `Ellipsoid::xyz2blh`; result `(b, l, h)` -/
def xyz2blhWith (clamp : Bool) (e : Ellipsoid K) (x y z : K) : K × K × K :=
  let l := atan2 y x
  match axisDist x y with
  | none =>
    if 0 < z then
      let b : K := halfPi
      (b, 0, z - e.Ime2 * e.N b)
    else
      let b : K := negHalfPi
      (b, 0, -z - e.Ime2 * e.N b)
  | some x =>
    let b := e.bowring1 x z
    let b := e.bowring2 clamp x z b
    (b, l, e.heightOf x z b)

/-- the variant the current tree contains -/
def xyz2blh (e : Ellipsoid K) (x y z : K) : K × K × K := xyz2blhWith Gen.bowringClamp e x y z

end Ellipsoid
end Gama
