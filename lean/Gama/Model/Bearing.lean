/-
  Model of lib/gnu_gama/local/bearing.cpp: `bearing_distance`, `bearing`, `distance`.
  Core Lean only.
-/
import Gama.Model.GeoScalar
namespace Gama.Bearing
open Gama Scalar Transc
variable {K : Type} [Scalar K] [Transc K]

/-- the cut `d < 1e-6` below which the bearing is reported as 0 ("avoid exception from atan2") -/
def cut : K := Scalar.ofSci 1 true 6

/-- `bearing_distance(ya, xa, yb, xb, b, d)`; result `(b, d)` -/
def bearingDistance (ya xa yb xb : K) : K × K :=
  let dy := yb - ya
  let dx := xb - xa
  let d := Scalar.sqrt (dy * dy + dx * dx)
  if d < cut then (0, 0)
  else
    let s := atan2 dy dx
    let b := if (0 : K) ≤ s then s else s + Scalar.ofNat 2 * pi
    (b, d)

/-- `bearing(ya, xa, yb, xb)` -/
def bearing (ya xa yb xb : K) : K := (bearingDistance ya xa yb xb).1

/-- `distance(a, b)` on `LocalPoint`s (no cut) -/
def distance (ya xa yb xb : K) : K :=
  let dy := yb - ya
  let dx := xb - xa
  Scalar.sqrt (dy * dy + dx * dx)

end Gama.Bearing
