/-
  C06 — `refine_obsdh_reductions(IS, adjusted)` (lib/gnu_gama/local/test_linearization_visitor.cpp) and the
  three-test loop of `LocalNetwork::refine_adjustment()` (network.cpp), after /repo 281bcf7 and a2adf726.
  Core Lean only (linked into `drv_cogo`).

  REGENERATED on every run (`Gama/Gen/RefineObsdh.lean`, tools/gen/c06_testlin.py): the lambda `coordinates`
  (with the `adjusted` flag: `+ x(index)/1000` for a free point with a non-zero index), the two tolerances, the
  `S_Distance` and the `Z_Angle` branch from the two `continue` guards to the decisions `store`
  (`r_diff > 0 && !adjusted` ⇒ `set_reduction_dh(recomputed); changed = true;`) and `ask`
  (`r_diff > tol` ⇒ `status = true;`), and the list of tests of one turn of `refine_adjustment`.

  Hand-written here (shape matched textually by the translator):
    * `dhView`         : the record a branch reads — `IS->PD[obs->from()/to()]` with the index fields the last
                         `project_equations()` left (`idx.get`), `test_xyz()`, `from_dh()`, `to_dh()`, `reduction()`;
    * `obsdhFrom`      : the loop `for (observation in IS->OD)` with the `dynamic_cast` dispatch
                         (`S_Distance` ↦ `slopeBranch`, `Z_Angle` ↦ `zenithBranch`, anything else untouched),
                         accumulating `status`, `changed` and storing reductions;
    * `refineObsdh`    : the function: `(observations with the stored reductions, status, changed)`;
                         `if (changed) IS->update_residuals()` invalidates the adjustment — here the adjustment is a
                         FUNCTION of the current state (`Env.adjust`), so it is never stale (caching: C04);
    * `runTests`       : `bool refine = t0; if (!refine) refine = t1; …` — the first test that asks ends the turn;
    * `loop`, `refineAdjustment` : `clear…; while (iterations_ < max) { tests; if (!refine) break; ++iterations_;
                         refine_approx_coordinates(); } return iterations_ > 0;`.

  `OD` holds every observation of every cluster (the iterator of `ObservationData` does not look at `active()`);
  the adjustment (`IS->solve()`, `IS->residuals()`, the index fields, `revised_obs_`) and
  `refine_approx_coordinates()` are parameters (`Env`): they are `project_equations()` + a solver (C01/C05 models)
  and `GN.refine` — the theorems of `Props/C06Refine.lean` ask of them only what those models are proved to give.
-/
import Gama.Gen.RefineObsdh
import Gama.Model.TestLinearization
namespace Gama.RA
open Gama Gama.Lin Gama.Gen.Obsdh
variable {K : Type} [TrigScalar K]

/-- one observation of `IS->OD` as the loop sees it: class, stand-point cluster, points, the stored `value_`
    (`raw`), `from_dh()`, `to_dh()`, `reduction()`; `value() = value_ + reduction()` (observation.h) -/
structure DObs (K : Type) where
  kind : Kind
  sp : Nat
  pfrom : Nat
  pto : Nat
  pfs : Nat
  raw : K
  from_dh : K
  to_dh : K
  red : K

/-- the observation as the linearisation and `TestLinearization` read it: `obs->value()` -/
def DObs.nobs (o : DObs K) : NObs K := ⟨o.kind, o.sp, o.pfrom, o.pto, o.pfs, o.raw + o.red⟩

/-- `IS->PD[id]` as `refine_obsdh_reductions` reads it -/
def dhPt (σ : Net K) (xyz : Nat → Bool) (idx : IdxState) (p : Nat) : DhPt K :=
  ⟨σ.pt p, idx.get ⟨p, .x⟩, idx.get ⟨p, .y⟩, idx.get ⟨p, .z⟩, xyz p⟩

/-- the record one branch reads -/
def dhView (σ : Net K) (xyz : Nat → Bool) (idx : IdxState) (o : DObs K) : DhObs K :=
  ⟨dhPt σ xyz idx o.pfrom, dhPt σ xyz idx o.pto, o.from_dh, o.to_dh, o.red⟩

/-- the `dynamic_cast` dispatch of the loop body -/
def branch (adjusted : Bool) (x : Nat → K) (k : Kind) (v : DhObs K) : Option (K × Bool × Bool) :=
  match k with
  | .s_distance => slopeBranch adjusted x v
  | .z_angle => zenithBranch adjusted x v
  | _ => none

/-- one observation: the stored reduction afterwards, `status`, `changed` -/
def obsdhStep (adjusted : Bool) (σ : Net K) (xyz : Nat → Bool) (idx : IdxState) (x : List K) (o : DObs K) :
    DObs K × Bool × Bool :=
  match branch adjusted (GN.xAt x) o.kind (dhView σ xyz idx o) with
  | none => (o, false, false)
  | some (r, store, ask) => (if store then { o with red := r } else o, ask, store)

/-- the loop over `IS->OD` -/
def obsdhFrom (adjusted : Bool) (σ : Net K) (xyz : Nat → Bool) (idx : IdxState) (x : List K) :
    List (DObs K) → List (DObs K) × Bool × Bool
  | [] => ([], false, false)
  | o :: t =>
    let s := obsdhStep adjusted σ xyz idx x o
    let r := obsdhFrom adjusted σ xyz idx x t
    (s.1 :: r.1, s.2.1 || r.2.1, s.2.2 || r.2.2)

/-- `refine_obsdh_reductions(IS, adjusted)`: the observations with the reductions it stored, the returned
    `status`, and `changed` (⇒ `IS->update_residuals()`).  With `adjusted = false` neither `idx` nor `x` is read
    (`Vec x;` stays empty) -/
def refineObsdh (adjusted : Bool) (σ : Net K) (xyz : Nat → Bool) (idx : IdxState) (x : List K) (obs : List (DObs K)) :
    List (DObs K) × Bool × Bool :=
  obsdhFrom adjusted σ xyz idx x obs

/-! ### `LocalNetwork::refine_adjustment()` -/

/-- what the adjustment of the current state answers: the index fields `project_equations()` left, `solve()`,
    `residuals()`, and `revised_obs_` (the observations `TestLinearization` walks through) -/
structure Adj (K : Type) where
  idx : IdxState
  x : List K
  v : List K
  robs : List (NObs K)

/-- the state the loop works on -/
structure St (K : Type) where
  /-- coordinates and statuses of `PD`, orientations, `xNorthAngle` -/
  σ : Net K
  /-- `test_xyz()` -/
  xyz : Nat → Bool
  /-- `IS->OD` in iteration order -/
  obs : List (DObs K)
  /-- `iterations_` -/
  iters : Nat

/-- the two members of `LocalNetwork` the loop calls that are not modelled in this file -/
structure Env (K : Type) where
  /-- `project_equations()` + the solver on the CURRENT coordinates and observation values; `none` = it throws -/
  adjust : Net K → (Nat → Bool) → List (DObs K) → Option (Adj K)
  /-- `refine_approx_coordinates()`: the new coordinates / orientations (and `test_xyz()`) -/
  refineApprox : Net K → (Nat → Bool) → List (DObs K) → Adj K → Net K × (Nat → Bool)
  /-- fuel of the visitor's `while` loops -/
  fuel : Nat

/-- one test; `none` = an exception left `refine_adjustment` (or a wrap loop did not end) -/
def runTest (E : Env K) (s : St K) : Test → Option (St K × Bool)
  | .obsdh false =>
    let r := refineObsdh false s.σ s.xyz IdxState.init [] s.obs
    some ({ s with obs := r.1 }, r.2.1)
  | .obsdh true =>
    match E.adjust s.σ s.xyz s.obs with
    | none => none
    | some a =>
      let r := refineObsdh true s.σ s.xyz a.idx a.x s.obs
      some ({ s with obs := r.1 }, r.2.1)
  | .testLin =>
    match E.adjust s.σ s.xyz s.obs with
    | none => none
    | some a => (TL.testLinearization s.σ E.fuel a.idx a.x a.v a.robs).map fun b => (s, b)

/-- `bool refine = t0; if (!refine) refine = t1; …` -/
def runTests (E : Env K) : List Test → St K → Option (St K × Bool)
  | [], s => some (s, false)
  | t :: ts, s =>
    match runTest E s t with
    | none => none
    | some (s', true) => some (s', true)
    | some (s', false) => runTests E ts s'

/-- `increment_linearization_iterations(); refine_approx_coordinates();` -/
def iterate (E : Env K) (s : St K) : Option (St K) :=
  match E.adjust s.σ s.xyz s.obs with
  | none => none
  | some a =>
    let n := E.refineApprox s.σ s.xyz s.obs a
    some { s with σ := n.1, xyz := n.2, iters := s.iters + 1 }

/-- the `while` loop; the fuel is `max_linearization_iterations_ − iterations_`.
    The flag is `true` when the loop was left by `break` (no test asked), `false` when the bound ended it -/
def loop (E : Env K) (tests : List Test) : Nat → St K → Option (St K × Bool)
  | 0, s => some (s, false)
  | n + 1, s =>
    match runTests E tests s with
    | none => none
    | some (s', false) => some (s', true)
    | some (s', true) =>
      match iterate E s' with
      | none => none
      | some s'' => loop E tests n s''

/-- `LocalNetwork::refine_adjustment()` with the tests found in the source: the state it leaves, whether it was
    left by `break`, and the returned `linearization_iterations() > 0` -/
def refineAdjustment (E : Env K) (maxIter : Nat) (s : St K) : Option (St K × Bool × Bool) :=
  (loop E refineTests maxIter { s with iters := 0 }).map fun r => (r.1, r.2, decide (0 < r.1.iters))

end Gama.RA
