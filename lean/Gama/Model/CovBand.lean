/-
  C12 — covariance band of the adjusted unknowns in the adjustment XML.

  Writer  : `LocalNetworkXML::coordinates` (lib/gnu_gama/xml/localnetworkxml.cpp)
              band clipping, `<dim>`, `<band>`, order of the `<flt>` elements, the `ind[]` array,
              the `<original-index>` list.
  Reader  : `LocalNetworkAdjustmentResults::Parser::{band,flt,cov_mat,point,orientation}`
              (lib/gnu_gama/xml/localnetwork_adjustment_results.cpp) filling a
              `GNU_gama::CovMat<>` (lib/matvec/covmat.h: packed upper band by rows,
              `operator[]`, `operator()`), numbering the adjusted coordinates sequentially.

  `Q i j` stands for `m0² · qxx(ind[i], ind[j])`, 1-based as in the C++.
  Integer arithmetic is C `int`, modelled by `Int`; list positions by `Nat`.
-/
namespace Gama.CovBand

variable {K : Type}

/-! ### writer -/

/-- `int band = 0; if (dim) { band = adj_covband(); if (band == -1 || band > int(dim)-1) band = dim - 1; }` -/
def clip (band : Int) (dim : Nat) : Int :=
  if dim = 0 then 0
  else if band = -1 ∨ band > (dim : Int) - 1 then (dim : Int) - 1
  else band

/-- number of `j` visited by `for (j=i; j<=std::min(dim, i+band); j++)` -/
def rowLen (dim : Nat) (band : Int) (i : Nat) : Nat :=
  (min (dim : Int) ((i : Int) + band) - (i : Int) + 1).toNat

/-- the `<flt>` elements of row `i` : `Q i i, Q i (i+1), …` -/
def emitRow (Q : Nat → Nat → K) (dim : Nat) (band : Int) (i : Nat) : List K :=
  (List.range (rowLen dim band i)).map (fun t => Q i (i + t))

/-- `for (i=1; i<=dim; i++) for (j=i; …)` -/
def emitFlt (Q : Nat → Nat → K) (dim : Nat) (band : Int) : List K :=
  (List.range dim).flatMap (fun i0 => emitRow Q dim band (i0 + 1))

/-- content of `<cov-mat>` -/
structure Written (K : Type) where
  dim : Nat
  band : Int
  flt : List K

def write (Q : Nat → Nat → K) (dim : Nat) (band : Int) : Written K :=
  ⟨dim, clip band dim, emitFlt Q dim (clip band dim)⟩

/-! ### reader -/

/-- `GNU_gama::CovMat<>` : `row_ = col_ = dim`, `band_`, packed data -/
structure CovMat (K : Type) where
  dim : Nat
  band : Int
  data : List K

/-- `d*(b+1) - b*(b+1)/2` (CovMat::reset) -/
def storage (d : Nat) (b : Int) : Int := (d : Int) * (b + 1) - b * (b + 1) / 2

inductive Err where
  | badSize     -- resize with a negative element count (not reachable from the writer)
  | badCount    -- "bad number of elements in covariance matrix"
deriving DecidableEq, Repr

/-- `Parser::band` (reset, begin/end), `Parser::flt` (`if (tmp_i != tmp_e) *tmp_i++ = get_float()` :
    surplus elements are ignored), `Parser::cov_mat` end (`tmp_i != tmp_e` → error) -/
def read (w : Written K) : Except Err (CovMat K) :=
  let n := storage w.dim w.band
  if n < 0 then .error .badSize
  else if w.flt.length < n.toNat then .error .badCount
  else .ok ⟨w.dim, w.band, w.flt.take n.toNat⟩

/-- `CovMat::operator[](row)` as an offset from `begin()` :
    `a_ = begin() + --row*band_1; if (row > dim_b) { i_ = row - dim_b; a_ -= i_*(i_+1)/2; }` -/
def rowStart (d : Nat) (b : Int) (row : Nat) : Int :=
  let row0 : Int := (row : Int) - 1
  let a : Int := row0 * (b + 1)
  let dim_b : Int := (d : Int) - b
  if row0 > dim_b then a - (row0 - dim_b) * ((row0 - dim_b) + 1) / 2 else a

/-- `Float CovMat::operator()(Index r, Index s) const` -/
def get [Zero K] (C : CovMat K) (r s : Nat) : K :=
  let lo := if r > s then s else r
  let hi := if r > s then r else s
  if (hi : Int) > (lo : Int) + C.band then 0
  else C.data.getD (rowStart C.dim C.band lo + ((hi : Int) - (lo : Int))).toNat 0

/-- specification: the symmetric matrix `Q` (given by its upper triangle) cut to bandwidth `b` -/
def bandOf [Zero K] (Q : Nat → Nat → K) (b : Int) (i j : Nat) : K :=
  let lo := if i > j then j else i
  let hi := if i > j then i else j
  if (hi : Int) > (lo : Int) + b then 0 else Q lo hi

/-! ### index lists -/

/-- what the three loops over `PD` look at: `active_xy()`, `active_z()`, `index_x/y/z()` -/
structure Pt where
  activeXY : Bool
  activeZ : Bool
  ix : Nat
  iy : Nat
  iz : Nat
deriving Repr, DecidableEq

def Pt.bxy (p : Pt) : Bool := p.activeXY && p.ix != 0
def Pt.bz (p : Pt) : Bool := p.activeZ && p.iz != 0

/-- contribution of one point to `ind[++dim]` in the `<adjusted>` loop, and (same conditions,
    same order) to `<original-index>` -/
def ptInds (p : Pt) : List Nat :=
  (if p.bxy then [p.ix, p.iy] else []) ++ (if p.bz then [p.iz] else [])

/-- an orientation unknown: its number `i` (`unknown_type(i) == 'R'`) and
    `unknown_standpoint(i)->index_orientation()` -/
structure Ori where
  i : Nat
  standpointIndex : Nat
deriving Repr, DecidableEq

/-- `ind[1..dim]` after `<adjusted>` and `orientation_shifts` : rows/columns of the printed matrix -/
def indList (pts : List Pt) (oris : List Ori) : List Nat :=
  pts.flatMap ptInds ++ oris.map (·.standpointIndex)

/-- the `<ind>` elements of `<original-index>` -/
def originalIndex (pts : List Pt) (oris : List Ori) : List Nat :=
  pts.flatMap ptInds ++ oris.map (·.i)

/-- which `<point>`s appear under `<adjusted>` and with which coordinates (hxy, hz) -/
def adjustedShape (pts : List Pt) : List (Bool × Bool) :=
  (pts.filter (fun p => p.bxy || p.bz)).map (fun p => (p.bxy, p.bz))

/-- `Parser::point` (adjusted): `indx = ++k; indy = ++k` if hxy, `indz = ++k` if hz;
    returns the numbers handed out, point by point, and the counter -/
def readerNumber : Nat → List (Bool × Bool) → List (List Nat) × Nat
  | k, [] => ([], k)
  | k, (hxy, hz) :: rest =>
    let k1 := if hxy then k + 2 else k
    let k2 := if hz then k1 + 1 else k1
    let here := (if hxy then [k + 1, k + 2] else []) ++ (if hz then [k1 + 1] else [])
    let (r, kEnd) := readerNumber k2 rest
    (here :: r, kEnd)

/-- all indexes the reader assigns: adjusted points, then `Parser::orientation` (`index = ++k`) -/
def readerIndexes (pts : List Pt) (oris : List Ori) : List Nat :=
  let (ps, k) := readerNumber 0 (adjustedShape pts)
  ps.flatten ++ (List.range oris.length).map (fun t => k + 1 + t)

end Gama.CovBand
