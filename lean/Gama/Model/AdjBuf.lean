/-
  C04 round 3 — numeric content of `Adj`'s work matrix `A_dot` along a history.

  `copyRows buf p`  : the loop `A_dot(k, *i) = *n` over the STORED elements of the sparse rows of `p`,
                      written onto whatever `buf` holds (structural zeros keep the old content);
  `homFrom p A`     : the in-place block homogenisation of `A` (and of the right-hand side) — literally
                      `Gama.Ls.AdjM.homogenise` (Model/Ls/Adj.lean) with the matrix as an argument;
  `denoteIn W prov` : the pair `(A_dot, b_dot)` the full-matrix solver is given when the content of
                      `A_dot` has provenance `prov` (Model/AdjHist.lean), over the problems `W d`;
  `adjFullFrom`     : `Gama.Ls.adjFull` with that pair as an argument.
  With the provenance the code produces (`.filled d .zero`) this is `adjFull alg (W d)`
  (Lemmas/AdjBuf.lean); a provenance `.filled d (.filled d' …)` denotes the numbers the seeded
  variant computes.  Core Lean only.
-/
import Gama.Model.AdjHist
import Gama.Model.Ls.Common
import Gama.Model.Ls.Adj
namespace Gama.C04.AdjM
open Gama Gama.Ls Gama.Ls.AdjM Gama.Ls.Dn

variable {K : Type} [Scalar K]

def zeros (m n : Nat) : DMat K := Array.replicate m (Array.replicate n 0)

/-- `for k: for stored (i, v) of row k: A_dot(k, i) += v` on top of `buf` (`=` before the repair of adj.cpp that
    follows 52e994b / 6d0f7107: coefficients stored with the same column index add up) -/
def copyRows (buf : DMat K) (p : Problem K) : DMat K :=
  p.rows.mapIdx fun s r =>
    r.foldl (fun (acc : Array K) (c, v) => acc.setIfInBounds (c - 1) (acc.getD (c - 1) 0 + v))
      (buf.getD s (Array.replicate p.n 0))

/-- in-place homogenisation (`forwardSubstitution` with the factor of each covariance block, every column
    of `A` and the right-hand side) -/
def homFrom (p : Problem K) (A : DMat K) : Except ErrKind (DMat K × Array K) :=
  let dims := p.cov.toList.map (·.dim)
  match factorsL p.cov.toList with
  | .error e => .error e
  | .ok Ls =>
    let Ad := mmk p.m p.n fun s j =>
      let kr := locate dims s
      let d := dims.getD kr.1 0
      vget (forwardSubst d (Ls.getD kr.1 #[]) (vmk d fun i => mget A (kr.2 + i) j)) (s - kr.2)
    let bd := vmk p.m fun s =>
      let kr := locate dims s
      let d := dims.getD kr.1 0
      vget (forwardSubst d (Ls.getD kr.1 #[]) (vmk d fun i => vget p.rhs (kr.2 + i))) (s - kr.2)
    .ok (Ad, bd)

/-- what `full->reset(A_dot, b_dot)` hands over when `A_dot` held `buf` before the copy loop -/
def fillNum (buf : DMat K) (p : Problem K) : Except ErrKind (DMat K × Array K) := homFrom p (copyRows buf p)

/-- the solver's input for a provenance of `A_dot`; `W d`: the problem with identity `d` -/
def denoteIn (W : Nat → Problem K) : AProv → Except ErrKind (DMat K × Array K)
  | .zero => .error .NotModelled
  | .filled d .zero => fillNum (zeros (W d).m (W d).n) (W d)
  | .filled d (.filled d' u) =>
    match denoteIn W (.filled d' u) with
    | .error e => .error e
    | .ok (A, _) => fillNum A (W d)

/-- `Gama.Ls.adjFull` with the homogenised pair as an argument -/
def adjFullFrom (alg : Ls.Alg) (p : Problem K) (hb : Except ErrKind (DMat K × Array K)) : Except ErrKind (Answer K) :=
  let nm : Nat → Nat → Except ErrKind K := fun _ _ => .error .NotModelled
  match hb with
  | .error e => .error e
  | .ok (Ad, bd) =>
    match solverOf (K := K) alg (dotProblem p Ad bd (AdjM.regOf p.reg)) with
    | .error e => .error e
    | .ok s =>
      match s.xErr with
      | some e => .error e
      | none =>
      .ok { x := s.x
            r := origResiduals p s.x
            rtr := sumFrom 0 p.m fun i => vget s.r i * vget s.r i
            defect := s.defect, qxx := s.qxx, q0xx := nm
            qbb := qbb p s.q0xx, qbx := nm, lindep := fun _ => .error .NotModelled }

def lsAlg : AdjM.Alg → Ls.Alg
  | .env => .env | .gso => .gso | .svd => .svd | .chol => .chol

/-- the numeric `Answer` behind an answer of the `Adj` machine: the envelope branch does not use
    `A_dot` (`none`); a full-matrix algorithm solved the system its `A_dot` content denotes -/
def adjNum (W : Nat → Problem K) (alg : AdjM.Alg) (d : Nat) : Option AProv → Except ErrKind (Answer K)
  | none => adjSolve .env (W d)
  | some prov => adjFullFrom (lsAlg alg) (W d) (denoteIn W prov)

end Gama.C04.AdjM
