/-
  C14 — hand-written SPECIFICATION tables the generated code is proved against (part of the
  statements in Props/C14.lean; core Lean only).

  * `Spec.geometry t`  – the coordinate groups (per role) the geometry of an observation of type `t`
                         reads: they must be *known* (`test_xy` / `test_z`)
  * `Spec.member t`    – the coordinate groups (per role) that must *take part* in the adjustment
                         (`active_xy` / `active_z`).  A zenith angle reads xy of both ends but only
                         needs their heights to take part (xy may be unused, known constants).
  * `Spec.usable`      – an observation is usable iff every role is a point of the network, the
                         groups in `geometry` are known and the groups in `member` take part
  * `Spec.misclosure`  – the positional misclosure in millimetres: angular types
                         `|b·d / (10·R2G)|` with `b` the absolute term in cc and `d` the horizontal
                         distance station–target in metres (slope distance for zenith angles; for an
                         angle the backsight target), linear types `|computed − observed|·1000`.
                         `10·R2G` is spelled as the preprocessor expands it: `10*200.0/M_PI`.
-/
import Gama.Model.Revise
namespace Gama.Rev.Spec
open Gama Gama.Rev

inductive Group where
  | xy | z
deriving DecidableEq, Repr

def geometry : ObsType → List (Role × Group)
  | .direction | .distance | .azimuth | .xdiff | .ydiff => [(.from, .xy), (.to, .xy)]
  | .angle => [(.from, .xy), (.to, .xy), (.fs, .xy)]
  | .h_diff | .zdiff => [(.from, .z), (.to, .z)]
  | .s_distance | .z_angle => [(.from, .xy), (.from, .z), (.to, .xy), (.to, .z)]
  | .x | .y => [(.from, .xy)]
  | .z => [(.from, .z)]

def member : ObsType → List (Role × Group)
  | .z_angle => [(.from, .z), (.to, .z)]
  | t => geometry t

variable {K : Type}

def known (p : Pt K) : Group → Bool
  | .xy => p.hxy
  | .z => p.hz

def takesPart (p : Pt K) : Group → Bool
  | .xy => p.sxy.active
  | .z => p.sz.active

def usable (pts : List (Pt K)) (o : Obs K) : Bool :=
  ((geometry o.ty).all fun rg =>
    match findPt pts (o.roleId rg.1) with
    | none => false
    | some p => known p rg.2) &&
  ((member o.ty).all fun rg =>
    match findPt pts (o.roleId rg.1) with
    | none => false
    | some p => takesPart p rg.2)

/-- "direction set with fewer than two targets", in terms of the input: the number of distinct
    targets among the directions of the list that are active and usable -/
def usableTargets (pts : List (Pt K)) (os : List (Obs K)) : Nat :=
  ((os.filter (fun o => o.ty == .direction && (o.active && usable pts o))).map (·.to)).eraseDups.length

/-- the types whose positional misclosure is computed from the absolute term (cc → mm over a distance) -/
def angular : ObsType → Bool
  | .direction | .angle | .azimuth | .z_angle => true
  | _ => false

section
variable [Scalar K]

/-- `10*R2G` after macro expansion (`#define R2G 200.0/M_PI`) -/
def tenR2G : K :=
  ((Scalar.ofNat 10 : K) * (Scalar.ofSci 2000 true 1 : K)) / (Scalar.ofSci 314159265358979323846 true 20 : K)

def thousand : K := Scalar.ofNat 1000

/-- slope distance from the horizontal distance `d0` and the height difference -/
def slope (c : AbsCtx K) : K :=
  let dz : K := c.sz - c.cz
  Scalar.sqrt (dz * dz + c.d0 * c.d0)

def misclosure (t : ObsType) (c : AbsCtx K) : K :=
  match t with
  | .direction | .angle | .azimuth => Scalar.abs (c.b * c.d0 / tenR2G)
  | .z_angle => Scalar.abs (c.b * slope c / tenR2G)
  | .distance => Scalar.abs (c.value - c.d0) * thousand
  | .s_distance => Scalar.abs (slope c - c.value) * thousand
  | .h_diff => Scalar.abs (c.value - (c.cz - c.sz)) * thousand
  | .x => Scalar.abs (c.sx - c.value) * thousand
  | .y => Scalar.abs (c.sy - c.value) * thousand
  | .z => Scalar.abs (c.sz - c.value) * thousand
  | .xdiff => Scalar.abs (c.cx - c.sx - c.value) * thousand
  | .ydiff => Scalar.abs (c.cy - c.sy - c.value) * thousand
  | .zdiff => Scalar.abs (c.cz - c.sz - c.value) * thousand

/-- the distance over which an angular absolute term (cc) is turned into a position (mm) -/
def lever (t : ObsType) (c : AbsCtx K) : K :=
  match t with
  | .z_angle => slope c
  | _ => c.d0

/-- horizontal distance station–target when both have coordinates, else 0 -/
def d0 (stanHasXY cilHasXY : Bool) (c : AbsCtx K) : K :=
  if stanHasXY && cilHasXY then
    let dy : K := c.sy - c.cy
    let dx : K := c.sx - c.cx
    Scalar.sqrt (dy * dy + dx * dx)
  else Scalar.ofNat 0

/-- the factor between the entry of the vector the code consults and the absolute term, for an
    observation that is not correlated with another one: `m0/stdev` after homogenisation (member `b`), 1 for `rhs_` -/
def consultedFactor (a : AbsVec) (w : K) : K :=
  match a with
  | .memberB => w
  | .rhs => Scalar.ofNat 1

/-- the k-th *active* observation of the list (= k-th entry of `revised_obs_`) is paired with the
    k-th entry of the vector; passive observations and observations beyond the vector get `none` -/
def pairUp : List (Obs K) → List K → List (Obs K × Option K)
  | [], _ => []
  | o :: os, v =>
    if o.active then
      match v with
      | [] => (o, none) :: pairUp os []
      | b :: v' => (o, some b) :: pairUp os v'
    else (o, none) :: pairUp os v

/-- what `remove_huge_abs_terms` is specified to do with one paired observation -/
def applyMark (pts : List (Pt K)) (tol : K) : Obs K × Option K → Obs K
  | (o, some b) => if outlying pts tol o b then { o with active := false } else o
  | (o, none) => o

end
end Gama.Rev.Spec
