/-
  The private data members of `class GNU_gama::Ellipsoid` (lib/gnu_gama/ellipsoid.h) as a structure.
  Separate from Model/Ellipsoid.lean so that the regenerated member functions (Gen/EllipsoidExpr.lean,
  tools/gen/c18_ellipsoid.py) and the hand model are about the same object.  The generated `set_abff1`
  builds this structure field by field from the member list of the class declaration: a member added to or
  removed from the C++ class makes the generated file fail to compile.  Core Lean only.
-/
import Gama.Model.GeoScalar
namespace Gama

/-- private data members of `class Ellipsoid` -/
structure Ellipsoid (K : Type) where
  A : K
  B : K
  ff : K
  n : K
  e2 : K
  e22 : K
  Ime2 : K
  Ipe22 : K
  AIme2 : K
  AB : K

end Gama
