/-
  NetDecision — the algorithm-agnostic decision logic of `LocalNetwork` / `gama-local` that sits
  downstream of the least-squares solver (properties C02, C20).

  Anchors (lib/gnu_gama/local/network.cpp, network.h, results/text/general_parameters.h,
  src/gama-local.cpp):
    * `LocalNetwork::vyrovnani_()`   — `do { project_equations(); "No unknowns/observations/points";
                                        tst_vyrovnani_ = true; huge-covariance pass over PD } while (!tst_vyrovnani_)`,
                                        then residuals / sum of squares / q_bb of the solver; the whole body is a
                                        function-try-block `catch (...) { tst_vyrovnani_ = false; throw; }` (db4e6b8);
    * `LocalNetwork::null_space()`   — `try { vyrovnani_(); } catch (BadRegularization) { remove the point of the
                                        FIRST unknown i with lindep(i); return null_space(); } return defect();`
    * `LocalNetwork::removed(id,rm)` — records (id, reason) and calls `update(Points)`;
    * `GeneralParameters()`          — `null_space();` … `d = null_space(); if (min_n < d) throw BadRegularization;
                                        trans_VWV();` catch ⇒ "network can not be adjusted" + list of `lindep(i)`;
    * `main()` of gama-local         — verdict false ⇒ exit 1 without results; exceptions ⇒ exit 1 (error document).

  The solver and `project_equations()` (revision of points/observations, linearisation,
  `singular_coords`, feeding the solver) are NOT modelled here: they are the parameter `World`,
  a function from the point statuses to what the decision layer reads.  The decision layer reads a
  `View` only through its *decision data* `Abs` (unknown→point map, counts, defect, the flagged
  unknowns, per-point outcome of the huge-covariance test incl. a thrown error kind, whether the
  rest of `vyrovnani_` throws); all functions below are defined on `Abs`, the concrete reading of
  the solver (`q_xx(i,i)`, `m0·sqrt(q) > 1e4`) is `View.abs`.

  Loops without a syntactic bound (`do … while`, the recursion of `null_space`) take fuel; the
  property theorems show that `actives net + 1` always suffices.  Core Lean only.
-/
import Gama.Scalar
import Gama.Model.Ls.Common
namespace Gama.NetDecision
open Gama Gama.Ls

/-- status bits of one coordinate group of a `LocalPoint` (`xy_fixed_ / xy_adjusted_ / xy_constrained_`;
    `unused` = none of them set, `set_unused_xy()`) -/
inductive CStat | unused | fixed | free | constrained
deriving DecidableEq, Repr, Inhabited

def CStat.active : CStat → Bool
  | .unused => false | _ => true

/-- `free_xy()` / `free_z()`: the bit `xy_adjusted_` — it is set for constrained coordinates too
    (`set_constrained_xy()` sets `xy_adjusted_ | xy_constrained_`) -/
def CStat.adjusted : CStat → Bool
  | .free | .constrained => true | _ => false

structure Point where
  id : String
  xy : CStat
  z : CStat
deriving DecidableEq, Repr, Inhabited

/-- `PointData` in iteration order (a `std::map`: sorted by identifier) -/
abbrev Net := List Point

def Point.actives (p : Point) : Nat := (if p.xy.active then 1 else 0) + (if p.z.active then 1 else 0)

/-- number of active coordinate groups: the termination measure of every removal loop -/
def actives : Net → Nat
  | [] => 0
  | p :: r => p.actives + actives r

inductive UType | X | Y | Z | R
deriving DecidableEq, Repr, Inhabited

/-- `LocalNetwork::Unknown` -/
structure Unknown where
  pid : String
  type : UType
deriving DecidableEq, Repr, Inhabited

/-- `LocalNetwork::rm_points` -/
inductive Rm
  | missing_xyz | missing_xy | missing_z | singular_xy | singular_z | huge_cov_xyz | huge_cov_xy | huge_cov_z
deriving DecidableEq, Repr, Inhabited

def Rm.name : Rm → String
  | .missing_xyz => "missing_xyz" | .missing_xy => "missing_xy" | .missing_z => "missing_z"
  | .singular_xy => "singular_xy" | .singular_z => "singular_z"
  | .huge_cov_xyz => "huge_cov_xyz" | .huge_cov_xy => "huge_cov_xy" | .huge_cov_z => "huge_cov_z"

-- ------------------------------------------------------------------ what the decision layer reads

/-- decision data of one configuration: everything `vyrovnani_`, `null_space` and
    `GeneralParameters` read from the project equations and from the solver -/
structure Abs where
  /-- `unknowns_` : unknown `i` (1-based) is `unknowns[i-1]` -/
  unknowns : List Unknown
  nObs : Nat
  nPts : Nat
  /-- `least_squares->defect()` -/
  defect : Nat
  /-- the indices `i` (1-based, ascending) with `least_squares->lindep(i)` -/
  flagged : List Nat
  /-- outcome of the huge-covariance test of one point: a thrown error kind, or the removal code -/
  huge : Point → Except ErrKind (Option Rm)
  /-- the rest of `vyrovnani_` (`residuals()`, `sum_of_squares()`, `q_bb(i,i)`) -/
  resid : Except ErrKind Unit

/-- result of `project_equations()` on a configuration: the points after `revision_points` /
    `singular_coords`, the removals recorded meanwhile, and the decision data -/
structure ProjA where
  net : Net
  rm : List (String × Rm)
  abs : Abs

abbrev WorldA := Net → ProjA

/-- answers of the solver object as the C++ queries them -/
structure View (K : Type) where
  unknowns : List Unknown
  nObs : Nat
  nPts : Nat
  defect : Nat
  lindep : Nat → Bool
  /-- `q_xx(i,i)` -/
  qxx : Nat → Except ErrKind K
  resid : Except ErrKind Unit

structure Proj (K : Type) where
  net : Net
  rm : List (String × Rm)
  view : View K

abbrev World (K : Type) := Net → Proj K

/-- `index_x()/index_y()/index_z()` of a point: position (1-based) of its unknown, 0 = none -/
def indexOf (us : List Unknown) (pid : String) (t : UType) : Nat :=
  match us.findIdx? (fun u => u.pid == pid && u.type == t) with
  | some k => k + 1
  | none => 0

section Concrete
variable {K : Type} [Scalar K]

/-- `if (int ix = P.index_x()) tx = m_0_apr_*sqrt(least_squares->q_xx(ix,ix));` -/
def sigmaOf (m0 : K) (v : View K) (i : Nat) : Except ErrKind K :=
  if i = 0 then .ok 0 else (v.qxx i).map fun q => m0 * Scalar.sqrt q

/-- body of the loop "check for huge covariances / indefinite coordinates" for one point, in the
    order coded: `if (!P.free_xy() && !P.free_z()) continue;` then x, y, z; `> 1e4` (a NaN compares
    false: the point stays).  Constrained coordinates count as "free" here (see `CStat.adjusted`). -/
def hugeDecision (m0 : K) (v : View K) (P : Point) : Except ErrKind (Option Rm) :=
  if !P.xy.adjusted && !P.z.adjusted then .ok none else do
    let tx ← sigmaOf m0 v (indexOf v.unknowns P.id .X)
    let ty ← sigmaOf m0 v (indexOf v.unknowns P.id .Y)
    let tz ← sigmaOf m0 v (indexOf v.unknowns P.id .Z)
    let big : K := Scalar.ofNat 10000
    let bxy := decide (big < tx) || decide (big < ty)
    let bz := decide (big < tz)
    if bxy && bz then pure (some .huge_cov_xyz)
    else if bxy then pure (some .huge_cov_xy)
    else if bz then pure (some .huge_cov_z)
    else pure none

def flaggedOf (n : Nat) (lindep : Nat → Bool) : List Nat :=
  (List.range n).filterMap fun i => if lindep (i + 1) then some (i + 1) else none

def View.abs (m0 : K) (v : View K) : Abs :=
  { unknowns := v.unknowns, nObs := v.nObs, nPts := v.nPts, defect := v.defect
    flagged := flaggedOf v.unknowns.length v.lindep
    huge := hugeDecision m0 v, resid := v.resid }

def World.abs (m0 : K) (W : World K) : WorldA := fun n =>
  let p := W n
  { net := p.net, rm := p.rm, abs := p.view.abs m0 }

end Concrete

-- ------------------------------------------------------------------ state

/-- the part of `LocalNetwork`'s state the decision layer reads and writes -/
structure St where
  net : Net
  /-- `removed_points` / `removed_code`, in order of recording -/
  removed : List (String × Rm)
  /-- `tst_rov_opr_`: the project equations (and the solver fed with them) are current -/
  proj : Option Abs
  /-- `tst_vyrovnani_` -/
  adj : Bool

def St.init (net : Net) : St := { net := net, removed := [], proj := none, adj := false }

/-- what ends `vyrovnani_` -/
inductive Outcome
  | ok
  | badReg                    -- MatVecException(BadRegularization)
  | matvec (e : ErrKind)      -- any other MatVecException
  | noUnknowns | noObs | noPoints      -- GNU_gama::local::Exception(T_GaMa_No_…)
  | fuel
deriving DecidableEq, Repr, Inhabited

def Outcome.ofErr : ErrKind → Outcome
  | .BadRegularization => .badReg
  | e => .matvec e

/-- `project_equations()` (no-op when `tst_rov_opr_`) -/
def projectEq (W : WorldA) (s : St) : St × Abs :=
  match s.proj with
  | some a => (s, a)
  | none =>
    let p := W s.net
    ({ s with net := p.net, removed := s.removed ++ p.rm, proj := some p.abs }, p.abs)

/-- `set_unused_xy()` / `set_unused_z()` as the removal code asks -/
def Point.strip (P : Point) : Rm → Point
  | .huge_cov_xyz | .missing_xyz => { P with xy := .unused, z := .unused }
  | .huge_cov_xy | .singular_xy | .missing_xy => { P with xy := .unused }
  | .huge_cov_z | .singular_z | .missing_z => { P with z := .unused }

/-- one pass of the huge-covariance loop over `PD`: the new points, the removals recorded, and the
    error kind if a query threw (points after the throwing one are untouched) -/
def hugePass (a : Abs) : Net → Net × List (String × Rm) × Option ErrKind
  | [] => ([], [], none)
  | P :: rest =>
    match a.huge P with
    | .error e => (P :: rest, [], some e)
    | .ok none =>
      let r := hugePass a rest
      (P :: r.1, r.2.1, r.2.2)
    | .ok (some c) =>
      let r := hugePass a rest
      (P.strip c :: r.1, (P.id, c) :: r.2.1, r.2.2)

/-- `LocalNetwork::vyrovnani_()` -/
def vyrovnani (W : WorldA) : Nat → St → St × Outcome
  | 0, s => (s, if s.adj then .ok else .fuel)
  | fuel + 1, s =>
    if s.adj then (s, .ok) else
    let (s1, a) := projectEq W s
    if a.unknowns.length = 0 then ({ s1 with adj := false }, .noUnknowns)
    else if a.nObs = 0 then ({ s1 with adj := false }, .noObs)
    else if a.nPts = 0 then ({ s1 with adj := false }, .noPoints)
    else
      let r := hugePass a s1.net
      -- `removed()` calls `update(Points)`: both flags are cleared by any removal of this pass
      let s2 : St := if r.2.1.isEmpty then { s1 with net := r.1, adj := true }
                     else { net := r.1, removed := s1.removed ++ r.2.1, proj := none, adj := false }
      -- function-try-block of `vyrovnani_` (repo commit db4e6b8): `catch (...) { tst_vyrovnani_ = false; throw; }`
      match r.2.2 with
      | some e => ({ s2 with adj := false }, .ofErr e)
      | none =>
        if s2.adj then
          match a.resid with
          | .ok _ => (s2, .ok)
          | .error e => ({ s2 with adj := false }, .ofErr e)
        else vyrovnani W fuel s2

/-- the point of a flagged unknown leaves the adjustment: `X`,`Y`,`R` ⇒ `set_unused_xy()` +
    `rm_singular_xy`; `Z` ⇒ `set_unused_z()` + `rm_missing_z`; then `update(Points)` -/
def removeUnknown (s : St) (u : Unknown) : St :=
  let c : Rm := match u.type with
    | .Z => .missing_z
    | _ => .singular_xy
  { net := s.net.map fun P => if P.id == u.pid then P.strip c else P
    removed := s.removed ++ [(u.pid, c)], proj := none, adj := false }

/-- result of `null_space()` -/
inductive NsOut
  | defect (d : Nat)
  | exc (o : Outcome)
deriving DecidableEq, Repr, Inhabited

/-- `LocalNetwork::null_space()`; `fuel` bounds the recursion, `vf` the loop of `vyrovnani_` -/
def nullSpace (W : WorldA) (vf : Nat) : Nat → St → St × NsOut
  | 0, s => (s, .exc .fuel)
  | fuel + 1, s =>
    let (s1, o) := vyrovnani W vf s
    match o with
    | .ok =>
      match s1.proj with
      | some a => (s1, .defect a.defect)
      | none => (s1, .exc .fuel)          -- unreachable: `ok` leaves the project equations current
    | .badReg =>
      let (s2, a) := projectEq W s1          -- `unknowns_count()`
      match a.flagged with
      | i :: _ =>
        match a.unknowns[i - 1]? with
        | some u => nullSpace W vf fuel (removeUnknown s2 u)
        | none => (s2, .defect a.defect)     -- index outside `unknowns_`: not reachable from the C++ loop bound
      | [] => (s2, .defect a.defect)         -- nothing flagged: falls out of the `for`
    | o => (s1, .exc o)

/-- `min_n_` as `project_equations()` computes it -/
def minN (us : List Unknown) : Net → Nat
  | [] => 0
  | P :: r =>
    (if P.xy == .constrained && indexOf us P.id .X != 0 then 2 else 0)
      + (if P.z == .constrained && indexOf us P.id .Z != 0 then 1 else 0) + minN us r

/-- how `GeneralParameters()` / `main()` end -/
inductive Verdict
  /-- `GeneralParameters` returned true: results are printed, exit status 0 -/
  | adjusted (defect : Nat)
  /-- "network can not be adjusted" (+ "not enough constrained points" when `notEnough`) followed by the list of
      `(i, unknowns_[i-1])` with `lindep(i)`; exit status 1, no results -/
  | cannot (defect : Nat) (notEnough : Bool) (singular : List (Nat × Unknown))
  /-- an exception left `GeneralParameters`: "solution ended with error", exit status 1 -/
  | exception (o : Outcome)
deriving DecidableEq, Repr, Inhabited

def singularList (a : Abs) : List (Nat × Unknown) :=
  a.flagged.filterMap fun i => (a.unknowns[i - 1]?).map fun u => (i, u)

/-- `GeneralParameters(IS, out)` as far as the verdict is concerned -/
def generalParameters (W : WorldA) (vf nf : Nat) (s0 : St) : St × Verdict :=
  let (s1, r1) := nullSpace W vf nf s0               -- `IS->null_space();` (first statement)
  match r1 with
  | .exc o => (s1, .exception o)
  | .defect _ =>
    let (s2, r2) := nullSpace W vf nf s1             -- `int d = IS->null_space();`
    match r2 with
    | .exc o => (s2, .exception o)
    | .defect d =>
      let (s3, a) := projectEq W s2
      if minN a.unknowns s3.net < d then (s3, .cannot d true (singularList a))
      else
        let (s4, o) := vyrovnani W vf s3               -- `IS->trans_VWV();`
        match o with
        | .ok => (s4, .adjusted d)
        | .badReg => (s4, .cannot d false (singularList a))
        | o => (s4, .exception o)

/-- fuel that always suffices (property C20_removal_terminates) -/
def fuelFor (net : Net) : Nat := actives net + 1

/-- the decision of gama-local on a network: removed points (in order) and verdict -/
def decideA (W : WorldA) (net : Net) : List (String × Rm) × Verdict :=
  let r := generalParameters W (fuelFor net) (fuelFor net) (St.init net)
  (r.1.removed, r.2)

def decide {K : Type} [Scalar K] (m0 : K) (W : World K) (net : Net) : List (String × Rm) × Verdict :=
  decideA (W.abs m0) net

/-- exit status of gama-local -/
def Verdict.exitStatus : Verdict → Nat
  | .adjusted _ => 0
  | _ => 1

end Gama.NetDecision
