/-
  C12 — cross-format clause: what a writer streams for a reported quantity, as an expression over ACCESSOR atoms
  (`net.solve()(pt.index_y())`, `obs.value()`, `net.stdev_obs(i)`, `R2G`, `0.324`, …, numbered by the generated
  table `Gen/FormatSites.atomNames`), integer literals and reciprocals of integer literals (`/1000`, `/10000`).

  `canon` is a normal form (expansion into monomials, factors sorted, monomials sorted; like terms are NOT merged, so
  the comparison is sound but not complete); `Lemmas/FormatExpr.lean` proves that equal normal forms have equal values
  in every commutative ring for every valuation of the atoms.  Core Lean only.
-/
namespace Gama.FormatExpr

inductive Expr where
  | atom (n : Nat)
  | lit (z : Int)
  /-- `1 / n` for a positive integer literal `n` -/
  | inv (n : Nat)
  | add (a b : Expr)
  | sub (a b : Expr)
  | mul (a b : Expr)
  | neg (a : Expr)
deriving Repr, DecidableEq

/-- a factor of a monomial: an accessor atom or the reciprocal of a literal -/
inductive Fac where
  | a (n : Nat)
  | i (n : Nat)
deriving Repr, DecidableEq

abbrev Mono := List Fac
abbrev Term := Int × Mono
abbrev Poly := List Term

def Fac.key : Fac → Nat × Nat
  | .a n => (0, n)
  | .i n => (1, n)

def Fac.le (x y : Fac) : Bool :=
  x.key.1 < y.key.1 || (x.key.1 == y.key.1 && x.key.2 ≤ y.key.2)

def monoLe : Mono → Mono → Bool
  | [], _ => true
  | _ :: _, [] => false
  | x :: xs, y :: ys => if x = y then monoLe xs ys else x.le y

def termLe (s t : Term) : Bool :=
  if s.2 = t.2 then s.1 ≤ t.1 else monoLe s.2 t.2

def insertBy {α : Type} (le : α → α → Bool) (x : α) : List α → List α
  | [] => [x]
  | y :: ys => if le x y then x :: y :: ys else y :: insertBy le x ys

def sortBy {α : Type} (le : α → α → Bool) : List α → List α
  | [] => []
  | x :: xs => insertBy le x (sortBy le xs)

/-- expansion into monomials (distributes products over sums) -/
def expand : Expr → Poly
  | .atom n => [(1, [.a n])]
  | .lit z => [(z, [])]
  | .inv n => [(1, [.i n])]
  | .add a b => expand a ++ expand b
  | .sub a b => expand a ++ (expand b).map (fun t => (-t.1, t.2))
  | .neg a => (expand a).map (fun t => (-t.1, t.2))
  | .mul a b => (expand a).flatMap (fun s => (expand b).map (fun t => (s.1 * t.1, s.2 ++ t.2)))

def canon (e : Expr) : Poly :=
  sortBy termLe ((expand e).map (fun t => (t.1, sortBy Fac.le t.2)))

/-- one format's site of a quantity: symbolic value, wrap signature (`<0:+400 >=400:-400`), displayed through gon2deg -/
structure Entry where
  /-- writer and table variant, e.g. `text/heights` -/
  fmt : String
  /-- the writer alone: `xml`, `text`, `html`, `octave` -/
  base : String
  expr : Expr
  wrap : String
  disp : Bool
deriving Repr

/-- all formats that report quantity `q` in configuration `cfg` (angular unit / y_sign) -/
structure Group where
  q : String
  cfg : String
  entries : List Entry
deriving Repr

def Entry.same (a b : Entry) : Bool := decide (canon a.expr = canon b.expr) && decide (a.wrap = b.wrap)

/-- the entries of `g` that are not listed as documented differences all print the same thing -/
def Group.ok (documented : List (String × String)) (g : Group) : Bool :=
  let es := g.entries.filter (fun e => !documented.contains (g.q, e.base))
  match es with
  | [] => true
  | r :: rest => rest.all (fun e => Entry.same r e)

/-- a documented difference is a real one: the listed format differs from some unlisted format of the group -/
def Group.differs (documented : List (String × String)) (g : Group) : Bool :=
  let (ds, es) := g.entries.partition (fun e => documented.contains (g.q, e.base))
  ds.all (fun d => es.all (fun e => !Entry.same d e))

end Gama.FormatExpr
