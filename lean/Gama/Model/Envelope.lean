/-
  Model of `GNU_gama::Envelope<Float,Index>` (lib/gnu_gama/adj/envelope.h):
  `set(sm, graph, ordering)`, `cholDec`, `lowerSolve`, `diagonalSolve`, `upperSolve`, `solve`,
  `inverse`, `element`, `diagonal`, `begin/end`, `defect`; and an independent dense
  reference (`denseNormal`, `denseLDL`, `denseSolve`, `denseInverse`).

  C++ storage: `diag_[dim]` (0-based, `diagonal(i) = diag_[i-1]`), `env_[env_size]` the
  off-diagonal profile cells row after row, `xenv_[1..dim+1]` pointers into `env_`
  (row `i` owns `xenv_[i] .. xenv_[i+1]`, its last cell is column `i-1`).
  Model: pointers are offsets into `env` (`xenv : Array Nat`).

  `cholDec` calls `lowerSolve/diagonalSolve` with `rhs = begin(row)`, i.e. *in place* on the
  profile row; those solves read only rows `< row`, so there is no aliasing and the model
  works on a copy `u` of the row and writes it back.

  Numeric kernels are over `[Scalar K]`: executed at `Float` and (no square root is taken
  when `tol > 0`) at `Rat`.

  Preconditions of the C++ that no code checks (theorems carry them, harness respects them):
  column indices in `1..dim`; `perm/invp` is a permutation of `1..dim`.  (A column index may
  occur several times in one sparse row: the values add up.)

  Core Lean only.
-/
import Gama.Scalar
import Gama.Model.RCM
import Gama.Gen.EnvelopeConst
namespace Gama

structure Env (K : Type) where
  dim : Nat
  defect : Nat
  diag : Array K
  env : Array K
  xenv : Array Nat

/-- placeholder value for uninitialised cells of `K`-arrays -/
@[reducible] def inhabitedOfScalar {K : Type} [Scalar K] : Inhabited K := ⟨0⟩
attribute [local instance] inhabitedOfScalar

namespace Env
variable {K : Type} [Scalar K]

def empty : Env K := { dim := 0, defect := 0, diag := #[], env := #[], xenv := #[] }

/-- `begin(i) - env_`, `end(i) - env_`, `end(i) - begin(i)` -/
def rowBegin (E : Env K) (i : Nat) : Nat := E.xenv.getD i 0
def rowEnd (E : Env K) (i : Nat) : Nat := E.xenv.getD (i + 1) 0
def width (E : Env K) (i : Nat) : Nat := E.rowEnd i - E.rowBegin i

/-- `diagonal(i)` -/
def diagonal (E : Env K) (i : Nat) : K := E.diag.getD (i - 1) 0

/-- where `element(i,j)` points: a diagonal cell or a profile cell -/
inductive Loc where
  | diag (k : Nat)
  | env (k : Nat)

/-- `element(i,j)` ; `none` = `nullptr` (outside the profile) -/
def elementLoc (E : Env K) (i j : Nat) : Option Loc :=
  if i > j then
    let n := i - j
    if n > E.width i then none else some (.env (E.rowEnd i - n))
  else if i < j then
    let n := j - i
    if n > E.width j then none else some (.env (E.rowEnd j - n))
  else some (.diag (i - 1))

def read (E : Env K) : Loc → K
  | .diag k => E.diag.getD k 0
  | .env k => E.env.getD k 0

/-- `*element(i,j)` or `none` -/
def element (E : Env K) (i j : Nat) : Option K := (E.elementLoc i j).map E.read

/-- the matrix entry the storage stands for (zero outside the profile) -/
def entry (E : Env K) (i j : Nat) : K := (E.element i j).getD 0

/-! ### `set(sm, graph, ordering)` -/

/-- `min_neighbour[node]` : smallest new number among the node itself and its neighbours -/
def minNeighbours (g : Adj) (o : SOrdering) (dim : Nat) : Array Nat :=
  (List.range' 1 g.nodes).foldl (fun mn node =>
      let i := o.perm[node]!
      (g.nbrs i).foldl (fun mn nb =>
          let c := o.invp[nb]!
          if mn[node]! > c then mn.setIfInBounds node c else mn) mn)
    (Array.range (dim + 1))

/-- `xenv_[i] = e; e += i - min_neighbour[i]; xenv_[i+1] = e;` -/
def profileOf (mn : Array Nat) (dim : Nat) : Array Nat :=
  ((List.range' 1 dim).foldl (fun (p : Array Nat × Nat) i =>
      let e' := p.2 + (i - mn[i]!)
      ((p.1.setIfInBounds i p.2).setIfInBounds (i + 1) e', e'))
    (Array.replicate (dim + 2) 0, 0)).1

/-- contribution of one sparse row, given as `(c[i], a[i])` = (new column number, value):
    `diag_[ia-1] += fa*fa`, and for every later entry `(ib, fb)` of the row either
    `diag_[ia-1] += 2*fa*fb` when `ia == ib` (index repeated in the row: `(fa+fb)^2`; since
    /repo commit 0a3ec43 — before that the C++ wrote to `*end(row)`, finding F17) or
    `*(end(row) - (row-col)) += fa*fb` with `row = max(ia,ib)`, `col = min(ia,ib)`. -/
def accRow (xenv : Array Nat) : List (Nat × K) → Array K × Array K → Array K × Array K
  | [], p => p
  | (ia, fa) :: rest, (diag, env) =>
    let diag := diag.modify (ia - 1) (· + fa * fa)
    let p := rest.foldl (fun (p : Array K × Array K) (q : Nat × K) =>
        if ia == q.1 then (p.1.modify (ia - 1) (· + Scalar.ofNat 2 * fa * q.2), p.2)
        else
          let row := max ia q.1
          let col := min ia q.1
          (p.1, p.2.modify (xenv.getD (row + 1) 0 - (row - col)) (· + fa * q.2))) (diag, env)
    accRow xenv rest p

/-- `Envelope(sm, graph, ordering)` -/
def ofSparse (A : SMat K) (g : Adj) (o : SOrdering) : Env K :=
  let dim := A.cols
  if dim = 0 then empty else
    let xenv := profileOf (minNeighbours g o dim) dim
    let envSize := xenv.getD (dim + 1) 0
    let p := (List.range' 1 A.rows).foldl (fun p r =>
        accRow xenv ((A.rowRange r).map fun q => (o.invp[A.cind[q]!]!, A.nonz.getD q 0)) p)
      (Array.replicate dim (0 : K), Array.replicate envSize (0 : K))
    { dim := dim, defect := 0, diag := p.1, env := p.2, xenv := xenv }

/-! ### solves -/

/-- `lowerSolve(start, stop, rhs)` ; `rhs[0]` is component `start` -/
def lowerSolve (E : Env K) (start stop : Nat) (rhs : Array K) : Array K :=
  (List.range' (start + 1) (stop - start)).foldl (fun rhs row =>
      let e := E.rowEnd row
      let x := row - start
      let m := min (E.width row) x            -- `while (b != e && x != rhs0)`
      let s := (List.range' 1 m).foldl (fun s k => s + rhs.getD (x - k) 0 * E.env.getD (e - k) 0) (0 : K)
      rhs.modify x (· - s)) rhs

/-- `diagonalSolve(start, stop, rhs)` : `if (*d) rhs /= d else rhs = 0` -/
def diagonalSolve (E : Env K) (start stop : Nat) (rhs : Array K) : Array K :=
  (List.range' start (stop + 1 - start)).foldl (fun rhs idx =>
      let d := E.diag.getD (idx - 1) 0
      if Scalar.beq d 0 then rhs.setIfInBounds (idx - start) 0
      else rhs.modify (idx - start) (· / d)) rhs

/-- `upperSolve(start, stop, rhs)` -/
def upperSolve (E : Env K) (start stop : Nat) (rhs : Array K) : Array K :=
  (List.range' start (stop + 1 - start)).reverse.foldl (fun rhs row =>
      let b := E.rowBegin row
      let w := E.width row
      let x := rhs.getD (row - start) 0
      let col := row - start - w
      (List.range w).foldl (fun rhs t => rhs.modify (col + t) (· - x * E.env.getD (b + t) 0)) rhs) rhs

/-- `solve(rhs, dimension)` -/
def solve (E : Env K) (rhs : Array K) (dimension : Nat) : Array K :=
  E.upperSolve 1 dimension (E.diagonalSolve 1 dimension (E.lowerSolve 1 dimension rhs))

/-! ### `cholDec(tol)` -/

/-- `if (tol <= 0) tol = sqrt(numeric_limits<Float>::epsilon())` -/
def effTol (tol : K) : K :=
  if tol ≤ 0 then Scalar.sqrt (1 / Scalar.ofNat (2 ^ 52)) else tol

/-- one pass of the row loop of `Envelope::cholDec` — `for (row=1; row<=dim_; row++)` in the current tree
    (the start row is regenerated into `Gen.cholFirstRow`; row 1 has no off-diagonal cell, only its
    pivot is tested) -/
def cholRow (tol : K) (E : Env K) (row : Nat) : Env K :=
  let b := E.rowBegin row
  let w := E.width row
  let start := row - w
  let stop := row - 1
  let u := E.diagonalSolve start stop (E.lowerSolve start stop (E.env.extract b (b + w)))
  let s := (List.range w).foldl (fun s k => s + u.getD k 0 * u.getD k 0 * E.diag.getD (start - 1 + k) 0) (0 : K)
  let d := E.diag.getD (row - 1) 0 - s
  let env := (List.range w).foldl (fun env k => env.setIfInBounds (b + k) (u.getD k 0)) E.env
  if Scalar.abs d < tol then
    { E with env := env, diag := E.diag.setIfInBounds (row - 1) 0, defect := E.defect + 1 }
  else
    { E with env := env, diag := E.diag.setIfInBounds (row - 1) d }

/-- `cholDec(tol)` with the factorisation loop `for (row=first; row<=dim_; row++)`.
    Row 1 has an empty profile: its pass is only the tolerance test of the first pivot.
    (Up to /repo commit a4c88cc the loop started at row 2 and never tested the first pivot;
    see finding F16.) -/
def cholDecFrom (first : Nat) (E : Env K) (tol : K) : Env K :=
  (List.range' first (E.dim + 1 - first)).foldl (cholRow (effTol tol)) { E with defect := 0 }

/-- `cholDec(tol)` ; the first row of the loop is read from the source on every run
    (`Gama/Gen/EnvelopeConst.lean`, regenerated by tools/props/c16.py) -/
def cholDec (E : Env K) (tol : K) : Env K := cholDecFrom Gen.cholFirstRow E tol

/-! ### `inverse(choldec)` -/

def write (E : Env K) (l : Loc) (v : K) : Env K :=
  match l with
  | .diag k => { E with diag := E.diag.setIfInBounds k v }
  | .env k => { E with env := E.env.setIfInBounds k v }

/-- `*element(i,j)` where the C++ dereferences without a null test -/
def elementD (E : Env K) (i j : Nat) : K := (E.element i j).getD 0

/-- one pass of `for (step=dim_; step>=1; step--)` -/
def invStep (chol : Env K) (Z : Env K) (step : Nat) : Env K :=
  let dim := chol.dim
  let b := Z.rowBegin step
  let w := Z.width step
  let d := chol.diagonal step
  if Scalar.beq d 0 then
    (List.range w).foldl (fun Z t => Z.write (.env (b + t)) 0) (Z.write (.diag (step - 1)) 0)
  else
    let d := (List.range' (step + 1) (dim - step)).foldl (fun d k =>
        match chol.element k step with
        | none => d
        | some u => d - u * Z.elementD step k) (1 / d)
    let Z := Z.write (.diag (step - 1)) d
    -- `for (i=step-1; i>=1 && b != e; i--) { …; *--e = s; }`
    (List.range (min (step - 1) w)).foldl (fun Z t =>
        let i := step - 1 - t
        let s := (List.range' (i + 1) (dim - i)).foldl (fun s k =>
            match chol.element i k with
            | none => s
            | some u => s - u * Z.elementD k step) (0 : K)
        Z.write (.env (b + w - 1 - t)) s) Z

/-- `inverse(chol)` (for `this != &chol`) -/
def inverse (chol : Env K) : Env K :=
  if chol.dim = 0 then empty else
    let Z0 : Env K := { dim := chol.dim, defect := 0, xenv := chol.xenv
                        diag := Array.replicate chol.dim 0
                        env := Array.replicate (chol.xenv.getD (chol.dim + 1) 0 - chol.xenv.getD 1 0) 0 }
    (List.range' 1 chol.dim).reverse.foldl (invStep chol) Z0

end Env

/-! ### Dense reference (textbook definitions on full matrices, 0-based) -/

abbrev Dense (K : Type) := Array (Array K)

namespace Dense
variable {K : Type} [Scalar K]

def get (N : Dense K) (i j : Nat) : K := (N.getD i #[]).getD j 0

def sum (l : List K) : K := l.foldl (· + ·) 0

/-- coefficient of the permuted design matrix: row `r`, new column number `c` (duplicates add) -/
def coeff (A : SMat K) (invp : Array Nat) (r c : Nat) : K :=
  sum (((A.rowRange r).filter fun q => invp[A.cind[q]!]! == c).map fun q => A.nonz.getD q 0)

/-- `PᵀAᵀAP` : `N(i,j) = Σ_r a(r,i+1) a(r,j+1)` -/
def normal (A : SMat K) (invp : Array Nat) (n : Nat) : Dense K :=
  Array.ofFn fun (i : Fin n) => Array.ofFn fun (j : Fin n) =>
    sum ((List.range' 1 A.rows).map fun r => coeff A invp r (i.1 + 1) * coeff A invp r (j.1 + 1))

/-- row `i` of `L` : `y_j = N_ij − Σ_{k<j} L_jk y_k`, `L_ij = y_j / D_j` (0 when `D_j = 0`) -/
def ldlRow (N L : Dense K) (D : Array K) (i : Nat) : Array K :=
  let y := (List.range i).foldl (fun (y : Array K) j =>
      y.push (N.get i j - sum ((List.range j).map fun k => L.get j k * y.getD k 0))) #[]
  Array.ofFn fun (j : Fin i) =>
    if Scalar.beq (D.getD j.1 0) 0 then 0 else y.getD j.1 0 / D.getD j.1 0

structure LDL (K : Type) where
  L : Dense K          -- strictly lower part, row `i` has `i` cells; unit diagonal implied
  D : Array K
  defect : Nat

/-- `N = L D Lᵀ` row by row; a pivot with `|d| < tol` is set to exactly 0 and counted.
    (Every pivot is tested, including the first one.) -/
def ldl (tol : K) (N : Dense K) (n : Nat) : LDL K :=
  (List.range n).foldl (fun (f : LDL K) i =>
      let l := ldlRow N f.L f.D i
      let d := N.get i i - sum ((List.range i).map fun j => l.getD j 0 * l.getD j 0 * f.D.getD j 0)
      if Scalar.abs d < tol then { L := f.L.push l, D := f.D.push 0, defect := f.defect + 1 }
      else { L := f.L.push l, D := f.D.push d, defect := f.defect })
    { L := #[], D := #[], defect := 0 }

/-- forward substitution with the unit lower triangle -/
def lower (f : LDL K) (n : Nat) (b : Array K) : Array K :=
  (List.range n).foldl (fun (y : Array K) i =>
      y.push (b.getD i 0 - sum ((List.range i).map fun j => f.L.get i j * y.getD j 0))) #[]

def diagS (f : LDL K) (n : Nat) (y : Array K) : Array K :=
  Array.ofFn fun (i : Fin n) => if Scalar.beq (f.D.getD i.1 0) 0 then 0 else y.getD i.1 0 / f.D.getD i.1 0

/-- back substitution with `Lᵀ` : `x_i = z_i − Σ_{j>i} L_ji x_j` (built from the last component) -/
def upper (f : LDL K) (n : Nat) (z : Array K) : Array K :=
  let xs := (List.range n).foldl (fun (xs : List K) t =>
      let i := n - 1 - t
      -- xs holds x_{i+1} … x_{n-1}
      (z.getD i 0 - sum ((List.range (n - 1 - i)).map fun m => f.L.get (i + 1 + m) i * xs.getD m 0)) :: xs) []
  xs.toArray

def solve (f : LDL K) (n : Nat) (b : Array K) : Array K := upper f n (diagS f n (lower f n b))

/-- the symmetric matrix `Z` of the recurrence `Z = D⁻¹L⁻¹ + (I − Lᵀ)Z` (all entries), with
    zero rows/columns on zero pivots; `Z` is stored as a full `n × n` array -/
def inverse (f : LDL K) (n : Nat) : Dense K :=
  let setSym (Z : Dense K) (i j : Nat) (v : K) : Dense K :=
    (Z.modify i (·.setIfInBounds j v)).modify j (·.setIfInBounds i v)
  (List.range n).foldl (fun (Z : Dense K) t =>
      let step := n - 1 - t
      let d := f.D.getD step 0
      if Scalar.beq d 0 then
        (List.range (step + 1)).foldl (fun Z i => setSym Z step i 0) Z
      else
        let dd := 1 / d - sum ((List.range (n - 1 - step)).map fun m =>
                    f.L.get (step + 1 + m) step * Z.get step (step + 1 + m))
        let Z := setSym Z step step dd
        (List.range step).foldl (fun Z u =>
            let i := step - 1 - u
            let s := sum ((List.range (n - 1 - i)).map fun m => f.L.get (i + 1 + m) i * Z.get (i + 1 + m) step)
            setSym Z step i (0 - s)) Z)
    (Array.replicate n (Array.replicate n 0))

end Dense
end Gama
