/-
  `GNU_gama::Homogenization<Float,Index>::run()` (lib/gnu_gama/adj/homogenization.h) on an
  `AdjInputData` (sparse design matrix `mat`, block-diagonal covariance `cov`, right-hand side `rhs`),
  exactly as coded, for ALL blocks at once.  Core Lean only.

    blockdiagonal = cov.replicate();
    if (blockdiagonal->cholDec() != 0) throw NonPositiveDefinite;          (1)
    UpperBlockDiagonal upper(bd);                                          (2)
    pr = rhs;  for row=1..pr.dim(): forward substitution with upper.begin/end(row)   (3)
    counting: per block, width == 0 → Σ row lengths, else block_dim * #distinct columns (std::set)  (4)
    sm = new Sparse(total, rows, columns);
    assembling, per block:                                                 (5)
      width == 0:  new_row(); add_element(a/d, col) for every element of the row, d = *block_b++
      else:        perm/invp numbering of the columns in order of first appearance, dense T(block_dim, bcols)
                   = the block's rows (T.set_zero(); T(i, perm[c]) += a: a repeated column index is ADDED);
                   for every column c of T: forward substitution with upper.begin/end(r), r = rows of the block;
                   new_row(); add_element(T(i,j), invp[j]) for every `T(i,j)` that converts to `true`
                   (exact zeros are dropped, NaN is kept);  perm cleared.

  What the C++ does not check (`canRun`): `mat` completely built with `rows = cov.dim() = rhs.dim()`,
  column indices in `1..cols`.  `ready`/`reset` caching is not modelled (one call of `run`).
-/
import Gama.Model.Sparse
import Gama.Model.BlockDiagonal
namespace Gama.Cov
variable {K : Type} [Scalar K]

@[reducible] def inhabitedOfScalarH {K : Type} [Scalar K] : Inhabited K := ⟨0⟩
attribute [local instance] inhabitedOfScalarH

namespace Hom

/-- `std::set<Index>::insert` followed by `size()`: only the number of distinct elements matters -/
def insertNew (l : List Nat) (c : Nat) : List Nat := if l.contains c then l else l ++ [c]

/-- (4) one block: `(nonzeroes of the scaled block, block_cols[block_index])`; `off` rows precede it -/
def countBlock (mat : SMat K) (off dim width : Nat) : Nat × Nat :=
  if width = 0 then
    ((List.range' 1 dim).foldl (fun nonz i => nonz + (mat.rowCols (off + i)).length) 0, 0)
  else
    let indices := (List.range' 1 dim).foldl (fun s i => (mat.rowCols (off + i)).foldl insertNew s) []
    (dim * indices.length, indices.length)

/-- state of the gather loop "copy block sparse columns to T" -/
structure Gather (K : Type) where
  perm : Array Nat           -- `std::vector<Index> perm(columns+1)`
  invp : Array Nat           -- `std::vector<Index> invp(bcols+1)`
  cnt  : Nat                 -- `invp_count`
  T    : Array (Array K)     -- `Mat<Float> T(block_dim, bcols)`, `T(i,j)` = `T[j-1][i-1]`

/-- `c = *n++; if (perm[c] == 0) { perm[c] = ++invp_count; invp[invp_count] = c; }  T(i, perm[c]) += *b++;`
    (`T.set_zero()` precedes the loop: several coefficients stored with the same column index in one row are SUMMED) -/
def gather1 (i : Nat) (g : Gather K) (e : Nat × K) : Gather K :=
  let c := e.1
  let g1 : Gather K :=
    if g.perm.getD c 0 = 0 then
      { g with cnt := g.cnt + 1, perm := g.perm.setIfInBounds c (g.cnt + 1)
               invp := g.invp.setIfInBounds (g.cnt + 1) c }
    else g
  let pc := g1.perm.getD c 0
  { g1 with T := g1.T.modify (pc - 1) (fun col => col.setIfInBounds (i - 1) (col.getD (i - 1) 0 + e.2)) }

/-- (5), correlated block: rows `off+1 … off+dim` of `mat`; returns the new rows and `perm` (cleared) -/
def corrBlock (mat : SMat K) (nonz : Array K) (tab : Array Nat) (off dim bcols : Nat) (perm : Array Nat) :
    List (List (Nat × K)) × Array Nat :=
  let g0 : Gather K :=
    { perm := perm, invp := Array.replicate (bcols + 1) 0, cnt := 0
      T := Array.replicate bcols (Array.replicate dim 0) }
  -- copy block sparse columns to T
  let g := (List.range' 1 dim).foldl (fun g i => (mat.rowEntries (off + i)).foldl (gather1 i) g) g0
  -- forward substitution for T, column by column
  let T := g.T.map (fun col => sweepTab nonz tab off dim col)
  -- move transformed T to output sparse matrix
  let rows := (List.range' 1 dim).map fun i =>
    (List.range' 1 bcols).filterMap fun j =>
      let element := (T.getD (j - 1) #[]).getD (i - 1) 0
      if Scalar.beq element 0 then none else some (g.invp.getD j 0, element)
  -- clear permutation vector
  let perm' := (List.range' 1 bcols).foldl (fun p i => p.setIfInBounds (g.invp.getD i 0) 0) g.perm
  (rows, perm')

/-- (5), uncorrelated block: `d = *block_b++; add_element(*b++/d, *n++)` -/
def diagBlock (mat : SMat K) (nonz : Array K) (begin_ off dim : Nat) : List (List (Nat × K)) :=
  (List.range' 1 dim).map fun i =>
    let d := nonz.getD (begin_ + (i - 1)) 0
    (mat.rowEntries (off + i)).map fun e => (e.1, e.2 / d)

structure Out (K : Type) where
  sm : SMat K
  pr : Array K
  /-- `total_scaled_nonzeroes` (capacity of `sm`) -/
  total : Nat

end Hom

/-- is the call defined? (nothing of this is checked by the C++) -/
def Hom.canRun (mat : SMat K) (cov : BlockDiag K) (rhs : Array K) : Bool :=
  mat.built && decide (mat.rows = cov.size) && decide (rhs.size = cov.size)

/-- `Homogenization::run()` -/
def Hom.run (tol : K) (mat : SMat K) (cov : BlockDiag K) (rhs : Array K) : Except Err (Hom.Out K) :=
  let (ret, bd) := (cov.replicate 0).cholDec tol
  if ret ≠ 0 then .error .NonPositiveDefinite else
  let tab := bd.upperTable
  -- homogenized right-hand side
  let pr := sweepTab bd.nonz tab 0 rhs.size rhs
  -- counting total number of nonzeros in scaled sparse matrix
  let cnt := (List.range' 1 bd.blocks).foldl (fun (st : Nat × Nat × Array Nat) b =>
      -- st = (row-1, total, block_cols)
      let c := Hom.countBlock mat st.1 (bd.dimOf b) (bd.widthOf b)
      (st.1 + bd.dimOf b, st.2.1 + c.1, if bd.widthOf b = 0 then st.2.2 else st.2.2.setIfInBounds b c.2))
    (0, 0, Array.replicate (bd.blocks + 1) 0)
  let total := cnt.2.1
  let blockCols := cnt.2.2
  -- assembling scaled sparse matrix
  let asm := (List.range' 1 bd.blocks).foldl (fun (st : Nat × List (List (Nat × K)) × Array Nat) b =>
      -- st = (row-1, rows written so far, perm)
      if bd.widthOf b = 0 then
        (st.1 + bd.dimOf b, st.2.1 ++ Hom.diagBlock mat bd.nonz (bd.beginOf b) st.1 (bd.dimOf b), st.2.2)
      else
        let r := Hom.corrBlock mat bd.nonz tab st.1 (bd.dimOf b) (blockCols.getD b 0) st.2.2
        (st.1 + bd.dimOf b, st.2.1 ++ r.1, r.2))
    (0, [], Array.replicate (mat.cols + 1) 0)
  let sm := asm.2.1.foldl (fun A row => row.foldl (fun A e => A.addElement e.2 e.1) A.newRow)
    (SMat.new total mat.rows mat.cols)
  .ok { sm := sm, pr := pr, total := total }

end Gama.Cov
