/-
  C06 — executable model of lib/gnu_gama/local/median/g2d_cogo.cpp (intersection
  primitives), bearing.cpp (bearing_distance), the polar point of
  acord/acordpolar.cpp (calculate_polar) and the similarity transformation of
  median/g2d_helper.cpp (SimilarityTr2D::transformation_key / calculation).

  Core Lean only.  The scalar signature of `Gama/Scalar.lean` is extended *here*
  (not in Scalar.lean) by the libm functions these kernels call.

  Conventions taken from the code: a `Direction` handed to a g2d_cogo class is an
  *outer bearing* (value = bearing from the known stand-point to the unknown point,
  radians); an `Angle` is an *inner angle* at the unknown point (from = unknown,
  bs = B1, fs = B2, value = bearing(X,B2) − bearing(X,B1) in [0,2π)).
  `LocalPoint(x, y)`, `set_xy(x, y)`: first component x.
-/
import Gama.Scalar
namespace Gama

/-- libm functions used by the approximate-coordinate kernels (C `double` at `Float`) -/
class Trig (K : Type) where
  sin   : K → K
  cos   : K → K
  atan2 : K → K → K      -- atan2 y x
  acos  : K → K
  tan   : K → K
  pi    : K              -- M_PI

instance : Trig Float where
  sin := Float.sin
  cos := Float.cos
  tan := Float.tan
  atan2 := Float.atan2
  acos := Float.acos
  pi := 3.14159265358979323846

namespace Cogo
open Scalar Trig
variable {K : Type} [Scalar K] [Trig K]

structure Pt (K : Type) where
  x : K
  y : K

/-- result of `calculation()`: the solutions in the order point1, point2
    (`number_of_solutions_` = length) and whether this call set `small_angle_detected_` -/
structure Res (K : Type) where
  sols  : List (Pt K)
  small : Bool

def none' : Res K := ⟨[], false⟩
def smallAngle : Res K := ⟨[], true⟩

def two : K := ofNat 2
def sqr (d : K) : K := d * d                       -- g2d_sqr
def signum (d : K) : Int := if d < 0 then -1 else if 0 < d then 1 else 0
def twoPi : K := two * (pi : K)

/-- default `small_angle_limit_` (set_small_angle_limit(0)) -/
def salDefault : K := ofSci 15 true 2              -- 0.15
/-- 1e-6 of bearing_distance / Direction_distance -/
def tiny : K := ofSci 1 true 6
/-- 0.1 rad window of the angle checks -/
def win : K := ofSci 1 true 1

/-- bearing.cpp `bearing_distance(ya, xa, yb, xb, b, d)` -/
def bearingDistance (ya xa yb xb : K) : K × K :=
  let dy := yb - ya
  let dx := xb - xa
  let d := sqrt (dy * dy + dx * dx)
  if d < tiny then (0, 0)
  else
    let s := atan2 dy dx
    (if 0 ≤ s then s else s + twoPi, d)

def bearing (a b : Pt K) : K := (bearingDistance a.y a.x b.y b.x).1
def g2dDistance (a b : Pt K) : K := sqrt (sqr (a.x - b.x) + sqr (a.y - b.y))

/-- the inner angle at `p` from `b1` to `b2` as recomputed by the checks:
    `uu = bearing(p,B2) - bearing(p,B1); uu += (uu < 0 ? 2*M_PI : 0)` -/
def innerAngle (p b1 b2 : Pt K) : K :=
  let uu := bearing p b2 - bearing p b1
  uu + (if uu < 0 then twoPi else 0)

/-- `(uu < value + 0.1) && (uu > value - 0.1)` -/
def angleOk (uu value : K) : Bool := decide (uu < value + win) && decide (value - win < uu)

/-- Distance_distance::calculation (values r1, r2 from the points B1, B2) -/
def distDist (B1 B2 : Pt K) (r1 r2 sal : K) : Res K :=
  let dy := B2.y - B1.y
  let dx := B2.x - B1.x
  let s12 := sqrt (sqr dy + sqr dx)
  if beq s12 0 then none'
  else
    let s1 := r1 / s12
    let s2 := r2 / s12
    let f := ((s1 + s2) * (s1 - s2) + 1) / two
    let g := (s1 + f) * (s1 - f)
    if g < 0 then none'
    else if sqrt g < sal * s1 * s2 then smallAngle
    else
      let p1 : Pt K := ⟨B1.x + dx * f - dy * sqrt g, B1.y + dy * f + dx * sqrt g⟩
      if 0 < g then
        ⟨[p1, ⟨B1.x + dx * f + dy * sqrt g, B1.y + dy * f - dx * sqrt g⟩], false⟩
      else ⟨[p1], false⟩

/-- Direction_direction::calculation after the swap (|sin h2| ≥ |sin h1|) -/
def dirDirCore (B1 : Pt K) (h1 : K) (B2 : Pt K) (h2 : K) (sal : K) : Res K :=
  let jmen := cos h1 * sin h2 - sin h1 * cos h2
  if abs jmen < sal then smallAngle
  else
    let dy := (sin h1 * sin h2 * (B2.x - B1.x) - cos h1 * sin h2 * (B2.y - B1.y)) / jmen
    let s_1 := signum dy
    let s_2 := signum (sin h2)
    let s_3 := signum (B2.x + (dy * cos h2) / sin h2 - B1.x)
    let s_4 := signum (cos h1)
    if s_1 ≠ s_2 ∨ s_3 ≠ s_4 then none'
    else ⟨[⟨B2.x + (dy * cos h2) / sin h2, B2.y + dy⟩], false⟩

/-- Direction_direction::calculation: bearing h1 from B1, bearing h2 from B2 -/
def dirDir (B1 : Pt K) (h1 : K) (B2 : Pt K) (h2 : K) (sal : K) : Res K :=
  if abs (sin h2) < abs (sin h1) then dirDirCore B2 h2 B1 h1 sal
  else dirDirCore B1 h1 B2 h2 sal

/-- Direction_distance::calculation: bearing h1 from B1, distance r from B2 -/
def dirDist (B1 : Pt K) (h1 : K) (B2 : Pt K) (r sal : K) : Res K :=
  if r ≤ 0 then none'
  else
    let yp := (B1.y - B2.y) * cos h1 - (B1.x - B2.x) * sin h1
    if r < abs yp then none'
    else
      let xp := (B1.x - B2.x) * cos h1 + (B1.y - B2.y) * sin h1
      let x1 := sqrt (sqr r - sqr yp)
      if x1 ≤ xp then none'
      else if x1 < sal * r then smallAngle
      else
        let p1 : Pt K := ⟨B2.x + x1 * cos h1 - yp * sin h1, B2.y + yp * cos h1 + x1 * sin h1⟩
        if -x1 ≤ xp + tiny then ⟨[p1], false⟩
        else ⟨[p1, ⟨B2.x - x1 * cos h1 - yp * sin h1, B2.y + yp * cos h1 - x1 * sin h1⟩], false⟩

/-- Circle::calculation: centre and radius from the chord B1 B2 and the inner angle u -/
def circle (B1 B2 : Pt K) (u sal : K) : Option (Pt K × K) × Bool :=
  if abs (sin u) < sal then (none, true)
  else
    let bd := bearingDistance B1.y B1.x B2.y B2.x
    let sm := bd.1
    let d := bd.2
    if beq d 0 then (none, false)
    else
      let rr := d / sin u / two
      (some (⟨B1.x - rr * sin (sm - u), B1.y + rr * cos (sm - u)⟩, abs rr), false)

/-- the selection common to Direction_angle / Distance_angle: keep, in order, the
    solutions at which the recomputed inner angle is within 0.1 rad of the value -/
def keepByAngle (B1 B2 : Pt K) (u : K) (l : List (Pt K)) : List (Pt K) :=
  l.filter (fun p => angleOk (innerAngle p B1 B2) u)

/-- Direction_angle::calculation: bearing h1 from S; inner angle u between B1 (bs) and B2 (fs) -/
def dirAngle (S : Pt K) (h1 : K) (B1 B2 : Pt K) (u sal : K) : Res K :=
  match circle B1 B2 u sal with
  | (none, sm) => ⟨[], sm⟩
  | (some (c, R), _) =>
    let sd := dirDist S h1 c R sal
    ⟨keepByAngle B1 B2 u sd.sols, sd.small⟩

/-- Distance_angle::calculation: distance dd1 from BB; inner angle u between B1 and B2 -/
def distAngle (BB : Pt K) (dd1 : K) (B1 B2 : Pt K) (u sal : K) : Res K :=
  match circle B1 B2 u sal with
  | (none, sm) => ⟨[], sm⟩
  | (some (c, R), _) =>
    let dd := distDist BB c dd1 R sal
    ⟨keepByAngle B1 B2 u dd.sols, dd.small⟩

def ptBeq (a b : Pt K) : Bool := beq a.x b.x && beq a.y b.y

/-- Angle_angle::calculation: inner angles u1 (B1,B2) and u2 (B3,B4) -/
def angleAngle (B1 B2 : Pt K) (u1 : K) (B3 B4 : Pt K) (u2 sal : K) : Res K :=
  match circle B1 B2 u1 sal, circle B3 B4 u2 sal with
  | (some (c1, R1), _), (some (c2, R2), _) =>
    let dd := distDist c1 c2 R1 R2 sal
    ⟨dd.sols.filter (fun p =>
        !(ptBeq B1 p || ptBeq B2 p) &&
        angleOk (innerAngle p B1 B2) u1 && angleOk (innerAngle p B3 B4) u2), dd.small⟩
  | (_, s1), (_, s2) => ⟨[], s1 || s2⟩

/-- AcordPolar::calculate_polar -/
def polar (sp : Pt K) (orientation dir dist : K) : Pt K :=
  let b := orientation + dir
  ⟨sp.x + dist * cos b, sp.y + dist * sin b⟩

/-- SimilarityTr2D::transformation_key: from1,from2 (local) ↦ to1,to2 (target);
    key = [a2, a1, ty, tx] -/
structure Key (K : Type) where
  a2 : K
  a1 : K
  ty : K
  tx : K

def transformationKey (from1 from2 to1 to2 : Pt K) : Key K :=
  let dy1 := from2.y - from1.y
  let dx1 := from2.x - from1.x
  let dy2 := to2.y - to1.y
  let dx2 := to2.x - to1.x
  let k0 := (dy2 * dx1 - dx2 * dy1) / (sqr dx1 + sqr dy1)
  let k1 := (dy1 * dy2 + dx1 * dx2) / (sqr dx1 + sqr dy1)
  ⟨k0, k1, to1.y - k1 * from1.y - k0 * from1.x, to1.x - k1 * from1.x + k0 * from1.y⟩

/-- SimilarityTr2D::calculation, one point -/
def transform (k : Key K) (p : Pt K) : Pt K :=
  ⟨k.tx + k.a1 * p.x - k.a2 * p.y, k.ty + k.a1 * p.y + k.a2 * p.x⟩

end Cogo
end Gama
