/-
  The DOCUMENTED value of every documented attribute of the gama-local input (xml/gama-local.xsd and the manual,
  chapter "gama-local-input"), hand-written in the vocabulary of the generated table `Gen/GkfValueChecks.lean`
  (core Lean only) so that the two tables can be compared by `decide`:

    xs:double                      `.num .dbl .any`   (FloatLang, finite: `C11_value_languages`)
    xs:NMTOKEN of an angular value `.num .angle .any` (gons as a double, or degrees `d-m-s`)
    xs:nonNegativeInteger          `.num .index _`
    xs:token with enumeration      `.enum [..]`
    xs:token / xs:string           `.free`
    ranges from the manual: sigma-apr, tol-abs > 0; conf-pr in (0, 1); dist ≥ 0; dim ≥ 1
    `emptyAbsent`: an optional attribute given as the empty string counts as not given

  Keyed by the handler that reads the element (`<point>` is read by `process_point` also inside `<coordinates>`,
  every `<cov-mat>` by `process_cov`).  Not expressible here and left out: `cov-band ≥ -1` (the code clamps),
  `dim`/`band` consistency (that is `Cross.less`), the xs:double specials `INF`/`NaN` (not accepted by gama).
-/
import Gama.Gen.GkfValueChecks
namespace Gama.Gkf

def dbl : Entry := ⟨.num .dbl .any, true⟩        -- optional xs:double
def dblReq : Entry := ⟨.num .dbl .any, false⟩    -- xs:double that is always converted
def ang : Entry := ⟨.num .angle .any, false⟩     -- angular observation value
def tok : Entry := ⟨.free, true⟩                 -- xs:token
def fixAdj : Entry := ⟨.enum ["xy", "XY", "z", "Z", "xyz", "XYZ", "XYz", "xyZ"], true⟩

def docCheck : Handler → String → Option Entry
  | .gama_xml_, "xmlns" => some ⟨.enum ["http://www.gnu.org/software/gama/gama-local"], false⟩
  | .network_, "axes-xy" => some ⟨.enum ["ne", "sw", "es", "wn", "en", "nw", "se", "ws"], false⟩
  | .network_, "angles" => some ⟨.enum ["left-handed", "right-handed"], false⟩
  | .network_, "epoch" => some dblReq
  | .parameters_, "sigma-apr" => some ⟨.num .dbl .pos, false⟩
  | .parameters_, "conf-pr" => some ⟨.num .dbl .open01, false⟩
  | .parameters_, "tol-abs" => some ⟨.num .dbl .pos, false⟩
  | .parameters_, "sigma-act" => some ⟨.enum ["aposteriori", "apriori"], false⟩
  | .parameters_, "algorithm" => some ⟨.enum ["gso", "svd", "cholesky", "envelope"], false⟩
  | .parameters_, "language" => some ⟨.enum ["en", "ca", "cz", "du", "es", "fi", "fr", "hu", "ru", "ua", "zh"], false⟩
  | .parameters_, "encoding" => some ⟨.enum ["utf-8", "iso-8859-2", "iso-8859-2-flat", "cp-1250", "cp-1251"], false⟩
  | .parameters_, "angular" => some ⟨.enum ["400", "360"], false⟩
  | .parameters_, "angles" => some ⟨.enum ["400", "360"], false⟩
  | .parameters_, "latitude" => some dblReq
  | .parameters_, "ellipsoid" => some ⟨.free, false⟩
  | .parameters_, "cov-band" => some ⟨.num .int .any, false⟩
  | .point_obs_, "distance-stdev" => some ⟨.words 3 .dbl, false⟩
  | .point_obs_, "direction-stdev" => some dblReq
  | .point_obs_, "angle-stdev" => some dblReq
  | .point_obs_, "zenith-angle-stdev" => some dblReq
  | .point_obs_, "azimuth-stdev" => some dblReq
  | .point_, "id" => some tok
  | .point_, "x" => some dbl
  | .point_, "y" => some dbl
  | .point_, "z" => some dbl
  | .point_, "fix" => some fixAdj
  | .point_, "adj" => some fixAdj
  | .obs_, "from" => some tok
  | .obs_, "orientation" => some dbl
  | .obs_, "from_dh" => some dbl
  | .coords_, "extern" => some tok
  | .direction_, "to" => some tok
  | .direction_, "val" => some ang
  | .direction_, "stdev" => some dbl
  | .direction_, "from_dh" => some dbl
  | .direction_, "to_dh" => some dbl
  | .direction_, "extern" => some tok
  | .distance_, "from" => some tok
  | .distance_, "to" => some tok
  | .distance_, "val" => some dblReq
  | .distance_, "stdev" => some dbl
  | .distance_, "from_dh" => some dbl
  | .distance_, "to_dh" => some dbl
  | .distance_, "extern" => some tok
  | .angle_, "from" => some tok
  | .angle_, "bs" => some tok
  | .angle_, "fs" => some tok
  | .angle_, "val" => some ang
  | .angle_, "stdev" => some dbl
  | .angle_, "from_dh" => some dbl
  | .angle_, "bs_dh" => some dbl
  | .angle_, "fs_dh" => some dbl
  | .angle_, "extern" => some tok
  | .sdistance_, "from" => some tok
  | .sdistance_, "to" => some tok
  | .sdistance_, "val" => some dblReq
  | .sdistance_, "stdev" => some dbl
  | .sdistance_, "from_dh" => some dbl
  | .sdistance_, "to_dh" => some dbl
  | .sdistance_, "extern" => some tok
  | .zangle_, "from" => some tok
  | .zangle_, "to" => some tok
  | .zangle_, "val" => some ang
  | .zangle_, "stdev" => some dbl
  | .zangle_, "from_dh" => some dbl
  | .zangle_, "to_dh" => some dbl
  | .zangle_, "extern" => some tok
  | .azimuth_, "from" => some tok
  | .azimuth_, "to" => some tok
  | .azimuth_, "val" => some ang
  | .azimuth_, "stdev" => some dbl
  | .azimuth_, "from_dh" => some dbl
  | .azimuth_, "to_dh" => some dbl
  | .azimuth_, "extern" => some tok
  | .dh_, "from" => some tok
  | .dh_, "to" => some tok
  | .dh_, "val" => some dblReq
  | .dh_, "stdev" => some dbl
  | .dh_, "dist" => some ⟨.num .dbl .nonneg, true⟩
  | .dh_, "extern" => some tok
  | .vec_, "from" => some tok
  | .vec_, "to" => some tok
  | .vec_, "dx" => some dblReq
  | .vec_, "dy" => some dblReq
  | .vec_, "dz" => some dblReq
  | .vec_, "from_dh" => some dbl
  | .vec_, "to_dh" => some dbl
  | .vec_, "extern" => some tok
  | .cov_, "dim" => some ⟨.num .index .ge1, false⟩
  | .cov_, "band" => some ⟨.num .index .any, false⟩
  | _, _ => none

/-- the documented attribute names per handler (the domain of `docCheck`) -/
def docNames : Handler → List String
  | .gama_xml_ => ["xmlns"]
  | .network_ => ["axes-xy", "angles", "epoch"]
  | .parameters_ => ["sigma-apr", "conf-pr", "tol-abs", "sigma-act", "algorithm", "language", "encoding", "angular", "angles",
                     "latitude", "ellipsoid", "cov-band"]
  | .point_obs_ => ["distance-stdev", "direction-stdev", "angle-stdev", "zenith-angle-stdev", "azimuth-stdev"]
  | .point_ => ["id", "x", "y", "z", "fix", "adj"]
  | .obs_ => ["from", "orientation", "from_dh"]
  | .coords_ => ["extern"]
  | .direction_ => ["to", "val", "stdev", "from_dh", "to_dh", "extern"]
  | .distance_ => ["from", "to", "val", "stdev", "from_dh", "to_dh", "extern"]
  | .angle_ => ["from", "bs", "fs", "val", "stdev", "from_dh", "bs_dh", "fs_dh", "extern"]
  | .sdistance_ => ["from", "to", "val", "stdev", "from_dh", "to_dh", "extern"]
  | .zangle_ => ["from", "to", "val", "stdev", "from_dh", "to_dh", "extern"]
  | .azimuth_ => ["from", "to", "val", "stdev", "from_dh", "to_dh", "extern"]
  | .dh_ => ["from", "to", "val", "stdev", "dist", "extern"]
  | .vec_ => ["from", "to", "dx", "dy", "dz", "from_dh", "to_dh", "extern"]
  | .cov_ => ["dim", "band"]
  | _ => []

/-- `a ≤ b`: every value passing `a` passes `b` (syntactic, sound by `checkLe_sound`) -/
def checkLe : Check → Check → Bool
  | _, .free => true
  | .enum a, .enum b => a.all (fun v => b.contains v)
  | .num c r, .num c' r' => (c == c' || (c == .dbl && c' == .angle && r' == .any)) && (r == r' || r' == .any)
  | .words n c, .words n' c' => decide (n ≤ n') && c == c'
  | _, _ => false

def entryLe (d e : Entry) : Bool := checkLe d.check e.check && (d.emptyAbsent == e.emptyAbsent || e.check == .free)

/-- the code is at least as liberal as the documentation on every documented attribute -/
def docRefined (h : Handler) : Bool :=
  (docNames h).all (fun a => match docCheck h a, valueCheck h a with
    | some d, some e => entryLe d e
    | _, _ => false)

/-- documented attributes on which the code applies EXACTLY the documented check (all numeric ones except
    `latitude`, for which the code also takes degrees, and `cov-band`): there a value outside the documented
    literal language or range is refused -/
def strictAttrs (h : Handler) : List String :=
  (docNames h).filter (fun a => match docCheck h a with
    | some ⟨.num _ _, _⟩ => !(h == .parameters_ && (a == "latitude" || a == "cov-band"))
    | some ⟨.words _ _, _⟩ => true
    | _ => false)

def docStrict (h : Handler) : Bool := (strictAttrs h).all (fun a => docCheck h a == valueCheck h a)

end Gama.Gkf
