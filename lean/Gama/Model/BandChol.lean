/-
  Band Cholesky / LDLᵀ kernels used for weighting correlated observations, as coded.
  Core Lean only; numeric kernels over `[Scalar K]` (run at `Rat` and `Float`).

  * `cholDecPtr`   — `CovMat::cholDec` (lib/matvec/covmat.h) with the C++ pointer walk
                     (`B`, `p`, `n` are raw offsets into the buffer);
  * `cholDec`      — the same loop nest with every access written as `operator()(i,j)`
                     (`Lemmas/CovChol.lean` proves `cholDecPtr = cholDec` on well-formed
                     objects; both are executed next to the C++);
  * `adjCholdec`   — `Adj::choldec` (lib/gnu_gama/adj/adj.cpp): LDLᵀ scaled to a Cholesky factor;
  * `forwardSubst` — `Adj::forwardSubstitution`;
  * `bdCholBlock` / `bdCholDec` — `BlockDiagonal::cholDec` (lib/gnu_gama/sparse/sbdiagonal.h),
                     one block / all blocks (`return block` on `pivot < tol`);
  * `upperRows`    — `UpperBlockDiagonal` constructor (row pointers) ;
  * `sweep`        — the forward substitution loop of `Homogenization::run`
                     (lib/gnu_gama/adj/homogenization.h), column oriented.
-/
import Gama.Model.Packed
namespace Gama.Cov
variable {K : Type} [Scalar K]

/-- `std::numeric_limits<double>::epsilon()` = 2⁻⁵² (exact at `Float` and at `Rat`) -/
def epsilon : K := Scalar.ofNat 1 / Scalar.ofNat 4503599627370496

/-- `1e-14`, default `tol` of `BlockDiagonal::cholDec` -/
def bdTol : K := Scalar.ofSci 1 true 14

/-! ### `CovMat::cholDec`, pointer version -/

/-- first loop: `q = max(B[n], q)` over the diagonal; `n += k+1` -/
def maxDiagPtr (m : CovMat K) : K :=
  ((List.range' 1 m.dim).foldl (fun (st : K × Int) row =>
      (Scalar.max (m.raw 0 st.2) st.1, st.2 + ((min m.band (m.dim - row) : Nat) : Int) + 1))
    ((0 : K), (0 : Int))).1

/-- `const Float Tol = N*std::numeric_limits<Float>::epsilon()*q;` -/
def tolOf (N : Nat) (q : K) : K := Scalar.ofNat N * (epsilon : K) * q

/-- the elimination loops of one row:
    `p = B+k; for n=1..k { q = B[n]/pivot; for l=n..k p[l] -= q*B[l]; p += min(W, N-row-n); }` -/
def elimPtr (W N row : Nat) (B : Int) (pivot : K) (m : CovMat K) : CovMat K :=
  let k := min W (N - row)
  ((List.range' 1 k).foldl (fun (st : CovMat K × Int) (n : Nat) =>
      let q := st.1.raw 0 (B + (n : Int)) / pivot
      let m' := (List.range' n (k + 1 - n)).foldl
        (fun (a : CovMat K) (l : Nat) =>
          a.rawSet (st.2 + (l : Int)) (a.raw 0 (st.2 + (l : Int)) - q * a.raw 0 (B + (l : Int)))) st.1
      (m', st.2 + ((min W (N - row - n) : Nat) : Int)))
    (m, B + (k : Int))).1

/-- `B++; for (; k; k--) *B++ /= pivot;` -/
def scalePtr (k : Nat) (B : Int) (pivot : K) (m : CovMat K) : CovMat K :=
  (List.range' 1 k).foldl (fun (a : CovMat K) (j : Nat) => a.rawSet (B + (j : Int)) (a.raw 0 (B + (j : Int)) / pivot)) m

def cholDecPtr (m : CovMat K) : Except Err (CovMat K) :=
  if m.dim = 0 then .error .BadRank else
  let N := m.dim
  let W := m.band
  let tol : K := tolOf N (maxDiagPtr m)
  ((List.range' 1 N).foldlM (fun (st : CovMat K × Int) row =>
      let pivot := st.1.raw 0 st.2
      if pivot ≤ tol then (.error .NonPositiveDefinite : Except Err (CovMat K × Int)) else
      let k := min W (N - row)
      .ok (scalePtr k st.2 pivot (elimPtr W N row st.2 pivot st.1), st.2 + (k : Int) + 1))
    (m, (0 : Int))).map (·.1)

/-! ### the same loop nest through `operator()` -/

/-- `m(r,s) = v` for a position known to be inside the band (no-op otherwise) -/
def CovMat.setU (m : CovMat K) (r s : Nat) (v : K) : CovMat K :=
  match Packed.idx m.dim m.band r s with
  | none => m
  | some k => m.rawSet k v

def maxDiag (m : CovMat K) : K :=
  (List.range' 1 m.dim).foldl (fun q row => Scalar.max (m.get row row) q) (0 : K)

def elimRow (row k : Nat) (pivot : K) (m : CovMat K) : CovMat K :=
  (List.range' 1 k).foldl (fun (a : CovMat K) n =>
      let q := a.get row (row + n) / pivot
      (List.range' n (k + 1 - n)).foldl
        (fun (c : CovMat K) l => c.setU (row + n) (row + l) (c.get (row + n) (row + l) - q * c.get row (row + l))) a)
    m

def scaleRow (row k : Nat) (pivot : K) (m : CovMat K) : CovMat K :=
  (List.range' 1 k).foldl (fun a j => a.setU row (row + j) (a.get row (row + j) / pivot)) m

/-- one iteration of the outer loop (after the pivot test) -/
def cholStep (row : Nat) (pivot : K) (m : CovMat K) : CovMat K :=
  let k := min m.band (m.dim - row)
  scaleRow row k pivot (elimRow row k pivot m)

/-- rows `row, row+1, …` (`cnt` of them) -/
def cholRows (tol : K) : Nat → Nat → CovMat K → Except Err (CovMat K)
  | _, 0, m => .ok m
  | row, cnt + 1, m =>
    let pivot := m.get row row
    if pivot ≤ tol then .error .NonPositiveDefinite
    else cholRows tol (row + 1) cnt (cholStep row pivot m)

def cholDec (m : CovMat K) : Except Err (CovMat K) :=
  if m.dim = 0 then .error .BadRank else
  cholRows (tolOf m.dim (maxDiag m)) 1 m.dim m

/-! ### `Adj::choldec`, `Adj::forwardSubstitution` -/

/-- the scaling loop of `Adj::choldec`:
    `d = sqrt(chol(i,i)); chol(i,i) = d; m = min(N,i+b); for j=i+1..m chol(i,j) *= d;` -/
def scaleToChol (m : CovMat K) : CovMat K :=
  (List.range' 1 m.dim).foldl (fun (a : CovMat K) i =>
      let d := Scalar.sqrt (a.get i i)
      let a1 := a.setU i i d
      let mm := min a.dim (i + a.band)
      (List.range' (i + 1) (mm - i)).foldl (fun c j => c.setU i j (c.get i j * d)) a1)
    m

def adjCholdec (m : CovMat K) : Except Err (CovMat K) := (cholDec m).map scaleToChol

/-- `Adj::forwardSubstitution(chol, v)`; `v` is the `Vec<>` (0-based array of length `N`)
    `for i=1..N { m = i>b+1 ? i-b : 1; for j=m..i-1 v(i) -= chol(i,j)*v(j); v(i) /= chol(i,i); }` -/
def forwardSubst (chol : CovMat K) (v : Array K) : Array K :=
  (List.range' 1 chol.dim).foldl (fun (x : Array K) i =>
      let m := if i > chol.band + 1 then i - chol.band else 1
      let s := (List.range' m (i - m)).foldl (fun acc j => acc - chol.get i j * x.getD (j - 1) 0) (x.getD (i - 1) 0)
      x.setIfInBounds (i - 1) (s / chol.get i i))
    v

/-! ### sparse variant: `BlockDiagonal::cholDec`, `UpperBlockDiagonal`, `Homogenization::run` -/

/-- one block of `BlockDiagonal::cholDec(tol)`; `.error m'` = "return block" (not positive
    definite) with the buffer as the C++ leaves it (rows before the failing pivot already factored).
    Same elimination as `CovMat::cholDec`; the pivot row is scaled by `sqrt(pivot)`:
    `*B++ = pivot = sqrt(pivot); for (; k; k--) *B++ /= pivot;` -/
def bdCholBlock (tol : K) (m : CovMat K) : Except (CovMat K) (CovMat K) :=
  ((List.range' 1 m.dim).foldlM (fun (st : CovMat K × Int) row =>
      let pivot := st.1.raw 0 st.2
      if pivot < tol then (.error st.1 : Except (CovMat K) (CovMat K × Int)) else
      let k := min m.band (m.dim - row)
      let e := elimPtr m.band m.dim row st.2 pivot st.1
      let s := Scalar.sqrt pivot
      .ok (scalePtr k st.2 s (e.rawSet st.2 s), st.2 + (k : Int) + 1))
    (m, (0 : Int))).map (·.1)

/-- `BlockDiagonal::cholDec`: returns the (1-based) index of the first rejected block, or 0;
    blocks before it are factored in place, the rejected one partially, later ones untouched -/
def bdCholDec (tol : K) (blocks : List (CovMat K)) : Nat × List (CovMat K) :=
  let rec go (i : Nat) (done : List (CovMat K)) : List (CovMat K) → Nat × List (CovMat K)
    | [] => (0, done.reverse)
    | b :: rest =>
      match bdCholBlock tol b with
      | .error b' => (i, done.reverse ++ b' :: rest)
      | .ok f => go (i + 1) (f :: done) rest
  go 1 [] blocks

/-- `UpperBlockDiagonal` constructor for one block: (offset, length) of every row;
    `row_width = width+1; if (i+row_width > dim) row_width = dim-i+1;` -/
def upperRows (dim width : Nat) : List (Int × Nat) :=
  ((List.range' 1 dim).foldl (fun (st : List (Int × Nat) × Int) i =>
      let rw := if i + (width + 1) > dim then dim - i + 1 else width + 1
      (st.1 ++ [(st.2, rw)], st.2 + (rw : Int)))
    (([] : List (Int × Nat)), (0 : Int))).1

/-- forward substitution of `Homogenization::run` on one block (`pr` restricted to the block):
    `x = pr(row) / *b++; pr(row) = x; n = row+1; while (b != e) pr(n++) -= *b++ * x;` -/
def sweep (f : CovMat K) (v : Array K) : Array K :=
  ((upperRows f.dim f.band).foldl (fun (st : Array K × Nat) r =>
      let x := st.1.getD (st.2 - 1) 0 / f.raw 0 r.1
      let v1 := st.1.setIfInBounds (st.2 - 1) x
      let v2 := (List.range' 1 (r.2 - 1)).foldl
        (fun (w : Array K) (t : Nat) => w.setIfInBounds (st.2 - 1 + t) (w.getD (st.2 - 1 + t) 0 - f.raw 0 (r.1 + (t : Int)) * x)) v1
      (v2, st.2 + 1))
    (v, 1)).1

end Gama.Cov
