/-
  Model of `GNU_gama::MoveToFront<N,Key,Buffer>` (lib/gnu_gama/movetofront.h).

  C++ state: `key_[N]`, `buf_[N]`, `active`.  Only `key_[0..active)` is ever read.
  The model keeps the array as two segments:
    `ents` = `[(key_[i], buf_[i]) | i < active]`   (most recently used first)
    `free` = `[buf_[i] | active ≤ i < N]`
  so `N = ents.length + free.length` and `active = ents.length`.
-/
namespace Gama

structure MTF (Key Buf : Type) where
  ents : List (Key × Buf)
  free : List Buf
deriving Repr

namespace MTF
variable {Key Buf : Type} [DecidableEq Key]

/-- `MoveToFront(Buffer b[])` / `MoveToFront(Buffer b)` : `active = 0`. -/
def init (bufs : List Buf) : MTF Key Buf := ⟨[], bufs⟩

/-- `erase()` : `active = 0`; the buffers keep their array positions. -/
def erase (m : MTF Key Buf) : MTF Key Buf := ⟨[], m.ents.map Prod.snd ++ m.free⟩

/-- the capacity `N` -/
def cap (m : MTF Key Buf) : Nat := m.ents.length + m.free.length

/-- the loop `for (i=0; i<active; i++) if (key_[i]==key) …` : first entry with the key,
    and the list with that entry removed -/
def extract (k : Key) : List (Key × Buf) → Option (Buf × List (Key × Buf))
  | [] => none
  | (k', b) :: rest =>
    if k' = k then some (b, rest)
    else match extract k rest with
      | some (b0, rest') => some (b0, (k', b) :: rest')
      | none => none

/-- `get(key)`; returns the new state and `(buffer, good)`.
    hit  : entry moves to the front;
    miss, `active < N` : position `active` is taken (`imin = active++`);
    miss, full : position `N-1` (least recently used) is recycled.
    `none` only for the degenerate `N = 0` (the C++ indexes `buf_[N-1]` out of bounds). -/
def get (m : MTF Key Buf) (k : Key) : Option (MTF Key Buf × (Buf × Bool)) :=
  match extract k m.ents with
  | some (b, rest) => some (⟨(k, b) :: rest, m.free⟩, (b, true))
  | none =>
    match m.free with
    | b :: free' => some (⟨(k, b) :: m.ents, free'⟩, (b, false))
    | [] =>
      match m.ents.getLast? with
      | some (_, b) => some (⟨(k, b) :: m.ents.dropLast, []⟩, (b, false))
      | none => none

end MTF
end Gama
