/-
  OBJECT HISTORIES OF `GNU_gama::Vec<Float,Index,Exc>` (lib/matvec/vec.h, vecbase.h, matvecbase.h,
  memrep.h): a store of `Vec` objects on the explicit heap of `Model/MemRep.lean`.

  `Vec`, `VecBase`, `MatVecBase` declare NO data member (regenerated: `Gen/SymVecMembers.lean`): a `Vec`
  object is exactly its `MemRep` sub-object, `dim()` is `size()`.  None of the three declares a
  destructor or copy operations, so — unlike `Mat`/`SymMat` — the implicit MOVE operations exist and
  reach `MemRep(MemRep&&)` / `operator=(MemRep&&)`: the source of a move is left empty.

  Operations beyond those of `MemRep`: `set_all`, `*=` (`mul(f,*this)`), `+=`/`-=` (`add(x,*this)`,
  guarded by `size()`), and the binary `a + b` / `a - b` constructing a new object
  (`Vec t(dim()); add(x, t); return t;`): when the guard inside `add` throws, the temporary `t` has
  been constructed and is destroyed by unwinding (`thrown`).

  Core Lean only.
-/
import Gama.Model.MatObj
import Gama.Model.ObjCatch
namespace Gama.VecObj
open Gama.MemRep (upd)
open Gama.MatObj (Stop readAt writeAt rewriteAt)

/-- (class, member) of every persistent data member the model carries -/
def modelMembers : List (String × String) := [("MemRep", "rep"), ("MemRep", "sz")]

/-- classes of the chain whose copy AND move operations are the implicit memberwise ones -/
def modelImplicitCopyMove : List String := ["MatVecBase", "VecBase", "Vec"]

inductive Op (K : Type) where
  /-- `Vec(Index n)` in slot `i` -/
  | ctor (i : Nat) (n : Int)
  | copyCtor (i j : Nat)
  /-- implicit `Vec(Vec&&)` → `MemRep(MemRep&&)` -/
  | moveCtor (i j : Nat)
  | assign (i j : Nat)
  /-- implicit `operator=(Vec&&)` → `MemRep::operator=(MemRep&&)` -/
  | moveAssign (i j : Nat)
  /-- `reset(n)` = `resize(n)` -/
  | reset (i n : Nat)
  /-- `operator()(k) = x`, `1 ≤ k ≤ dim()` -/
  | set (i k : Nat) (x : K)
  | setAll (i : Nat) (x : K)
  /-- `operator*=(f)` : `mul(f, *this)` -/
  | scale (i : Nat) (f : K)
  /-- `operator+=(x)` : `add(x, *this)` -/
  | addAssign (i j : Nat)
  /-- `operator-=(x)` : `sub(x, *this)` -/
  | subAssign (i j : Nat)
  /-- new object in slot `i` from `a + b` (slots `j`, `k`) -/
  | plus (i j k : Nat)
  /-- new object in slot `i` from `a - b` -/
  | minus (i j k : Nat)
  | dtor (i : Nat)
deriving Repr

def Op.target {K : Type} : Op K → Nat
  | .ctor i _ | .copyCtor i _ | .moveCtor i _ | .assign i _ | .moveAssign i _ | .reset i _ | .set i _ _
  | .setAll i _ | .scale i _ | .addAssign i _ | .subAssign i _ | .plus i _ _ | .minus i _ _ | .dtor i => i

/-- the second slot a move empties -/
def Op.source {K : Type} : Op K → Option Nat
  | .moveCtor _ j | .moveAssign _ j => some j
  | _ => none

section
variable {K : Type} [Scalar K] [Inhabited K]

abbrev St (K : Type) := MemRep.St K

def viaMem (s : St K) (op : MemRep.Op K) : Except Stop (St K) :=
  match MemRep.step s op with
  | .ok m => .ok m
  | .error x => .error (Stop.ofMem x)

/-- `x[k] = a[k] op b[k]` -/
def zip2 (f : K → K → K) (la lb : List K) : List K :=
  (List.range la.length).map fun k => f (la.getD k 0) (lb.getD k 0)

def inPlace (s : St K) (i : Nat) (f : List K → List K) : Except Stop (St K) :=
  match s.objs i with
  | none => .error .precondition
  | some t => rewriteAt s t.rep t.sz f

def binAssign (s : St K) (i j : Nat) (f : K → K → K) : Except Stop (St K) :=
  match s.objs i, s.objs j with
  | some t, some u =>
    -- if (this->size() != B.size() || this->size() != X.size()) throw BadRank;   (X is *this)
    if t.sz ≠ u.sz then .error .badRank
    else match readAt s u.rep u.sz with
         | .error x => .error x
         | .ok lb => rewriteAt s t.rep t.sz (fun la => zip2 f la lb)
  | _, _ => .error .precondition

def binNew (s : St K) (i j k : Nat) (f : K → K → K) : Except Stop (St K) :=
  match s.objs i, s.objs j, s.objs k with
  | none, some a, some b =>
    -- Vec t(this->dim());  add(x, t): guard;  loop;  return t;   (t becomes the new object)
    if a.sz ≠ b.sz then .error .badRank
    else match readAt s a.rep a.sz, readAt s b.rep b.sz with
         | .ok la, .ok lb =>
           match MemRep.step s (.ctor i (a.sz : Int)) with
           | .error x => .error (Stop.ofMem x)
           | .ok s1 => inPlace s1 i (fun _ => zip2 f la lb)
         | .error x, _ => .error x
         | _, .error x => .error x
  | _, _, _ => .error .precondition

def step (s : St K) : Op K → Except Stop (St K)
  | .ctor i n => viaMem s (.ctor i n)
  | .copyCtor i j => viaMem s (.copyCtor i j)
  | .moveCtor i j => viaMem s (.moveCtor i j)
  | .assign i j => viaMem s (.assign i j)
  | .moveAssign i j => viaMem s (.moveAssign i j)
  | .reset i n => viaMem s (.resize i n)
  | .set i k x => if 1 ≤ k then viaMem s (.write i (k - 1) x) else .error .precondition
  | .setAll i x => inPlace s i (fun l => l.map fun _ => x)
  | .scale i f => inPlace s i (fun l => l.map (· * f))
  | .addAssign i j => binAssign s i j (· + ·)
  | .subAssign i j => binAssign s i j (· - ·)
  | .plus i j k => binNew s i j k (· + ·)
  | .minus i j k => binNew s i j k (· - ·)
  | .dtor i => viaMem s (.dtor i)

def run (s : St K) : List (Op K) → Except Stop (St K)
  | [] => .ok s
  | op :: ops => match step s op with
                 | .ok s' => run s' ops
                 | .error e => .error e

/-- the state a throwing operation leaves behind -/
def thrown (s : St K) : Op K → St K
  | .plus _ j _ | .minus _ j _ =>
    match s.objs j with
    | some a => ObjCatch.tempGone s a.sz        -- `Vec t(dim())` destroyed by unwinding
    | none => s
  | _ => s                                      -- `Vec(n)`, n < 0: thrown inside `MemRep(Index)`, nothing built

def runC (s : St K) (ops : List (Op K)) := ObjCatch.runC step thrown s ops

/-! ### Values: a `Vec` is the list of its elements -/

abbrev Vals (K : Type) := Nat → Option (List K)

def spec (v : Vals K) : Op K → Except Stop (Vals K)
  | .ctor i n => (MemRep.spec v (.ctor i n)).mapError Stop.ofMem
  | .copyCtor i j => (MemRep.spec v (.copyCtor i j)).mapError Stop.ofMem
  | .moveCtor i j => (MemRep.spec v (.moveCtor i j)).mapError Stop.ofMem
  | .assign i j => (MemRep.spec v (.assign i j)).mapError Stop.ofMem
  | .moveAssign i j => (MemRep.spec v (.moveAssign i j)).mapError Stop.ofMem
  | .reset i n => (MemRep.spec v (.resize i n)).mapError Stop.ofMem
  | .set i k x => if 1 ≤ k then (MemRep.spec v (.write i (k - 1) x)).mapError Stop.ofMem else .error .precondition
  | .setAll i x =>
    match v i with
    | none => .error .precondition
    | some t => .ok (upd v i (some (t.map fun _ => x)))
  | .scale i f =>
    match v i with
    | none => .error .precondition
    | some t => .ok (upd v i (some (t.map (· * f))))
  | .addAssign i j =>
    match v i, v j with
    | some t, some u => if t.length ≠ u.length then .error .badRank else .ok (upd v i (some (zip2 (· + ·) t u)))
    | _, _ => .error .precondition
  | .subAssign i j =>
    match v i, v j with
    | some t, some u => if t.length ≠ u.length then .error .badRank else .ok (upd v i (some (zip2 (· - ·) t u)))
    | _, _ => .error .precondition
  | .plus i j k =>
    match v i, v j, v k with
    | none, some a, some b => if a.length ≠ b.length then .error .badRank else .ok (upd v i (some (zip2 (· + ·) a b)))
    | _, _, _ => .error .precondition
  | .minus i j k =>
    match v i, v j, v k with
    | none, some a, some b => if a.length ≠ b.length then .error .badRank else .ok (upd v i (some (zip2 (· - ·) a b)))
    | _, _, _ => .error .precondition
  | .dtor i => (MemRep.spec v (.dtor i)).mapError Stop.ofMem

def specRun (v : Vals K) : List (Op K) → Except Stop (Vals K)
  | [] => .ok v
  | op :: ops => match spec v op with
                 | .ok v' => specRun v' ops
                 | .error e => .error e

/-- a caught exception leaves every `Vec` value as it was -/
def specThrown (v : Vals K) (_ : Op K) : Vals K := v

def specRunC (v : Vals K) (ops : List (Op K)) := ObjCatch.runC spec specThrown v ops

end
end Gama.VecObj
