/-
  C06 — AcordIntersection::execute (lib/gnu_gama/local/acord/acordintersection.cpp, after fixes 78a600d, 863dd00) and the
  machinery it drives: ApproximateCoordinates (median/g2d_coordinates.cpp: `calculation()`,
  `find_missing_coordinates`, `solvable_data`, `necessary_observations`, `computational_loop`,
  `solve_intersection`), ApproxPoint (median/g2d_point.{h,cpp}: `reset`, `makeBearing`, `makeAngle`,
  `ArrangeObservations`, `calculation`), Select_solution_g2d and Statistics_g2d (median/g2d_helper.cpp) and
  Orientation::add_all (orientation.cpp).  The intersection kernels themselves are Gama/Model/Cogo.lean.
  Core Lean only (linked into `drv_cogo`).

  State.
    * `PD ι K` (Gama/Model/AcordBase.lean): the point list as a total function; an id that is not in the map
      reads as `LP.unset` (every access here is `find` + `test_xy()` or `operator[]` on a private copy).
    * `List (Cl ι K)`: the clusters of `ObservationData` in order; a cluster carries the orientation of a
      `StandPoint` (`test_orientation()/orientation()`, WRITTEN by `Orientation::add_all`, which ApproxPoint::reset
      runs on every call) and its observation list.  `OD.begin() … OD.end()` walks the clusters in order.
    * `sal`: the STATIC `CoordinateGeometry2D::small_angle_limit_` — set to 0.15 by the public constructor of
      ApproximateCoordinates (`set_small_angle_limit()`), to 0.15/1.5 by AcordIntersection::execute, and left at
      that value for whoever runs next (the member `approxy_` of a later `execute()` call).

  NOT modelled: `ApproximateCoordinates::solve_insertion` (local coordinate system + similarity transformation for
  points no single intersection reaches).  `compLoop` is the loop of `computational_loop` with `solve_insertion()`
  returning false; the correspondence stream measures how often the real class gets further than the model
  (then the model's answer must be a subset of the implementation's and only the oracle is applied to the rest).
-/
import Gama.Model.AcordBase
namespace Gama.Inter
open Scalar Trig Cogo Median Acord

/-- the observation classes the code distinguishes by `dynamic_cast` -/
inductive HObs (ι K : Type) where
  | direction (f t : ι) (v : K)
  | distance (f t : ι) (v : K)
  | angle (f bs fs : ι) (v : K)
  | azimuth (f t : ι) (v : K)
  /-- `S_Distance` with `from_dh()`, `to_dh()` (instrument / target height above the marks) -/
  | sdistance (f t : ι) (v fdh tdh : K)
  | zangle (f t : ι) (v : K)

/-- a cluster: orientation state (stand-points) and observation list -/
structure Cl (ι K : Type) where
  ori : Option K
  obs : List (HObs ι K)

/-- an element of the list `SM` of ApproximateCoordinates: the observation and `ptr_cluster()` (index) -/
structure SMo (ι K : Type) where
  cl : Nat
  o : HObs ι K

variable {K : Type} {ι : Type}

def HObs.from' : HObs ι K → ι
  | .direction f _ _ => f | .distance f _ _ => f | .angle f _ _ _ => f
  | .azimuth f _ _ => f | .sdistance f _ _ _ _ => f | .zangle f _ _ => f
/-- `to()` (= `bs()` of an angle) -/
def HObs.to' : HObs ι K → ι
  | .direction _ t _ => t | .distance _ t _ => t | .angle _ bs _ _ => bs
  | .azimuth _ t _ => t | .sdistance _ t _ _ _ => t | .zangle _ t _ => t

/-- `copy_horizontal`: Direction, Angle, Distance -/
def HObs.isHoriz : HObs ι K → Bool
  | .direction .. => true | .distance .. => true | .angle .. => true | _ => false

def copyFrom (k : Nat) : List (Cl ι K) → List (SMo ι K)
  | [] => []
  | c :: cs => ((c.obs.filter HObs.isHoriz).map (fun o => (⟨k, o⟩ : SMo ι K))) ++ copyFrom (k + 1) cs

/-- ApproximateCoordinates::copy_horizontal over `OD.begin() … OD.end()` -/
def copyHorizontal (cls : List (Cl ι K)) : List (SMo ι K) := copyFrom 0 cls

def oriAt (oris : List (Option K)) (k : Nat) : Option K := (oris.getD k none)

variable [Scalar K] [Trig K] [DecidableEq ι]

def ptOf (p : LP K) : Pt K := ⟨p.x, p.y⟩

/-- `Observation::norm_rad_val()` (constructors of Direction, Angle, Azimuth) for the values this code hands to
    them, all in (−2π, 4π): `fmod(v, 2π)` is then `v − 2π` (exact in IEEE arithmetic) resp. `v`, `+ 2π` if negative -/
def normRad (v : K) : K := if (twoPi : K) ≤ v then v - twoPi else if v < 0 then v + twoPi else v

/-! ## Orientation::add_all -/

/-- `Orientation::orientation(iterator&, z, n)` on the run of one cluster starting at its first Direction -/
def orientRun (fuel : Nat) (pd : PD ι K) (frm : ι) (run : List (SMo ι K)) : K × Nat :=
  if (pd frm).bxy then
    orientation fuel (run.filterMap (fun e => match e.o with
      | .direction _ t v => if (pd t).bxy then some (bearing (ptOf (pd frm)) (ptOf (pd t)), v) else none
      | _ => none))
  else (0, 0)

/-- `Orientation::add_all()`: a Direction of an oriented stand-point skips the rest of its cluster; of an
    unoriented one computes the orientation from the rest of the cluster (all its directions: what precedes the
    first Direction of a cluster is no Direction) and sets it if at least one direction could be used.
    `n` bounds the walk (list length suffices). -/
def addAll (fuel : Nat) (pd : PD ι K) : Nat → List (SMo ι K) → List (Option K) → List (Option K)
  | 0, _, oris => oris
  | _, [], oris => oris
  | n + 1, e :: rest, oris =>
    match e.o with
    | .direction f _ _ =>
      let run := (e :: rest).takeWhile (fun x => x.cl == e.cl)
      let rest' := (e :: rest).dropWhile (fun x => x.cl == e.cl)
      match oriAt oris e.cl with
      | some _ => addAll fuel pd n rest' oris
      | none =>
        let r := orientRun fuel pd f run
        addAll fuel pd n rest' (if 0 < r.2 then oris.set e.cl (some r.1) else oris)
    | _ => addAll fuel pd n rest oris

/-! ## ApproxPoint -/

/-- the observations ApproxPoint::calculation works with (list `SM` of ApproxPoint after ArrangeObservations):
    `Distance(CB, t, med)`, outer bearing `Direction(f, CB, med)`, inner angle `Angle(CB, bs, fs, med)` -/
inductive AObs (ι K : Type) where
  | dist (t : ι) (v : K)
  | dir (f : ι) (v : K)
  | ang (bs fs : ι) (v : K)

/-- what the selection loop of ApproxPoint::reset collects -/
structure Sel (ι K : Type) where
  /-- `sm_s`: directions observed at CB with a known target (cluster, target, value) -/
  smS : List (Nat × ι × K) := []
  /-- the distances of `sm_pom` (from, to, value), in order -/
  pomD : List (ι × ι × K) := []
  /-- the angles of `sm_pom` (observed at CB; bs, fs, value), in order -/
  pomA : List (ι × ι × K) := []
  /-- `SM_S`: outer bearings (station, value), in order -/
  outS : List (ι × K) := []

/-- `makeBearing(const Angle*, cb)` -/
def makeBearingA (pd : PD ι K) (cb f bs fs : ι) (v : K) : K :=
  let point := if bs = cb then fs else bs
  let sm := bearing (ptOf (pd f)) (ptOf (pd point))
  let sm := sm + (if bs = cb then -v else v)
  let sm := sm + (if sm < 0 then twoPi else 0)
  sm - (if (twoPi : K) ≤ sm then twoPi else 0)

/-- `makeBearing(const Direction*, cb)` -/
def makeBearingD (v ori : K) : K :=
  let sm := v + ori
  sm - (if (twoPi : K) ≤ sm then twoPi else 0)

/-- one turn of the selection loop of ApproxPoint::reset -/
def selStep (pd : PD ι K) (oris : List (Option K)) (cb : ι) (s : Sel ι K) (e : SMo ι K) : Sel ι K :=
  let knownT : Bool := (pd e.o.to').bxy && (match e.o with | .angle _ _ fs _ => (pd fs).bxy | _ => true)
  if e.o.from' = cb ∧ knownT = true then
    match e.o with
    | .direction _ t v => { s with smS := s.smS ++ [(e.cl, t, v)] }
    | .distance f t v => { s with pomD := s.pomD ++ [(f, t, v)] }
    | .angle _ bs fs v => { s with pomA := s.pomA ++ [(bs, fs, v)] }
    | _ => s
  else
    -- knownStandpoint: xy of `from`, and for a Direction the orientation of its stand-point
    let knownS : Bool := (pd e.o.from').bxy &&
      (match e.o with | .direction .. => (oriAt oris e.cl).isSome | _ => true)
    if knownS then
      match e.o with
      | .angle f bs fs v =>
        if (bs = cb ∧ (pd fs).bxy = true) ∨ (fs = cb ∧ (pd bs).bxy = true) then
          { s with outS := s.outS ++ [(f, normRad (makeBearingA pd cb f bs fs v))] }
        else s
      | .direction f t v =>
        if t = cb then
          { s with outS := s.outS ++ [(f, normRad (makeBearingD v ((oriAt oris e.cl).getD 0)))] }
        else s
      | .distance f t v => if t = cb then { s with pomD := s.pomD ++ [(f, t, v)] } else s
      | _ => s
    else s

/-- `makeAngle(i, j)` for all i < j of `sm_s` that belong to the same cluster -/
def makeAngles : List (Nat × ι × K) → List (ι × ι × K)
  | [] => []
  | a :: rest =>
    ((rest.filter (fun b => b.1 == a.1)).map (fun b =>
      let ang := b.2.2 - a.2.2
      (a.2.1, b.2.1, normRad (if ang < 0 then ang + twoPi else ang)))) ++ makeAngles rest

def sameDist (a b : ι × ι × K) : Bool :=
  (decide (a.1 = b.1) && decide (a.2.1 = b.2.1)) || (decide (a.2.1 = b.1) && decide (a.1 = b.2.1))

/-- ArrangeObservations, distances: repeated observations of one pair (either direction) give one
    `Distance(CB, other, median)` -/
def arrDist (cb : ι) : Nat → List (ι × ι × K) → List (AObs ι K)
  | 0, _ => []
  | _, [] => []
  | n + 1, d :: rest =>
    .dist (if d.1 = cb then d.2.1 else d.1) (median (d.2.2 :: (rest.filter (sameDist d)).map (·.2.2))) ::
      arrDist cb n (rest.filter (fun x => !sameDist d x))

/-- … outer bearings: one per station -/
def arrDir : Nat → List (ι × K) → List (AObs ι K)
  | 0, _ => []
  | _, [] => []
  | n + 1, s :: rest =>
    .dir s.1 (normRad (median (s.2 :: (rest.filter (fun x => decide (x.1 = s.1))).map (·.2)))) ::
      arrDir n (rest.filter (fun x => !decide (x.1 = s.1)))

def sameAng (a b : ι × ι × K) : Bool :=
  (decide (a.1 = b.1) && decide (a.2.1 = b.2.1)) || (decide (a.1 = b.2.1) && decide (a.2.1 = b.1))

/-- `u_mer` -/
def angVal (a b : ι × ι × K) : K := if a.1 = b.1 then b.2.2 else twoPi - b.2.2

/-- `UU`: `med >= M_PI` swaps the arms -/
def mkAng (u : ι × ι × K) (med : K) : AObs ι K :=
  if (pi : K) ≤ med then .ang u.2.1 u.1 (normRad (twoPi - med)) else .ang u.1 u.2.1 (normRad med)

/-- … the angles observed at CB, each with the matching angles made from directions (removed from `SM_U`) -/
def arrAngObs : List (ι × ι × K) → List (ι × ι × K) → List (AObs ι K) × List (ι × ι × K)
  | [], smU => ([], smU)
  | u :: rest, smU =>
    let med := median (u.2.2 :: (smU.filter (sameAng u)).map (angVal u))
    let r := arrAngObs rest (smU.filter (fun x => !sameAng u x))
    (mkAng u med :: r.1, r.2)

/-- … the remaining angles made from directions -/
def arrAngU : Nat → List (ι × ι × K) → List (AObs ι K)
  | 0, _ => []
  | _, [] => []
  | n + 1, u :: rest =>
    mkAng u (median (u.2.2 :: (rest.filter (sameAng u)).map (angVal u))) ::
      arrAngU n (rest.filter (fun x => !sameAng u x))

/-- ApproxPoint::reset after `Orientation::add_all`: selection, makeAngle, ArrangeObservations -/
def arrange (pd : PD ι K) (oris : List (Option K)) (sm : List (SMo ι K)) (cb : ι) : List (AObs ι K) :=
  let s := sm.foldl (selStep pd oris cb) {}
  let smU := makeAngles s.smS
  let a := arrAngObs s.pomA smU
  arrDist cb s.pomD.length s.pomD ++ arrDir s.outS.length s.outS ++ a.1 ++ arrAngU a.2.length a.2

/-- the intersection class chosen by `ObservationType(*i) + ObservationType(*j)` and what it reads -/
def cogoPair (pd : PD ι K) (sal : K) : AObs ι K → AObs ι K → Res K
  | .dist t1 r1, .dist t2 r2 => distDist (ptOf (pd t1)) (ptOf (pd t2)) r1 r2 sal
  | .dist t r, .dir f h => dirDist (ptOf (pd f)) h (ptOf (pd t)) r sal
  | .dir f h, .dist t r => dirDist (ptOf (pd f)) h (ptOf (pd t)) r sal
  | .dist t r, .ang bs fs u => distAngle (ptOf (pd t)) r (ptOf (pd bs)) (ptOf (pd fs)) u sal
  | .ang bs fs u, .dist t r => distAngle (ptOf (pd t)) r (ptOf (pd bs)) (ptOf (pd fs)) u sal
  | .dir f1 h1, .dir f2 h2 => dirDir (ptOf (pd f1)) h1 (ptOf (pd f2)) h2 sal
  | .dir f h, .ang bs fs u => dirAngle (ptOf (pd f)) h (ptOf (pd bs)) (ptOf (pd fs)) u sal
  | .ang bs fs u, .dir f h => dirAngle (ptOf (pd f)) h (ptOf (pd bs)) (ptOf (pd fs)) u sal
  | .ang b1 f1 u1, .ang b2 f2 u2 =>
    angleAngle (ptOf (pd b1)) (ptOf (pd f1)) u1 (ptOf (pd b2)) (ptOf (pd f2)) u2 sal

/-- Select_solution_g2d::calculation, one observation: (delta1, delta2, tol1, tol2) -/
def selDelta (pd : PD ι K) (b1 b2 : Pt K) : AObs ι K → K × K × K × K
  | .dist t v =>
    let p := ptOf (pd t)
    (abs (v - g2dDistance b1 p), abs (v - g2dDistance b2 p), 1, 1)
  | .dir f v =>
    let p := ptOf (pd f)
    (abs (v - bearing p b1), abs (v - bearing p b2), g2dDistance b1 p, g2dDistance b2 p)
  | .ang bs fs v =>
    let p1 := ptOf (pd bs)
    let p2 := ptOf (pd fs)
    (abs (v - innerAngle b1 p1 p2), abs (v - innerAngle b2 p1 p2),
     (g2dDistance b1 p1 + g2dDistance b1 p2) / two, (g2dDistance b2 p1 + g2dDistance b2 p2) / two)

/-- Select_solution_g2d::calculation: `some p` = state unique with `B1 = p` -/
def selectSol (pd : PD ι K) (b1 b2 : Pt K) : List (AObs ι K) → Option (Pt K)
  | [] => none
  | a :: rest =>
    let d := selDelta pd b1 b2 a
    if d.2.2.1 < ofSci 1 true 1 ∨ d.2.2.2 < ofSci 1 true 1 then selectSol pd b1 b2 rest
    else if d.1 < d.2.2.1 ∧ d.2.1 < d.2.2.2 then selectSol pd b1 b2 rest
    else
      let d1 := d.1 * d.2.2.1
      let d2 := d.2.1 * d.2.2.2
      if ofNat 10 * d2 < d1 then some b2
      else if d1 < ofSci 1 true 1 * d2 then some b1
      else selectSol pd b1 b2 rest

/-- the body of the double loop of ApproxPoint::calculation for one pair -/
def pairStep (pd : PD ι K) (sal : K) (sm : List (AObs ι K)) (solved : List (Pt K)) (a b : AObs ι K) : List (Pt K) :=
  match (cogoPair pd sal a b).sols with
  | [p] => solved ++ [p]
  | [p, q] => match selectSol pd p q sm with
    | some s => solved ++ [s]
    | none => solved
  | _ => solved

/-- all pairs i < j in list order -/
def pairsFold (pd : PD ι K) (sal : K) (sm : List (AObs ι K)) : List (AObs ι K) → List (Pt K) → List (Pt K)
  | [], solved => solved
  | a :: rest, solved => pairsFold pd sal sm rest (rest.foldl (fun s b => pairStep pd sal sm s a b) solved)

/-- Statistics_g2d::calculation -/
def statMedian (l : List (Pt K)) : Pt K :=
  match l with
  | [p] => p
  | _ => ⟨median (l.map (·.x)), median (l.map (·.y))⟩

/-- ApproxPoint::calculation on the arranged list: `some p` = `unique_solution` with `Solution() = p` -/
def apCalc (pd : PD ι K) (sal : K) (sm : List (AObs ι K)) : Option (Pt K) :=
  match pairsFold pd sal sm sm [] with
  | [] => none
  | l => some (statMedian l)

/-- `PB.calculation(cb)`: reset (with add_all, which may set orientations) + calculation -/
def apPoint (fuel : Nat) (pd : PD ι K) (sal : K) (sm : List (SMo ι K)) (oris : List (Option K)) (cb : ι) :
    Option (Pt K) × List (Option K) :=
  let oris' := addAll fuel pd (sm.length + 1) sm oris
  (apCalc pd sal (arrange pd oris' sm cb), oris')

/-! ## ApproximateCoordinates -/

structure ACState (ι K : Type) where
  pd : PD ι K
  oris : List (Option K)

/-- one walk of `solve_intersection` over `what`; returns the state, the ids left and whether one was solved -/
def siPass (fuel : Nat) (sal : K) (sm : List (SMo ι K)) :
    List ι → ACState ι K → ACState ι K × List ι × Bool
  | [], st => (st, [], false)
  | i :: rest, st =>
    let r := apPoint fuel st.pd sal sm st.oris i
    match r.1 with
    | some p =>
      let t := siPass fuel sal sm rest ⟨st.pd.upd i ((st.pd i).setXY p.x p.y), r.2⟩
      (t.1, t.2.1, true)
    | none =>
      let t := siPass fuel sal sm rest ⟨st.pd, r.2⟩
      (t.1, i :: t.2.1, t.2.2)

/-- `solve_intersection`: walks until a walk solves nothing -/
def solveIntersection (fuel : Nat) (sal : K) (sm : List (SMo ι K)) :
    Nat → List ι → ACState ι K → ACState ι K × List ι × Bool
  | 0, what, st => (st, what, false)
  | n + 1, what, st =>
    if what.isEmpty then (st, what, false)
    else
      let r := siPass fuel sal sm what st
      if r.2.2 then
        let t := solveIntersection fuel sal sm n r.2.1 r.1
        (t.1, t.2.1, true)
      else (r.1, r.2.1, false)

/-- `necessary_observations(id)`: the two flags after the walk (it stops as soon as `second` is set) -/
def necessaryObs (sm : List (SMo ι K)) (id : ι) : Bool :=
  (sm.foldl (fun (fs : Bool × Bool) e =>
    if fs.2 then fs
    else
      let tmp := decide (e.o.from' = id) || decide (e.o.to' = id)
      let fs : Bool × Bool := if fs.1 then (fs.1, tmp) else (tmp, fs.2)
      match e.o with
      | .angle _ _ f _ => if f = id then (if fs.1 then (fs.1, true) else (true, fs.2)) else fs
      | _ => fs) (false, false)).2

/-- `computational_loop` with `solve_insertion()` = false -/
def compLoop (fuel : Nat) (sal : K) (sm : List (SMo ι K)) (selected : List ι) (st : ACState ι K) : ACState ι K :=
  let sel := selected.filter (necessaryObs sm)
  let rec go : Nat → List ι → ACState ι K → ACState ι K
    | 0, _, st => st
    | n + 1, what, st =>
      let r := solveIntersection fuel sal sm (what.length + 1) what st
      if r.2.2 then go n r.2.1 r.1 else r.1
  go (sel.length + 1) sel st

def insertId (lt : ι → ι → Bool) (a : ι) : List ι → List ι
  | [] => [a]
  | b :: l => if lt b a then b :: insertId lt a l else a :: b :: l

/-- `selected.sort(); selected.unique();` -/
def sortIds (lt : ι → ι → Bool) (l : List ι) : List ι := (dedup l).foldr (insertId lt) []

def obsIds : HObs ι K → List ι
  | .angle f bs fs _ => [f, bs, fs]
  | o => [o.from', o.to']

/-- `find_missing_coordinates`: ids of `SM` that are not in the point list and points without xy -/
def findMissing (lt : ι → ι → Bool) (keys : List ι) (pd : PD ι K) (sm : List (SMo ι K)) : List ι :=
  sortIds lt (((sm.map (fun e => obsIds e.o)).flatten ++ keys).filter (fun i => !(pd i).bxy))

/-- `solvable_data`: two points with xy that are not selected; with one such point "give it still a try if
    there are vectors, observed coordinates or azimuths" (`extra`) -/
def solvableData (keys : List ι) (pd : PD ι K) (selected : List ι) (extra : Bool) : Bool :=
  let k := ((dedup keys).filter (fun i => (pd i).bxy && !selected.contains i)).length
  decide (2 ≤ k) || (decide (k = 1) && extra)

/-- `ApproximateCoordinates::calculation()`; `keys` = the ids of the point list -/
def acCalculation (fuel : Nat) (lt : ι → ι → Bool) (keys : List ι) (extra : Bool) (sal : K)
    (sm : List (SMo ι K)) (st : ACState ι K) : ACState ι K :=
  if keys.isEmpty || sm.isEmpty then st
  else
    let selected := findMissing lt keys st.pd sm
    -- a point that `solve_intersection` added to the point list is an id of `SM`
    if solvableData (keys ++ (sm.map (fun e => obsIds e.o)).flatten) st.pd selected extra then
      compLoop fuel sal sm selected st
    else st

/-! ## AcordIntersection -/

/-- what one observation contributes to the temporary oriented stand-point; `cl` = its own cluster -/
def tempObs (pd : PD ι K) (cl : List (HObs ι K)) : HObs ι K → List (HObs ι K)
  | .azimuth f t v =>
    -- fix 78a600d: observed at a known point as it is; observed at an unknown point towards a known one as the
    -- opposite bearing from the target; otherwise left out
    if (pd f).bxy then [.direction f t v]
    else if (pd t).bxy then [.direction t f (normRad (v + pi))]
    else []
  | .sdistance f t v fdh tdh =>
    -- every zenith angle of the same sight fakes a horizontal distance (the `continue` is the inner loop's) …
    (cl.filterMap (fun z => match z with
      | .zangle f' t' zv => if f = f' ∧ t = t' then some (HObs.distance f t (v * abs (sin zv))) else none
      | _ => none)) ++
    -- … and, heights permitting, the slope distance is reduced once more (fix 863dd00: the line of sight runs from
    -- the instrument to the target, `from_dh` / `to_dh` above the marks)
    (if (pd f).bz && (pd t).bz then
      let dz := ((pd f).z + fdh) - ((pd t).z + tdh)
      let dz := dz * dz
      let ds := v * v
      if dz < ds then [.distance f t (sqrt (ds - dz))] else []
     else [])
  | _ => []

def tempAll (pd : PD ι K) : List (Cl ι K) → List (HObs ι K)
  | [] => []
  | c :: cs => (c.obs.map (tempObs pd c.obs)).flatten ++ tempAll pd cs

structure AiAlg where
  prepared : Bool := false
  completed : Bool := false

/-- the state AcordIntersection::execute reads and writes -/
structure AiState (ι K : Type) where
  pd : PD ι K
  oris : List (Option K)       -- of the real clusters
  missXY : List ι
  sal : K                      -- the static small-angle limit

/-- the body of `for (loop = 1; loop <= 2; loop++)`; `none` = `return` (completed) -/
def aiLoop (fuel : Nat) (lt : ι → ι → Bool) (keys : List ι) (extra : Bool) (xN : K)
    (cls : List (Cl ι K)) (st : AiState ι K) : AiState ι K × Bool :=
  let miss := st.missXY.filter (fun i => !(st.pd i).bxy)
  if miss.isEmpty then ({ st with missXY := miss }, true)
  else
    let cls' := cls ++ [⟨some xN, tempAll st.pd cls⟩]
    let sal' : K := salDefault / ofSci 15 true 1
    let r := acCalculation fuel lt keys extra sal' (copyHorizontal cls') ⟨st.pd, st.oris ++ [some xN]⟩
    ({ pd := r.pd, oris := r.oris.take st.oris.length, missXY := miss, sal := sal' }, false)

/-- AcordIntersection::execute; `extra` = ObservationData holds an Xdiff, X or Azimuth -/
def aiExecute (fuel : Nat) (lt : ι → ι → Bool) (keys : List ι) (extra : Bool) (xN : K)
    (cls : List (Cl ι K)) (alg : AiAlg) (st : AiState ι K) : AiAlg × AiState ι K :=
  let alg : AiAlg := if alg.prepared then alg else ⟨true, st.missXY.isEmpty⟩
  if alg.completed then (alg, st)
  else
    let r := acCalculation fuel lt keys extra st.sal (copyHorizontal cls) ⟨st.pd, st.oris⟩
    let st1 : AiState ι K := { st with pd := r.pd, oris := r.oris }
    let l1 := aiLoop fuel lt keys extra xN cls st1
    if l1.2 then ({ alg with completed := true }, l1.1)
    else
      let l2 := aiLoop fuel lt keys extra xN cls l1.1
      ({ alg with completed := l2.2 }, l2.1)

end Gama.Inter
