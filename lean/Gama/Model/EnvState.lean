/-
  C04 — state machine of `AdjEnvelope` (lib/gnu_gama/adj/adj_envelope.h): stages, the four
  `init_*` flags, the regularisation list, the move-to-front cache `indbuf`/`qxxbuf`.

  The numeric content of every artefact is abstracted to its *provenance* (what it was
  computed from).  An answer is a symbolic `Out` that names the artefacts it was read from,
  so "the answer is what a fresh object would compute" is an equation between `Out`s.
  Ghost fields (not present in the C++): `content`, `xreg`, `haveX0`, `haveResid`, `haveQ0`.

  Core Lean only.  Mirrors the code after the `fix:` commits 0544d6e (min_x erases the cache)
  and 0de4095 (q0_xx uses negative keys).
-/
import Gama.Model.MoveToFront
namespace Gama.C04
open Gama

/-- what the control flow depends on in the numeric input (all read from the implementation
    through the probe in the correspondence check; arbitrary in the theorems) -/
structure EnvInput where
  n : Nat
  nullity : Nat
  invp : Nat → Nat
  /-- element (ii,jj) (permuted indices) lies inside the envelope of the factor -/
  inEnv : Nat → Nat → Bool
  /-- `solve_x` succeeds (no BadRegularization) for this regularisation list -/
  resolves : List Nat → Bool
  /-- `q_bb(i,j)` finds every needed element inside the sparse inverse (no FULL_VECTOR branch) -/
  qbbIn : Nat → Nat → Bool
  /-- ghost: identity of the data set (`AdjInputData` object) these facts were read from; it tags every
      cached vector, so that a vector computed from ANOTHER input is a different term (round 3) -/
  id : Nat := 0

inductive Op
  | unknowns | residuals | sumsq | defect
  | qxx (i j : Nat) | q0xx (i j : Nat) | qbb (i j : Nat) | lindep (i : Nat)
  | minxAll | minx (l : List Nat) | reset
deriving Repr, DecidableEq

/-- provenance of the vector held in one `qxxbuf` slot -/
inductive Prov
  | trow (d : Nat) (i : Nat) (reg : List Nat)  -- lower-solved row i of T for the list `reg`, factor of data set `d`
  | invcol (d : Nat) (ii : Nat)        -- column ii (permuted) of the full inverse of data set `d`
  | empty                              -- never written since the last reset
deriving Repr, DecidableEq

inductive Out
  | x (reg : Option (List Nat))        -- `none`: regular system, x = x0
  | resid | sumsq | defect | lindep (i : Nat)
  | q0in (ii jj : Nat)                 -- read from the sparse inverse
  | q0col (src : Prov) (jj : Nat)      -- element jj of a cached buffer
  | qxxSing (a b : Prov)               -- Σ a_k b_k / d_k over two cached buffers
  | qbbIn (i j : Nat) | qbbFull (i j : Nat)
  | badReg                             -- Exception BadRegularization
  | stale (what : String)              -- an artefact was read that is not valid (never on correct code)
  | ok
deriving Repr, DecidableEq

structure EnvState where
  stage : Nat                -- 0 init, 1 ordering, 2 x0, 3 q0
  iqbb : Bool
  ires : Bool
  iq0 : Bool
  ix : Bool
  minx : Option (List Nat)   -- `min_x_list` (none = nullptr)
  /-- `min_x_default`: `min_x_list` was built by `solve_x()` for all parameters of the CURRENT system
      (repo 65eea33; `reset` drops such a list) -/
  minxDef : Bool := false
  mtf : MTF Int Nat
  /-- `tmpres.dim()`: work vector of `q_bb`'s FULL_VECTOR branch; re-dimensioned only under `init_q_bb`,
      zeroed and refilled on every use (its content never survives into an answer) -/
  tmpresDim : Nat := 0
  -- ghost
  content : Nat → Prov
  xreg : Option (List Nat)   -- regularisation for which G and x were last computed
  haveX0 : Bool
  haveResid : Bool
  haveQ0 : Bool
  haveX : Bool

def allList (n : Nat) : List Nat := (List.range n).map (· + 1)

/-- the list `solve_x` works with -/
def eff (inp : EnvInput) (m : Option (List Nat)) : List Nat := m.getD (allList inp.n)

/-- cache capacity: `MoveToFront<3,Index,Index>`; equal to the regenerated `Gen.mtfCapacity` (tools/gen/c04_cascade.py reads
    `MoveToFront<(\d+)` in adj_envelope.h) by `Props.C04.mtf_cache_size_is_source : cacheSize = Gen.mtfCapacity := rfl` -/
def cacheSize : Nat := 3

def upd (f : Nat → Prov) (k : Nat) (v : Prov) : Nat → Prov := fun j => if j = k then v else f j

/-- `set_stage(s)` with its switch fall-through -/
def setStage (s : EnvState) (st : Nat) : EnvState :=
  if st = 3 then { s with stage := 3, iqbb := true }
  else { s with stage := st, ires := true, iq0 := true, ix := true, iqbb := true }

/-- state right after `reset(data)` with regularisation list `m` already configured -/
def init (m : Option (List Nat)) : EnvState :=
  setStage { stage := 0, iqbb := false, ires := false, iq0 := false, ix := false, minx := m,
             mtf := MTF.init (List.range cacheSize), content := fun _ => .empty, xreg := none,
             haveX0 := false, haveResid := false, haveQ0 := false, haveX := false } 0

/-- `reset(data)` (the SAME or ANOTHER input: the function does not look at the old one):
    a list that `solve_x` materialised for all parameters of the previous system is dropped
    (`if (min_x_default) { delete[] min_x_list; min_x_list = nullptr; }`, repo 65eea33 — before that fix it
    survived, finding C04-env-allist-survives-reset); a list given through `min_x(n, list)` survives;
    `indbuf.erase()`, buffers emptied (`qxxbuf[i].reset()`), `set_stage(stage_init)`;
    `tmpres` survives with its dimension (`init_q_bb` is set) -/
def reset (s : EnvState) : EnvState :=
  setStage { s with minx := if s.minxDef then none else s.minx, minxDef := false,
                    mtf := s.mtf.erase, content := fun _ => .empty,
                    haveX0 := false, haveResid := false, haveQ0 := false, haveX := false, xreg := none } 0

/-- the configuration as the caller sees it: `none` = all parameters (constructor default or `min_x()`),
    `some l` = the list given to `min_x(n, l)`; a list materialised by `solve_x` stands for `none` -/
def cfg (s : EnvState) : Option (List Nat) := if s.minxDef then none else s.minx

def solveOrdering (s : EnvState) : EnvState :=
  if s.stage ≥ 1 then s else setStage s 1

def solveX0 (s : EnvState) : EnvState :=
  if s.stage ≥ 2 then s else
    let s := solveOrdering s
    setStage { s with haveX0 := true } 2

/-- `if (stage < stage_x0) solve_x0();` -/
def ensureX0 (s : EnvState) : EnvState := if s.stage < 2 then solveX0 s else s

def solveQ0 (s : EnvState) : EnvState :=
  if s.iq0 then
    let s := ensureX0 s
    setStage { s with iq0 := false, haveQ0 := s.haveX0 } 3
  else s

/-- `if (stage < stage_q0) solve_q0();` -/
def ensureQ0 (s : EnvState) : EnvState := if s.stage < 3 then solveQ0 s else s

/-- `if (min_x_list == nullptr)` materialise the list of all parameters -/
def mat (inp : EnvInput) (s : EnvState) : EnvState :=
  if s.minx.isNone then { s with minx := some (allList inp.n), minxDef := true } else s

/-- the state `solve_x` starts its real work from: list materialised, x0 available -/
def preX (inp : EnvInput) (s : EnvState) : EnvState :=
  if (mat inp s).stage < 2 then solveX0 (mat inp s) else mat inp s

/-- `solve_x()`; the flag tells whether BadRegularization was thrown -/
def solveX (inp : EnvInput) (s : EnvState) : EnvState × Bool :=
  if s.ix then
    let s := preX inp s
    if inp.nullity = 0 then ({ s with ix := false, haveX := s.haveX0, xreg := none }, false)
    else if inp.resolves (eff inp s.minx) then
      ({ s with ix := false, haveX := s.haveX0, xreg := some (eff inp s.minx) }, false)
    else ({ s with ix := true }, true)
  else (s, false)

/-- `indbuf.get(key)`, filling the buffer with `fill` on a miss; returns the buffer index.
    (The C++ keeps a *reference* to the buffer and reads it later: callers read `content` afterwards.) -/
def cached (s : EnvState) (key : Int) (fill : Prov) : EnvState × Nat :=
  match s.mtf.get key with
  | some (m', (b, good)) =>
    if good then ({ s with mtf := m' }, b)
    else ({ s with mtf := m', content := upd s.content b fill }, b)
  | none => (s, 0)      -- capacity 0: not reachable, `cacheSize = 3`

def q0xx (inp : EnvInput) (s : EnvState) (i j : Nat) : EnvState × Out :=
  let s := ensureQ0 s
  if !s.haveQ0 then (s, .stale "q0") else
  let ii := inp.invp i
  let jj := inp.invp j
  if inp.inEnv ii jj then (s, .q0in ii jj)
  else
    let hi := if ii < jj then jj else ii
    let lo := if ii < jj then ii else jj
    let (s, pa) := cached s (-(hi : Int)) (.invcol inp.id hi)
    (s, .q0col (s.content pa) lo)

def step (inp : EnvInput) (s : EnvState) : Op → EnvState × Out
  | .unknowns =>
    let (s, thrown) := solveX inp s
    if thrown then (s, .badReg)
    else if !s.haveX then (s, .stale "x") else (s, .x s.xreg)
  | .residuals =>
    if s.ires then
      let s := ensureX0 s
      let s := { s with ires := false, haveResid := s.haveX0 }
      (s, if s.haveResid then .resid else .stale "resid")
    else (s, if s.haveResid then .resid else .stale "resid")
  | .sumsq =>
    let s := ensureX0 s
    (s, if s.haveX0 then .sumsq else .stale "x0")
  | .defect =>
    let s := ensureX0 s
    (s, if s.haveX0 then .defect else .stale "x0")
  | .lindep i =>
    let s := ensureX0 s
    (s, if s.haveX0 then .lindep i else .stale "x0")
  | .q0xx i j => q0xx inp s i j
  | .qxx i j =>
    let s := ensureQ0 s
    if inp.nullity = 0 then q0xx inp s i j
    else
      let (s, thrown) := solveX inp s
      if thrown then (s, .badReg) else
      if !s.haveX then (s, .stale "G") else
      let reg := s.xreg.getD []
      let (s, pa) := cached s (i : Int) (.trow inp.id i reg)
      let (s, pb) := cached s (j : Int) (.trow inp.id j reg)
      (s, .qxxSing (s.content pa) (s.content pb))
  | .qbb i j =>
    let s := ensureQ0 s
    if !s.haveQ0 then (s, .stale "q0") else
    if inp.qbbIn i j then (s, .qbbIn i j)
    else
      -- FULL_VECTOR: `if (init_q_bb) { tmpres.reset(parameters); init_q_bb = false; }  tmpres.set_zero(); …`
      let s := if s.iqbb then { s with tmpresDim := inp.n, iqbb := false } else s
      if s.tmpresDim != inp.n then (s, .stale "tmpres") else (s, .qbbFull i j)
  | .minxAll => ({ s with minx := none, minxDef := false, mtf := s.mtf.erase, ix := true }, .ok)
  | .minx l => ({ s with minx := some l, minxDef := false, mtf := s.mtf.erase, ix := true }, .ok)
  | .reset => (reset s, .ok)

def run (inp : EnvInput) (s : EnvState) : List Op → EnvState
  | [] => s
  | op :: ops => run inp (step inp s op).1 ops

/-- the answer of a brand-new object configured with the same regularisation list -/
def fresh (inp : EnvInput) (m : Option (List Nat)) (op : Op) : Out := (step inp (init m) op).2

end Gama.C04
