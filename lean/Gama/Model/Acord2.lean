/-
  C06 — the scheduler of the approximate-coordinate strategies: `Acord2::execute`, `Acord2::get_medians`
  (lib/gnu_gama/local/acord/acord2.cpp) over the `AcordAlgorithm` interface (acordalgorithm.h:
  `execute()`, `completed()`).  Core Lean only.

  * `G`        : the state all strategy objects share — `St` (AcordBase.lean: `PD_`, `missing_xy_`,
                 `missing_z_`, `candidate_z_`) + `candXY` = the multimap `candidate_xy_` in insertion order
                 (equal keys of a std::multimap keep insertion order; only the x, y of the stored
                 `LocalPoint` are ever read) + `priv : P` = the private members of ALL strategy objects and
                 `Acord2::traverses` (type parameter).
  * `Alg S`    : a strategy = `exec : S → S` (`execute()`) and `completed : S → Bool` (`completed()`).  The
                 C++ objects are stateful (`prepared_`, `completed_`, maps, local copies): that state lives
                 in `S` (for `G`: in `priv`), so `exec` is a pure function of the global state.
  * `getMedians` : `Acord2::get_medians`.
  * `round`, `loop`, `executeG` : the body of `Acord2::execute` for an arbitrary state type `S`, a measure
                 (`missing_xy_.size() + missing_z_.size()`) and a bookkeeping function (the five statements
                 after the erase-remove); `execute` = the instance for `G`.
                 The `do … while (after != 0 && after < before)` has no syntactic bound: `fuel` bounds it;
                 `Run.finished = false` = fuel exhausted (Lemmas/C06Sched.lean: never with
                 `fuel ≥ measure + 1`), `Run.rounds` counts the turns of the loop (proof bookkeeping only).
  * `Priv`, `azAlg`, `hdAlg`, `vecAlg`, `zdAlg` : the four modelled strategies wrapped as `Alg`.
  * `AiPriv`, `aiAlg`, `modelledAlgs` (round 4) : AcordIntersection (Gama/Model/AcordIntersection.lean) wrapped as
                 `Alg`, and the constructor's list restricted to the five modelled strategies.  EXECUTED: `drv_cogo`, op
                 `acord2`, runs `execute` on `modelledAlgs` next to the real `Acord2::execute` (harness/c06_cogo.cpp).
  * `algorithms` : the order in which the constructor of Acord2 pushes the strategy objects.

  NOT modelled here: the return value `solved` (differences of the two sizes before/after), the final loop
  over `SPClusters_` that computes missing orientations (`sp->set_orientation`; it reads `PD_` and does not
  touch coordinates, `missing_*` or candidates), the counters `new_points_xy_/new_points_z_`, the `bool`
  returned by `get_medians` (ignored by `execute`), `#ifdef DEBUG_ACORD2` output.
-/
import Gama.Model.AcordBase
import Gama.Model.AcordAzimuth
import Gama.Model.AcordHdiffVector
import Gama.Model.AcordZderived
import Gama.Model.AcordIntersection
namespace Gama.Acord
open Scalar Trig Cogo Median

variable {K : Type} [Scalar K] {ι : Type} [DecidableEq ι]

/-! ## the shared state -/

/-- the state shared by Acord2 and its strategy objects -/
structure G (ι K P : Type) where
  st : St ι K
  /-- `candidate_xy_` : (key, x, y) in insertion order -/
  candXY : List (ι × K × K)
  /-- private members of the strategy objects, `Acord2::traverses` -/
  priv : P

/-- `class AcordAlgorithm`: `execute()`, `completed()` (state in `S`) -/
structure Alg (S : Type) where
  exec : S → S
  completed : S → Bool

/-! ## Acord2::get_medians -/

/-- `double median_max_norm_ = 0.1;` (acord2.h; there is no setter) -/
def medianMaxNorm0 : K := ofSci 1 true 1

/-- `median_max_norm = median_max_norm_; if (slope_observations_) median_max_norm *= 2;
    switch (n) { case 3: *= 1.5; case 4: *= 2.0; default: ; }` -/
def medianMaxNorm (slope : Bool) (n : Nat) : K :=
  let m : K := medianMaxNorm0
  let m : K := if slope then m * two else m
  match n with
  | 3 => m * ofSci 15 true 1
  | 4 => m * two
  | _ => m

/-- `min_x = first; … if (min_x > x) min_x = x;` over all values (the first one included) -/
def runMin (x0 : K) (xs : List K) : K := xs.foldl (fun m x => if x < m then x else m) x0
/-- `max_x = first; … if (max_x < x) max_x = x;` -/
def runMax (x0 : K) (xs : List K) : K := xs.foldl (fun m x => if m < x then x else m) x0

/-- one turn of `for (const auto& pt : keys)`: `cand` is `candidate_xy_` (not modified by this loop),
    `equal_range(pt)` = the entries with key `pt` in insertion order -/
def medXYStep (slope : Bool) (cand : List (ι × K × K)) (s : St ι K) (pt : ι) : St ι K :=
  let grp := cand.filter (fun c => decide (c.1 = pt))
  match grp with
  | [] => s                                              -- `if (p.first == p.second) continue;`
  | c0 :: _ =>
    let allX := grp.map (·.2.1)
    let allY := grp.map (·.2.2)
    let minX := runMin c0.2.1 allX
    let maxX := runMax c0.2.1 allX
    let minY := runMin c0.2.2 allY
    let maxY := runMax c0.2.2 allY
    let n := allX.length
    if decide (1 < n) && decide (pt ∈ s.missXY) then      -- `(all_x.size()>1) && in_missingXY(pt)`
      let maxDx := abs (maxX - minX)
      let maxDy := abs (maxY - minY)
      let maxDiff := Scalar.max maxDy maxDx                -- `std::max(max_dy, max_dx)`
      if 4 < n ∨ maxDiff ≤ medianMaxNorm slope n then     -- `n > 4 || max_diff <= median_max_norm`
        { s with pd := s.pd.upd pt ((s.pd pt).setXY (median allX) (median allY)),
                 missXY := erase s.missXY pt }
      else s
    else s

/-- `for (const auto& p : keys) if (!in_missingXY(p)) candidate_xy_.erase(p);` -/
def candXYCleanup (miss : List ι) (keys : List ι) (cand : List (ι × K × K)) : List (ι × K × K) :=
  keys.foldl (fun c p => if p ∈ miss then c else c.filter (fun e => !decide (e.1 = p))) cand

/-- Acord2::get_medians.  `keys` is a `std::set<PointID>` (iterated in `PointID::operator<` order); here the
    distinct keys are taken in order of first insertion (`dedup`): the turn for key `pt` reads and writes only
    `PD_[pt]` and the membership of `pt` in `missing_xy_`, and reads only the entries of `candidate_xy_` with
    key `pt`, so turns for distinct keys commute and the result does not depend on the key order. -/
def getMedians {P : Type} (slope : Bool) (g : G ι K P) : G ι K P :=
  let keys := dedup (g.candXY.map (·.1))
  let st' := keys.foldl (medXYStep slope g.candXY) g.st
  { g with st := st', candXY := candXYCleanup st'.missXY keys g.candXY }

/-! ## Acord2::execute -/

/-- `for (const auto& a : algorithms_) a->execute();` -/
def runAll {S : Type} (algs : List (Alg S)) (s : S) : S := algs.foldl (fun s a => a.exec s) s

/-- one turn of the do-while between `before = …` and `after = …`: every strategy in list order, then the
    erase-remove of the strategies that report `completed()` — evaluated after ALL executes of this turn —
    then the bookkeeping `book` -/
def round {S : Type} (book : S → S) (algs : List (Alg S)) (s : S) : List (Alg S) × S :=
  let s1 := runAll algs s
  (algs.filter (fun a => !a.completed s1), book s1)

/-- what `execute` leaves: `algorithms_`, the state; `finished = false` = fuel exhausted; `rounds` = number
    of turns of the loop -/
structure Run (S : Type) where
  algs : List (Alg S)
  state : S
  finished : Bool
  rounds : Nat

/-- `do { before = …; round; after = …; } while (after != 0 && after < before);` -/
def loop {S : Type} (measure : S → Nat) (book : S → S) : Nat → List (Alg S) → S → Run S
  | 0, algs, s => ⟨algs, s, false, 0⟩
  | fuel + 1, algs, s =>
    let before := measure s
    let r := round book algs s
    let after := measure r.2
    if after ≠ 0 ∧ after < before then
      let q := loop measure book fuel r.1 r.2
      { q with rounds := q.rounds + 1 }
    else ⟨r.1, r.2, true, 1⟩

/-- `before = …; if (before > 0) { do … while … }` -/
def executeG {S : Type} (measure : S → Nat) (book : S → S) (fuel : Nat) (algs : List (Alg S)) (s : S) : Run S :=
  if 0 < measure s then loop measure book fuel algs s else ⟨algs, s, true, 0⟩

/-- `missing_xy_.size() + missing_z_.size()` (the sets are duplicate-free lists here) -/
def measure {P : Type} (g : G ι K P) : Nat := g.st.missXY.length + g.st.missZ.length

/-- `get_medians(); candidate_xy_.clear(); get_medians_z(); candidate_z_.clear(); traverses.clear();`
    (`traverses` is part of `priv`: `clearTraverses`) -/
def bookkeeping {P : Type} (slope : Bool) (clearTraverses : P → P) (g : G ι K P) : G ι K P :=
  let g := getMedians slope g
  let g := { g with candXY := [] }
  let g := { g with st := getMediansZ g.st }
  let g := { g with st := { g.st with candZ := [] } }
  { g with priv := clearTraverses g.priv }

/-- Acord2::execute (coordinates part) -/
def execute {P : Type} (slope : Bool) (clearTraverses : P → P) (fuel : Nat) (algs : List (Alg (G ι K P)))
    (g : G ι K P) : Run (G ι K P) :=
  executeG measure (bookkeeping slope clearTraverses) fuel algs g

/-! ## the modelled strategies as `Alg` -/

/-- the private state of the strategy objects: the four modelled ones and `rest` (AcordPolar, AcordTraverse,
    AcordWeakChecks, AcordIntersection, `Acord2::traverses`) -/
structure Priv (ι K Q : Type) where
  az : AzAlg ι K
  hd : HdAlg ι K
  vec : VecAlg ι K
  zd : ZdAlg
  rest : Q

/-- `traverses.clear()` touches `rest` only -/
def Priv.clearTraverses {Q : Type} (f : Q → Q) (p : Priv ι K Q) : Priv ι K Q := { p with rest := f p.rest }

section wrappers
variable [Trig K] {Q : Type}

/-- AcordAzimuth -/
def azAlg (fuel : Nat) (lt : ι → ι → Bool) (xN : K) (od : List (Cluster ι K)) : Alg (G ι K (Priv ι K Q)) where
  exec g :=
    let r := azExecute fuel lt xN od g.priv.az g.st
    { g with st := r.2, priv := { g.priv with az := r.1 } }
  completed g := g.priv.az.completed

/-- AcordHdiff; `none` (the fuel of its inner do-while exhausted — cannot happen in the C++, where the loop is
    unbounded and terminates) leaves the state unchanged -/
def hdAlg (fuel : Nat) (od : List (Cluster ι K)) : Alg (G ι K (Priv ι K Q)) where
  exec g :=
    match hdExecute fuel od g.priv.hd g.st with
    | none => g
    | some r => { g with st := r.2, priv := { g.priv with hd := r.1 } }
  completed g := g.priv.hd.completed

/-- AcordVector; `none` as for `hdAlg` -/
def vecAlg (fuel : Nat) (od : List (Cluster ι K)) : Alg (G ι K (Priv ι K Q)) where
  exec g :=
    match vecExecute fuel od g.priv.vec g.st with
    | none => g
    | some r => { g with st := r.2, priv := { g.priv with vec := r.1 } }
  completed g := g.priv.vec.completed

/-- AcordZderived -/
def zdAlg (od : List (Cluster ι K)) : Alg (G ι K (Priv ι K Q)) where
  exec g :=
    let r := zdExecute od g.priv.zd g.st
    { g with st := r.2, priv := { g.priv with zd := r.1 } }
  completed g := g.priv.zd.completed

end wrappers

/-! ## AcordIntersection as a strategy of the list (round 4)

What `AcordIntersection::execute` reads and writes besides `PD_` and `missing_xy_`: its own `prepared_/completed_`,
the orientations of the REAL stand-points (`StandPoint::set_orientation`, written by `Orientation::add_all` inside
ApproxPoint::reset) and the STATIC small-angle limit of CoordinateGeometry2D.  None of the four strategies above
reads either of them, so they live in the `rest` component of `Priv`. -/

/-- private state of AcordIntersection + orientations of the real clusters + the static small-angle limit -/
structure AiPriv (K : Type) where
  alg : Inter.AiAlg
  oris : List (Option K)
  sal : K

section aiwrapper
variable [Trig K]

/-- AcordIntersection (`keys` = ids of the point list, `extra` = an Azimuth / Xdiff is present, `cls` = the clusters of
    `OD` as AcordIntersection sees them) -/
def aiAlg (fuel : Nat) (lt : ι → ι → Bool) (keys : List ι) (extra : Bool) (xN : K) (cls : List (Inter.Cl ι K)) :
    Alg (G ι K (Priv ι K (AiPriv K))) where
  exec g :=
    let r := Inter.aiExecute fuel lt keys extra xN cls g.priv.rest.alg
      ⟨g.st.pd, g.priv.rest.oris, g.st.missXY, g.priv.rest.sal⟩
    { g with st := { g.st with pd := r.2.pd, missXY := r.2.missXY },
             priv := { g.priv with rest := ⟨r.1, r.2.oris, r.2.sal⟩ } }
  completed g := g.priv.rest.alg.completed

/-- the strategy list of the constructor of Acord2 restricted to the MODELLED strategies: AcordAzimuth, AcordHdiff,
    AcordZderived, AcordVector, AcordIntersection in the constructor's order (AcordPolar, AcordTraverse,
    AcordWeakChecks, which stand between AcordVector and AcordIntersection, are not modelled: the list is the
    constructor's list on networks where these three do nothing) -/
def modelledAlgs (fuel : Nat) (lt : ι → ι → Bool) (keys : List ι) (extra : Bool) (xN : K)
    (od : List (Cluster ι K)) (cls : List (Inter.Cl ι K))
    (hasAzimuths hasHdiffs slope hasVectors hasStandpoints : Bool) : List (Alg (G ι K (Priv ι K (AiPriv K)))) :=
  (if hasAzimuths then [azAlg fuel lt xN od] else []) ++ (if hasHdiffs then [hdAlg fuel od] else []) ++
  (if slope then [zdAlg od] else []) ++ (if hasVectors then [vecAlg fuel od] else []) ++
  (if hasStandpoints then [aiAlg fuel lt keys extra xN cls] else [])

end aiwrapper

/-- the constructor of Acord2: `if (has_azimuths_) push(AcordAzimuth); if (!HDiffClusters_.empty())
    push(AcordHdiff); if (slope_observations_) push(AcordZderived); if (!VectorsClusters_.empty())
    push(AcordVector); if (!SPClusters_.empty()) { push(AcordPolar); push(AcordTraverse);
    push(AcordWeakChecks); push(AcordIntersection); }` -/
def algorithms {S : Type} (hasAzimuths hasHdiffs slope hasVectors hasStandpoints : Bool)
    (az hd zd vec polar traverse weak inter : Alg S) : List (Alg S) :=
  (if hasAzimuths then [az] else []) ++ (if hasHdiffs then [hd] else []) ++ (if slope then [zd] else []) ++
  (if hasVectors then [vec] else []) ++ (if hasStandpoints then [polar, traverse, weak, inter] else [])

end Gama.Acord
