/-
  C04 round 9 — numeric meaning of the answers of the `LocalNetwork` state machine (Model/NetState.lean, `MState`).

  The machine's answers are symbolic: for every cached artefact a member read, its level and the configuration it was
  computed from, and — for the adjustment artefacts — the list held by, and the class of, the solver object that
  produced them.  Here these terms are EVALUATED by the two numeric models of the same code:
    * level 2 (`A`, `b`, `rhs_`, `unknowns_`, `min_x_` …): `PE.projectEquations` (Model/ProjectEquations.lean) on the
      network the provenance configuration names;
    * level 3 (`r`, `suma_pvv_`, the solved solver: unknowns, cofactors, defect): `Ls.Net.netSolve` (Model/NetFacade.lean)
      with the algorithm of the solver's CLASS on the problem `project_equations` assembled for the provenance
      configuration, regularised over the list the solver HELD (`min_x(n, list)` given / never told = all unknowns).
  A world `W : Cfg → PE.Net K` says which network (points with statuses and coordinates, clusters, m0, index fields as
  earlier calls left them) a configuration vector stands for; it is applied to level-2 prefixes (`snap c 2`): the
  assembled system does not depend on level-3 changes.  The abstract `lst : Cfg → List Nat` of the machine is tied:
  `lstOf W c = np.minx` of `projectEquations (W c)`.
  Levels 0, 1 (revision artefacts) are not evaluated (`.sym`): the revision is inside `PE.projectEquations`.
  Core Lean only.
-/
import Gama.Model.NetState
import Gama.Model.ProjectEquations
namespace Gama.C04.Net
open Gama

variable {K : Type} [TrigScalar K]

/-- which network a configuration stands for -/
abbrev NWorld (K : Type) := Cfg → PE.Net K

/-- **`lst` tied**: the list `project_equations()` computes for the network the configuration names (`np.minx`;
    `C01_pe_minx`: Nodup, within `1..n`, the constrained coordinates); an empty list when the call throws (nothing is
    handed over then, and `tst_rov_opr_` is not set) -/
def lstOf (W : NWorld K) : Cfg → List Nat := fun c =>
  match PE.projectEquations (W c) with
  | .ok (np, _) => np.minx
  | .error _ => []

/-- the symbolic input of the machine for a world -/
def minputOf (W : NWorld K) (inp : NInput) : MInput := { net := inp, lst := lstOf W }

/-- solver class ↦ algorithm of the numeric models -/
def algOfClass : String → Option Ls.Alg
  | "AdjGSO" => some .gso | "AdjSVD" => some .svd | "AdjCholDec" => some .chol | "AdjEnvelope" => some .env
  | _ => none

/-- the list a solver object regularises over, as `NetProblem.minx` (`.dflt`: never told — all unknowns) -/
def SList.toMinx (n : Nat) : SList → List Nat
  | .dflt => (List.range n).map (· + 1)
  | .given l => l

/-- value of one artefact read -/
inductive NDen (K : Type) where
  /-- levels 0, 1: not evaluated -/
  | sym
  /-- level 2: what `project_equations()` assembled -/
  | pe (r : Except PE.Err (Ls.Net.NetProblem K × PE.Unknowns K))
  /-- level 3: what the solver answered -/
  | adj (r : Except Ls.ErrKind (Ls.Net.NetAnswer K))
  /-- nothing computed / the solver's class unknown / the equations of that configuration do not exist -/
  | stale

/-- the adjustment of configuration `c` by a solver of class `cls` holding `sl` -/
def adjOf (W : NWorld K) (c : Cfg) (sl : SList) (cls : String) : NDen K :=
  match algOfClass cls, PE.projectEquations (W (snap c 2)) with
  | some alg, .ok (np, _) => .adj (Ls.Net.netSolve alg { np with minx := sl.toMinx np.n })
  | _, _ => .stale

/-- evaluation of `(level, provenance)` given the solver behind the adjustment artefacts -/
def denoteRead (W : NWorld K) (sol : Option (SList × String)) : Nat × Option Cfg → NDen K
  | (_, none) => .stale
  | (0, some _) => .sym
  | (1, some _) => .sym
  | (2, some c) => .pe (PE.projectEquations (W c))
  | (_, some c) =>
    match sol with
    | some (sl, cls) => adjOf W c sl cls
    | none => .stale

def denoteOut (W : NWorld K) : NOut × Option (SList × String) → List (NDen K)
  | (.read l, sol) => l.map (denoteRead W sol)
  | _ => []

/-- **the specification**: what a level-`l` artefact IS for configuration `cfg` and solver class `cls` — a function of
    the network the configuration names and the algorithm alone: `projectEquations net`, resp. `netSolve alg np` on the
    `np` it returns (with ITS `minx`) -/
def specRead (W : NWorld K) (cls : String) (cfg : Cfg) : Nat → NDen K
  | 0 => .sym
  | 1 => .sym
  | 2 => .pe (PE.projectEquations (W (snap cfg 2)))
  | _ =>
    match algOfClass cls, PE.projectEquations (W (snap cfg 2)) with
    | some alg, .ok (np, _) => .adj (Ls.Net.netSolve alg np)
    | _, _ => .stale

end Gama.C04.Net
