/-
  Model of lib/gnu_gama/local/pointid.cpp / pointid.h : `PointID::init` over byte strings
  (`std::string`); the comparisons `operator<`, `operator==`, `operator!=` are REGENERATED from the
  source (tools/gen/c07_pointid.py -> Gama/Gen/PointIdCmp.lean, which imports this file; import
  `Gama.Model.PointId` to get both), together with the parts of
  lib/gnu_gama/intfloat.h (`IsInteger`) and of libstdc++ (`istringstream >> long`,
  `ostringstream << long`, `std::string::operator<`, `std::isspace` in the "C" locale) that
  `init` and `operator<` go through.  Core Lean only.

  * `init` collapses every run of white space to one blank, drops leading and trailing white
    space, and sets `iid` to the value of the identifier when it is the canonical decimal
    spelling of a positive `long` (`"1"`, `"42"`; not `"01"`, `"+1"`, `"0"`, `"1.0"`,
    `"9223372036854775808"`), else `iid = 0`.
  * `a < b`: both numeric → by value; numeric before non-numeric; else `sid < p.sid`
    (`char_traits<char>::compare` = unsigned bytes, shorter prefix first).
-/
namespace Gama.PointId

abbrev Bytes := List UInt8

/-- `std::isspace` in the "C" locale: blank, `\t \n \v \f \r` (bytes ≥ 0x80 are not spaces) -/
def isSpace (c : UInt8) : Bool := c.toNat = 32 || (9 ≤ c.toNat && c.toNat ≤ 13)

def isDigit (c : UInt8) : Bool := 48 ≤ c.toNat && c.toNat ≤ 57

/-- the loop of `init`: `prev` = the previous character was white space (initially `true`);
    `if (prev && curr) continue;` leaves `prev` as it was (`true`) -/
def collapse : Bool → Bytes → Bytes
  | _, [] => []
  | prev, c :: cs =>
    let curr := isSpace c
    if prev && curr then collapse prev cs
    else (if curr then (32 : UInt8) else c) :: collapse curr cs

/-- `if (!sid.empty() && std::isspace(sid.back())) sid.pop_back();` -/
def dropTrailingSpace (s : Bytes) : Bytes :=
  match s.getLast? with
  | some c => if isSpace c then s.dropLast else s
  | none => s

def normalize (s : Bytes) : Bytes := dropTrailingSpace (collapse true s)

/-- `GNU_gama::IsInteger(b, e)` on a string without leading/trailing white space:
    optional sign, then at least one character, all decimal digits -/
def isInteger (s : Bytes) : Bool :=
  match s with
  | [] => false
  | c :: t =>
    let ds := if c.toNat = 43 || c.toNat = 45 then t else c :: t
    !ds.isEmpty && ds.all isDigit

def LONG_MAX : Int := 9223372036854775807
def LONG_MIN : Int := -9223372036854775808

def digitsVal (ds : Bytes) : Nat := ds.foldl (fun a d => 10 * a + (d.toNat - 48)) 0

/-- `inp >> tmp` (`long`) on a string accepted by `isInteger`; on overflow libstdc++ stores
    `numeric_limits<long>::max()/min()` (and sets failbit, which `init` does not look at) -/
def parseLong (s : Bytes) : Int :=
  let (neg, ds) := match s with
    | c :: t => if c.toNat = 45 then (true, t) else if c.toNat = 43 then (false, t) else (false, s)
    | [] => (false, [])
  let v : Int := (digitsVal ds : Nat)
  let i : Int := if neg then -v else v
  if LONG_MAX < i then LONG_MAX else if i < LONG_MIN then LONG_MIN else i

/-- `out << tmp` for a non-negative `long` -/
def renderNat (n : Nat) : Bytes := (Nat.toDigits 10 n).map (fun c => c.toNat.toUInt8)

structure PointID where
  /-- "positive integer representation if available or 0" -/
  iid : Nat
  sid : Bytes
deriving DecidableEq, Repr

def init (s : Bytes) : PointID :=
  let sid := normalize s
  if !isInteger sid then ⟨0, sid⟩ else
  let tmp := parseLong sid
  if tmp < 0 then ⟨0, sid⟩ else
  if renderNat tmp.toNat ≠ sid then ⟨0, sid⟩ else
  ⟨tmp.toNat, sid⟩

/-- `std::string::operator<` : lexicographic on unsigned bytes, a proper prefix is smaller -/
def bytesLt : Bytes → Bytes → Bool
  | [], [] => false
  | [], _ :: _ => true
  | _ :: _, [] => false
  | a :: as, b :: bs => if a.toNat < b.toNat then true else if b.toNat < a.toNat then false else bytesLt as bs

end Gama.PointId
