/-
  C19 — discrete model of the g3 bookkeeping: which unknowns exist, their indices, the
  dimensions of the design matrix, the regularisation list and the redundancy.

  Anchors:
  * `g3::Parameter` states / `free()` / `index()` / `has_index()`        (g3_parameter.h)
  * `Point::unused / free_horizontal_position / free_height / free_position / test_model_height`
                                                                         (g3_point.cpp)
  * `Model::update_parameters`, `Model::update_index`, `Model::update_adjustment`
    (`redundancy = dm_rows - dm_cols + adj->defect()`)                   (g3_model.cpp)
  * `Model::update_observations`, `Model::revision(T*)` for the eight observation types
                                                                         (g3_model_revision.cpp)
  * the `minx` list built in `Model::update_linearization`               (g3_model_linearization.cpp)

  Core Lean only (linked into `drv_g3`).
-/
namespace Gama
namespace G3Book

/-- `Parameter::state_` : `unused_ = 0, fixed_ = 1, free_ = 2, constr_ = 4 + free_` -/
inductive PState where
  | unused | fixed | free | constr
deriving DecidableEq, Repr

namespace PState
/-- `free()` : `state_ & free_` — true for constrained parameters too -/
def isFree : PState → Bool
  | free => true | constr => true | _ => false
def isFixed : PState → Bool
  | fixed => true | _ => false
def isConstr : PState → Bool
  | constr => true | _ => false
def isUnused : PState → Bool
  | unused => true | _ => false
end PState

inductive Comp where
  | N | E | U
deriving DecidableEq, Repr

/-- what revision reads from a `g3::Point` -/
structure PtS where
  hasXyz : Bool
  hasBlh : Bool
  hasGeoid : Bool
  sN : PState
  sE : PState
  sU : PState
deriving Repr

namespace PtS
/-- `Model::update_parameters` : N and E are set together from the horizontal predicates
    (tested in the order fixed, constr, free), U on its own -/
def normalise (p : PtS) : PtS :=
  let h : PState :=
    if p.sN.isFixed && p.sE.isFixed then .fixed
    else if p.sN.isConstr && p.sE.isConstr then .constr
    else if p.sN.isFree && p.sE.isFree then .free
    else .unused
  let u : PState :=
    if p.sU.isFixed then .fixed
    else if p.sU.isConstr then .constr
    else if p.sU.isFree then .free
    else .unused
  { p with sN := h, sE := h, sU := u }

def hasPosition (p : PtS) : Bool := p.hasXyz || p.hasBlh
def unused (p : PtS) : Bool := p.sN.isUnused && p.sE.isUnused && p.sU.isUnused
def freeH (p : PtS) : Bool := p.sN.isFree && p.sE.isFree
def freeU (p : PtS) : Bool := p.sU.isFree
def freePosition (p : PtS) : Bool := p.sN.isFree && p.sE.isFree && p.sU.isFree
/-- `test_model_height()` (the `if (1)` branch) -/
def testModelHeight (p : PtS) : Bool := p.hasPosition && p.hasGeoid
def state (p : PtS) : Comp → PState
  | .N => p.sN | .E => p.sE | .U => p.sU
end PtS

/-- the eight g3 observation types with the point names they refer to -/
inductive Obs (ι : Type) where
  | angle (f l r : ι)
  | azimuth (f t : ι)
  | distance (f t : ι)
  | height (p : ι)
  | hdiff (f t : ι)
  | vector (f t : ι)
  | xyz (p : ι)
  | zenith (f t : ι)
deriving DecidableEq, Repr

namespace Obs
variable {ι : Type}
def dimension : Obs ι → Nat
  | vector _ _ => 3 | xyz _ => 3 | _ => 1
end Obs

variable {ι : Type} [DecidableEq ι]

/-- `points->find(name)` (after `update_parameters`) -/
abbrev Points (ι : Type) := ι → Option PtS

abbrev Par (ι : Type) := ι × Comp

def neu (p : ι) : List (Par ι) := [(p, .N), (p, .E), (p, .U)]

/-- what one successful `Model::revision(T*)` adds: the parameters passed to `update_index`
    in program order, the rows and the reserved non-zeroes -/
structure Rev (ι : Type) where
  touches : List (Par ι)
  rows : Nat
  floats : Nat

def b2n (b : Bool) (n : Nat) : Nat := if b then n else 0

/-- the from/to pattern shared by Azimuth, Distance, Vector, ZenithAngle (`k` = rows) -/
def revFromTo (P : Points ι) (f t : ι) (k : Nat) : Option (Rev ι) :=
  match P f, P t with
  | some pf, some pt =>
    if pf.unused || pt.unused then none
    else if !pf.hasPosition then none
    else if !pt.hasPosition then none
    else some ⟨neu f ++ neu t, k,
      b2n pf.freeH (2 * k) + b2n pf.freeU k + b2n pt.freeH (2 * k) + b2n pt.freeU k⟩
  | _, _ => none

/-- `Model::revision(T*)`; `none` = `set_active(false)` -/
def revision (P : Points ι) : Obs ι → Option (Rev ι)
  | .angle f l r =>
    match P f, P l, P r with
    | some pf, some pl, some pr =>
      if pf.unused || !pf.hasXyz then none
      else if pl.unused || !pl.hasXyz then none
      else if pr.unused || !pr.hasXyz then none
      else some ⟨neu f ++ neu l ++ neu r, 1,
        -- models the FIXED code (notes/proposed/C19-angle-dm-floats.diff): `free_horizontal_position()`,
        -- which is what `Model::linearization(Angle*)` fills.  /repo HEAD tests `free_position()`
        -- (all three components) and under-counts for a point with free n/e and fixed u:
        -- heap-buffer-overflow in `SparseMatrix::add_element` (corpus/C19/g1-angle-fixed-height.json).
        b2n pf.freeH 2 + b2n pf.freeU 1 + b2n pl.freeH 2 + b2n pl.freeU 1 +
        b2n pr.freeH 2 + b2n pr.freeU 1⟩
    | _, _, _ => none
  | .azimuth f t => revFromTo P f t 1
  | .distance f t => revFromTo P f t 1
  | .zenith f t => revFromTo P f t 1
  | .vector f t => revFromTo P f t 3
  | .height p =>
    match P p with
    | some pp =>
      if pp.unused || !pp.testModelHeight then none
      else some ⟨[(p, .U)], 1, b2n pp.freeU 1⟩
    | none => none
  | .hdiff f t =>
    match P f, P t with
    | some pf, some pt =>
      if pf.unused || pt.unused then none
      else if !pf.testModelHeight then none
      else if !pt.testModelHeight then none
      else some ⟨[(f, .U), (t, .U)], 1, b2n pf.freeU 1 + b2n pt.freeU 1⟩
    | _, _ => none
  | .xyz p =>
    match P p with
    | some pp =>
      if pp.unused || !pp.hasPosition then none
      else some ⟨neu p, 3, b2n pp.freeH 6 + b2n pp.freeU 3⟩
    | none => none

/-- state of a parameter (`unused` for a point that does not exist) -/
def parState (P : Points ι) (q : Par ι) : PState :=
  match P q.1 with
  | some p => p.state q.2
  | none => .unused

/-- `dm_cols` and `par_list`, each entry with the value given to `set_index` -/
structure Idx (ι : Type) where
  cols : Nat
  par : List (Par ι × Nat)

/-- the member `ind` (0 after `update_parameters`) -/
def Idx.ind (s : Idx ι) (q : Par ι) : Nat := (s.par.lookup q).getD 0

/-- `Model::update_index(Parameter& p)` -/
def updateIndex (fr : Par ι → Bool) (s : Idx ι) (q : Par ι) : Idx ι :=
  if s.ind q ≠ 0 then s
  else if fr q then ⟨s.cols + 1, s.par ++ [(q, s.cols + 1)]⟩
  else ⟨s.cols, s.par ++ [(q, 1)]⟩

/-- `Parameter::index()` : `free() ? ind : 0` -/
def Idx.index (fr : Par ι → Bool) (s : Idx ι) (q : Par ι) : Nat := if fr q then s.ind q else 0

/-- everything `Model::update_observations` computes -/
structure Book (ι : Type) where
  idx : Idx ι
  rows : Nat
  floats : Nat
  active : List (Obs ι)

def Book.init : Book ι := ⟨⟨0, []⟩, 0, 0, []⟩

def isFreePar (P : Points ι) (q : Par ι) : Bool := (parState P q).isFree

/-- one step of the loop `for (i = obsdata.begin(); …) (*i)->accept(&revision)` -/
def reviseOne (P : Points ι) (b : Book ι) (o : Obs ι) : Book ι :=
  match revision P o with
  | none => b
  | some r =>
    { idx := r.touches.foldl (updateIndex (isFreePar P)) b.idx
      rows := b.rows + r.rows
      floats := b.floats + r.floats
      active := b.active ++ [o] }

/-- `Model::update_observations` -/
def updateObservations (P : Points ι) (obs : List (Obs ι)) : Book ι :=
  obs.foldl (reviseOne P) Book.init

/-- the `minx` list: `p->index()` of the constrained entries of `par_list`, in list order -/
def minx (P : Points ι) (b : Book ι) : List Nat :=
  (b.idx.par.filter fun e => (parState P e.1).isConstr).map fun e => b.idx.index (isFreePar P) e.1

/-- `redundancy = dm_rows - dm_cols + adj->defect()` (C++ `int`) -/
def redundancy (b : Book ι) (defect : Nat) : Int := (b.rows : Int) - (b.idx.cols : Int) + (defect : Int)

end G3Book
end Gama
