/-
  C13 — what `point.x()`, `point.y()`, `point.z()` of `LocalNetwork::export_xml` are when gama-local exports after an
  adjustment (src/gama-local.cpp: `refine_adjustment()`, the reports, then `export_xml`).

  * `refineNet`   `LocalNetwork::refine_approx_coordinates`: with `x = solve()`, for the unknowns `i = 1 … n`:
                  'X' : `LocalPoint& b = PD[cb]; b.set_xy(b.x() + x(i)/1000, b.y() + x(i+1)/1000)`,
                  'Z' : `b.set_z(b.z() + x(i)/1000)`; 'Y' nothing, 'R' the orientation of a standpoint (not part of
                  the exported document).  The divisors and the offset of the y correction are REGENERATED
                  (`Gen.GkfDoc.refineXY`, `refineZ`; the translator also checks that `b` is a reference into PD and that
                  `x` is `solve()`); the status of the point is not consulted: constrained points move like free ones.
  * `refineLoop`  `LocalNetwork::refine_adjustment`: `while (iterations < max) { refine = refine_obsdh_reductions();
                  if (!refine) refine = TestLinearization(); if (!refine) refine = refine_obsdh_reductions(adjusted);
                  if (!refine) break; ++iterations;
                  refine_approx_coordinates(); }` (shape REGENERATED: `refineLoopShape`).  `step s = none` ⇔ none of the three tests
                  asks for a refinement (then nothing was changed), `some s'` = the state after the pass.
  * `adjusted`    the adjusted coordinates gama-local reports (`x + x(i)/1000` in AdjustedUnknowns / LocalNetworkXML).

  export_xml itself reads `point.x()` … of PD (`writerSites`: "to_xmlstr(point.x(),16)"): it does NOT add the corrections.
  Arithmetic is a parameter (`upd D a d` = `a + d / D`).
-/
import Gama.Model.ExportNet
namespace Gama.Export
open Gama.Gen.GkfDoc

variable {K : Type}

/-- `unknown_type(i)` with `unknown_pointid(i)` (standpoints of orientations are not needed here) -/
inductive UnkT where
  | X (id : String) | Y (id : String) | Z (id : String) | R
deriving DecidableEq, Repr

/-- `x(i)`, 1-based; `dflt` outside -/
def xAt (dflt : K) (x : List K) (i : Nat) : K := x.getD (i - 1) dflt

/-- one pass of the loop body of refine_approx_coordinates on one point -/
def refinePoint (upd : Nat → K → K → K) (z0 : K) (x : List K) (i : Nat) (u : UnkT) (p : Point K) : Point K :=
  match u with
  | .X id => if p.id = id then
      { p with xy := p.xy.map (fun v => (upd refineXY.2.1 v.1 (xAt z0 x i), upd refineXY.2.2.2 v.2 (xAt z0 x (i + refineXY.2.2.1)))) }
    else p
  | .Z id => if p.id = id then { p with z := p.z.map (fun z => upd refineZ.2 z (xAt z0 x i)) } else p
  | _ => p

def refineFrom (upd : Nat → K → K → K) (z0 : K) (x : List K) : Nat → List UnkT → List (Point K) → List (Point K)
  | _, [], ps => ps
  | i, u :: us, ps => refineFrom upd z0 x (i + 1) us (ps.map (refinePoint upd z0 x i u))

/-- `LocalNetwork::refine_approx_coordinates` on the exported part of the network -/
def refineNet (upd : Nat → K → K → K) (z0 : K) (x : List K) (unks : List UnkT) (n : Net K) : Net K :=
  { n with points := refineFrom upd z0 x 1 unks n.points }

/-- position (1-based) of an unknown in the list -/
def unkIndex (u : UnkT) : List UnkT → Nat → Option Nat
  | [], _ => none
  | v :: vs, i => if v = u then some i else unkIndex u vs (i + 1)

/-- the adjusted coordinates gama-local reports for a point: approximate + correction/1000 for the coordinates that are
    unknowns, the approximate (given) ones otherwise -/
def adjusted (upd : Nat → K → K → K) (z0 : K) (x : List K) (unks : List UnkT) (p : Point K) : Point K :=
  { p with
    xy := match unkIndex (.X p.id) unks 1 with
      | some i => p.xy.map (fun v => (upd refineXY.2.1 v.1 (xAt z0 x i), upd refineXY.2.2.2 v.2 (xAt z0 x (i + refineXY.2.2.1))))
      | none => p.xy
    z := match unkIndex (.Z p.id) unks 1 with
      | some i => p.z.map (fun z => upd refineZ.2 z (xAt z0 x i))
      | none => p.z }

/-- `LocalNetwork::refine_adjustment`; `fuel` = `max_linearization_iterations - iterations`; returns the final state and
    the number of iterations (`linearization_iterations()`) -/
def refineLoop {σ : Type} (step : σ → Option σ) : Nat → σ → σ × Nat
  | 0, s => (s, 0)
  | fuel + 1, s =>
    match step s with
    | none => (s, 0)
    | some s' => ((refineLoop step fuel s').1, (refineLoop step fuel s').2 + 1)

end Gama.Export
