/-
  C12 — `LocalNetworkAdjustmentResults::Parser` : the part of the reader state that builds one `<point>`
  record under `<fixed>`, `<approximate>`, `<adjusted>` (lib/gnu_gama/xml/localnetwork_adjustment_results.cpp):

    point(start) : tmp_point.clear(); point_has_x = point_has_y = point_has_z = false;
                   point_con_x = point_con_y = point_con_z = false;
    id(end)      : tmp_id = get_string();
    x/y/z(end)   : tmp_point.x|y|z = get_float(); point_has_x|y|z = true;   (tag "X"/"Y"/"Z": point_con_* = true in tag())
    point(end)   : has_x ≠ has_y → error; con_x ≠ con_y → error; id, hxy, hz, cxy, cz from the flags;
                   under <adjusted>: indx = ++k, indy = ++k if hxy; indz = ++k if hz;  push_back.

  `Point::clear()` resets x, y, z, the four flags and the three indexes, not the id.
  The grammar (`tagfun[s_point][t_id]` is the only transition out of `s_point`) makes `<id>` the first child.
-/
namespace Gama.ReaderPoint

structure PointRec (K : Type) where
  id : String
  x : K
  y : K
  z : K
  hxy : Bool
  hz : Bool
  cxy : Bool
  cz : Bool
  indx : Nat
  indy : Nat
  indz : Nat
deriving DecidableEq, Repr

/-- child elements of `<point>` in document order; `con` = capital tag -/
inductive Ev (K : Type) where
  | id (s : String)
  | x (v : K) (con : Bool)
  | y (v : K) (con : Bool)
  | z (v : K) (con : Bool)
deriving DecidableEq, Repr

structure PState (K : Type) where
  tmp : PointRec K
  tmpId : String
  hasX : Bool
  hasY : Bool
  hasZ : Bool
  conX : Bool
  conY : Bool
  conZ : Bool
  adjusted : Bool           -- tmp_point_adjusted
  k : Nat                   -- tmp_adj_index
  out : List (PointRec K)   -- *pointlist
deriving Repr

variable {K : Type}

/-- `Point::clear()` -/
def clearRec (zero : K) (p : PointRec K) : PointRec K :=
  { p with x := zero, y := zero, z := zero, hxy := false, hz := false, cxy := false, cz := false,
           indx := 0, indy := 0, indz := 0 }

/-- `point(true)` -/
def pointStart (zero : K) (s : PState K) : PState K :=
  { s with tmp := clearRec zero s.tmp, hasX := false, hasY := false, hasZ := false,
           conX := false, conY := false, conZ := false }

def child (s : PState K) : Ev K → PState K
  | .id t => { s with tmpId := t }
  | .x v c => { s with tmp := { s.tmp with x := v }, hasX := true, conX := s.conX || c }
  | .y v c => { s with tmp := { s.tmp with y := v }, hasY := true, conY := s.conY || c }
  | .z v c => { s with tmp := { s.tmp with z := v }, hasZ := true, conZ := s.conZ || c }

inductive Err where | xWithoutY | conXWithoutY
deriving DecidableEq, Repr

/-- what `point(false)` reads of the parser state: `tmp_point.{x,y,z,indx,indy,indz}` (its `id` and flags are
    overwritten), `tmp_id`, the six flags, `tmp_point_adjusted`, `tmp_adj_index` -/
structure View (K : Type) where
  x : K
  y : K
  z : K
  indx : Nat
  indy : Nat
  indz : Nat
  tmpId : String
  hasX : Bool
  hasY : Bool
  hasZ : Bool
  conX : Bool
  conY : Bool
  conZ : Bool
  adjusted : Bool
  k : Nat

def view (s : PState K) : View K :=
  ⟨s.tmp.x, s.tmp.y, s.tmp.z, s.tmp.indx, s.tmp.indy, s.tmp.indz, s.tmpId, s.hasX, s.hasY, s.hasZ,
   s.conX, s.conY, s.conZ, s.adjusted, s.k⟩

/-- the record built by `point(false)` and the new counter -/
def endV (v : View K) : Except Err (PointRec K × Nat) :=
  if v.hasX != v.hasY then .error .xWithoutY
  else if v.conX != v.conY then .error .conXWithoutY
  else
    let hxy := v.hasX && v.hasY
    let hz := v.hasZ
    let a1 := v.adjusted && hxy
    let a2 := v.adjusted && hz
    let k1 := if a1 then v.k + 2 else v.k
    let k2 := if a2 then k1 + 1 else k1
    .ok (⟨v.tmpId, v.x, v.y, v.z, hxy, hz, v.conX && v.conY, v.conZ,
          if a1 then v.k + 1 else v.indx, if a1 then v.k + 2 else v.indy, if a2 then k1 + 1 else v.indz⟩, k2)

/-- `point(false)` -/
def pointEnd (s : PState K) : Except Err (PState K) :=
  match endV (view s) with
  | .ok (p, k') => .ok { s with tmp := p, k := k', out := s.out ++ [p] }
  | .error e => .error e

/-- one `<point> … </point>` -/
def runPoint (zero : K) (s : PState K) (evs : List (Ev K)) : Except Err (PState K) :=
  pointEnd (evs.foldl child (pointStart zero s))

/-- a list of points (one section) -/
def runPoints (zero : K) (s : PState K) : List (List (Ev K)) → Except Err (PState K)
  | [] => .ok s
  | p :: ps => match runPoint zero s p with
    | .ok s' => runPoints zero s' ps
    | .error e => .error e

/-- `<fixed>` / `<approximate>` / `<adjusted>` start -/
def sectionStart (zero : K) (adjusted : Bool) : PState K :=
  ⟨⟨"", zero, zero, zero, false, false, false, false, 0, 0, 0⟩, "", false, false, false, false, false, false, adjusted, 0, []⟩

/-- specification: the record of a point as a function of its own children, the section kind and the counter -/
def recordOf (zero : K) (adjusted : Bool) (k : Nat) (evs : List (Ev K)) : Except Err (PointRec K × Nat) :=
  match runPoint zero { sectionStart zero adjusted with k := k } evs with
  | .ok s => .ok (s.tmp, s.k)
  | .error e => .error e

end Gama.ReaderPoint
