/-
  C06 — executable model of lib/gnu_gama/local/acord/acordazimuth.cpp (AcordAzimuth::prepare,
  remove_azimuths_between_known_xy, execute), as repaired by 8d96812 (seam of the azimuth values of a pair).  Core Lean only.

  `azimuths_` is a `std::map<std::pair<PointID,PointID>, azimuth>`: a list sorted by the
  lexicographic order of the pairs (`std::pair::operator<` over `PointID::operator<`); iteration is in
  key order, and `execute` reads `PD` *while* it writes it (a point computed from one pair is known to
  the pairs that follow in the same call).
-/
import Gama.Model.AcordBase
namespace Gama.Acord
open Scalar Trig Cogo Median

variable {K : Type} [Scalar K] [Trig K] {ι : Type} [DecidableEq ι]

/-- `struct azimuth { double value; double distance {0}; std::vector<double> values; }` with its key -/
structure AzEntry (ι K : Type) where
  a : ι
  b : ι
  value : K
  distance : K
  values : List K

/-- `std::pair<PointID,PointID>::operator<` -/
def pairLt (lt : ι → ι → Bool) (p q : ι × ι) : Bool :=
  lt p.1 q.1 || (!lt q.1 p.1 && lt p.2 q.2)

/-- `azimuths_[pair_(a, b)].values.push_back(v)` -/
def azPush (lt : ι → ι → Bool) (a b : ι) (v : K) : List (AzEntry ι K) → List (AzEntry ι K)
  | [] => [⟨a, b, 0, 0, [v]⟩]
  | e :: es =>
    if pairLt lt (a, b) (e.a, e.b) then ⟨a, b, 0, 0, [v]⟩ :: e :: es
    else if pairLt lt (e.a, e.b) (a, b) then e :: azPush lt a b v es
    else { e with values := e.values ++ [v] } :: es

/-- `if (azimuths_.find(pair_(a, b)) == azimuths_.end()) continue; azimuths_[…].values.push_back(v)` -/
def azPushIfPresent (lt : ι → ι → Bool) (a b : ι) (v : K) : List (AzEntry ι K) → List (AzEntry ι K)
  | [] => []
  | e :: es =>
    if pairLt lt (a, b) (e.a, e.b) then e :: es
    else if pairLt lt (e.a, e.b) (a, b) then e :: azPushIfPresent lt a b v es
    else { e with values := e.values ++ [v] } :: es

/-- AcordAzimuth::remove_azimuths_between_known_xy -/
def azRemoveKnown (pd : PD ι K) (m : List (AzEntry ι K)) : List (AzEntry ι K) :=
  m.filter (fun e => !((pd e.a).bxy && (pd e.b).bxy))

/-- the first loop of `prepare`: `if (to < from) { swap(from, to); val += M_PI; if (val > 2*M_PI) val -= 2*M_PI; }` -/
def azNormalize (lt : ι → ι → Bool) (f t : ι) (v : K) : ι × ι × K :=
  if lt t f then
    let v := v + (pi : K)
    (t, f, if twoPi < v then v - twoPi else v)
  else (f, t, v)

def azCollectStep (lt : ι → ι → Bool) (m : List (AzEntry ι K)) (o : Obs ι K) : List (AzEntry ι K) :=
  match o with
  | .azimuth f t v => azPush lt (azNormalize lt f t v).1 (azNormalize lt f t v).2.1 (azNormalize lt f t v).2.2 m
  | _ => m

def azCollect (lt : ι → ι → Bool) (obs : List (Obs ι K)) : List (AzEntry ι K) :=
  obs.foldl (azCollectStep lt) []

/-- `while (t - v[0] > M_PI) t -= 2*M_PI;` (no syntactic bound: fuel; the values are in [0, 2π], one turn suffices) -/
def seamDown (v0 : K) : Nat → K → K
  | 0, t => t
  | n + 1, t => if (pi : K) < t - v0 then seamDown v0 n (t - twoPi) else t

/-- `while (t - v[0] < -M_PI) t += 2*M_PI;` -/
def seamUp (v0 : K) : Nat → K → K
  | 0, t => t
  | n + 1, t => if t - v0 < -(pi : K) then seamUp v0 n (t + twoPi) else t

/-- fix 8d96812: "values of one pair may sit on both sides of the 0 / 2*pi seam: bring them next to the first one"
    (`for (double& t : v)`; `v[0]` itself is left as it is: `t - v[0] = 0`) -/
def azSeam (fuel : Nat) : List K → List K
  | [] => []
  | v0 :: vs => (v0 :: vs).map (fun t => seamUp v0 fuel (seamDown v0 fuel t))

/-- `…seam…; sort; a.second.value = (v[(v.size()-1)/2] + v[v.size()/2])/2; v.clear();` -/
def azMedianValue (fuel : Nat) (e : AzEntry ι K) : AzEntry ι K :=
  { e with value := median2 (azSeam fuel e.values), values := [] }

def azCollectDistStep (lt : ι → ι → Bool) (m : List (AzEntry ι K)) (o : Obs ι K) : List (AzEntry ι K) :=
  match o with
  | .distance f t v => if lt t f then azPushIfPresent lt t f v m else azPushIfPresent lt f t v m
  | _ => m

def azCollectDist (lt : ι → ι → Bool) (obs : List (Obs ι K)) (m : List (AzEntry ι K)) : List (AzEntry ι K) :=
  obs.foldl (azCollectDistStep lt) m

/-- `if (values.size() == 0) continue; … a.second.distance = median; v.clear();` -/
def azMedianDistance (e : AzEntry ι K) : AzEntry ι K :=
  if e.values.isEmpty then e else { e with distance := median2 e.values, values := [] }

/-- AcordAzimuth::prepare (the contents of `azimuths_` afterwards) -/
def azPrepare (fuel : Nat) (lt : ι → ι → Bool) (pd : PD ι K) (obs : List (Obs ι K)) : List (AzEntry ι K) :=
  let m := azRemoveKnown pd (azCollect lt obs)
  let m := m.map (azMedianValue fuel)
  (azCollectDist lt obs m).map azMedianDistance

/-- one turn of the loop of `execute` (`xN` = `PD.xNorthAngle()`) -/
def azStep (xN : K) (st : St ι K) (e : AzEntry ι K) : St ι K :=
  let axy := (st.pd e.a).bxy
  let bxy := (st.pd e.b).bxy
  if axy && bxy then st
  else if axy && !bxy && !beq e.distance 0 then
    let bb := e.value + xN
    let x := (st.pd e.a).x + e.distance * cos bb
    let y := (st.pd e.a).y + e.distance * sin bb
    { st with pd := st.pd.upd e.b ((st.pd e.b).setXY x y), missXY := erase st.missXY e.b }
  else if !axy && bxy && !beq e.distance 0 then
    let bb := e.value + (pi : K) + xN
    let x := (st.pd e.b).x + e.distance * cos bb
    let y := (st.pd e.b).y + e.distance * sin bb
    { st with pd := st.pd.upd e.a ((st.pd e.a).setXY x y), missXY := erase st.missXY e.a }
  else st

/-- the algorithm object: `prepared_`, `completed_`, `azimuths_` -/
structure AzAlg (ι K : Type) where
  prepared : Bool
  completed : Bool
  azs : List (AzEntry ι K)

def AzAlg.fresh : AzAlg ι K := ⟨false, false, []⟩

/-- AcordAzimuth::execute -/
def azExecute (fuel : Nat) (lt : ι → ι → Bool) (xN : K) (od : List (Cluster ι K)) (alg : AzAlg ι K) (st : St ι K) :
    AzAlg ι K × St ι K :=
  let azs := if alg.prepared then alg.azs else azPrepare fuel lt st.pd (spObs od)
  let st' := azs.foldl (azStep xN) st
  let azs' := azRemoveKnown st'.pd azs
  (⟨true, alg.completed || azs'.isEmpty, azs'⟩, st')

end Gama.Acord
