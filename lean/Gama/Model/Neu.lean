/-
  C19 — model of the local north-east-up frame of `g3::Point` and of the g3 linearisation
  of the observation types whose coefficients are rotated coefficient triples.

  Anchors (read in /repo/lib/gnu_gama/g3):
  * `Point::transformation_matrix(b, l)`            (g3_point.cpp)  → `transformationMatrix`
  * `Point::x_transform / y_transform / z_transform` (NEU → XYZ)     → `Rot.xTransform …`
  * `Point::set_diff_XYZ`, `diff_N / diff_E / diff_U` (XYZ → NEU, Rᵀ) → `Rot.diffN …`
  * `Point::X_dh / Y_dh / Z_dh`                                       → `Pt.Xdh …`
  * `Point::set_cov_xyz`  (C_xyz = R C_neu Rᵀ, six entries as coded)  → `Rot.covXyz`
  * `Model::linearization(Vector* | XYZ* | Distance* | Height* | HeightDiff*)`
                                                    (g3_model_linearization.cpp)
  * `C /= apriori_sd*apriori_sd` in `Model::update_linearization`     → `cofactorBlock`

  Core Lean only (linked into `drv_g3`).  Written once over `[SinCos K]` (= `Scalar` + sin, cos);
  executed at `Float`, proved over ℝ in `Gama/Lemmas/NeuLemmas.lean`.
-/
import Gama.Scalar
namespace Gama
namespace Neu

/-- `Scalar` + `std::sin`, `std::cos` (libm is trusted, not modelled) -/
class SinCos (K : Type) extends Scalar K where
  sin : K → K
  cos : K → K

instance : SinCos Float where
  sin := Float.sin
  cos := Float.cos

/-- the nine members `r11 … r33` of `g3::Point` : rotation NEU → XYZ -/
structure Rot (K : Type) where
  r11 : K
  r12 : K
  r13 : K
  r21 : K
  r22 : K
  r23 : K
  r31 : K
  r32 : K
  r33 : K

variable {K : Type}

/-- `Point::transformation_matrix(b, l)` -/
def transformationMatrix [SinCos K] (b l : K) : Rot K :=
  { r11 := -SinCos.sin b * SinCos.cos l
    r12 := -SinCos.sin l
    r13 := SinCos.cos b * SinCos.cos l
    r21 := -SinCos.sin b * SinCos.sin l
    r22 := SinCos.cos l
    r23 := SinCos.cos b * SinCos.sin l
    r31 := SinCos.cos b
    r32 := 0
    r33 := SinCos.sin b }

namespace Rot
variable [Scalar K] (R : Rot K)

/-- `Point::x_transform(n, e, u)` etc.: XYZ = R · NEU -/
def xTransform (n e u : K) : K := R.r11 * n + R.r12 * e + R.r13 * u
def yTransform (n e u : K) : K := R.r21 * n + R.r22 * e + R.r23 * u
def zTransform (n e u : K) : K := R.r31 * n + R.r32 * e + R.r33 * u

/-- `Point::diff_N()` etc. after `set_diff_XYZ(dX, dY, dZ)`: NEU = Rᵀ · XYZ -/
def diffN (dX dY dZ : K) : K := R.r11 * dX + R.r21 * dY + R.r31 * dZ
def diffE (dX dY dZ : K) : K := R.r12 * dX + R.r22 * dY + R.r32 * dZ
def diffU (dX dY dZ : K) : K := R.r13 * dX + R.r23 * dY + R.r33 * dZ

/-- `Point::set_cov_xyz()`: the six printed entries `cxx cxy cxz cyy cyz czz` of `R C_neu Rᵀ`
    from `cnn cne cnu cee ceu cuu`, same temporaries, same order of operations. -/
def covXyz (cnn cne cnu cee ceu cuu : K) : List K :=
  let t11 := R.r11 * cnn + R.r12 * cne + R.r13 * cnu
  let t12 := R.r11 * cne + R.r12 * cee + R.r13 * ceu
  let t13 := R.r11 * cnu + R.r12 * ceu + R.r13 * cuu
  let t21 := R.r21 * cnn + R.r22 * cne + R.r23 * cnu
  let t22 := R.r21 * cne + R.r22 * cee + R.r23 * ceu
  let t23 := R.r21 * cnu + R.r22 * ceu + R.r23 * cuu
  let t31 := R.r31 * cnn + R.r32 * cne + R.r33 * cnu
  let t32 := R.r31 * cne + R.r32 * cee + R.r33 * ceu
  let t33 := R.r31 * cnu + R.r32 * ceu + R.r33 * cuu
  [ t11 * R.r11 + t12 * R.r12 + t13 * R.r13,
    t11 * R.r21 + t12 * R.r22 + t13 * R.r23,
    t11 * R.r31 + t12 * R.r32 + t13 * R.r33,
    t21 * R.r21 + t22 * R.r22 + t23 * R.r23,
    t21 * R.r31 + t22 * R.r32 + t23 * R.r33,
    t31 * R.r31 + t32 * R.r32 + t33 * R.r33 ]

end Rot

/-- what the linearisation reads from a `g3::Point`:
    `X() Y() Z()` (initial value + correction), the frame, `H()`, `geoid()`,
    `free_horizontal_position()`, `free_height()`, `N.index() E.index() U.index()`
    (`Parameter::index()` is `0` for a parameter that is not free). -/
structure Pt (K : Type) where
  X : K
  Y : K
  Z : K
  R : Rot K
  H : K
  geoid : K
  freeH : Bool
  freeU : Bool
  iN : Nat
  iE : Nat
  iU : Nat

namespace Pt
variable [Scalar K] (p : Pt K)
/-- `Point::X_dh(dh)` : `X() + r13*dh` -/
def Xdh (dh : K) : K := p.X + p.R.r13 * dh
def Ydh (dh : K) : K := p.Y + p.R.r23 * dh
def Zdh (dh : K) : K := p.Z + p.R.r33 * dh
/-- `Point::model_height()` : `H() - geoid()` -/
def modelHeight : K := p.H - p.geoid
end Pt

/-- a sparse row under construction: `A->add_element(coef, index)` in program order -/
abbrev Row (K : Type) := List (K × Nat)

/-- result of one `Model::linearization(T*)`: the new rows, their right-hand sides, and whether
    the observation was put on `rejected_obs` (`abs(rhs) > tol_abs`) -/
structure LinOut (K : Type) where
  rows : List (Row K)
  rhs : List K
  rejected : Bool

section lin
variable [Scalar K]

/-- `Linear().scale()` = `1e3` (metres → millimetres) -/
def linScale : K := Scalar.ofNat 1000

/-- the block
    ```
    if (p->free_horizontal_position()) { add(diff_N, N.index()); add(diff_E, E.index()); }
    if (p->free_height())              { add(diff_U, U.index()); }
    ```
    after `p->set_diff_XYZ(dX, dY, dZ)` -/
def pointTriple (p : Pt K) (dX dY dZ : K) : Row K :=
  (if p.freeH then [(p.R.diffN dX dY dZ, p.iN), (p.R.diffE dX dY dZ, p.iE)] else []) ++
  (if p.freeU then [(p.R.diffU dX dY dZ, p.iU)] else [])

/-- the three unit vectors of the `switch (i)` in the Vector / XYZ linearisation -/
def unitXYZ : List (K × K × K) := [(1, 0, 0), (0, 1, 0), (0, 0, 1)]

def gtAbs (r tol : K) : Bool := decide (tol < Scalar.abs r)

/-- `Model::linearization(Vector* v)`; `dx dy dz` = `v->dx() …`, `fdh tdh` = `v->from_dh, v->to_dh` -/
def linVector (frm to : Pt K) (dx dy dz fdh tdh tolAbs : K) : LinOut K :=
  let rows := unitXYZ.map fun (tx, ty, tz) =>
    pointTriple frm (-tx) (-ty) (-tz) ++ pointTriple to tx ty tz
  let cx := to.Xdh tdh - frm.Xdh fdh
  let cy := to.Ydh tdh - frm.Ydh fdh
  let cz := to.Zdh tdh - frm.Zdh fdh
  let s : K := linScale
  let rx := (dx - cx) * s
  let ry := (dy - cy) * s
  let rz := (dz - cz) * s
  ⟨rows, [rx, ry, rz], gtAbs rx tolAbs || gtAbs ry tolAbs || gtAbs rz tolAbs⟩

/-- `Model::linearization(XYZ* xyz)` -/
def linXYZ (p : Pt K) (x y z tolAbs : K) : LinOut K :=
  let rows := unitXYZ.map fun (tx, ty, tz) => pointTriple p tx ty tz
  let s : K := linScale
  let rx := (x - p.X) * s
  let ry := (y - p.Y) * s
  let rz := (z - p.Z) * s
  ⟨rows, [rx, ry, rz], gtAbs rx tolAbs || gtAbs ry tolAbs || gtAbs rz tolAbs⟩

/-- `Model::linearization(Distance* d)`.  The direction cosines use `X()`, the right-hand
    side uses `X_dh(dh)`; `if (double dd = sqrt(…))` divides only when `dd != 0`. -/
def linDistance (frm to : Pt K) (obs fdh tdh tolAbs : K) : LinOut K :=
  let dx := to.X - frm.X
  let dy := to.Y - frm.Y
  let dz := to.Z - frm.Z
  let dd := Scalar.sqrt (dx * dx + dy * dy + dz * dz)
  let (ux, uy, uz) := if Scalar.beq dd 0 then (dx, dy, dz) else (dx / dd, dy / dd, dz / dd)
  let row := pointTriple frm (-ux) (-uy) (-uz) ++ pointTriple to ux uy uz
  let cx := to.Xdh tdh - frm.Xdh fdh
  let cy := to.Ydh tdh - frm.Ydh fdh
  let cz := to.Zdh tdh - frm.Zdh fdh
  let D := Scalar.sqrt (cx * cx + cy * cy + cz * cz)
  let rd := (obs - D) * linScale
  ⟨[row], [rd], gtAbs rd tolAbs⟩

/-- `Model::linearization(Height* h)` (never rejected) -/
def linHeight (p : Pt K) (obs : K) : LinOut K :=
  ⟨[if p.freeU then [((1 : K), p.iU)] else []], [(obs - p.modelHeight) * linScale], false⟩

/-- `Model::linearization(HeightDiff* dh)` (never rejected) -/
def linHeightDiff (frm to : Pt K) (obs : K) : LinOut K :=
  let h := to.modelHeight - frm.modelHeight
  ⟨[(if frm.freeU then [(-(1 : K), frm.iU)] else []) ++ (if to.freeU then [((1 : K), to.iU)] else [])],
   [(obs - h) * linScale], false⟩

/-- `CovMat<> C = cluster->activeCov(); C /= (apriori_sd*apriori_sd);` — the packed band of the
    cluster covariance is handed to `Adj` element by element (no rotation: vectors are XYZ
    differences and their covariance is an XYZ covariance); `operator/=(f)` is `operator*=(1/f)`. -/
def cofactorBlock (aprioriSd : K) (c : List K) : List K :=
  let f : K := 1 / (aprioriSd * aprioriSd)
  c.map (· * f)

/-- `Σ coef · x[index]` : the sparse row applied to a vector of unknowns -/
def rowDot (r : Row K) (x : Nat → K) : K := r.foldr (fun (c, i) acc => c * x i + acc) 0

end lin
end Neu
end Gama
