/-
  Scalar signature extensions used by the geodetic primitives (C18) and the
  statistical functions (C17).  Core Lean only.

  `Gama.Scalar` (Scalar.lean, shared) carries + − × ÷ √ and comparisons.  The
  models of ellipsoid.cpp / gon2deg.cpp / bearing.cpp / statan.cpp also call
  libm (`sin cos atan atan2 exp log pow`), truncate to `int` (`int(x)`) and hand
  doubles to `ostream <<`.  These three abilities are separate classes so that

  * `Float` has all of them (execution next to the C++; libm is shared),
  * `Rat`   has `Trunc` and `Exact` (exact execution of the field splitting),
  * `ℝ`     has `Transc` and `Trunc` (Gama/Lemmas/GeoReal.lean; theorems).
-/
import Gama.Scalar
import Gama.Proto
namespace Gama

/-- transcendental functions and the constant `M_PI` -/
class Transc (K : Type) where
  sin   : K → K
  cos   : K → K
  atan  : K → K
  /-- `atan2 y x` (C argument order) -/
  atan2 : K → K → K
  exp   : K → K
  log   : K → K
  pow   : K → K → K
  pi    : K

/-- the C++ conversion `int(x)` (truncation toward zero; defined for |x| < 2^31) -/
class Trunc (K : Type) where
  trunc : K → Int

/-- exact value of a finite scalar (what `ostream <<` formats) -/
class Exact (K : Type) where
  toRat? : K → Option Rat
  /-- the IEEE value `-0.0` (printed as `-0`); never true for an exact field -/
  negZero : K → Bool

/-- `M_PI` as written in <cmath> (21 significant digits; rounds to 0x400921FB54442D18) -/
def floatPi : Float := OfScientific.ofScientific 314159265358979323846 true 20

instance : Transc Float where
  sin := Float.sin
  cos := Float.cos
  atan := Float.atan
  atan2 := Float.atan2
  exp := Float.exp
  log := Float.log
  pow := Float.pow
  pi := floatPi

instance : Trunc Float where
  trunc := fun x => (Float.toInt64 x).toInt

instance : Exact Float where
  toRat? := fun x => Proto.ratOfBits x.toBits
  negZero := fun x => x.toBits == 0x8000000000000000

/-- truncation toward zero on `Rat` -/
def ratTrunc (q : Rat) : Int := if q < 0 then -((-q).floor) else q.floor

instance : Trunc Rat where
  trunc := ratTrunc

instance : Exact Rat where
  toRat? := fun q => some q
  negZero := fun _ => false

namespace Scalar
variable {K : Type} [Scalar K]
/-- decimal literal `m · 10^(-e)` -/
def dec (m e : Nat) : K := Scalar.ofSci m true e
end Scalar

/-- `while (r >= z) r -= z;` with fuel (the C++ loop has no syntactic bound) -/
def whileGeSub {K : Type} [Scalar K] (z : K) : Nat → K → K
  | 0, r => r
  | n+1, r => if z ≤ r then whileGeSub z n (r - z) else r

/-- `while (r < 0) r += z;` with fuel -/
def whileNegAdd {K : Type} [Scalar K] (z : K) : Nat → K → K
  | 0, r => r
  | n+1, r => if r < (0 : K) then whileNegAdd z n (r + z) else r

end Gama
