/-
  C04 round 3 — class `Adj` across `set(other data)` with its work matrices as explicit state.

  `Adj` owns two dense work arrays that outlive every solver object and every data set:
      Mat<> A_dot;  Vec<> b_dot;
  `init_least_squares()` (full-matrix algorithms gso, svd, cholesky) fills them:
      A_dot.reset(rows, cols);            // re-allocates iff rows*cols changed (MemRep::resize)
      A_dot.set_zero();                   // ← the re-zeroing step
      b_dot.reset(rows);
      for every stored element:  A_dot(k, col) = value          // structural non-zeros only
      for every covariance block: b_dot(r+i) = (L⁻¹ rhs)(i)      // every element overwritten
                                  A_dot(r+i, j) = (L⁻¹ A_dot(r+·, j))(i)   // IN PLACE, all columns
      full->reset(A_dot, b_dot);
  so what the solver is given depends on what `A_dot` held BEFORE the copy loop at every position
  that is a structural zero of the sparse matrix: homogenisation fill-in of an earlier run, or
  non-zeros of an earlier sparsity pattern.  `AProv` records exactly that dependency; `fillCode`
  has the zeroing step, `fillKeep` is the VARIANT that zeroes only when the shape changed (seeded
  change C01-seed1).  The envelope algorithm does not touch `A_dot`.

  The machine wraps `AState`/`astep` (Model/AdjState.lean: solver objects, `solved`, `x_`, `r_`,
  `rtr_`); the current data set is part of the state, `setData inp'` is `set(data')`.
  Core Lean only.
-/
import Gama.Model.AdjState
namespace Gama.C04.AdjM
open Gama Gama.C04 Gama.C04.Full

/-- content of `A_dot` -/
inductive AProv
  | zero                                   -- all elements 0
  | filled (d : Nat) (under : AProv)       -- rows of data set `d` copied over `under`, homogenised in place
deriving Repr, DecidableEq

structure ADot where
  rows : Nat
  cols : Nat
  prov : AProv
deriving Repr, DecidableEq

/-- the code: `reset(rows, cols); set_zero();` then copy + homogenise -/
def fillCode (_old : ADot) (inp : AInput) : ADot := ⟨inp.m, inp.n, .filled inp.id .zero⟩

/-- the variant: re-allocate and zero only when the shape changed -/
def fillKeep (old : ADot) (inp : AInput) : ADot :=
  if old.rows ≠ inp.m ∨ old.cols ≠ inp.n then ⟨inp.m, inp.n, .filled inp.id .zero⟩
  else ⟨inp.m, inp.n, .filled inp.id old.prov⟩

structure HA where
  inp : AInput
  s : AState
  adot : ADot                  -- `A_dot`
  /-- `b_dot`: dimension and the data set whose homogenised right-hand side it holds (every element
      is overwritten by the block loop, nothing of the old content survives) -/
  bdot : Nat × Option Nat
  /-- ghost: content of `A_dot` when the current solver object was given it (`none`: envelope) -/
  lsIn : Option AProv

inductive HAOp
  | q (op : AOp)
  | setData (inp' : AInput)    -- `set(data')`

def isQuery : AOp → Bool
  | .setAlg _ => false
  | .set => false
  | _ => true

/-- an answer together with the content of the matrix the answering solver was given -/
abbrev HAOut := AOut × Option AProv

def hastepWith (fill : ADot → AInput → ADot) (h : HA) : HAOp → HA × HAOut
  | .q op =>
    let r := astep h.inp h.s op
    -- `if (!solved) init_least_squares();` is the first statement of every query
    if !h.s.solved && isQuery op then
      if h.s.alg = .env then
        (⟨h.inp, r.1, h.adot, h.bdot, none⟩, (r.2, none))
      else
        let a := fill h.adot h.inp
        (⟨h.inp, r.1, a, (h.inp.m, some h.inp.id), some a.prov⟩, (r.2, some a.prov))
    else (⟨h.inp, r.1, h.adot, h.bdot, h.lsIn⟩, (r.2, if isQuery op then h.lsIn else none))
  | .setData inp' => (⟨inp', (astep h.inp h.s .set).1, h.adot, h.bdot, h.lsIn⟩, (.ok, none))

def harunWith (fill : ADot → AInput → ADot) (h : HA) : List HAOp → HA
  | [] => h
  | o :: os => harunWith fill (hastepWith fill h o).1 os

def hastep : HA → HAOp → HA × HAOut := hastepWith fillCode
def harun : HA → List HAOp → HA := harunWith fillCode

/-- `Adj a; a.set_algorithm(alg); a.set(data)` -/
def hainit (inp : AInput) (a : Alg) : HA := ⟨inp, ainit a, ⟨0, 0, .zero⟩, (0, none), none⟩

/-- what a brand-new `Adj` with this algorithm and this data answers -/
def hafresh (inp : AInput) (a : Alg) (op : AOp) : HAOut := (hastep (hainit inp a) (.q op)).2

end Gama.C04.AdjM
