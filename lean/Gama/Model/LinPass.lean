/-
  C05 — one whole pass of `LocalNetwork::project_equations()` (lib/gnu_gama/local/network.cpp) over the
  list of revised observations, and the matrix the code assembles from it.  Core Lean only (linked into
  `drv_lin`).

  Anchors
    * `for (m in revised_obs_) { obs->accept(&loclin); b(++r) = loclin.rhs; tmp->new_row();
       for (i < loclin.size) tmp->add_element(loclin.coeff[i], loclin.index[i]); }`        ↦ `passFrom`
      (a throw of the linearisation leaves `project_equations`: `Except`)
    * the sparse matrix `Asp` keeps a row exactly as pushed, repeated column indices included;
      its consumers add the repeated entries up (`Envelope::set`, envelope.h, after 0a3ec43)     ↦ `rowSum`, `codeMatrix`
    * the dense matrix `A`: `A.set_zero(); … while (n--) A(row, *i++) <op> *a++;` where `<op>` is read
      from the source on every run (`Gen.Lin.denseAccumulates`: `+=` ↦ true, `=` ↦ false)         ↦ `denseRow`, `denseMatrix`
    * `pocet_neznamych_ = loclin.unknowns()`                                                    ↦ `PassOut.idx.maxn`

  The network the pass reads: points and stand-points are named by natural numbers
  (`Net.pt`, `Net.ori`), an observation names its points by role (`NObs`), and the record
  `LocalLinearization::<type>` reads is `Net.view`.
-/
import Gama.Gen.Linearization
import Gama.Gen.LinAssembly
namespace Gama.Lin

/-- the 13 classes `LocalLinearization` visits -/
inductive Kind where
  | direction | distance | angle | h_diff | s_distance | z_angle | x | y | z | xdiff | ydiff | zdiff | azimuth
deriving DecidableEq, Repr

def Kind.all : List Kind :=
  [.direction, .distance, .angle, .h_diff, .s_distance, .z_angle, .x, .y, .z, .xdiff, .ydiff, .zdiff, .azimuth]

/-- the C++ class name, as in the generated `visit` table -/
def Kind.className : Kind → String
  | .direction => "Direction" | .distance => "Distance" | .angle => "Angle" | .h_diff => "H_Diff"
  | .s_distance => "S_Distance" | .z_angle => "Z_Angle" | .x => "X" | .y => "Y" | .z => "Z"
  | .xdiff => "Xdiff" | .ydiff => "Ydiff" | .zdiff => "Zdiff" | .azimuth => "Azimuth"

/-- the generated member function of the class -/
def Kind.lin {K : Type} [TrigScalar K] : Kind → Nat → Obs K → Except LinErr (LinOut K)
  | .direction => Gen.Lin.direction | .distance => Gen.Lin.distance | .angle => Gen.Lin.angle
  | .h_diff => Gen.Lin.h_diff | .s_distance => Gen.Lin.s_distance | .z_angle => Gen.Lin.z_angle
  | .x => Gen.Lin.x | .y => Gen.Lin.y | .z => Gen.Lin.z
  | .xdiff => Gen.Lin.xdiff | .ydiff => Gen.Lin.ydiff | .zdiff => Gen.Lin.zdiff | .azimuth => Gen.Lin.azimuth

/-- one observation of `revised_obs_`: class, stand-point cluster (directions only), the points
    `from()`, `to()` (= `bs()`), `fs()` and `value()` -/
structure NObs (K : Type) where
  kind : Kind
  sp : Nat
  pfrom : Nat
  pto : Nat
  pfs : Nat
  value : K

/-- what a pass reads of the network: `PD[id]`, `standpoint->orientation()`, `PD.xNorthAngle()` -/
structure Net (K : Type) where
  pt : Nat → Pt K
  ori : Nat → K
  xNorth : K

/-- the record `LocalLinearization::<type>(obs)` reads -/
def Net.view {K : Type} (σ : Net K) (ob : NObs K) : Obs K :=
  { pfrom := σ.pt ob.pfrom, pto := σ.pt ob.pto, pfs := σ.pt ob.pfs, value := ob.value,
    orientation := σ.ori ob.sp, xNorth := σ.xNorth }

/-- the unknown a role of this observation stands for (several roles may name one point) -/
def NObs.name {K : Type} (ob : NObs K) : Role → Coord → Unk
  | .pfrom, c => ⟨ob.pfrom, c⟩
  | .pto, c => ⟨ob.pto, c⟩
  | .pfs, c => ⟨ob.pfs, c⟩
  | .station, c => ⟨ob.sp, c⟩

structure PassOut (K : Type) where
  /-- the sparse rows exactly as pushed (`add_element(coeff[i], index[i])`) -/
  rows : List (List (Nat × K))
  /-- `b(r) = rhs_(r) = loclin.rhs` -/
  rhs : List K
  /-- the index state at the end; `idx.maxn` = `loclin.unknowns()` -/
  idx : IdxState

/-- the linearisation loop of `project_equations`, from the index state `s` -/
def passFrom {K : Type} [TrigScalar K] (σ : Net K) (fuel : Nat) :
    List (NObs K) → IdxState → Except LinErr (PassOut K)
  | [], s => .ok ⟨[], [], s⟩
  | ob :: t, s =>
    match ob.kind.lin fuel (σ.view ob) with
    | .error e => .error e
    | .ok out =>
      match passFrom σ fuel t (runEvs ob.name out.evs s).1 with
      | .error e => .error e
      | .ok r => .ok ⟨(runEvs ob.name out.evs s).2 :: r.rows, out.rhs :: r.rhs, r.idx⟩

/-- the value a consumer of the sparse row sees in column `j`: repeated entries add up -/
def rowSum {K : Type} [Scalar K] : List (Nat × K) → Nat → K
  | [], _ => 0
  | e :: t, j => if e.1 = j then e.2 + rowSum t j else rowSum t j

/-- the matrix the code builds: entry of row `r` (0-based position in the observation list),
    column `j` (1-based index of the unknown) -/
def codeMatrix {K : Type} [Scalar K] (rows : List (List (Nat × K))) (r j : Nat) : K :=
  rowSum (rows.getD r []) j

/-- one row of the dense matrix: starting from zero, `A(row, index) <op> coeff` in push order;
    `acc = true` is `+=`, `acc = false` is `=` (the last push for a column wins) -/
def denseRow {K : Type} [Scalar K] (acc : Bool) : List (Nat × K) → Nat → K → K
  | [], _, a => a
  | e :: t, j, a => denseRow acc t j (if e.1 = j then (if acc then a + e.2 else e.2) else a)

/-- the dense matrix `A` of `project_equations` with the assignment operator found in the source -/
def denseMatrix {K : Type} [Scalar K] (rows : List (List (Nat × K))) (r j : Nat) : K :=
  denseRow Gen.Lin.denseAccumulates (rows.getD r []) j 0

/-- the distinct columns of a row in order of first appearance -/
def rowCols {K : Type} (row : List (Nat × K)) : List Nat := (row.map (·.1)).eraseDups

end Gama.Lin
