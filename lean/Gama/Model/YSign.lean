/-
  `LocalNetwork::change_y_signs_for_inconsistent_system_()` (lib/gnu_gama/local/network.cpp), the
  step `remove_inconsistency()` / `return_inconsistency()` run when the orientation of the coordinate
  axes and of the angles disagree (gama-local calls `remove_inconsistency()` before the adjustment),
  as coded.  Core Lean only.

      for every point p:   if (p.test_xy()) p.set_xy(p.x(), -p.y());
      for every cluster:
          std::vector<bool> mirrored(1, false);
          for every observation obs of observation_list:
              bool b = false;
              if      (dynamic_cast<Y*>    (obs))  b = true;
              else if (dynamic_cast<Ydiff*>(obs))  b = true;
              if (b)  obs->set_value( -obs->value() );
              mirrored.push_back(b);
          CovMat& C = cluster->covariance_matrix;
          const int N = std::min<int>(C.dim(), mirrored.size()-1);
          const int B = C.bandWidth();
          for (int r=1; r<=N; r++)
            for (int s=r+1; s<=std::min(N, r+B); s++)
              if (<cond>(mirrored[r], mirrored[s])) C(r,s) = -C(r,s);

  The boolean expression `<cond>` is a PARAMETER of the model; `Gen/YSign.lean` (regenerated from the
  source by tools/gen/c10_ysign.py on every run) supplies the one that is in the code, and the one
  `LocalNetwork::updated_xml_covmat` uses on the way out (`--export`).  `C(r,s)` on the non-const
  `CovMat` is the throwing accessor (`BadIndex` outside the band); inside the loop bounds it cannot
  throw (`s ≤ r+B`), so an `error` leaves the object unchanged in the model.
-/
import Gama.Model.Packed
namespace Gama.Cov.YSign
variable {K : Type}

/-- `mirrored[k]` of the vector `mirrored(1,false)` + one `push_back(b)` per observation
    (`ms` = the pushed flags; index 0 is the dummy, an index past the end reads `false` in the model) -/
def mirroredAt (ms : List Bool) (k : Nat) : Bool := (false :: ms).getD k false

/-- `if (b) obs->set_value( -obs->value() );` for every observation of the cluster -/
def flipValues [Neg K] : List Bool → List K → List K
  | b :: bs, v :: vs => (if b then -v else v) :: flipValues bs vs
  | _, vs => vs

/-- `if (cond(mirrored[r], mirrored[s])) C(r,s) = -C(r,s);` -/
def flipStep [Zero K] [Neg K] (cond : Bool → Bool → Bool) (ms : List Bool) (C : CovMat K) (rs : Nat × Nat) :
    CovMat K :=
  if cond (mirroredAt ms rs.1) (mirroredAt ms rs.2) then
    match C.set rs.1 rs.2 (-(C.get rs.1 rs.2)) with
    | .ok C' => C'
    | .error _ => C          -- unreachable: (r, s) is inside the band
  else C

/-- `N = std::min<int>(C.dim(), mirrored.size()-1)` -/
def nOf (C : CovMat K) (ms : List Bool) : Nat := min C.dim ms.length

/-- the columns `s = r+1 .. min(N, r+B)` of row `r` -/
def colsOf (N B r : Nat) : List Nat := List.range' (r + 1) (min N (r + B) - r)

/-- the two nested loops over the covariance matrix -/
def flipCov [Zero K] [Neg K] (cond : Bool → Bool → Bool) (ms : List Bool) (C : CovMat K) : CovMat K :=
  let N := nOf C ms
  let B := C.band
  (List.range' 1 N).foldl (fun (M : CovMat K) r =>
      (colsOf N B r).foldl (fun (M : CovMat K) s => flipStep cond ms M (r, s)) M)
    C

/-- one cluster as the function sees it: which observations are `Y` / `Ydiff`, the observed values,
    the covariance matrix -/
structure YCluster (K : Type) where
  mirrored : List Bool
  values : List K
  cov : CovMat K
deriving Repr

/-- the body of the cluster loop -/
def changeCluster [Zero K] [Neg K] (cond : Bool → Bool → Bool) (c : YCluster K) : YCluster K :=
  { c with values := flipValues c.mirrored c.values, cov := flipCov cond c.mirrored c.cov }

/-- a point: `test_xy()` and `(x, y)` -/
structure YPoint (K : Type) where
  hasXY : Bool
  x : K
  y : K
deriving Repr

/-- `if (p.test_xy()) p.set_xy(p.x(), -p.y());` -/
def changePoint [Neg K] (p : YPoint K) : YPoint K := if p.hasXY then { p with y := -p.y } else p

/-- the whole function on the point list and the cluster list -/
def changeYSigns [Zero K] [Neg K] (cond : Bool → Bool → Bool) (ps : List (YPoint K)) (cs : List (YCluster K)) :
    List (YPoint K) × List (YCluster K) :=
  (ps.map changePoint, cs.map (changeCluster cond))

/-! ### the way out: `LocalNetwork::updated_xml_covmat(xml, C, always, list)`

      std::vector<bool> mirrored(dim+1, false);
      if (list && y_sign() < 0) { n = 0; for obs in *list: if (++n <= dim) mirrored[n] = Y || Ydiff; }
      for i = 1..dim:  for j = i .. min(i+band, dim):
          c = (<cond>(mirrored[i], mirrored[j]) ? -C(i,j) : C(i,j)) * unit[i] * unit[j];

  (the `unit` factors are the sexagesimal scaling, C13's subject; here `unit = 1`). -/

/-- `mirrored[k]` of `updated_xml_covmat`: only the first `dim` observations are looked at -/
def exportMirroredAt (dim : Nat) (ms : List Bool) (k : Nat) : Bool := (false :: ms.take dim).getD k false

/-- the exported entries row by row (`j = i .. min(i+band, dim)`) -/
def exportEntries [Zero K] [Neg K] (cond : Bool → Bool → Bool) (ysignNeg : Bool) (ms : List Bool) (C : CovMat K) :
    List K :=
  let mir := fun k => if ysignNeg then exportMirroredAt C.dim ms k else false
  (List.range' 1 C.dim).flatMap fun i =>
    (List.range' i (min (i + C.band) C.dim + 1 - i)).map fun j =>
      if cond (mir i) (mir j) then -(C.get i j) else C.get i j

end Gama.Cov.YSign
