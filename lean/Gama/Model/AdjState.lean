/-
  C04 — state machine of the general class `Adj` (lib/gnu_gama/adj/adj.h, adj.cpp):
  `solved`, `algorithm_`, the solver object `least_squares` points to (with ITS state machine:
  Model/EnvState.lean, Model/FullState.lean) and the cached `x_`, `r_`, `rtr_`.

  Mirrors the code after the `fix:` commit 63845a9 (`defect()`, `rtr()`, `q_xx()`, `q_bb()`
  call `init_least_squares()` when `!solved`, like `x()` and `r()` always did).

  `init_least_squares()`:
      delete least_squares;  least_squares = new <class of algorithm_>;
      if (data->minx()) least_squares->min_x(dim, list);
      sparse (envelope): reset(data); x_ = unknowns(); r_ = residuals(); rtr_ = sum_of_squares();
      full (gso, svd, cholesky): homogenise; reset(A_dot, b_dot); rtr_ from residuals();
                                 x_ = unknowns(); r_ computed from x_ and the original rows;
      solved = true;
  a throw of the solver leaves `solved == false` and the new object allocated.
  `set_algorithm(a)`: `solved = false; algorithm_ = a;` — the old object stays until the next
  `init_least_squares`.   `set(data)` = `init(data)`: `least_squares = nullptr; solved = false`.
  `q_bb(i,j)` = Σ_{jn ∈ row j} a_j,jn · Σ_{in ∈ row i} a_i,in · least_squares->q0_xx(in, jn)
  (for the full solvers `q0_xx` is `AdjBase`'s default `q_xx`).

  Answers are symbolic: they name the algorithm of the object that produced them and the
  solver's own symbolic answer.  Ghost: the provenance stored with `x_`, `r_`, `rtr_`.
  Core Lean only.
-/
import Gama.Model.EnvState
import Gama.Model.FullState
namespace Gama.C04.AdjM
open Gama Gama.C04 Gama.C04.Full

inductive Alg | env | gso | svd | chol
deriving Repr, DecidableEq

structure AInput where
  env : EnvInput
  chol : Full.Input
  gso : Full.Input
  svd : Full.Input
  /-- `data->minx()`: `none` = null pointer -/
  minx : Option (List Nat)
  /-- column indices stored in sparse row i (1-based) of `data->A` -/
  rows : Nat → List Nat
  /-- ghost: identity of the data set (round 3: histories that `set()` other data) -/
  id : Nat := 0
  /-- `data->A->rows()`, `data->A->columns()`: the shape `A_dot`, `b_dot` are given -/
  m : Nat := 0
  n : Nat := 0

/-- the object behind `least_squares` -/
inductive Solver
  | env (s : EnvState)
  | full (k : Kind) (s : FState)
  | svd (s : SState)

def Solver.alg : Solver → Alg
  | .env _ => .env
  | .full .chol _ => .chol
  | .full .gso _ => .gso
  | .svd _ => .svd

/-- the solver's own symbolic answer -/
inductive SOut
  | env (o : C04.Out)
  | full (o : Full.Out)
deriving Repr, DecidableEq

def SOut.isThrow : SOut → Bool
  | .env .badReg => true
  | .full .badReg => true
  | _ => false

/-- the solver queries `Adj` uses -/
inductive QOp
  | unknowns | residuals | sumsq | defect | qxx (i j : Nat) | q0xx (i j : Nat)
deriving Repr, DecidableEq

def QOp.toEnv : QOp → C04.Op
  | .unknowns => .unknowns | .residuals => .residuals | .sumsq => .sumsq | .defect => .defect
  | .qxx i j => .qxx i j | .q0xx i j => .q0xx i j

/-- `AdjBase::q0_xx` defaults to `q_xx` for the full solvers -/
def QOp.toFull : QOp → Full.Op
  | .unknowns => .unknowns | .residuals => .residuals | .sumsq => .sumsq | .defect => .defect
  | .qxx i j => .qxx i j | .q0xx i j => .qxx i j

def Solver.step (inp : AInput) : Solver → QOp → Solver × SOut
  | .env s, q => ((.env (C04.step inp.env s q.toEnv).1), .env (C04.step inp.env s q.toEnv).2)
  | .full .chol s, q => ((.full .chol (Full.step .chol inp.chol s q.toFull).1), .full (Full.step .chol inp.chol s q.toFull).2)
  | .full .gso s, q => ((.full .gso (Full.step .gso inp.gso s q.toFull).1), .full (Full.step .gso inp.gso s q.toFull).2)
  | .svd s, q => ((.svd (Full.sstep inp.svd s q.toFull).1), .full (Full.sstep inp.svd s q.toFull).2)

/-- `new <class>; if (data->minx()) min_x(dim, list); reset(data)` -/
def mkSolver (inp : AInput) : Alg → Solver
  | .env => .env (C04.init inp.minx)
  | .chol => .full .chol (match inp.minx with | none => Full.init true none | some l => Full.init false (some l))
  | .gso => .full .gso (match inp.minx with | none => Full.init true none | some l => Full.init false (some l))
  | .svd => .svd (match inp.minx with | none => Full.sinit false none | some l => Full.sinit true (some l))

inductive AOut
  | x (by_ : Alg) (o : SOut)          -- `x_`, copied from this answer of the solver
  | r (by_ : Alg) (o : SOut)          -- `r_` (sparse: the solver's residuals; full: computed from `x_`)
  | rtr (by_ : Alg) (o : SOut)        -- `rtr_`
  | del (by_ : Alg) (o : SOut)        -- delegated to `least_squares` (defect, q_xx)
  | qbb (by_ : Alg) (os : List SOut)  -- the `q0_xx` answers summed up
  | throw (o : SOut)                  -- the solver's exception passes through
  | nullDeref                         -- `least_squares == nullptr` dereferenced
  | stale (what : String)
  | ok
deriving Repr, DecidableEq

structure AState where
  solved : Bool
  alg : Alg
  ls : Option Solver
  -- ghost: what `x_`, `r_`, `rtr_` hold
  xc : Option (Alg × SOut)
  rc : Option (Alg × SOut)
  rtrc : Option (Alg × SOut)

/-- `Adj()` then `set_algorithm(a)`, `set(data)` -/
def ainit (a : Alg) : AState := { solved := false, alg := a, ls := none, xc := none, rc := none, rtrc := none }

/-- `init_least_squares()`; `some o`: the solver threw -/
def initLS (inp : AInput) (s : AState) : AState × Option SOut :=
  let sv := mkSolver inp s.alg
  match s.alg with
  | .env =>
    let (sv, ox) := sv.step inp .unknowns
    if ox.isThrow then ({ s with ls := some sv }, some ox) else
    let (sv, or_) := sv.step inp .residuals
    if or_.isThrow then ({ s with ls := some sv, xc := some (.env, ox) }, some or_) else
    let (sv, os) := sv.step inp .sumsq
    if os.isThrow then ({ s with ls := some sv, xc := some (.env, ox), rc := some (.env, or_) }, some os) else
    ({ s with ls := some sv, solved := true, xc := some (.env, ox), rc := some (.env, or_), rtrc := some (.env, os) }, none)
  | a =>
    let (sv, or_) := sv.step inp .residuals
    if or_.isThrow then ({ s with ls := some sv }, some or_) else
    let (sv, ox) := sv.step inp .unknowns
    if ox.isThrow then ({ s with ls := some sv, rtrc := some (a, or_) }, some ox) else
    ({ s with ls := some sv, solved := true, xc := some (a, ox), rc := some (a, ox), rtrc := some (a, or_) }, none)

/-- `if (!solved) init_least_squares();` -/
def ensure (inp : AInput) (s : AState) : AState × Option SOut :=
  if s.solved then (s, none) else initLS inp s

/-- the `q0_xx` calls of `Adj::q_bb` in the order of the two nested loops -/
def qbbPairs (inp : AInput) (i j : Nat) : List (Nat × Nat) :=
  (inp.rows j).flatMap fun jn => (inp.rows i).map fun in_ => (in_, jn)

/-- run the `q0_xx` calls; stops at the first throw -/
def qbbLoop (inp : AInput) : Solver → List (Nat × Nat) → List SOut → Solver × List SOut × Option SOut
  | sv, [], acc => (sv, acc.reverse, none)
  | sv, (a, b) :: rest, acc =>
    let (sv', o) := sv.step inp (.q0xx a b)
    if o.isThrow then (sv', acc.reverse, some o) else qbbLoop inp sv' rest (o :: acc)

inductive AOp
  | x | r | rtr | defect | qxx (i j : Nat) | qbb (i j : Nat) | setAlg (a : Alg) | set
deriving Repr, DecidableEq

def cached (c : Option (Alg × SOut)) (f : Alg → SOut → AOut) (what : String) : AOut :=
  match c with
  | some (a, o) => f a o
  | none => .stale what

def astep (inp : AInput) (s : AState) : AOp → AState × AOut
  | .x =>
    match ensure inp s with
    | (s, some e) => (s, .throw e)
    | (s, none) => (s, cached s.xc .x "x_")
  | .r =>
    match ensure inp s with
    | (s, some e) => (s, .throw e)
    | (s, none) => (s, cached s.rc .r "r_")
  | .rtr =>
    match ensure inp s with
    | (s, some e) => (s, .throw e)
    | (s, none) => (s, cached s.rtrc .rtr "rtr_")
  | .defect =>
    match ensure inp s with
    | (s, some e) => (s, .throw e)
    | (s, none) =>
      match s.ls with
      | none => (s, .nullDeref)
      | some sv =>
        let (sv', o) := sv.step inp .defect
        ({ s with ls := some sv' }, if o.isThrow then .throw o else .del sv.alg o)
  | .qxx i j =>
    match ensure inp s with
    | (s, some e) => (s, .throw e)
    | (s, none) =>
      match s.ls with
      | none => (s, .nullDeref)
      | some sv =>
        let (sv', o) := sv.step inp (.qxx i j)
        ({ s with ls := some sv' }, if o.isThrow then .throw o else .del sv.alg o)
  | .qbb i j =>
    match ensure inp s with
    | (s, some e) => (s, .throw e)
    | (s, none) =>
      match s.ls with
      | none => (s, .nullDeref)
      | some sv =>
        match qbbLoop inp sv (qbbPairs inp i j) [] with
        | (sv', _, some e) => ({ s with ls := some sv' }, .throw e)
        | (sv', os, none) => ({ s with ls := some sv' }, .qbb sv.alg os)
  | .setAlg a => ({ s with solved := false, alg := a }, .ok)
  | .set => ({ s with solved := false, ls := none, xc := none, rc := none, rtrc := none }, .ok)

def arun (inp : AInput) (s : AState) : List AOp → AState
  | [] => s
  | op :: ops => arun inp (astep inp s op).1 ops

/-- the answer of a brand-new `Adj` with this algorithm and the same data -/
def afresh (inp : AInput) (a : Alg) (op : AOp) : AOut := (astep inp (ainit a) op).2

/-- the algorithm of the object that computed the answer -/
def AOut.by? : AOut → Option Alg
  | .x a _ => some a | .r a _ => some a | .rtr a _ => some a | .del a _ => some a | .qbb a _ => some a
  | _ => none

end Gama.C04.AdjM
