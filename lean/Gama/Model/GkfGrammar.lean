/-
  The documented element/attribute grammar of the gama-local input (xml/gama-local.xsd, manual
  "gama-local-input"), as a type of documents with `events : Doc → List Event` (core Lean only).

    gama-local  > network
    network     > (description | parameters | points-observations)*
    points-obs. > (point | obs | coordinates | height-differences | vectors)*
    obs         > (direction | distance | angle | s-distance | z-angle | azimuth)* cov-mat?
    height-differences > dh+ cov-mat?          coordinates > point+ cov-mat          vectors > vec+ cov-mat

  Attribute names per element are those of the XSD (`docAttrs`).  Values are not part of this grammar
  (`dataOk = true` in every event: the numeric formats are the subject of Model/Literals.lean).
  Blank character data between elements is represented by `ws` fields where the tests use it.
-/
import Gama.Model.GkfRun
namespace Gama.Gkf

/-- attribute names documented in gama-local.xsd -/
def docAttrs : Tag → List String
  | .gama_xml => ["xmlns"]
  | .network => ["axes-xy", "angles", "epoch"]
  | .parameters => ["sigma-apr", "conf-pr", "tol-abs", "sigma-act", "algorithm", "language", "encoding",
                    "angular", "angles", "latitude", "ellipsoid", "cov-band"]
  | .points_observations => ["distance-stdev", "direction-stdev", "angle-stdev", "zenith-angle-stdev", "azimuth-stdev"]
  | .point_ => ["id", "x", "y", "z", "fix", "adj"]
  | .obs => ["from", "orientation", "from_dh"]
  | .cov_mat => ["dim", "band"]
  | .direction => ["to", "val", "stdev", "from_dh", "to_dh", "extern"]
  | .distance => ["from", "to", "val", "stdev", "from_dh", "to_dh", "extern"]
  | .s_distance => ["from", "to", "val", "stdev", "from_dh", "to_dh", "extern"]
  | .z_angle => ["from", "to", "val", "stdev", "from_dh", "to_dh", "extern"]
  | .azimuth => ["from", "to", "val", "stdev", "from_dh", "to_dh", "extern"]
  | .angle => ["from", "bs", "fs", "val", "stdev", "from_dh", "bs_dh", "fs_dh", "extern"]
  | .dh => ["from", "to", "val", "stdev", "dist", "extern"]
  | .coordinates => ["extern"]
  | .vec => ["from", "to", "dx", "dy", "dz", "from_dh", "to_dh", "extern"]
  | _ => []

def attrsDocumented (t : Tag) (as : List Attr) : Bool := as.all (fun a => (docAttrs t).contains a.name)

/-- an empty element `<tag attrs/>` -/
structure Leaf where
  tag : Tag
  attrs : List Attr
  deriving Repr

def Leaf.events (l : Leaf) : List Event := [.start l.tag l.attrs true, .stop true]

/-- `<cov-mat dim=".." band="..">text</cov-mat>` (the text arrives in any number of pieces) -/
structure CovEl where
  attrs : List Attr
  text : List (List Char)
  deriving Repr

def CovEl.events (c : CovEl) : List Event :=
  .start .cov_mat c.attrs true :: (c.text.map Event.text ++ [.stop true])

inductive ClusterKind where
  | obs | hdiffs | coords | vectors
  deriving DecidableEq, Repr

def ClusterKind.tag : ClusterKind → Tag
  | .obs => .obs | .hdiffs => .height_differences | .coords => .coordinates | .vectors => .vectors

/-- children allowed in a cluster -/
def ClusterKind.itemOk : ClusterKind → Leaf → Bool
  | .obs, l => (l.tag == .direction || l.tag == .distance || l.tag == .angle || l.tag == .s_distance ||
                l.tag == .z_angle || l.tag == .azimuth) && attrsDocumented l.tag l.attrs
  | .hdiffs, l => l.tag == .dh && attrsDocumented .dh l.attrs
  | .coords, l => l.tag == .point_ && attrsDocumented .point_ l.attrs && hasXYorZ l.attrs
  | .vectors, l => l.tag == .vec && attrsDocumented .vec l.attrs

structure Cluster where
  kind : ClusterKind
  attrs : List Attr
  items : List Leaf
  cov : Option CovEl
  deriving Repr

def Cluster.events (c : Cluster) : List Event :=
  .start c.kind.tag c.attrs true ::
    (c.items.flatMap Leaf.events ++ ((match c.cov with | some cv => cv.events | none => []) ++ [.stop true]))

def Cluster.valid (c : Cluster) : Bool :=
  attrsDocumented c.kind.tag c.attrs && c.items.all c.kind.itemOk &&
  (match c.cov with | some cv => attrsDocumented .cov_mat cv.attrs | none => true) &&
  -- XSD: cov-mat is required in coordinates and vectors; dh+/point+/vec+ are non-empty
  (match c.kind with
   | .obs => true
   | .hdiffs => !c.items.isEmpty
   | .coords => !c.items.isEmpty && c.cov.isSome
   | .vectors => !c.items.isEmpty && c.cov.isSome)

inductive POItem where
  | point (l : Leaf)
  | cluster (c : Cluster)
  deriving Repr

def POItem.events : POItem → List Event
  | .point l => l.events
  | .cluster c => c.events

def POItem.valid : POItem → Bool
  | .point l => l.tag == .point_ && attrsDocumented .point_ l.attrs
  | .cluster c => c.valid

inductive NetItem where
  | description (text : List (List Char))
  | parameters (attrs : List Attr)
  | pointsObs (attrs : List Attr) (items : List POItem)
  deriving Repr

def NetItem.events : NetItem → List Event
  | .description text => .start .description [] true :: (text.map Event.text ++ [.stop true])
  | .parameters as => [.start .parameters as true, .stop true]
  | .pointsObs as items => .start .points_observations as true :: (items.flatMap POItem.events ++ [.stop true])

def NetItem.valid : NetItem → Bool
  | .description _ => true
  | .parameters as => attrsDocumented .parameters as
  | .pointsObs as items => attrsDocumented .points_observations as && items.all POItem.valid

structure Doc where
  attrs : List Attr           -- of <gama-local>
  netAttrs : List Attr        -- of <network>
  items : List NetItem
  deriving Repr

def Doc.events (d : Doc) : List Event :=
  .start .gama_xml d.attrs true :: .start .network d.netAttrs true ::
    (d.items.flatMap NetItem.events ++ [.stop true, .stop true])

def Doc.valid (d : Doc) : Bool :=
  attrsDocumented .gama_xml d.attrs && attrsDocumented .network d.netAttrs && d.items.all NetItem.valid

end Gama.Gkf
