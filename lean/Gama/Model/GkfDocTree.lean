/-
  The documented gama-local input as a TREE WITH ITS REAL STRINGS (`Doc'`), and its validity as a predicate of the
  document alone (core Lean only; CLAUSES.md audit #3, gap #8).

  `Model/GkfGrammar.lean` has the element grammar with attribute NAMES only (`Doc`); `Model/GkfValues.lean` runs the
  parser on events with real strings but the conditions that are not about one value (required attributes, `from`
  inherited from `<obs from=..>`, `dim` of `<cov-mat>` = number of observations of the cluster, number of words of the
  covariance text) were only available as the parser's own bookkeeping (`Ctx`).  Here they are written down
  DECLARATIVELY, by recursion on the tree:

    `Doc'.valid`     the shape is a document of the grammar (`Doc.valid` of `Doc'.abs`: documented attribute names,
                     children allowed, `<cov-mat>` present where the XSD requires it, a `<point>` inside `<coordinates>`
                     gives x(,y) and/or z), and on every element the documented rules `docRules` hold (hand table, from
                     xml/gama-local.xsd + manual): required attributes non-empty, a point id that is not blank, `x` with
                     `y`, `from` given on the observation or inherited from the enclosing `<obs>`, positive distances /
                     zenith angles, `from ≠ fs`, `band < dim`; per cluster `dim` = number of observations (1 per
                     observation / dh, 3 per `<vec>`, 2 for x,y + 1 for z per `<point>` in `<coordinates>`), the
                     `<cov-mat>` text has exactly `bandElems dim band` words, and the input bit `pd` (the Cholesky test of
                     the cluster's covariance matrix passes: floating point, not modelled) is set;
    `Doc'.valuesOk`  every attribute is documented for its element and its value lies in the documented literal
                     language / range (`docCheck`, Model/GkfDocValues.lean); every word of a `<cov-mat>` text is a
                     finite float.

  Nothing here mentions `Ctx`, `cstep`, `requiredVars`, `effects` or any other generated bookkeeping table: the hand
  rules are compared with the generated ones in Lemmas/GkfDocTree.lean (`rules_cover_table`, `item_effects_table`, … by
  `decide`), so a required-attribute test dropped from a `process_*`, a `push_back` dropped or a changed `dim` test break
  a proof.
-/
import Gama.Model.GkfValues
import Gama.Model.GkfDocValues
import Gama.Model.GkfGrammar
namespace Gama.Gkf
open Gama.Lit

/-! ### the tree -/

/-- an empty element `<tag attrs/>` with the real attribute values -/
structure Leaf' where
  tag : Tag
  attrs : List CAttr
  deriving Repr

/-- `<cov-mat dim=".." band="..">text</cov-mat>` (the text arrives in any number of pieces) -/
structure CovEl' where
  attrs : List CAttr
  text : List (List Char)
  deriving Repr

/-- a cluster; `pd` = "the Cholesky test of its covariance matrix passes" (the one input bit of `Gkf.crun`) -/
structure Cluster' where
  kind : ClusterKind
  attrs : List CAttr
  items : List Leaf'
  cov : Option CovEl'
  pd : Bool
  deriving Repr

inductive POItem' where
  | point (l : Leaf')
  | cluster (c : Cluster')
  deriving Repr

inductive NetItem' where
  | description (text : List (List Char))
  | parameters (attrs : List CAttr)
  | pointsObs (attrs : List CAttr) (items : List POItem')
  deriving Repr

structure Doc' where
  attrs : List CAttr           -- of <gama-local>
  netAttrs : List CAttr        -- of <network>
  items : List NetItem'
  deriving Repr

/-! ### its SAX events (what `Gkf.crun` is fed) -/

def Leaf'.events (l : Leaf') : List CEvent := [.start l.tag l.attrs, .stop true]

def CovEl'.events (c : CovEl') : List CEvent := .start .cov_mat c.attrs :: (c.text.map CEvent.text ++ [.stop true])

def Cluster'.events (c : Cluster') : List CEvent :=
  .start c.kind.tag c.attrs ::
    (c.items.flatMap Leaf'.events ++ ((match c.cov with | some cv => cv.events | none => []) ++ [.stop c.pd]))

def POItem'.events : POItem' → List CEvent
  | .point l => l.events
  | .cluster c => c.events

def NetItem'.events : NetItem' → List CEvent
  | .description text => .start .description [] :: (text.map CEvent.text ++ [.stop true])
  | .parameters as => [.start .parameters as, .stop true]
  | .pointsObs as items => .start .points_observations as :: (items.flatMap POItem'.events ++ [.stop true])

def Doc'.events (d : Doc') : List CEvent :=
  .start .gama_xml d.attrs :: .start .network d.netAttrs :: (d.items.flatMap NetItem'.events ++ [.stop true, .stop true])

/-! ### its shape: the document of Model/GkfGrammar.lean (names, "value is non-empty") -/

def Leaf'.abs (l : Leaf') : Leaf := ⟨l.tag, absAttrs l.attrs⟩
def CovEl'.abs (c : CovEl') : CovEl := ⟨absAttrs c.attrs, c.text⟩
def Cluster'.abs (c : Cluster') : Cluster := ⟨c.kind, absAttrs c.attrs, c.items.map Leaf'.abs, c.cov.map CovEl'.abs⟩
def POItem'.abs : POItem' → POItem
  | .point l => .point l.abs
  | .cluster c => .cluster c.abs
def NetItem'.abs : NetItem' → NetItem
  | .description text => .description text
  | .parameters as => .parameters (absAttrs as)
  | .pointsObs as items => .pointsObs (absAttrs as) (items.map POItem'.abs)
def Doc'.abs (d : Doc') : Doc := ⟨absAttrs d.attrs, absAttrs d.netAttrs, d.items.map NetItem'.abs⟩

/-! ### documented rules per element (hand-written from xml/gama-local.xsd and the manual) -/

/-- value of the attribute `n` (XML: attribute names are unique; were one repeated, the last would count) -/
def attrVal (as : List CAttr) (n : String) : Option (List Char) :=
  (as.reverse.find? (fun a => a.name == n)).map (fun a => a.val)

/-- … as a string, empty when the attribute is not given -/
def attrStr (as : List CAttr) (n : String) : List Char := (attrVal as n).getD []

/-- the standpoint of an observation: its own `from` when the attribute is given (also when given as the empty
    string: then there is none), else the `from` of the enclosing `<obs>` -/
def effFrom (inh : List Char) (as : List CAttr) : List Char :=
  match attrVal as "from" with
  | some v => v
  | none => inh

inductive Rule where
  | req (n : String)                -- attribute `n` is given and not empty
  | reqId (n : String)              -- … and not blank (a point id)
  | reqFrom                         -- `from` is given, or inherited from `<obs from=..>`
  | inherited                       -- the enclosing `<obs>` has a `from` (a `<direction>` has no `from` of its own)
  | pair (a b : String)             -- `a` given ⇒ `b` given
  | positive (n : String) (c : Conv)  -- the value of `n` is > 0
  | distinctFrom (n : String)       -- the standpoint and the point `n` are different points
  | less (a b : String)             -- index `a` < index `b`
  deriving DecidableEq, Repr

/-- the element a handler key stands for: `<point>` (both contexts) is `point_`, every `<cov-mat>` is `cov_` -/
def docRules : Handler → List Rule
  | .point_ => [.reqId "id", .pair "x" "y", .pair "y" "x"]
  | .direction_ => [.inherited, .req "to", .req "val"]
  | .distance_ => [.reqFrom, .req "to", .req "val", .positive "val" .dbl]
  | .sdistance_ => [.reqFrom, .req "to", .req "val", .positive "val" .dbl]
  | .zangle_ => [.reqFrom, .req "to", .req "val", .positive "val" .angle]
  | .azimuth_ => [.reqFrom, .req "to", .req "val"]
  | .angle_ => [.reqFrom, .req "bs", .req "fs", .req "val", .distinctFrom "fs"]
  | .dh_ => [.req "from", .req "to", .req "val"]
  | .vec_ => [.req "from", .req "to", .req "dx", .req "dy", .req "dz"]
  | .cov_ => [.req "dim", .req "band", .less "band" "dim"]
  | _ => []

/-- does the element with attributes `as`, inside an `<obs from=inh>` (`inh = []` elsewhere), meet the rule? -/
def ruleOk (inh : List Char) (as : List CAttr) : Rule → Bool
  | .req n => !(attrStr as n).isEmpty
  | .reqId n => !(normId (attrStr as n)).isEmpty
  | .reqFrom => !(effFrom inh as).isEmpty
  | .inherited => !inh.isEmpty
  | .pair a b => (attrStr as a).isEmpty || !(attrStr as b).isEmpty
  | .positive n c => isPos c (attrStr as n)
  | .distinctFrom n => normId (effFrom inh as) != normId (attrStr as n)
  | .less a b =>
    match toIndex (attrStr as a), toIndex (attrStr as b) with
    | some x, some y => x < y
    | _, _ => false

/-- the key of the documented tables (`docCheck`, `docNames`, `docRules`) for an element -/
def tagHandler : Tag → Handler
  | .gama_xml => .gama_xml_
  | .network => .network_
  | .parameters => .parameters_
  | .points_observations => .point_obs_
  | .point_ => .point_
  | .obs => .obs_
  | .cov_mat => .cov_
  | .direction => .direction_
  | .distance => .distance_
  | .angle => .angle_
  | .s_distance => .sdistance_
  | .z_angle => .zangle_
  | .azimuth => .azimuth_
  | .height_differences => .hdiffs_
  | .dh => .dh_
  | .coordinates => .coords_
  | .vectors => .vectors_
  | .vec => .vec_
  | .description => .obs_cov_        -- no attributes, no rules
  | .unknown => .obs_cov_

def rulesOk (inh : List Char) (t : Tag) (as : List CAttr) : Bool := (docRules (tagHandler t)).all (ruleOk inh as)

/-- every attribute is documented for the element and its value is in the documented language / range -/
def attrsDocOk (t : Tag) (as : List CAttr) : Bool :=
  as.all (fun a => (docNames (tagHandler t)).contains a.name && match docCheck (tagHandler t) a.name with
    | some d => entryOk d a.val
    | none => false)

/-! ### clusters -/

/-- observations an item contributes to its cluster: 1 per observation / `<dh>`, the three components of a `<vec>`,
    x and y and/or z of a `<point>` inside `<coordinates>` -/
def Leaf'.count (l : Leaf') : Nat :=
  match l.tag with
  | .vec => 3
  | .point_ => (if nonEmptyAttr l.attrs "x" then 2 else 0) + (if nonEmptyAttr l.attrs "z" then 1 else 0)
  | _ => 1

def Cluster'.count (c : Cluster') : Nat := (c.items.map Leaf'.count).sum

/-- what the items of the cluster inherit: the `from` of `<obs>` -/
def Cluster'.inh (c : Cluster') : List Char := if c.kind == .obs then attrStr c.attrs "from" else []

/-- number of elements of the upper band of a symmetric `dim × dim` matrix with bandwidth `band < dim` (the manual:
    "the upper triangle of the band, row by row"): `Σ_{r<dim} min(band+1, dim−r)` in closed form
    (`C11_cov_count_formula` proves the sum; `band_elems_table` compares with the formula read from `finish_cov`) -/
def bandElems (dim band : Nat) : Nat := dim * (band + 1) - band * (band + 1) / 2

def CovEl'.dim (cv : CovEl') : Nat := (toIndex (attrStr cv.attrs "dim")).getD 0
def CovEl'.band (cv : CovEl') : Nat := (toIndex (attrStr cv.attrs "band")).getD 0

/-- `<cov-mat>` of a cluster with `n` observations: rules of the element, `dim = n`, the number of words of the text is
    the number of elements of the band -/
def CovEl'.valid (n : Nat) (cv : CovEl') : Bool :=
  rulesOk [] .cov_mat cv.attrs && toIndex (attrStr cv.attrs "dim") == some n &&
  (Cov.words cv.text.flatten).length == bandElems cv.dim cv.band

def Cluster'.valid (c : Cluster') : Bool :=
  rulesOk [] c.kind.tag c.attrs && c.items.all (fun l => rulesOk c.inh l.tag l.attrs) &&
  (match c.cov with | some cv => cv.valid c.count | none => true) && c.pd

def POItem'.valid : POItem' → Bool
  | .point l => rulesOk [] l.tag l.attrs
  | .cluster c => c.valid

def NetItem'.valid : NetItem' → Bool
  | .description _ => true
  | .parameters as => rulesOk [] .parameters as
  | .pointsObs as items => rulesOk [] .points_observations as && items.all POItem'.valid

/-- the document is a document of the documented grammar and meets every documented rule (see the header) -/
def Doc'.valid (d : Doc') : Bool :=
  d.abs.valid && rulesOk [] .gama_xml d.attrs && rulesOk [] .network d.netAttrs && d.items.all NetItem'.valid

/-! ### values -/

def Leaf'.valuesOk (l : Leaf') : Bool := attrsDocOk l.tag l.attrs
def CovEl'.valuesOk (cv : CovEl') : Bool :=
  attrsDocOk .cov_mat cv.attrs && (Cov.words cv.text.flatten).all toDoubleOk
def Cluster'.valuesOk (c : Cluster') : Bool :=
  attrsDocOk c.kind.tag c.attrs && c.items.all Leaf'.valuesOk &&
  (match c.cov with | some cv => cv.valuesOk | none => true)
def POItem'.valuesOk : POItem' → Bool
  | .point l => l.valuesOk
  | .cluster c => c.valuesOk
def NetItem'.valuesOk : NetItem' → Bool
  | .description _ => true
  | .parameters as => attrsDocOk .parameters as
  | .pointsObs as items => attrsDocOk .points_observations as && items.all POItem'.valuesOk

/-- every attribute value in its documented language and range; every covariance element a finite float -/
def Doc'.valuesOk (d : Doc') : Bool :=
  attrsDocOk .gama_xml d.attrs && attrsDocOk .network d.netAttrs && d.items.all NetItem'.valuesOk

end Gama.Gkf
