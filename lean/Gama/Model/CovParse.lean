/-
  `<cov-mat>` handling of `GNU_gama::local::GKFparser` (lib/gnu_gama/xml/gkfparser.cpp), as coded:
  `process_cov`, `finish_cov`, `finish_obs`, `finish_hdiffs`, `finish_coords`, `finish_vectors`.
  Core Lean only.

  `error(text)` (CoreParser::error) stores only the FIRST error and execution continues; the
  callers ignore the return value of `finish_cov`.  The model keeps `err : Option PErr` with the
  same "first error wins" rule and continues exactly like the C++.

  Input abstraction (MODELLED, owned by C11): an attribute is `missing` (absent or ""),
  `bad` (`toIndex` fails) or `val n`; the character data of `<cov-mat>` is the list of its
  white-space separated words, each with the result of `toDouble` (`none` = not a number).

  `dimCheck` : whether `finish_obs` / `finish_hdiffs` compare `idim` with the number of
  observations of the cluster.  The code does since /repo 410fb36 (`dimCheck = true`, `finishObs`,
  `finishHdiffs` below); `dimCheck = false` is the code before that fix (finding F9, kept so that
  the regression witness in corpus/C10 can still be stated).  tools/props/c10.py reads the guard
  from the source on every run and fails the tie if it is gone.
-/
import Gama.Model.Packed
import Gama.Model.ActiveCov
import Gama.Model.BandChol
namespace Gama.Cov.CovParse
open Gama.Cov

inductive PErr where
  | UndefinedAttr | MissingDim | MissingBand | BadDim | BadBand
  | TooMany | BadElement | NotEnough
  | WithoutCov | DimDiffers | NotPD
  deriving Repr, DecidableEq, Inhabited

def PErr.name : PErr → String
  | .UndefinedAttr => "UndefinedAttr" | .MissingDim => "MissingDim" | .MissingBand => "MissingBand"
  | .BadDim => "BadDim" | .BadBand => "BadBand" | .TooMany => "TooMany" | .BadElement => "BadElement"
  | .NotEnough => "NotEnough" | .WithoutCov => "WithoutCov" | .DimDiffers => "DimDiffers" | .NotPD => "NotPD"

inductive Attr where
  | missing | bad | val (n : Nat)
  deriving Repr, DecidableEq

/-- the parser members involved -/
structure St (K : Type) where
  idim  : Nat := 0
  iband : Nat := 0
  data  : List (Option K) := []      -- words of `cov_mat_data`
  err   : Option PErr := none        -- `errCode != 0` / `errString`
  deriving Repr

variable {K : Type}

/-- `CoreParser::error` : store only the first detected error -/
def St.error (s : St K) (e : PErr) : St K := if s.err.isSome then s else { s with err := some e }

/-- `GKFparser::process_cov(atts)`; `undefAttr` = some attribute other than dim / band present -/
def processCov (s : St K) (undefAttr : Bool) (sdim sband : Attr) : St K :=
  if undefAttr then s.error .UndefinedAttr else
  match sdim, sband with
  | .missing, _ => s.error .MissingDim
  | _, .missing => s.error .MissingBand
  | .bad, _ => s.error .BadDim
  | .val d, .bad => ({ s with idim := d }).error .BadBand
  | .val d, .val b =>
    let s1 := { s with idim := d, iband := b }
    if d < 1 then s1.error .BadDim
    else if b ≥ d then s1.error .BadBand      -- `isNegative(iband) || iband >= idim`
    else s1

/-- the `while` loop of `finish_cov` over the words -/
def fillLoop [Zero K] (idim iband : Nat) :
    List (Option K) → (elements : Int) → (row col : Nat) → CovMat K → Except PErr (Int × CovMat K)
  | [], el, _, _, m => .ok (el, m)
  | w :: ws, el, row, col, m =>
    if el = 0 then .error .TooMany else
    match w with
    | none => .error .BadElement
    | some d =>
      match m.set row col d with
      | .error _ => .error .BadElement      -- unreachable (BadIndex): (row,col) is inside the band
      | .ok m' =>
        let col1 := col + 1
        if col1 > row + iband ∨ col1 > idim then fillLoop idim iband ws (el - 1) (row + 1) (row + 1) m'
        else fillLoop idim iband ws (el - 1) row col1 m'

/-- `GKFparser::finish_cov(cov_mat)` : new parser state and the cluster's matrix.
    On an error the matrix is left partially filled and `idim`, `cov_mat_data` are NOT reset. -/
def finishCov [Zero K] (s : St K) : St K × CovMat K :=
  let m0 : CovMat K := CovMat.mk' s.idim s.iband 0
  match fillLoop s.idim s.iband s.data (Packed.size s.idim s.iband) 1 1 m0 with
  | .error e => (s.error e, m0)
  | .ok (el, m) =>
    if el ≠ 0 then (s.error .NotEnough, m)
    else ({ s with idim := 0, data := [] }, m)

/-- covariance matrix from the per-observation standard deviations:
    `reset(N,0); *c = s.first*s.first` -/
def diagFromSigma [Mul K] (sigma : List (K × Bool)) : CovMat K :=
  ⟨sigma.length, 0, (sigma.map fun p => p.1 * p.1).toArray⟩

section numeric
variable [Scalar K]

/-- `1.0/0.324` -/
def sexScale : K := Scalar.ofNat 1 / Scalar.ofSci 324 true 3

/-- the `try { … scaleCov … tmp.cholDec(); } catch(...)` block; `true` = something was thrown -/
def checkThrows (scale : Bool) (sigma : List (K × Bool)) (cov : CovMat K) : Bool :=
  let scaled : Except Err (CovMat K) :=
    if scale then
      (List.range' 1 sigma.length).foldlM (fun (c : CovMat K) i =>
        if (sigma.getD (i - 1) (0, false)).2 then scaleCov c i (sexScale : K) else .ok c) cov
    else .ok cov
  match scaled with
  | .error _ => true
  | .ok c => match cholDecPtr c with
    | .error _ => true
    | .ok _ => false

/-- the scaled matrix actually kept in the cluster (`scaleCov` acts on the cluster's matrix) -/
def scaledCov (sigma : List (K × Bool)) (cov : CovMat K) : CovMat K :=
  (List.range' 1 sigma.length).foldl (fun (c : CovMat K) i =>
      if (sigma.getD (i - 1) (0, false)).2 then
        match scaleCov c i (sexScale : K) with | .ok c' => c' | .error _ => c
      else c) cov

/-- `GKFparser::finish_obs` (`isObs = true`) and `finish_hdiffs` (`isObs = false`).
    `sigma` has one entry per observation of the cluster (pushed by every process_<observation>). -/
def finishObsWith (dimCheck isObs checkCov : Bool) (s : St K) (sigma : List (K × Bool)) : St K × CovMat K :=
  let nobs := sigma.length
  if dimCheck && decide (s.idim ≠ 0) && decide (s.idim ≠ nobs) then
    (s.error .DimDiffers, CovMat.mk' 0 0 0)
  else
  let (s1, cov) : St K × CovMat K :=
    if s.idim ≠ 0 then finishCov s else (s, diagFromSigma sigma)
  if checkCov then
    if checkThrows isObs sigma cov then (s1.error .NotPD, cov)
    else (s1, if isObs then scaledCov sigma cov else cov)
  else (s1, cov)

/-- `GKFparser::finish_obs` as coded (since 410fb36) -/
def finishObs (checkCov : Bool) (s : St K) (sigma : List (K × Bool)) : St K × CovMat K :=
  finishObsWith true true checkCov s sigma

/-- `GKFparser::finish_hdiffs` as coded (since 410fb36) -/
def finishHdiffs (checkCov : Bool) (s : St K) (sigma : List (K × Bool)) : St K × CovMat K :=
  finishObsWith true false checkCov s sigma

/-- `GKFparser::finish_coords` / `finish_vectors` (`nobs = observation_list.size()`) -/
def finishCoords (checkCov : Bool) (s : St K) (nobs : Nat) : St K × CovMat K :=
  if s.idim = 0 then (s.error .WithoutCov, CovMat.mk' 0 0 0)
  else if s.idim ≠ nobs then (s.error .DimDiffers, CovMat.mk' 0 0 0)
  else
    let (s1, cov) := finishCov s
    if checkCov then
      if checkThrows false [] cov then (s1.error .NotPD, cov) else (s1, cov)
    else (s1, cov)

end numeric

/-! ### driver entry (core Lean; `Rat` only — parsing decisions are sqrt-free) -/

end Gama.Cov.CovParse
