/-
  C11 — the round trip "gama-local writes the adjustment XML, `LocalNetworkAdjustmentResults::read_xml` reads it":
  the READER automaton (Model/AdjResRun.lean over the GENERATED tables of Gen/AdjResAutomaton.lean) interpreted
  abstractly over the WRITER's element skeleton (`Sk`, Model/XmlDoc.lean; the skeleton of `LocalNetworkXML::write` is
  REGENERATED into Gen/XmlSkeleton.lean by property C12).  Core Lean only.

    expatText / tokEvents / readerEvents   what expat hands to the reader's three handlers for a token sequence
    LeafKind / leafKind                    the language an operand streamed inside `<tag>` must belong to (DATA side)
    GenD                                   `Gen` (the token sequences a skeleton produces) with every operand in `leafKind tag`
    Ctl / Ctl.holds                        the finite control of the reader: state, element stack, summary stage, point flags,
                                           what is known about the pooled character data / the last `get_string`, whether the
                                           covariance iterators are assigned
    absOp / absStart / absStop / absTok    one statement / one callback / one skeleton token on the control; `none` = the
                                           reader could record an error there
    absRun                                 regular expression × finite control: `seq` threads sets of controls, `alt` joins,
                                           `star` iterates to a fixed point (and checks it)
    opDemand / evDemand / RunDemand        the two NUMERIC tests of `<cov-mat>` that the control cannot decide
                                           (`band(false)`: dimension / band width / `dim ≤ unknowns`; `cov_mat(false)`: all
                                           elements were stored), as conditions on the reader's state at those events
-/
import Gama.Model.AdjResRun
import Gama.Model.XmlDoc
namespace Gama.AdjRes
open Gama.Lit

/-! ### tokens → SAX events -/

def byteChar (b : UInt8) : Char := Char.ofNat b.toNat

/-- character data / an attribute value as expat delivers it: predefined entities and character references replaced
    (`XmlEsc.unescape`; bytes that are no reference are passed through), one `char` per byte -/
def expatText (b : XmlEsc.Bytes) : List Char := ((XmlEsc.unescape b).getD b).map byteChar

def evAttrs (as : List (String × XmlEsc.Bytes)) : List (String × String) :=
  as.map (fun a => (a.1, String.ofList (expatText a.2)))

/-- the callbacks one token causes: the XML declaration and comments reach none of the three handlers; an empty-element
    tag is a start followed by an end; character data is delivered (possibly in pieces — the reader appends them) -/
def tokEvents : XmlDoc.Tok → List Event
  | .decl => []
  | .comment _ => []
  | .stag n as e => .start n (evAttrs as) :: (if e then [.stop] else [])
  | .etag _ => [.stop]
  | .chars b => [.text (expatText b)]

def readerEvents : List XmlDoc.Tok → List Event
  | [] => []
  | t :: r => tokEvents t ++ readerEvents r

/-! ### the data side: languages of operands -/

inductive LeafKind where
  | any
  | int
  | float
  | str (allowed : List String)
  deriving DecidableEq, Repr

def LeafKind.lang : LeafKind → List Char → Prop
  | .any, _ => True
  | .int, d => isInteger d = true
  | .float, d => isFloat d = true
  | .str al, d => al.contains (String.ofList (getString d)) = true

/-- which language the writer's operand inside `<tag>` is in (what `operator<<` prints there: an `int` / `size_t`, a
    `double`, one of two words; anything for identifiers and free text).  A hand table, CHECKED on both sides: that it is what the
    reader asks for at every element the writer streams is checked by `absRun`; that it is the kind of the format in force
    at every site of that name in C12's regenerated format table is `C11_leafKind_is_site_format`
    (Props/C11AdjResRender.lean). -/
def intTags : List String :=
  ["count-xyz", "count-xy", "count-z", "distances", "directions", "angles", "xyz-coords", "h-diffs", "z-angles",
   "s-dists", "vectors", "azimuths", "equations", "unknowns", "degrees-of-freedom", "defect",
   "linearization-iterations", "dim", "band", "ind"]

def floatTags : List String :=
  ["sum-of-squares", "apriori", "aposteriori", "probability", "ratio", "lower", "upper", "confidence-scale",
   "x", "y", "z", "X", "Y", "Z", "major", "minor", "alpha", "approx", "adj", "flt", "obs", "stdev", "qrr", "f",
   "std-residual"]

def leafKind (tag : String) : LeafKind :=
  if intTags.contains tag then .int
  else if floatTags.contains tag then .float
  else if tag == "used" then .str ["apriori", "aposteriori"]
  else .any

/-- attribute values the reader compares with a constant: the writer streams the macro `XSD_GAMA_LOCAL_ADJUSTMENT`
    (lib/gnu_gama/xml/localnetworkxml.cpp:314) as `xmlns`.  A hand table, again the CLAIM about the writer. -/
def attrReq (el attr : String) : Option String :=
  if el == "gama-local-adjustment" && attr == "xmlns" then some "http://www.gnu.org/software/gama/gama-local-adjustment"
  else none

/-- `Conc` with the operand in the language of its element, and the attribute values the table names -/
def ConcD (t : XmlDoc.TokSk) (c : XmlDoc.Tok) : Prop :=
  XmlDoc.Conc t c ∧
  (∀ tag k e b, t = .text tag k e → c = .chars b → (leafKind tag).lang (expatText b)) ∧
  (∀ n cs e, c = .stag n cs e → ∀ a ∈ cs, ∀ v, attrReq n a.1 = some v → String.ofList (expatText a.2) = v)

/-- the token sequences a skeleton produces whose operands are in the language of their element -/
inductive GenD : XmlDoc.Sk → List XmlDoc.Tok → Prop
  | eps : GenD .eps []
  | tok {t : XmlDoc.TokSk} {c : XmlDoc.Tok} : ConcD t c → GenD (.tok t) [c]
  | seq {a b : XmlDoc.Sk} {u v : List XmlDoc.Tok} : GenD a u → GenD b v → GenD (.seq a b) (u ++ v)
  | altL {a b : XmlDoc.Sk} {u : List XmlDoc.Tok} : GenD a u → GenD (.alt a b) u
  | altR {a b : XmlDoc.Sk} {u : List XmlDoc.Tok} : GenD b u → GenD (.alt a b) u
  | starNil {a : XmlDoc.Sk} : GenD (.star a) []
  | starCons {a : XmlDoc.Sk} {u v : List XmlDoc.Tok} : GenD a u → GenD (.star a) v → GenD (.star a) (u ++ v)

/-! ### the finite control -/

inductive DataAbs where
  | empty                 -- `data` is empty
  | blank                 -- only white space
  | opnd (k : LeafKind)   -- exactly one operand, in the language `k`
  | any
  deriving DecidableEq, Repr

def DataAbs.holds : DataAbs → List Char → Prop
  | .empty, d => d = []
  | .blank, d => d.all isSpace = true
  | .opnd k, d => k.lang d
  | .any, _ => True

/-- what is known of the six `point_has_*` / `point_con_*` flags (`none`: nothing) -/
structure FlagsAbs where
  hasX : Option Bool
  hasY : Option Bool
  hasZ : Option Bool
  conX : Option Bool
  conY : Option Bool
  conZ : Option Bool
  deriving DecidableEq, Repr

def FlagsAbs.get (F : FlagsAbs) : Flag → Option Bool
  | .hasX => F.hasX | .hasY => F.hasY | .hasZ => F.hasZ | .conX => F.conX | .conY => F.conY | .conZ => F.conZ

def FlagsAbs.set (F : FlagsAbs) (f : Flag) (v : Option Bool) : FlagsAbs :=
  match f with
  | .hasX => { F with hasX := v } | .hasY => { F with hasY := v } | .hasZ => { F with hasZ := v }
  | .conX => { F with conX := v } | .conY => { F with conY := v } | .conZ => { F with conZ := v }

def FlagsAbs.unknown : FlagsAbs := ⟨none, none, none, none, none, none⟩
def FlagsAbs.allFalse : FlagsAbs := ⟨some false, some false, some false, some false, some false, some false⟩

structure Ctl where
  state : State
  stack : List Handler
  stage : Nat
  flags : FlagsAbs
  data : DataAbs
  /-- the local `s` of `used(false)` is one of these words -/
  str : Option (List String)
  /-- `tmp_i` / `tmp_e` is assigned (and not dangling) -/
  itI : Bool
  itE : Bool
  deriving DecidableEq, Repr

def Ctl.init : Ctl := { state := .start_, stack := [], stage := 0, flags := .allFalse, data := .empty, str := none, itI := false, itE := false }

/-- the reader states a control stands for: no error recorded so far, and the fields agree -/
def Ctl.holds (c : Ctl) (st : St) : Prop :=
  st.err = none ∧ st.state = c.state ∧ st.stack = c.stack ∧ st.stage = c.stage ∧ (∀ f b, c.flags.get f = some b → st.flag f = b) ∧
  c.data.holds st.data ∧ (∀ al, c.str = some al → al.contains (String.ofList st.str) = true) ∧
  (c.itI = true → st.iterI.isSome = true) ∧ (c.itE = true → st.iterE.isSome = true)

/-- what the control knows of the attributes of a start tag: the names the writer may stream, and the value where it is
    a literal of the source or named by `attrReq` -/
def knownAttrs (el : String) (as : List XmlDoc.AttrSk) : List (String × Option String) :=
  as.map (fun a => (a.name, match a.val with
    | .lit s => some (String.ofList (expatText (XmlDoc.bytesOf s)))
    | .op _ _ => attrReq el a.name))

def absAttr (names : List (String × AttrKind)) (a : String × Option String) : Bool :=
  match names.find? (fun p => p.1 == a.1) with
  | some (_, .plain) => true
  | some (_, .equals c _) => a.2 == some c
  | _ => false

/-- one statement of a handler on the control; `none`: an error could be recorded (or the statement is not supported:
    `<error>` documents are not written by `LocalNetworkXML::write`) -/
def absOp (op : Op) (as : List (String × Option String)) (c : Ctl) : Option Ctl :=
  match op with
  | .push h => some { c with stack := h :: c.stack }
  | .setState s => if c.state = .error_ then none else some { c with state := s }
  | .assignState s => some { c with state := s }
  | .attrs names _ => if as.all (absAttr names) then some c else none
  | .needCategory _ => none
  | .getInt _ => if c.data = .opnd .int then some c else none
  | .getFloat => if c.data = .opnd .float then some c else none
  | .getString .none => some c
  | .getString .s =>
    (match c.data with
     | .opnd (.str al) => some { c with str := some al }
     | _ => none)
  | .checkData => if c.data = .empty ∨ c.data = .blank then some { c with data := .empty } else none
  | .clearCategory => some c
  | .stageSet k => some { c with stage := k }
  | .stageSwitch cases _ => if cases.contains c.stage = true ∧ c.data = .opnd .int then some c else none
  | .requireState ss _ => if ss.all (fun s => c.state != s) then none else some c
  | .requireFlagEq a b _ =>
    (match c.flags.get a, c.flags.get b with
     | some x, some y => if x = y then some c else none
     | _, _ => none)
  | .setFlag f v => some { c with flags := c.flags.set f (some v) }
  | .covGuard _ => some c
  | .covReset => some { c with itI := false, itE := false }
  | .iterBegin => some { c with itI := true }
  | .iterEnd => some { c with itE := true }
  | .iterErr g _ _ =>
    (match g with
     | some s => if c.state = s then some c else none
     | none => some c)
  | .store _ => if c.data = .opnd .float ∧ c.itI = true ∧ c.itE = true then some c else none
  | .requireString allowed _ =>
    (match c.str with
     | some al => if al.all allowed.contains then some c else none
     | none => none)
  | .error _ => none
  | .data => some c
  | .book _ => some c

/-- the statements whose outcome depends on numbers the control does not carry: `true` iff the test passes -/
def opDemand (op : Op) (st : St) : Bool :=
  match op with
  | .covGuard _ =>
    !(st.dim < 0 || st.band < 0 || st.band > max (st.dim - 1) 0 || (st.band + 1) * st.dim > intMax ||
      (covGuardUnknowns && st.dim > st.unknowns))
  | .iterErr _ w _ => st.iterCmp == some (!w)
  | _ => true

def absOps : List Op → List (String × Option String) → Ctl → Option Ctl
  | [], _, c => some c
  | op :: r, as, c =>
    match absOp op as c with
    | some c' => absOps r as c'
    | none => none

def opsDemand : List Op → List (String × String) → St → Bool
  | [], _, _ => true
  | op :: r, as, st => opDemand op st && opsDemand r as (execOp op as st).1

/-- statements decided by the control alone (the only ones a start handler may contain) -/
def noDemand : Op → Bool
  | .covGuard _ => false
  | .iterErr _ _ _ => false
  | _ => true

/-- `startElement`: `check_and_clear_data(); t = tag(name); (this->*tagfun[state][t])(true)`; `r` is the entry of the
    reader's tag table for the element name (resolved once per skeleton token, `resolve`) -/
def absStart (r : Option (Tag × Option Flag)) (ka : List (String × Option String)) (c : Ctl) : Option Ctl :=
  if c.data = .empty ∨ c.data = .blank then
    match r with
    | some (t, fo) =>
      let fl := match fo with
        | some f => c.flags.set f (some true)
        | none => c.flags
      if (startOps (tagfun c.state t)).all noDemand then
        absOps (startOps (tagfun c.state t)) ka { c with data := .empty, flags := fl }
      else none
    | none => none
  else none

def usesFlags : Op → Bool
  | .requireFlagEq _ _ _ => true
  | _ => false

def absStop (c : Ctl) : Option Ctl :=
  match c.stack with
  | [] => none
  | h :: rest =>
    match absOps (endOps h) [] { c with stack := rest } with
    | some c' =>
      -- the flags are forgotten once the handler that tests them has run (keeps the sets of controls small)
      some { c' with data := .empty, str := none,
                     flags := if (endOps h).any usesFlags then .unknown else c'.flags }
    | none => none

def absText (k : Option LeafKind) (c : Ctl) : Ctl :=
  match k, c.data with
  | some k, .empty => { c with data := .opnd k }
  | none, .empty => { c with data := .blank }
  | none, .blank => c
  | _, _ => { c with data := .any }

/-- a skeleton token as the reader meets it, the strings looked up in the reader's tables -/
inductive RTok where
  | skip                                                                           -- XML declaration, comment
  | start (r : Option (Tag × Option Flag)) (ka : List (String × Option String)) (empty : Bool)
  | stop
  | ws                                                                             -- white-space literal
  | junk                                                                           -- any other literal character data
  | opnd (k : LeafKind)
  deriving Repr

def resolve : XmlDoc.TokSk → RTok
  | .decl => .skip
  | .comment _ => .skip
  | .stag n as e => .start ((tagTable.find? (fun p => p.1 == n)).map (·.2)) (knownAttrs n as) e
  | .etag _ => .stop
  | .chars s => if (expatText (XmlDoc.bytesOf s)).all isSpace then .ws else .junk
  | .text tag _ _ => .opnd (leafKind tag)

def absRTok (t : RTok) (c : Ctl) : Option Ctl :=
  match t with
  | .skip => some c
  | .start r ka e =>
    (match absStart r ka c with
     | some c' => if e then absStop c' else some c'
     | none => none)
  | .stop => absStop c
  | .ws => some (absText none c)
  | .junk => some { c with data := .any }
  | .opnd k => some (absText (some k) c)

def absTok (t : XmlDoc.TokSk) (c : Ctl) : Option Ctl := absRTok (resolve t) c

/-- the skeleton with every token resolved -/
inductive SkC where
  | eps
  | tok (t : RTok)
  | seq (a b : SkC)
  | alt (a b : SkC)
  | star (a : SkC)

def compile : XmlDoc.Sk → SkC
  | .eps => .eps
  | .tok t => .tok (resolve t)
  | .seq a b => .seq (compile a) (compile b)
  | .alt a b => .alt (compile a) (compile b)
  | .star a => .star (compile a)

/-! ### regular expression × finite control -/

def ins (c : Ctl) (T : List Ctl) : List Ctl := if T.contains c then T else T ++ [c]
def union (A B : List Ctl) : List Ctl := B.foldl (fun T c => ins c T) A
def subset (A B : List Ctl) : Bool := A.all B.contains

/-- all controls reachable from one of `T` -/
def stepAll (f : Ctl → Option (List Ctl)) : List Ctl → Option (List Ctl)
  | [] => some []
  | c :: r =>
    match f c, stepAll f r with
    | some A, some B => some (union A B)
    | _, _ => none

/-- grow `T` until the loop body maps it into itself -/
def iter (f : Ctl → Option (List Ctl)) : Nat → List Ctl → Option (List Ctl)
  | 0, _ => none
  | n + 1, T =>
    match stepAll f T with
    | some R => if subset R T then some T else iter f n (union T R)
    | none => none

def absRun : SkC → Ctl → Option (List Ctl)
  | .eps, c => some [c]
  | .tok t, c => (absRTok t c).map (fun c' => [c'])
  | .seq a b, c =>
    match absRun a c with
    | some A => stepAll (absRun b) A
    | none => none
  | .alt a b, c =>
    match absRun a c, absRun b c with
    | some A, some B => some (union A B)
    | _, _ => none
  | .star a, c => iter (absRun a) 8 [c]

/-- the reader has read a complete document: `s_stop`, every element closed -/
def Ctl.final (c : Ctl) : Bool := c.state == .stop_ && c.stack.isEmpty

/-! ### the numeric side conditions along a run -/

def evDemand (st : St) : Event → Bool
  | .stop =>
    (match st.stack with
     | h :: rest => opsDemand (endOps h) [] { st with stack := rest }
     | [] => true)
  | _ => true

def RunDemand : St → List Event → Bool
  | _, [] => true
  | st, e :: r => evDemand st e && RunDemand (step st e) r

end Gama.AdjRes

/-! ### a canonical document of a skeleton (for examples): first branch of every conditional, one iteration of every loop -/

namespace Gama.AdjRes

def LeafKind.langB : LeafKind → List Char → Bool
  | .any, _ => true
  | .int, d => Lit.isInteger d
  | .float, d => Lit.isFloat d
  | .str al, d => al.contains (String.ofList (getString d))

def canonOperand (tag : String) : XmlEsc.Bytes :=
  if tag == "used" then XmlDoc.bytesOf "apriori" else if tag == "dim" then [49] else [48]

def canonAttr (el : String) (a : XmlDoc.AttrSk) : String × XmlEsc.Bytes :=
  (a.name, match a.val with
    | .lit s => XmlDoc.bytesOf s
    | .op _ _ => match attrReq el a.name with
      | some v => XmlDoc.bytesOf v
      | none => [])

def canonTok : XmlDoc.TokSk → XmlDoc.Tok
  | .decl => .decl
  | .stag n as e => .stag n (as.map (canonAttr n)) e
  | .etag n => .etag n
  | .comment s => .comment s
  | .chars s => .chars (XmlDoc.bytesOf s)
  | .text tag _ _ => .chars (canonOperand tag)

def operandGood (k : Gen.XmlSites.Kind) (b : XmlEsc.Bytes) : Bool :=
  match k with
  | .text => XmlEsc.str2xml b == b
  | .numeric => b.all XmlDoc.numChar
  | .const => b.all XmlDoc.constChar

def attrGood (el : String) (a : XmlDoc.AttrSk) : Bool :=
  match a.val with
  | .lit s =>
    (match attrReq el a.name with
     | some v => String.ofList (expatText (XmlDoc.bytesOf s)) == v
     | none => true)
  | .op k _ =>
    (match attrReq el a.name with
     | some v => k == .const && (XmlDoc.bytesOf v).all XmlDoc.constChar && String.ofList (expatText (XmlDoc.bytesOf v)) == v
     | none => true)

/-- the canonical token is one the skeleton token produces, with its operand in the language of the element -/
def tokGood : XmlDoc.TokSk → Bool
  | .stag n as _ => as.all (attrGood n)
  | .text tag k _ => operandGood k (canonOperand tag) && (leafKind tag).langB (expatText (canonOperand tag))
  | _ => true

def skGood : XmlDoc.Sk → Bool
  | .eps => true
  | .tok t => tokGood t
  | .seq a b => skGood a && skGood b
  | .alt a _ => skGood a
  | .star a => skGood a

def canonDoc : XmlDoc.Sk → List XmlDoc.Tok
  | .eps => []
  | .tok t => [canonTok t]
  | .seq a b => canonDoc a ++ canonDoc b
  | .alt a _ => canonDoc a
  | .star a => canonDoc a

end Gama.AdjRes
