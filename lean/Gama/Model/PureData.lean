/-
  `DataParser::pure_data(std::istream&)` and the formatted extractions in front of it (core Lean only).

  Every numeric element of the gama-g3 / adjustment input is read as `stringstream istr(text); if (pure_data(istr >> a >> b …))`.
  Modelled here:
    * the stream state that matters: the unread characters, `failbit`, `eofbit`;
    * `istr >> double` as libstdc++ does it (`num_get::_M_extract_float`, then `strtod` on the accumulated characters):
      skip white space (end of text there: failbit|eofbit); optional sign; digits; one `.`; digits; `e`/`E` only after a mantissa
      digit, then an optional sign, digits; the scan stops at the first character that does not fit and sets eofbit iff it
      ran into the end of the text; failbit iff the accumulated characters are not a complete number (no mantissa digit, or an
      exponent without digits: `-`, `+`, `.`, `1e`, `1e+`) or the value overflows; a stream that has failed extracts nothing;
    * `istr >> std::string` (a blank-delimited word);
    * `pure_data` itself, INTERPRETED from the generated order of its tests (`Gen/PureData.lean`), ending in
      `char j; if (istr >> j) return false; else return true;`.
-/
import Gama.Gen.PureData
import Gama.Model.Literals
namespace Gama.PD
open Gama.Lit

structure Stream where
  rest : List Char
  fail : Bool
  eof : Bool
  deriving Repr, DecidableEq

def Stream.ofText (s : List Char) : Stream := ⟨s, false, false⟩

/-- the characters `_M_extract_float` accumulates from `t` (no leading blanks): (a complete number?, the unread rest) -/
def scanDouble (t : List Char) : Bool × List Char :=
  let t1 := skipSign t
  let t2 := skipDigits t1
  let d1 := decide (t2.length < t1.length)
  let t3 := match t2 with
    | '.' :: r => r
    | r => r
  let t4 := skipDigits t3
  let d2 := decide (t4.length < t3.length)
  let mant := d1 || d2
  match t4 with
  | c :: r =>
    if isExp c && mant then
      let t6 := skipSign r
      let t7 := skipDigits t6
      (decide (t7.length < t6.length), t7)
    else (mant, t4)
  | [] => (mant, [])

/-- `istr >> f`, `f` a double -/
def extractDouble (st : Stream) : Stream :=
  if st.fail then st
  else
    match skipWs st.rest with
    | [] => ⟨[], true, true⟩
    | t =>
      let r := scanDouble t
      let acc := t.take (t.length - r.2.length)
      ⟨r.2, !(r.1 && finiteLit acc), r.2.isEmpty⟩

def skipWord : List Char → List Char
  | [] => []
  | c :: cs => if isSpace c then c :: cs else skipWord cs

/-- `istr >> s`, `s` a std::string -/
def extractWord (st : Stream) : Stream :=
  if st.fail then st
  else
    match skipWs st.rest with
    | [] => ⟨[], true, true⟩
    | t => ⟨skipWord t, false, (skipWord t).isEmpty⟩

/-- `istr >> n`, `n` an `int` (`unsigned = false`) or a `std::size_t` (`unsigned = true`): libstdc++ `num_get::_M_extract_int` in base 10:
    skip white space (end of text there: failbit|eofbit); optional sign (also for unsigned types: the value is negated modulo 2^64);
    the maximal run of digits; failbit iff there is no digit or the value does not fit (`int`: extracted as `long`, then
    `< INT_MIN` / `> INT_MAX` set failbit; `size_t`: magnitude ≥ 2^64); eofbit iff the scan ran into the end of the text -/
def extractInt (unsigned : Bool) (st : Stream) : Stream :=
  if st.fail then st
  else
    match skipWs st.rest with
    | [] => ⟨[], true, true⟩
    | t =>
      let neg := match t with
        | '-' :: _ => true
        | _ => false
      let t1 := skipSign t
      let t2 := skipDigits t1
      let has := decide (t2.length < t1.length)
      let v := digitsVal (t1.take (t1.length - t2.length))
      let fits := if unsigned then decide (v < 2 ^ 64) else if neg then decide (v ≤ 2 ^ 31) else decide (v < 2 ^ 31)
      ⟨t2, !(has && fits), t2.isEmpty⟩

/-- `pure_data`: the early returns in the generated order, then the trailing-junk test
    (`istr >> j` on a failed stream extracts nothing, so `if (istr >> j)` is false there) -/
def pureDataFrom : List PdTest → Stream → Bool
  | [], st => if st.fail then true else (skipWs st.rest).isEmpty
  | .failFalse :: r, st => if st.fail then false else pureDataFrom r st
  | .eofTrue :: r, st => if st.eof then true else pureDataFrom r st

def pureData (st : Stream) : Bool := pureDataFrom pureDataTests st

/-- what every extraction guarantees: `eofbit` is only set with nothing left to read -/
def Stream.Inv (st : Stream) : Prop := st.eof = true → st.rest = []

/-- one `>> x` of a chain `istr >> a >> b >> …` -/
inductive Extraction where | double | word | int | size
  deriving DecidableEq, Repr

def Extraction.run : Extraction → Stream → Stream
  | .double => extractDouble
  | .word => extractWord
  | .int => extractInt false
  | .size => extractInt true

/-- `pure_data(istr >> f)` on the text of an element -/
def numberOk (s : List Char) : Bool := pureData (extractDouble (Stream.ofText s))

end Gama.PD
