/-
  C13 — a CONCRETE `Rerun.Loader`: how the network the parser returns (`Export.Net`) becomes the `PD` / `OD` the loop of
  `refine_adjustment()` and `project_equations()` work on, and how the state of the loop is written back into the network
  `export_xml` reads (`unload`).  Core Lean only.

  Concrete (what the loop's state and `Describes` depend on):
    * `PD` order = order of the point list; a point id is its position (`pos`; an id that is not there ↦ the length, where
      `PD[id]` is a default-constructed, unused point);
    * `ptOf` : status and coordinates of a point (a missing coordinate group ↦ 0, as `LocalPoint()` has it);
    * `OD` in iteration order: clusters in list order, observations in list order; `<obs>`: one observation per element
      (`Angle`: `to` = bs, `fs`); `<height-differences>`: `H_Diff`; `<coordinates>`: `X`, `Y` (point has xy) then `Z`;
      `<vectors>`: `Xdiff`, `Ydiff`, `Zdiff`; `from_dh` / `to_dh` of `S_Distance` / `Z_Angle` (the only classes
      `refine_obsdh_reductions` looks at); reduction 0 (constructor);
    * `test_xyz()` = the point has both groups.
  PARAMETERS (`Conv`; what GKFparser's constructors / `LocalNetwork` compute and the loop does not change):
    * `val`    the stored `value_` of an observation from the number in the document (`dm*G2R`, y mirrored, …);
    * `cov`    the covariance matrix of a cluster (`stdev²`, `scaleCov`, `<cov-mat>`);
    * `orient` the orientation of a stand-point as the program has it when the loop starts (`Orientation`: computed from
               the approximate coordinates and the directions) — a function of the DOCUMENT, because the export does not
               contain orientations;
    * `xNorth` `PD.xNorthAngle()` from the network tag; `fuel`.
  `frame` holds no coordinates (`withState` overwrites `pt` entirely): it depends on ids, clusters, parameters only.
-/
import Gama.Model.ExportRerun
namespace Gama.Rerun
open Gama Gama.Lin Gama.RA Gama.Export

/-- position of a point id in `PD` (list order); the length when absent -/
def pos {K : Type} : List (Export.Point K) → String → Nat
  | [], _ => 0
  | p :: ps, id => if p.id = id then 0 else pos ps id + 1

def stOf : Export.St → Lin.Status
  | .unused => .unused | .fixed => .fixed | .free => .free | .constr => .constrained

/-- `PD[i]` as the linearisation reads it -/
def ptOf {K : Type} [Zero K] (p : Option (Export.Point K)) : Lin.Pt K :=
  match p with
  | some p => ⟨(p.xy.map (·.1)).getD 0, (p.xy.map (·.2)).getD 0, p.z.getD 0, stOf p.sxy, stOf p.sz⟩
  | none => ⟨0, 0, 0, .unused, .unused⟩

/-- the parts of the input stage the loop does not change -/
structure Conv (K : Type) where
  val : Lin.Kind → K → K
  cov : Export.Cluster K → Cov.CovMat K
  orient : Export.Net K → Nat → K
  xNorth : Export.Head K → K
  fuel : Nat

def kindOfObs : Export.Kind → Lin.Kind
  | .distance => .distance | .direction => .direction | .angle => .angle
  | .sdistance => .s_distance | .zangle => .z_angle | .azimuth => .azimuth

/-- the observations of cluster `k` in `OD` order -/
def clusterObs {K : Type} [Zero K] (cv : Conv K) (ps : List (Export.Point K)) (k : Nat) : Export.Cluster K → List (DObs K)
  | .obs sp _ => sp.obs.map fun o =>
      ⟨kindOfObs o.kind, k, pos ps o.from_, pos ps o.to, pos ps o.fs, cv.val (kindOfObs o.kind) o.val, o.fromDh, o.toDh, 0⟩
  | .hdiffs dhs _ => dhs.map fun h => ⟨.h_diff, k, pos ps h.from_, pos ps h.to, 0, cv.val .h_diff h.val, 0, 0, 0⟩
  | .coords _ pts _ => pts.flatMap fun c =>
      (match c.xy with
       | some v => [⟨.x, k, pos ps c.id, 0, 0, cv.val .x v.1, 0, 0, 0⟩, ⟨.y, k, pos ps c.id, 0, 0, cv.val .y v.2, 0, 0, 0⟩]
       | none => []) ++
      (match c.z with | some z => [⟨.z, k, pos ps c.id, 0, 0, cv.val .z z, 0, 0, 0⟩] | none => [])
  | .vectors vecs _ => vecs.flatMap fun v =>
      [⟨.xdiff, k, pos ps v.from_, pos ps v.to, 0, cv.val .xdiff v.dx, 0, 0, 0⟩,
       ⟨.ydiff, k, pos ps v.from_, pos ps v.to, 0, cv.val .ydiff v.dy, 0, 0, 0⟩,
       ⟨.zdiff, k, pos ps v.from_, pos ps v.to, 0, cv.val .zdiff v.dz, 0, 0, 0⟩]

def odFrom {K : Type} [Zero K] (cv : Conv K) (ps : List (Export.Point K)) : Nat → List (Export.Cluster K) → List (DObs K)
  | _, [] => []
  | k, c :: cs => clusterObs cv ps k c ++ odFrom cv ps (k + 1) cs

def peClusters {K : Type} [Zero K] (cv : Conv K) (ps : List (Export.Point K)) : Nat → List (Export.Cluster K) → List (PE.Cluster K)
  | _, [] => []
  | k, c :: cs =>
    { stand := (match c with | .obs sp _ => some (pos ps sp.station, some 0) | _ => none)
      cov := cv.cov c
      obs := (clusterObs cv ps k c).map fun d => ⟨true, d.kind, d.pfrom, d.pto, d.pfs, d.raw⟩ }
      :: peClusters cv ps (k + 1) cs

/-- **the concrete loader** -/
def docLoader {K : Type} [Zero K] (cv : Conv K) : Loader (Export.Net K) K :=
  { frame := fun n =>
      { points := n.points.map fun p => ⟨p.id, ⟨0, 0, 0, .unused, .unused⟩⟩
        clusters := peClusters cv n.points 0 n.clusters
        m0 := n.par.sigmaApr, xNorth := cv.xNorth n.head, fuel := cv.fuel, idx := IdxState.init }
    σ := fun n => ⟨fun i => ptOf n.points[i]?, cv.orient n, cv.xNorth n.head⟩
    xyz := fun n i => match n.points[i]? with | some p => p.xy.isSome && p.z.isSome | none => false
    obs := fun n => odFrom cv n.points 0 n.clusters }

/-- the coordinates of `PD[i]` written into the point (`export_xml` reads `point.x()`, `point.y()`, `point.z()`; a group the
    point does not have is not written) -/
def putCoords {K : Type} (q : Lin.Pt K) (p : Export.Point K) : Export.Point K :=
  { p with xy := p.xy.map (fun _ => (q.x, q.y)), z := p.z.map (fun _ => q.z) }

/-- **the network `export_xml` reads when the loop is in a state with coordinates `σ`**: the parsed network with the
    coordinates of `PD`; observations, parameters, statuses are not touched by the loop -/
def unload {K : Type} (n : Export.Net K) (σ : Lin.Net K) : Export.Net K :=
  { n with points := n.points.map fun p => putCoords (σ.pt (pos n.points p.id)) p }

/-- what the loop leaves alone, as a relation between the parsed network and a state: statuses, the zeros of missing
    coordinate groups, default points beyond `PD`, `xNorthAngle`, `test_xyz()`, the observations up to their reductions —
    and the ORIENTATIONS are those the program computes for the exported document (the export contains none) -/
structure SameShape {K : Type} [Zero K] [TrigScalar K] (cv : Conv K) (n : Export.Net K) (s : St K) : Prop where
  pts : ∀ i p, n.points[i]? = some p →
    (s.σ.pt i).sxy = stOf p.sxy ∧ (s.σ.pt i).sz = stOf p.sz ∧
    (p.xy = none → (s.σ.pt i).x = 0 ∧ (s.σ.pt i).y = 0) ∧ (p.z = none → (s.σ.pt i).z = 0)
  beyond : ∀ i, n.points[i]? = none → s.σ.pt i = ⟨0, 0, 0, .unused, .unused⟩
  xNorth : s.σ.xNorth = cv.xNorth n.head
  xyz : s.xyz = (docLoader cv).xyz n
  obs : s.obs.map fresh = (docLoader cv).obs n
  ori : s.σ.ori = cv.orient (unload n s.σ)

end Gama.Rerun
