/-
  Model of `Mat<>::invert(Float tol)` (lib/matvec/mat.h): Gauss–Jordan elimination with
  full pivoting on *implicit* row/column permutations `indr`, `indc`, followed by the two
  loops that undo the permutation by swapping physical rows and columns.

  Storage is modelled as a function from the offset `i*N + j` (`entry(i,j)`) to the scalar;
  the index arrays `Array<Index>` as functions `Nat → Nat`.  In-place assignment is function
  update, so "same decisions, same order" is literal and proofs need no bounds bookkeeping.

  Core Lean only.
-/
import Gama.Scalar
namespace Gama.MatVec

/-- `for (l = 0; l < n; l++) s = body l s` -/
def forUp {σ : Type} : Nat → (Nat → σ → σ) → σ → σ
  | 0, _, s => s
  | n+1, body, s => body n (forUp n body s)

/-- `a[i] = v` -/
def fset {α : Type} (f : Nat → α) (i : Nat) (v : α) : Nat → α := fun k => if k = i then v else f k

/-- `Array::swap(i,j)` -/
def fswap {α : Type} (f : Nat → α) (i j : Nat) : Nat → α :=
  fun k => if k = i then f j else if k = j then f i else f k

/-! ### The permutation-undo loops (generic in the element type) -/

/-- Loop state wrapper.  A loop whose state is itself a function would be compiled with the
    stored values recomputed at every read (the compiler merges the lambdas); wrapping the
    function in a structure makes every stored value be computed once, when it is stored.
    (`cnt` counts iterations and keeps the compiler from erasing the one-field wrapper.) -/
structure Box (α : Type) where
  val : α
  cnt : Nat

structure Undo (α : Type) where
  m        : Nat → α          -- the matrix, offset i*N + j
  perm     : Nat → Nat
  inv_perm : Nat → Nat

/-- swap physical rows `i` and `r`:  `for j: e = entry(i,j); entry(i,j) = entry(r,j); entry(r,j) = e` -/
def swapRows {α : Type} (N : Nat) (m : Nat → α) (i r : Nat) : Nat → α :=
  (forUp N (fun j (b : Box (Nat → α)) =>
    ⟨fset (fset b.val (i*N + j) (b.val (r*N + j))) (r*N + j) (b.val (i*N + j)), b.cnt + 1⟩) ⟨m, 0⟩).val

/-- swap physical columns `j` and `c` -/
def swapCols {α : Type} (N : Nat) (m : Nat → α) (j c : Nat) : Nat → α :=
  (forUp N (fun i (b : Box (Nat → α)) =>
    ⟨fset (fset b.val (i*N + j) (b.val (i*N + c))) (i*N + c) (b.val (i*N + j)), b.cnt + 1⟩) ⟨m, 0⟩).val

/-- ```
    for (i=0; i<N; i++)
      if (i != (r = perm[i])) {
          swap rows i, r;
          perm.entry(inv_perm[i]) = perm[i];
          inv_perm.swap(i, r);
      }
    ``` -/
def undoRows {α : Type} (N : Nat) (u : Undo α) : Undo α :=
  forUp N (fun i u =>
    let r := u.perm i
    if i ≠ r then
      { m := swapRows N u.m i r,
        perm := fset u.perm (u.inv_perm i) (u.perm i),
        inv_perm := fswap u.inv_perm i r }
    else u) u

def undoCols {α : Type} (N : Nat) (u : Undo α) : Undo α :=
  forUp N (fun j u =>
    let c := u.perm j
    if j ≠ c then
      { m := swapCols N u.m j c,
        perm := fset u.perm (u.inv_perm j) (u.perm j),
        inv_perm := fswap u.inv_perm j c }
    else u) u

/-- the whole tail of `invert` after the elimination: build `invr`, `invc`, then
    `perm[i] = indr[invc[i]]` / rows, `perm[i] = indc[invr[i]]` / columns -/
def undoPermutation {α : Type} (N : Nat) (indr indc : Nat → Nat) (m : Nat → α) : Nat → α :=
  -- for (i=0; i<N; i++) { invc.entry(indc[i]) = i; invr.entry(indr[i]) = i; }
  let inv := forUp N (fun i (p : (Nat → Nat) × (Nat → Nat)) => (fset p.1 (indc i) i, fset p.2 (indr i) i))
               ((fun _ => 0), (fun _ => 0))
  let invc := inv.1
  let invr := inv.2
  -- rows
  let pr := forUp N (fun i (p : (Nat → Nat) × (Nat → Nat)) =>
               let v := indr (invc i); (fset p.1 i v, fset p.2 v i)) ((fun _ => 0), (fun _ => 0))
  let u1 := undoRows N ⟨m, pr.1, pr.2⟩
  -- columns (perm / inv_perm are overwritten completely for i < N)
  let pc := forUp N (fun i (p : (Nat → Nat) × (Nat → Nat)) =>
               let v := indc (invr i); (fset p.1 i v, fset p.2 v i)) (u1.perm, u1.inv_perm)
  (undoCols N ⟨u1.m, pc.1, pc.2⟩).m

/-! ### Gauss–Jordan elimination -/

section
variable {K : Type} [Scalar K]

/-- `MatVecBase::Abs` : `(x >= Float()) ? x : -x` -/
def cabs (x : K) : K := if (0 : K) ≤ x then x else -x

structure GJ (K : Type) where
  m     : Nat → K
  indr  : Nat → Nat
  indc  : Nat → Nat
  p_row : Nat            -- declared outside the step loop: the values persist between steps
  p_col : Nat

inductive InvErr where
  | badRank | singular
deriving Repr, DecidableEq

/-- pivot search of one step: largest `|entry(indr[ii], indc[jj])|`, `step ≤ ii, jj < N`,
    first one wins on ties (`>`), starting from `pivot = 0` -/
def pivotSearch (N step : Nat) (g : GJ K) : K × Nat × Nat :=
  forUp (N - step) (fun a (acc : K × Nat × Nat) =>
    let ii := step + a
    let i := g.indr ii
    forUp (N - step) (fun b (acc : K × Nat × Nat) =>
      let jj := step + b
      let e := g.m (i*N + g.indc jj)
      if cabs acc.1 < cabs e then (e, ii, jj) else acc) acc) ((0 : K), g.p_row, g.p_col)

/-- one elimination step; `none` = `throw Exc(Exception::Singular, …)` -/
def gjStep (N : Nat) (tol : K) (step : Nat) (g : GJ K) : Option (GJ K) :=
  let (pivot, p_row, p_col) := pivotSearch N step g
  if cabs pivot ≤ tol then none else
  let indr := if step ≠ p_row then fswap g.indr step p_row else g.indr
  let indc := if step ≠ p_col then fswap g.indc step p_col else g.indc
  let invpivot := (1 : K) / pivot
  let m := fset g.m (indr step * N + indc step) (1 : K)
  let i := indr step
  -- (`Box`: the loop state is a structure, so every stored value is computed once, when stored)
  let m := (forUp N (fun j (b : Box (Nat → K)) => ⟨fset b.val (i*N + j) (b.val (i*N + j) * invpivot), b.cnt + 1⟩) ⟨m, 0⟩).val
  let m := (forUp N (fun row (b : Box (Nat → K)) =>
    if indr row ≠ indr step then
      let i := indr row
      let e := b.val (i*N + indc step)
      let b : Box (Nat → K) := ⟨fset b.val (i*N + indc step) (0 : K), b.cnt + 1⟩
      forUp N (fun j (b : Box (Nat → K)) =>
        ⟨fset b.val (i*N + j) (b.val (i*N + j) - e * b.val (indr step * N + j)), b.cnt + 1⟩) b
    else b) ⟨m, 0⟩).val
  some ⟨m, indr, indc, p_row, p_col⟩

/-- the elimination phase: `for (step=0; step<N; step++)` -/
def gjEliminate (N : Nat) (tol : K) : Nat → GJ K → Option (GJ K)
  | 0, g => some g
  | s+1, g => match gjEliminate N tol s g with
              | none => none
              | some g' => gjStep N tol s g'

/-- `Mat<>::invert(tol)` on an `rows × cols` matrix given by its storage -/
def invert (rows cols : Nat) (tol : K) (m : Nat → K) : Except InvErr (Nat → K) :=
  if rows ≠ cols then .error .badRank else
  let N := rows
  match gjEliminate N tol N ⟨m, id, id, 0, 0⟩ with
  | none => .error .singular
  | some g => .ok (undoPermutation N g.indr g.indc g.m)

end
end Gama.MatVec
