/-
  C13 — the whole document: `LocalNetwork::export_xml` (network.cpp) against `GKFparser` (gkfparser.cpp) followed by
  `LocalNetwork::remove_inconsistency()` (what gama-local does after reading its input).

  * `Net`        what the network keeps: axes / angles / epoch, description, parameters, the points with coordinates and
                 status per coordinate group (xy, z: unused / fixed / free / constrained), the cluster list
                 (`<obs>`, `<height-differences>`, `<coordinates>`, `<vectors>`) with the covariance matrices.
                 Values are the *internal* ones: after `remove_inconsistency()` y, dy and the covariances between a
                 mirrored and a not mirrored component carry the opposite sign when axes-xy / angles are inconsistent.
  * `exportNet`  export_xml site by site; everything that depends on the source text is taken from Gen/GkfDoc.lean
                 (REGENERATED: status letters and their order, y_sign on a site, `always` / list of the
                 updated_xml_covmat calls, names written for axes / angles / sigma-act, unit of the latitude).
  * `parseNet`   GKFparser element by element with the REGENERATED tables of Gen/GkfDoc.lean (attribute → role,
                 fix= / adj= codes → setters, parameter destinations and guards, value tables) and of Gen/GkfAttrs.lean
                 (observations), then `remove_inconsistency()`.

  Numbers are abstract (`Codec`).  Deviations from the code, on purpose:
  - a `<cov-mat>` inside `<obs>` / `<height-differences>` replaces the standard deviations of the attributes
    (`stdDev()` = square root of the diagonal); the model keeps the attribute.  Equal for consistent documents, and
    export_xml writes consistent ones.
  - PointData is a `std::map` (sorted by PointID); the model keeps insertion order.  Equal when the `<point>` elements
    come sorted, which is how export_xml writes them.
  - export_xml merges `<point x y/>` `<point z/>` of one id that are adjacent in a `<coordinates>` cluster into one
    element (same observation list); the model writes them as stored.
-/
import Gama.Model.Export
import Gama.Gen.GkfDoc
namespace Gama.Export
open Gama.Gen.GkfAttrs Gama.Gen.GkfDoc

/-- numbers and the conversions applied to them on the way out / in -/
structure Codec (K : Type) extends NumFmt K where
  neg : K → K                 -- `y_sign() * v` for y_sign() = -1
  fmtI : Int → String         -- to_xmlstr(adj_covband())
  rdI : String → Option Int   -- toInteger
  latOut : K → K              -- rad → gon (`latitude()*200/M_PI`)
  latIn : K → K               -- gon → rad (`dm * M_PI / 200`)
  fmtDeg : K → String         -- gon2deg(m, 0, 4)
  rdDeg : String → Option K   -- deg2gon
  toSec : K → K               -- `* 0.324`
  fromSec : K → K             -- `* (1/0.324)`
  pos : K → Bool              -- `0 < x`
  lt1 : K → Bool              -- `x < 1`
  ellKnown : String → Bool    -- GNU_gama::ellipsoid(name) != unknown
  sdDist : K → K → K          -- `apriori_m_0() * sqrt(dist)`
  /-- the elements of `<cov-mat>`: `updated_xml_covmat` prints them through its own stream (`setf(scientific)`,
      `precision(16)`: `%.16e`), not through `to_xmlstr`; they are read by the same `toDouble`.  The toy codecs print
      them as any other number (the default) -/
  fmtCov : K → String := fmt

variable {K : Type}

/-- the number format of the `<cov-mat>` elements: their own printer, the common reader -/
def Codec.covFmt (C : Codec K) : NumFmt K := { C.toNumFmt with fmt := C.fmtCov }

/-- a covariance element the `<cov-mat>` text gives back exactly -/
def Codec.CovRep (C : Codec K) (x : K) : Prop := C.rd (C.fmtCov x) = some x

instance [DecidableEq K] (C : Codec K) : DecidablePred C.CovRep :=
  fun x => inferInstanceAs (Decidable (C.rd (C.fmtCov x) = some x))

/-! ## points -/

inductive St where | unused | fixed | free | constr
deriving DecidableEq, Repr

structure Point (K : Type) where
  id : String
  xy : Option (K × K)
  z : Option K
  sxy : St
  sz : St

def Point.active (p : Point K) : Bool := p.sxy != .unused || p.sz != .unused

/-- `fixed_xy()`, `constrained_xy()`, `free_xy()` (the constrained status has the adjusted bit set as well) -/
def stHolds : StTest → St → Bool
  | .fixed, s => s == .fixed
  | .constrained, s => s == .constr
  | .free, s => s == .free || s == .constr

/-- the `if / else if / else if` chain of export_xml: letters appended to `fix` (`toFix`) or to `adj` -/
def stLetters (chain : List (StTest × Bool × String)) (s : St) (toFix : Bool) : String :=
  match chain.find? (fun t => stHolds t.1 s) with
  | some t => if t.2.1 == toFix then t.2.2 else ""
  | none => ""

def fixStr (p : Point K) : String := stLetters statusChainXY p.sxy true ++ stLetters statusChainZ p.sz true
def adjStr (p : Point K) : String := stLetters statusChainXY p.sxy false ++ stLetters statusChainZ p.sz false

def sgn (C : Codec K) (flip : Bool) (v : K) : K := if flip then C.neg v else v

/-- one `<point … />` of export_xml; `ys` ⇔ `y_sign() < 0` -/
def exportPoint (C : Codec K) (ys : Bool) (p : Point K) : List (PAttr × String) :=
  [(PAttr.id, p.id)] ++
  (match p.xy with
   | some v => [(PAttr.x, C.fmt v.1), (PAttr.y, C.fmt (sgn C (ys && pointYSigned) v.2))]
   | none => []) ++
  (match p.z with
   | some z => [(PAttr.z, C.fmt z)]
   | none => []) ++
  (if fixStr p ≠ "" then [(PAttr.fix, fixStr p)] else []) ++
  (if adjStr p ≠ "" then [(PAttr.adj, adjStr p)] else [])

def applySetter (p : Point K) : Setter → Point K
  | .freeXY => { p with sxy := .free }
  | .constrXY => { p with sxy := .constr }
  | .fixedXY => { p with sxy := .fixed }
  | .freeZ => { p with sz := .free }
  | .constrZ => { p with sz := .constr }
  | .fixedZ => { p with sz := .fixed }

/-- the string variable an attribute role ends in after the `while (*atts)` loop (last one wins, "" if absent) -/
def pvar (as : List (PAttr × String)) (r : PRole) : String :=
  (((as.filter (fun a => a.1.role == r)).getLast?).map (·.2)).getD ""

structure PointUpd (K : Type) where
  id : String
  xy : Option (K × K)       -- pp_xydef, pp_x, pp_y
  z : Option K              -- pp_zdef, pp_z
  adj : List Setter
  fix : List Setter

/-- `GKFparser::process_point` up to the updates of `SB[pp_id]`; `ppId` is the member `pp_id` (kept from the previous
    `<point>` when the attribute is missing) -/
def parsePointAttrs (C : Codec K) (ppId : String) (as : List (PAttr × String)) : Except Err (PointUpd K) := do
  let id := if as.any (fun a => a.1.role == .id) then pvar as .id else ppId
  let sx := pvar as .x
  let sy := pvar as .y
  let sz := pvar as .z
  let sa := pvar as .adj
  let sf := pvar as .fix
  if id = "" then throw .missingPointId
  if sy ≠ "" ∧ sx = "" then throw .missingCoordinate
  if sx ≠ "" ∧ sy = "" then throw .missingCoordinate
  let xy ← if sx ≠ "" then
      match C.rd sx, C.rd sy with
      | some x, some y => pure (some (x, y))
      | _, _ => throw .badNumber
    else pure none
  let z ← if sz ≠ "" then
      match C.rd sz with
      | some v => pure (some v)
      | none => throw .badNumber
    else pure none
  let adj ← if sa ≠ "" then
      match adjCode sa with
      | some l => pure l
      | none => throw .undefinedPointType
    else pure []
  let fix ← if sf ≠ "" then
      match fixCode sf with
      | some l => pure l
      | none => throw .undefinedPointType
    else pure []
  pure ⟨id, xy, z, adj, fix⟩

/-- the updates of `SB[pp_id]`: set_xy, set_z, then the adj= setters, then the fix= setters -/
def PointUpd.apply (u : PointUpd K) (p : Point K) : Point K :=
  let p1 : Point K := { p with xy := match u.xy with | some v => some v | none => p.xy,
                                z := match u.z with | some v => some v | none => p.z }
  let first := if adjBeforeFix then u.adj else u.fix
  let second := if adjBeforeFix then u.fix else u.adj
  second.foldl applySetter (first.foldl applySetter p1)

/-- the same for a point inside `<coordinates>` (`process_point(atts, observed = true)`, 6848bc2a): the values are
    observations — `set_xy` / `set_z` are skipped when the point already has that coordinate group
    (`if (!(observed && SB[pp_id].test_xy())) …`); the status setters apply as for any `<point>`.  The guards and the
    argument are regenerated (`observedKeepsXY`, `observedKeepsZ`, `coordsPointObserved`): on a tree without them this is
    `PointUpd.apply` -/
def PointUpd.applyObs (u : PointUpd K) (p : Point K) : Point K :=
  let p1 : Point K :=
    { p with xy := match u.xy with
                   | some v => if coordsPointObserved && observedKeepsXY && p.xy.isSome then p.xy else some v
                   | none => p.xy,
             z := match u.z with
                  | some v => if coordsPointObserved && observedKeepsZ && p.z.isSome then p.z else some v
                  | none => p.z }
  let first := if adjBeforeFix then u.adj else u.fix
  let second := if adjBeforeFix then u.fix else u.adj
  second.foldl applySetter (first.foldl applySetter p1)

/-- `SB[id]` creates an unused point without coordinates when the id is new -/
def upsert (ps : List (Point K)) (id : String) (f : Point K → Point K) : List (Point K) :=
  if ps.any (fun p => p.id == id) then ps.map (fun p => if p.id == id then f p else p)
  else ps ++ [f ⟨id, none, none, .unused, .unused⟩]

/-! ## parameters and the `<network>` tag -/

structure Params (K : Type) where
  sigmaApr : K
  confPr : K
  tolAbs : K
  apriori : Bool
  gons : Bool
  algorithm : Option String
  latitude : Option K          -- radians
  ellipsoid : Option String
  covBand : Int

def exportParams (C : Codec K) (p : Params K) : List (ParAttr × String) :=
  [(ParAttr.sigma_apr, C.fmt p.sigmaApr), (ParAttr.conf_pr, C.fmt p.confPr), (ParAttr.tol_abs, C.fmt p.tolAbs),
   (ParAttr.sigma_act, sigmaActName p.apriori), (ParAttr.angles, if p.gons then "400" else "360")] ++
  (match p.algorithm with | some a => [(ParAttr.algorithm, a)] | none => []) ++
  (match p.latitude with
   | some l => [(ParAttr.latitude, C.fmt (if latitudeInGons then C.latOut l else l))]
   | none => []) ++
  (match p.ellipsoid with | some e => [(ParAttr.ellipsoid, e)] | none => []) ++
  [(ParAttr.cov_band, C.fmtI p.covBand)]

def guardOk (C : Codec K) : Guard → K → Bool
  | .nocheck, _ => true
  | .pos, x => C.pos x
  | .unit, x => C.pos x && C.lt1 x

/-- one attribute of `<parameters>` (`GKFparser::process_parameters`, LocalNetwork setters) -/
def parseParam (C : Codec K) (p : Params K) (a : ParAttr × String) : Except Err (Params K) :=
  let num : Except Err K := match C.rd a.2 with
    | some x => if guardOk C a.1.guard x then .ok x else .error .badParameter
    | none => .error .badParameter
  match a.1.dest with
  | .sigmaApr => num.map (fun x => { p with sigmaApr := x })
  | .confPr => num.map (fun x => { p with confPr := x })
  | .tolAbs => num.map (fun x => { p with tolAbs := x })
  | .sigmaAct => match sigmaActCode a.2 with
    | some b => .ok { p with apriori := b }
    | none => .error .badParameter
  | .angular => match angularCode a.2 with
    | some b => .ok { p with gons := b }
    | none => .error .badParameter
  | .algorithm => .ok { p with algorithm := some (if algNames.contains a.2 then a.2 else algDefault) }
  | .covBand => match C.rdI a.2 with
    | some i => .ok { p with covBand := if i < -1 then -1 else i }
    | none => .error .badParameter
  | .latitude => match C.rdDeg a.2 with
    | some x => .ok { p with latitude := some (C.latIn x) }
    | none => match C.rd a.2 with
      | some x => .ok { p with latitude := some (C.latIn x) }
      | none => .error .badParameter
  | .ellipsoid => .ok { p with ellipsoid := some (if C.ellKnown a.2 then a.2 else "wgs84") }
  | .ignored => .ok p

def parseParams (C : Codec K) (p0 : Params K) (as : List (ParAttr × String)) : Except Err (Params K) :=
  as.foldlM (parseParam C) p0

structure Head (K : Type) where
  axes : Axes
  leftAngles : Bool
  epoch : Option K

def exportHead (C : Codec K) (h : Head K) : List (NAttr × String) :=
  [(NAttr.axes_xy, h.axes.xmlName), (NAttr.angles, anglesName h.leftAngles)] ++
  (match h.epoch with | some e => [(NAttr.epoch, C.fmt e)] | none => [])

def parseHeadAttr (C : Codec K) (h : Head K) (a : NAttr × String) : Except Err (Head K) :=
  match a.1 with
  | .axes_xy => match axesCode a.2 with
    | some x => .ok { h with axes := x }
    | none => .error .badNetwork
  | .angles => match anglesCode a.2 with
    | some b => .ok { h with leftAngles := b }
    | none => .error .badNetwork
  | .epoch => match C.rd a.2 with
    | some e => .ok { h with epoch := some e }
    | none => .error .badNetwork

/-- `process_network`: defaults `ne`, left-handed, no epoch (`clear_nullable_data`) -/
def parseHead (C : Codec K) (as : List (NAttr × String)) : Except Err (Head K) :=
  as.foldlM (parseHeadAttr C) ⟨.ne, true, none⟩

/-- `!consistent()` ⇔ `y_sign() < 0` -/
def Head.ys (h : Head K) : Bool := h.axes.leftHanded != h.leftAngles

/-! ## clusters -/

structure CPoint (K : Type) where
  id : String
  xy : Option (K × K)
  z : Option K

structure Vec (K : Type) where
  from_ : String
  to : String
  dx : K
  dy : K
  dz : K
  fromDh : K
  toDh : K
  extern : String

inductive Cluster (K : Type) where
  | obs (sp : StandPoint K) (cov : Option (Cov K))          -- `none`: diagonal (band 0), given by the stdevs
  | hdiffs (dhs : List (HDiff K)) (cov : Option (Cov K))
  | coords (extern : String) (pts : List (CPoint K)) (cov : Cov K)
  | vectors (vecs : List (Vec K)) (cov : Cov K)

abbrev CovDoc := Nat × Nat × List String
abbrev SAttrs := List (String × String)

inductive DItem where
  | point (as : List (PAttr × String))
  | obs (as : SAttrs) (els : List (Elem × Attrs)) (cov : Option CovDoc)
  | hdiffs (els : List (Elem × Attrs)) (cov : Option CovDoc)
  | coords (as : SAttrs) (pts : List (List (PAttr × String))) (cov : Option CovDoc)
  | vectors (vecs : List Attrs) (cov : Option CovDoc)

structure Doc where
  net : List (NAttr × String)
  descr : String
  par : List (ParAttr × String)
  po : SAttrs
  items : List DItem

structure Net (K : Type) where
  head : Head K
  descr : String
  par : Params K
  points : List (Point K)
  clusters : List (Cluster K)

def Kind.angular : Kind → Bool
  | .direction | .angle | .zangle | .azimuth => true
  | _ => false

/-- rows of a cluster that are `Y` / `Ydiff` (1-based, as `mirrored[n]`) -/
def mirOf (flags : List Bool) (i : Nat) : Bool := flags.getD (i - 1) false

def coordFlags (pts : List (CPoint K)) : List Bool :=
  pts.flatMap (fun p => (match p.xy with | some _ => [false, true] | none => []) ++
                        (match p.z with | some _ => [false] | none => []))

def vecFlags (vecs : List (Vec K)) : List Bool := vecs.flatMap (fun _ => [false, true, false])

/-- apply `f` once per flagged index among row and column (the diagonal twice) -/
def app2 (f : K → K) : Nat → K → K
  | 0, x => x
  | 1, x => f x
  | _, x => f (f x)

def entryCounts (dim band : Nat) (fl : Nat → Bool) : List Nat :=
  (List.range dim).flatMap (fun i0 =>
    (List.range (min band (dim - 1 - i0) + 1)).map (fun t => (fl (i0 + 1)).toNat + (fl (i0 + 1 + t)).toNat))

def scaleWith (f : K → K) : List Nat → List K → List K
  | n :: ns, x :: xs => app2 f n x :: scaleWith f ns xs
  | _, xs => xs

def scaleCov (f : K → K) (fl : Nat → Bool) (c : Cov K) : Cov K :=
  { c with data := scaleWith f (entryCounts c.dim c.band fl) c.data }

/-- `updated_xml_covmat(xml, C, always, list)`: `none` = nothing written; the elements are printed with the format of
    that function (`Codec.fmtCov`, regenerated site `updated_xml_covmat` of Gen/GkfFmtSites.lean) -/
def exportCovCall (C : Codec K) (call : Bool × Bool) (ys degrees : Bool) (mir ang : Nat → Bool) (c : Cov K) : Option CovDoc :=
  if covSkipsDiagonal && !call.1 && c.band == 0 then none
  else
    let c1 := if call.2 && ys && covMirrors then mirrorCov C.neg mir c else c
    let c2 := if call.2 && degrees && covScalesSeconds then scaleCov C.toSec ang c1 else c1
    some (exportCov C.covFmt c2)

/-- `process_cov` + `finish_cov`: dim ≥ 1, band < dim, exactly dim·(band+1) − band·(band+1)/2 numbers; `n` = number of
    observations of the cluster (`finish_obs` … compare `idim` with it) -/
def parseCovChecked (C : Codec K) (n : Nat) (d : CovDoc) : Except Err (Cov K) :=
  if d.1 < 1 ∨ d.2.1 ≥ d.1 ∨ d.1 ≠ n ∨ d.2.2.length ≠ d.1 * (d.2.1 + 1) - d.2.1 * (d.2.1 + 1) / 2 then .error .badCovMat
  else match parseCov C.toNumFmt d with
    | some c => .ok c
    | none => .error .badCovMat

/-- an observation of `<obs>` as export_xml writes it in gons / in degrees (DisplayObservationVisitor: angular values
    through `gon2deg(m, 0, 4)`, their standard deviations `* scale`, scale = 0.324 — REGENERATED `visStdevScaled`) -/
def exportObsU (C : Codec K) (gons : Bool) (cf : String) (o : Obs K) : Elem × Attrs :=
  if gons || !o.kind.angular then exportObs C.toNumFmt true cf o
  else exportObsV C.toNumFmt true cf { o with stdev := if visStdevScaled then C.toSec o.stdev else o.stdev } (C.fmtDeg o.val)

/-- the constructor argument that takes the value -/
def valDest (k : Kind) : Dest := .ctor (if k = .angle then 3 else 2)

/-- the `val` string of an angular observation goes through deg2gon first (`if (deg2gon(sm, dm)) degrees = true; else
    toDouble(sm, dm)`); the other kinds use `toDouble` only -/
def rdValU (C : Codec K) (k : Kind) (t : String) : Option K :=
  if k.angular && parserTriesDeg2gon then (match C.rdDeg t with | some x => some x | none => C.rd t) else C.rd t

/-- `DB_pair::second`: the value was given as a sexagesimal string -/
def isDegVal (C : Codec K) (k : Kind) (as : Attrs) : Bool :=
  k.angular && parserTriesDeg2gon && ((reach k.elem (valDest k) as).bind C.rdDeg).isSome

def parseElemU (C : Codec K) (impl : Kind → K) (cf : String) (cdh : K) (ea : Elem × Attrs) : Except Err (Obs K × Bool) :=
  match kindOf ea.1 with
  | none => .error .illegalElement
  | some k => (parseObsV C.toNumFmt (rdValU C k) cf cdh (impl k) k ea.2).map (fun o => (o, isDegVal C k ea.2))

def sattr (as : SAttrs) (n : String) : Option String := ((as.filter (fun a => a.1 == n)).getLast?).map (·.2)

def flagOf (fl : List Bool) (i : Nat) : Bool := fl.getD (i - 1) false

/-- `<point id x y z />` of a `<coordinates>` cluster (values through DisplayObservationVisitor) -/
def exportCPoint (C : Codec K) (ys : Bool) (p : CPoint K) : List (PAttr × String) :=
  [(PAttr.id, p.id)] ++
  (match p.xy with
   | some v => [(PAttr.x, C.fmt (sgn C (ys && visSigned_x) v.1)), (PAttr.y, C.fmt (sgn C (ys && visSigned_y) v.2))]
   | none => []) ++
  (match p.z with | some z => [(PAttr.z, C.fmt (sgn C (ys && visSigned_z) z))] | none => [])

/-- `<vec from to dx dy dz extern />` (from_dh / to_dh are deliberately not written) -/
def exportVec (C : Codec K) (ys : Bool) (v : Vec K) : Attrs :=
  [(Attr.from_, v.from_), (Attr.to, v.to), (Attr.dx, C.fmt (sgn C (ys && visSigned_dx) v.dx)),
   (Attr.dy, C.fmt (sgn C (ys && visSigned_dy) v.dy)), (Attr.dz, C.fmt (sgn C (ys && visSigned_dz) v.dz))] ++
  (if v.extern ≠ "" then [(Attr.extern, v.extern)] else [])

def exportCluster' (C : Codec K) (ys gons : Bool) : Cluster K → DItem
  | .obs sp cov =>
    .obs (if sp.station ≠ "" then [("from", sp.station)] else [])
         (sp.obs.map (exportObsU C gons sp.station))
         (cov.bind (exportCovCall C covCall_StandPoint ys (!gons) (fun _ => false)
                      (flagOf (sp.obs.map (fun o => o.kind.angular)))))
  | .hdiffs dhs cov =>
    .hdiffs (dhs.map (exportDh C.toNumFmt true C.pos dhStdevAlways))
            (cov.bind (exportCovCall C covCall_HeightDifferences ys (!gons) (fun _ => false) (fun _ => false)))
  | .coords ext pts cov =>
    .coords (if ext ≠ "" then [("extern", ext)] else [])
            (pts.map (exportCPoint C ys))
            (exportCovCall C covCall_Coordinates ys (!gons) (mirOf (coordFlags pts)) (fun _ => false) cov)
  | .vectors vecs cov =>
    .vectors (vecs.map (exportVec C ys))
             (exportCovCall C covCall_Vectors ys (!gons) (mirOf (vecFlags vecs)) (fun _ => false) cov)

/-- `LocalNetwork::export_xml` -/
def exportNet (C : Codec K) (n : Net K) : Doc :=
  { net := exportHead C n.head
    descr := n.descr
    par := exportParams C n.par
    po := []
    items := ((n.points.filter Point.active).map (fun p => DItem.point (exportPoint C n.head.ys p))) ++
             n.clusters.map (exportCluster' C n.head.ys n.par.gons) }

/-! ## the parser -/

structure PState (K : Type) where
  points : List (Point K)
  clusters : List (Cluster K)
  ppId : String

/-- `process_vec` -/
def parseVec (C : Codec K) (as : Attrs) : Except Err (Vec K) := do
  if as.any (fun a => (route .vec a.1).isNone) then throw .undefinedAttribute
  let from_ := (reach .vec (.ctor 0) as).getD ""
  let to := (reach .vec (.ctor 1) as).getD ""
  if from_ = "" then throw .missingStandpoint
  if to = "" then throw .missingTarget
  match (reach .vec .ctorX as).bind C.rd, (reach .vec .ctorY as).bind C.rd, (reach .vec .ctorZ as).bind C.rd with
  | some dx, some dy, some dz =>
    let fromDh ← rdOr C.toNumFmt (reach .vec .setFromDh as) C.zero
    let toDh ← rdOr C.toNumFmt (reach .vec .setToDh as) C.zero
    pure ⟨from_, to, dx, dy, dz, fromDh, toDh, (reach .vec .setExtern as).getD ""⟩
  | _, _, _ => throw .badVector

/-- the points of a `<coordinates>` cluster: each goes through `process_point(atts, true)` (PointData gets the point,
    its status, and the coordinates it does not have yet: `PointUpd.applyObs`) and then yields the observations X, Y and / or Z -/
def parseCoordPts (C : Codec K) : List (Point K) → String → List (List (PAttr × String)) →
    Except Err (List (Point K) × String × List (CPoint K))
  | ps, pp, [] => .ok (ps, pp, [])
  | ps, pp, as :: rest =>
    match parsePointAttrs C pp as with
    | .error e => .error e
    | .ok u =>
      if u.xy.isNone && u.z.isNone then .error .emptyCoordsPoint
      else match parseCoordPts C (upsert ps u.id u.applyObs) u.id rest with
        | .error e => .error e
        | .ok (ps', pp', cps) => .ok (ps', pp', ⟨u.id, u.xy, u.z⟩ :: cps)

def parseItem (C : Codec K) (impl : Kind → K) (par : Params K) (s : PState K) : DItem → Except Err (PState K)
  | .point as =>
    match parsePointAttrs C s.ppId as with
    | .error e => .error e
    | .ok u => .ok { s with points := upsert s.points u.id u.apply, ppId := u.id }
  | .obs as els cov =>
    if as.any (fun a => !obsAttrs.contains a.1) then .error .undefinedAttribute
    else match (match sattr as "orientation" with | some t => (C.rd t).isSome | none => true),
               rdOr C.toNumFmt (sattr as "from_dh") C.zero with
      | true, .ok cdh =>
        let station := (sattr as "from").getD ""
        match els.mapM (parseElemU C impl station cdh) with
        | .error e => .error e
        | .ok ofs =>
          let fl := flagOf (ofs.map (·.2))
          let obs := ofs.map (fun of => if of.2 && parserScalesSeconds then { of.1 with stdev := C.fromSec of.1.stdev } else of.1)
          match cov with
          | none => .ok { s with clusters := s.clusters ++ [.obs ⟨station, obs⟩ none] }
          | some d =>
            match parseCovChecked C els.length d with
            | .error e => .error e
            | .ok c => .ok { s with clusters := s.clusters ++
                              [.obs ⟨station, obs⟩ (if c.band == 0 then none
                                                     else some (if ofs.any (·.2) && parserScalesSeconds then scaleCov C.fromSec fl c else c))] }
      | _, _ => .error .badNumber
  | .hdiffs els cov =>
    if els.any (fun ea => ea.1 ≠ Elem.dh) then .error .illegalElement
    else match els.mapM (fun ea => parseDh C.toNumFmt (C.sdDist par.sigmaApr) ea.2) with
      | .error e => .error e
      | .ok dhs =>
        match cov with
        | none => .ok { s with clusters := s.clusters ++ [.hdiffs dhs none] }
        | some d =>
          match parseCovChecked C els.length d with
          | .error e => .error e
          | .ok c => .ok { s with clusters := s.clusters ++ [.hdiffs dhs (if c.band == 0 then none else some c)] }
  | .coords as pts cov =>
    if as.any (fun a => !coordsAttrs.contains a.1) then .error .undefinedAttribute
    else match parseCoordPts C s.points s.ppId pts with
      | .error e => .error e
      | .ok (ps, pp, cps) =>
        match cov with
        | none => .error .missingCovMat
        | some d =>
          match parseCovChecked C (coordFlags cps).length d with
          | .error e => .error e
          | .ok c => .ok { points := ps, ppId := pp,
                           clusters := s.clusters ++ [.coords ((sattr as "extern").getD "") cps c] }
  | .vectors vecs cov =>
    match vecs.mapM (parseVec C) with
    | .error e => .error e
    | .ok vs =>
      match cov with
      | none => .error .missingCovMat
      | some d =>
        match parseCovChecked C (vecFlags vs).length d with
        | .error e => .error e
        | .ok c => .ok { s with clusters := s.clusters ++ [.vectors vs c] }

/-- `change_y_signs_for_inconsistent_system_` -/
def mirrorPoint (C : Codec K) (p : Point K) : Point K := { p with xy := p.xy.map (fun v => (v.1, C.neg v.2)) }

def mirrorCPoint (C : Codec K) (p : CPoint K) : CPoint K := { p with xy := p.xy.map (fun v => (v.1, C.neg v.2)) }
def mirrorVec (C : Codec K) (v : Vec K) : Vec K := { v with dy := C.neg v.dy }

def mirrorCluster (C : Codec K) : Cluster K → Cluster K
  | .coords ext pts cov => .coords ext (pts.map (mirrorCPoint C)) (mirrorCov C.neg (mirOf (coordFlags pts)) cov)
  | .vectors vecs cov => .vectors (vecs.map (mirrorVec C)) (mirrorCov C.neg (mirOf (vecFlags vecs)) cov)
  | c => c       -- no Y / Ydiff in `<obs>` / `<height-differences>`: nothing is mirrored

def mirrorNet (C : Codec K) (n : Net K) : Net K :=
  if n.head.ys then { n with points := n.points.map (mirrorPoint C), clusters := n.clusters.map (mirrorCluster C) } else n

/-- GKFparser over the document; `par0` = the parameters the constructors of LocalNetwork and GKFparser establish
    (sigma-apr 10, conf-pr 0.95, tol-abs 1000, a posteriori, gons, cov-band −1) -/
def parseRaw (C : Codec K) (impl : Kind → K) (par0 : Params K) (d : Doc) : Except Err (Net K) := do
  let head ← parseHead C d.net
  let par ← parseParams C { par0 with algorithm := none, latitude := none, ellipsoid := none } d.par
  if d.po.any (fun a => !pointsObsAttrs.contains a.1) then throw .undefinedAttribute
  let s ← d.items.foldlM (parseItem C impl par) ⟨[], [], ""⟩
  pure ⟨head, d.descr, par, s.points, s.clusters⟩

/-- the parser followed by `remove_inconsistency()` -/
def parseNet (C : Codec K) (impl : Kind → K) (par0 : Params K) (d : Doc) : Except Err (Net K) :=
  (parseRaw C impl par0 d).map (mirrorNet C)

end Gama.Export
