/-
  C19 — the pending-attribute state of the g3 data parser (`lib/gnu_gama/xml/dataparser_g3.cpp`).

  `struct DataParser_g3` keeps four doubles `from_dh to_dh left_dh right_dh` between SAX callbacks:
  * an optional child element `<from-dh>` … of an observation record stores its number there
    (`DataParser::optional_from_dh` …, registered per record kind in `init_g3`);
  * the end-tag handler of the record (`DataParser::g3_obs_dist` …) copies them into the new observation,
    normally through `optional(x)` = `{ tmp = x; x = 0; return tmp; }` (read and clear);
  * `init_g3` clears some of them once.
  Which record kind may set which field, and which handler consumes which field (through `optional` or
  not) is read from the source by tools/gen/c19_g3parser.py → `Gama/Gen/G3ParserSites.lean` (`Sites`).

  Core Lean only (linked into `drv_g3`).
-/
namespace Gama
namespace G3Parser

/-- the pending doubles of `DataParser_g3`; also used for the members `from_dh … right_dh` of an observation -/
inductive Field where
  | fromDh | toDh | leftDh | rightDh
deriving DecidableEq, Repr

/-- the observation records of `<obs>` -/
inductive Kind where
  | dist | zenith | azimuth | vector | xyz | hdiff | height | angle
deriving DecidableEq, Repr

def Kind.all : List Kind := [.dist, .zenith, .azimuth, .vector, .xyz, .hdiff, .height, .angle]
def Field.all : List Field := [.fromDh, .toDh, .leftDh, .rightDh]

/-- what the translator reads from the source -/
structure Sites where
  /-- `optional(g3->f);` statements of `init_g3` -/
  initCleared : List Field
  /-- the pending fields an optional child element of a record of this kind writes -/
  settable : Kind → List Field
  /-- the end-tag handler, in program order: observation member, pending field, through `optional(…)`? -/
  consumes : Kind → List (Field × Field × Bool)

variable {K : Type}

abbrev Pending (K : Type) := Field → K

def upd (p : Pending K) (f : Field) (v : K) : Pending K := fun g => if g = f then v else p g

/-- one observation record: its kind, the text of its mandatory children (`α`: names and values,
    not interpreted here) and its optional `…-dh` children in document order -/
structure Rec (α K : Type) where
  kind : Kind
  payload : α
  opts : List (Field × K)

/-- the observation the handler builds: the members it assigned, in program order -/
structure Built (α K : Type) where
  kind : Kind
  payload : α
  dh : List (Field × K)

/-- the character-data handlers of the optional children: `istr >> g3->f` -/
def setOpts (p : Pending K) : List (Field × K) → Pending K
  | [] => p
  | (f, v) :: t => setOpts (upd p f v) t

/-- the assignments `obs->m = optional(g3->f);` (read and clear) / `obs->m = g3->f;` (read) -/
def consume [Zero K] (p : Pending K) : List (Field × Field × Bool) → Pending K × List (Field × K)
  | [] => (p, [])
  | (m, f, viaOpt) :: cs =>
    let r := consume (if viaOpt then upd p f 0 else p) cs
    (r.1, (m, p f) :: r.2)

/-- every optional child of the record is one the state table of its kind knows
    (otherwise `startElement` lands in the error state and parsing stops) -/
def wellFormed {α : Type} (S : Sites) (r : Rec α K) : Bool := r.opts.all fun o => (S.settable r.kind).contains o.1

inductive Err where
  | unknownTag
deriving DecidableEq, Repr

/-- one record: children, then the end-tag handler -/
def step {α : Type} [Zero K] (S : Sites) (p : Pending K) (r : Rec α K) : Except Err (Pending K × Built α K) :=
  if wellFormed S r then
    let c := consume (setOpts p r.opts) (S.consumes r.kind)
    .ok (c.1, ⟨r.kind, r.payload, c.2⟩)
  else .error .unknownTag

/-- all records of a document, in document order -/
def parseFrom {α : Type} [Zero K] (S : Sites) : Pending K → List (Rec α K) → Except Err (List (Built α K))
  | _, [] => .ok []
  | p, r :: rs =>
    match step S p r with
    | .error e => .error e
    | .ok (p', b) =>
      match parseFrom S p' rs with
      | .error e => .error e
      | .ok bs => .ok (b :: bs)

/-- the state after `init_g3`: whatever the uninitialised members hold (`junk`), the cleared ones zero -/
def initial [Zero K] (S : Sites) (junk : Pending K) : Pending K := S.initCleared.foldl (fun p f => upd p f 0) junk

def parse {α : Type} [Zero K] (S : Sites) (junk : Pending K) (rs : List (Rec α K)) : Except Err (List (Built α K)) :=
  parseFrom S (initial S junk) rs

/-- the observation a record gives on its own (all pending fields zero) -/
def build {α : Type} [Zero K] (S : Sites) (r : Rec α K) : Built α K :=
  ⟨r.kind, r.payload, (consume (setOpts (fun _ => (0 : K)) r.opts) (S.consumes r.kind)).2⟩

/-- a pending field some handler reads -/
def Sites.read (S : Sites) (f : Field) : Bool := Kind.all.any fun k => (S.consumes k).any fun c => c.2.1 == f

/-- a field the handler of kind `k` reads through `optional(…)` (so leaves cleared) -/
def Sites.clears (S : Sites) (k : Kind) (f : Field) : Bool := (S.consumes k).any fun c => c.2.1 == f && c.2.2

/-- the discipline that makes records independent: every field that is read at all starts cleared, and a
    record kind that can set such a field also reads it through `optional(…)` -/
def Sites.ok (S : Sites) : Bool :=
  (Field.all.all fun f => !S.read f || S.initCleared.contains f) &&
  (Kind.all.all fun k => (S.settable k).all fun f => !S.read f || S.clears k f)

/-! ### the cluster level: `<obs>` … `</obs>` -/

/-- what the translator reads about a whole `<obs>` cluster -/
structure ObsSites where
  /-- record tag → the observation class the end-tag handler registered for it `new`s and pushes on
      `obs_cluster->observation_list` -/
  builds : Kind → Kind
  /-- `int dimension() const { return n; }` of the class (g3_observation.h) -/
  dimension : Kind → Nat
  /-- the numbers of `g3->scale.push_back(…)` over the accepting paths (`return end_tag(name)`) of that handler -/
  scalePushes : Kind → List Nat

/-- one record inside `<obs>` as far as the cluster check is concerned: its tag, and how many scale entries its
    handler pushed on the path it took -/
abbrev ClusterRec := Kind × Nat

/-- every record took a path its handler has -/
def ObsSites.validRun (S : ObsSites) (rs : List ClusterRec) : Bool := rs.all fun r => (S.scalePushes r.1).contains r.2

/-- `obs_dim` of `DataParser::g3_obs(const char*)`: the sum of `dimension()` over `observation_list` -/
def ObsSites.obsDim (S : ObsSites) (rs : List ClusterRec) : Nat := (rs.map fun r => S.dimension (S.builds r.1)).sum

/-- `g3->scale.size()` at `</obs>` (`g3->scale.clear()` at `<obs>`) -/
def scaleSize (rs : List ClusterRec) : Nat := (rs.map (·.2)).sum

/-- the first check of `DataParser::g3_obs(const char*)`:
    `if (obs_dim != int(g3->scale.size())) return error("### INTERNAL ERROR …")`.
    The later checks (no observations, covariance dimension, variances) only refuse more documents. -/
def ObsSites.scaleCheck (S : ObsSites) (rs : List ClusterRec) : Bool := S.obsDim rs == scaleSize rs

/-- no handler pushes more scale entries than the dimension of what it builds, and every handler that builds a `k`
    pushes fewer on all its paths — then a cluster with a `k` in it can never pass `scaleCheck` -/
def ObsSites.starves (S : ObsSites) (k : Kind) : Bool :=
  Kind.all.all fun t => (S.scalePushes t).all fun c =>
    decide (c ≤ S.dimension (S.builds t)) && (S.builds t != k || decide (c < S.dimension (S.builds t)))

end G3Parser
end Gama
