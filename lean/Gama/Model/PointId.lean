/-
  `PointID` (lib/gnu_gama/local/pointid.cpp): `init` and the byte-string order are modelled by hand in
  `Gama/Model/PointIdBase.lean`; `PointId.lt`, `PointId.eq`, `PointId.ne` (`operator<`, `==`, `!=`) are
  REGENERATED from pointid.cpp into `Gama/Gen/PointIdCmp.lean` by tools/gen/c07_pointid.py on every
  run of the C07 check.  This module re-exports both (the name every user imports).  Core Lean only.
-/
import Gama.Gen.PointIdCmp
namespace Gama.PointId

/-! ### mutants kept for the non-vacuity examples in `Props/C07.lean` -/

/-- a comparison that would treat `"01"` and `"1"` alike (numeric value of any digit string):
    NOT the code's; used only to show that the total-order theorem distinguishes it -/
def initLoose (s : Bytes) : PointID :=
  let sid := normalize s
  if !isInteger sid then ⟨0, sid⟩ else
  let tmp := parseLong sid
  if tmp < 0 then ⟨0, sid⟩ else ⟨tmp.toNat, sid⟩

end Gama.PointId
