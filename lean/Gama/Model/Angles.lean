/-
  Model of lib/gnu_gama/gon2deg.cpp (`gon2deg`, `gon2deg_str`, `rad2deg_str`, `deg2gon`,
  `dms2rad`, `rad2dms`) and lib/gnu_gama/latlong.cpp (`latitude`, `longitude`).
  Core Lean only.

  The field splitting (`int(x)`, `x -= d`, `x *= 60`) is arithmetic of the scalar type and
  is written over `[Scalar K] [Trunc K]` (executed at `Float` with the same IEEE operations
  as the C++, reasoned about over ℚ).  What `ostream <<` does to the seconds in
  `fixed`/`setprecision(prec)` is exact decimal rounding (ties to even, glibc) of the exact
  value of the double: it is modelled on `Rat`/`Int` (digit arithmetic), so the produced
  strings can be compared byte by byte.

  F14.  The original code prints the seconds *after* splitting, so seconds in
  [59.995, 60) come out as `60.00`.  `carry = true` models the repaired code
  (notes/proposed/C18-gon2deg-carry.diff).  The original also keeps `-0.0` (`gon < 0` is
  false) whose seconds print as `-0.00`; `absFix = true` models `std::fabs`
  (notes/proposed/C18-gon2deg-negzero.diff).  Which variants the tree contains is regenerated
  into Gama/Gen/GeoVariants.lean on every run.
-/
import Gama.Model.GeoScalar
import Gama.Gen.GeoVariants
namespace Gama.Angles
open Gama Scalar Transc Trunc

/-! ### decimal formatting (what `ostream << fixed << setprecision(prec)` prints) -/

/-- round to the nearest integer, ties to even -/
def roundHalfEven (q : Rat) : Int :=
  let f := q.floor
  let r := q - (f : Rat)
  if r < 1/2 then f
  else if 1/2 < r then f + 1
  else if f % 2 = 0 then f else f + 1

/-- seconds scaled by `10^prec`, as the integer whose digits are printed -/
def scaled (s : Rat) (prec : Nat) : Int := roundHalfEven (s * (10 : Rat) ^ prec)

def padLeft (c : Char) (w : Nat) (s : String) : String :=
  String.ofList (List.replicate (w - s.length) c) ++ s

/-- the digits of a scaled non-negative integer with the decimal point re-inserted
    (`prec = 0`: no point, as iostream prints) -/
def renderScaled (n : Nat) (prec : Nat) : String :=
  if prec = 0 then toString n
  else toString (n / 10 ^ prec) ++ "." ++ padLeft '0' prec (toString (n % 10 ^ prec))

/-- `os << fixed << setprecision(prec) << x` for a finite `x` -/
def fmtFixed (x : Rat) (prec : Nat) : String :=
  if x < 0 then "-" ++ renderScaled (scaled (-x) prec).toNat prec
  else renderScaled (scaled x prec).toNat prec

/-! ### field splitting -/

variable {K : Type} [Scalar K] [Trunc K]

/-- sign, degrees, minutes and (unrounded) seconds -/
structure Fields (K : Type) where
  neg : Bool
  d : Int
  m : Int
  s : K

/-- the common body of `gon2deg` and `latlong`: `x` is already in degrees and ≥ 0 -/
def splitDeg (neg : Bool) (x : K) : Fields K :=
  let d := trunc x
  let x := x - Scalar.ofInt d
  let x := x * Scalar.ofNat 60
  let m := trunc x
  let x := x - Scalar.ofInt m
  let x := x * Scalar.ofNat 60
  { neg, d, m, s := x }

/-- `if (negative) x = -x;` (original) or `x = std::fabs(x);` (repaired) -/
def dropSign (absFix : Bool) (negative : Bool) (x : K) : K :=
  if absFix then Scalar.abs x else if negative then -x else x

/-- `gon2deg`: `negative = gon < 0; if (negative) gon = -gon; gon *= 0.9; …` -/
def gonFields (absFix : Bool) (gon : K) : Fields K :=
  let negative : Bool := gon < (0 : K)
  let gon := dropSign absFix negative gon
  splitDeg negative (gon * Scalar.dec 9 1)

/-- what is printed: the three fields after formatting the seconds at `prec` decimals -/
structure Printed where
  neg : Bool
  d : Int
  m : Int
  /-- seconds · 10^prec, rounded as printed -/
  n : Int
  prec : Nat
  /-- the seconds are the IEEE value `-0.0` (prints a `-`); only reachable in the original code -/
  secNegZero : Bool := false
deriving DecidableEq, Repr

/-- format the seconds; the repaired code (`carry`) moves seconds that print as 60 into
    minutes and degrees -/
def toPrinted (carry : Bool) (neg : Bool) (d m : Int) (s : Rat) (prec : Nat) (sz : Bool := false) : Printed :=
  let n := scaled s prec
  if carry && decide (60 * (10 : Int) ^ prec ≤ n) then
    let m1 := m + 1
    if m1 = 60 then { neg, d := d + 1, m := 0, n := scaled 0 prec, prec }
    else { neg, d, m := m1, n := scaled 0 prec, prec }
  else { neg, d, m, n, prec, secNegZero := sz }

/-- seconds as they stand in the string (`setw(3+prec)`, fill `'0'`) -/
def Printed.seconds (p : Printed) : String :=
  padLeft '0' (3 + p.prec) (if p.n < 0 ∨ p.secNegZero then "-" ++ renderScaled (-p.n).toNat p.prec else renderScaled p.n.toNat p.prec)

def setChar (s : String) (i : Nat) (c : Char) : String :=
  String.ofList (s.toList.set i c)

def charAt (s : String) (i : Nat) : Char := s.toList.getD i '\x00'

/-- string assembly of `gon2deg` for each `sign` mode
    (0 none, 1 sign left-padded, 2 sign right-padded, 3 signed, leading spaces trimmed) -/
def Printed.renderGon (p : Printed) (sign : Int) : String :=
  let pre := if sign = 1 ∨ sign = 2 then " " else ""
  let dstr := if sign = 3 then (if p.neg then "-" else "") ++ toString p.d
              else padLeft ' ' 3 (toString p.d)
  let deg := pre ++ dstr ++ "-" ++ padLeft '0' 2 (toString p.m) ++ "-" ++ p.seconds
  if p.neg then
    if sign = 1 then setChar deg 0 '-'
    else if sign = 2 then
      let k := 0
      let k := if charAt deg 1 = ' ' then 1 else k
      let k := if charAt deg 2 = ' ' then 2 else k
      setChar deg k '-'
    else deg
  else deg

/-- string assembly of `latlong` (latlong.cpp) -/
def Printed.renderLatLong (p : Printed) : String :=
  let s := padLeft ' ' 4 (toString p.d) ++ "-" ++ padLeft '0' 2 (toString p.m) ++ "-" ++ p.seconds
  if p.neg then
    if charAt s 2 = ' ' then setChar s 2 '-'
    else if charAt s 1 = ' ' then setChar s 1 '-'
    else setChar s 0 '-'
  else s

variable [Exact K]

/-- `gon2deg(gon, sign, prec)` / `gon2deg_str`; `none` for a non-finite value -/
def gon2degWith (carry absFix : Bool) (gon : K) (sign : Int) (prec : Nat) : Option String :=
  let f := gonFields absFix gon
  (Exact.toRat? f.s).map fun s => (toPrinted carry f.neg f.d f.m s prec (Exact.negZero f.s)).renderGon sign

/-- the formatter the current tree contains -/
def gon2deg (gon : K) (sign : Int) (prec : Nat) : Option String :=
  gon2degWith Gen.gon2degCarry Gen.gon2degAbs gon sign prec

section
variable [Transc K]

/-- `rad2deg_str(rad, sign, prec) = gon2deg_str(rad/M_PI*200, sign, prec)` -/
def rad2degStr (rad : K) (sign : Int) (prec : Nat) : Option String :=
  gon2deg (rad / pi * Scalar.ofNat 200) sign prec

/-- latlong.cpp: `rad *= RAD_TO_DEG` is `rad *= 180.0/M_PI` -/
def latlongFields (absFix : Bool) (rad : K) : Fields K :=
  let neg : Bool := rad < (0 : K)
  let rad := dropSign absFix neg rad
  splitDeg neg (rad * (Scalar.ofNat 180 / pi))

def latlongWith (carry absFix : Bool) (rad : K) (prec : Nat) : Option String :=
  let f := latlongFields absFix rad
  (Exact.toRat? f.s).map fun s => (toPrinted carry f.neg f.d f.m s prec (Exact.negZero f.s)).renderLatLong

/-- `latitude(rad, prec)` = `longitude(rad, prec)` -/
def latlong (rad : K) (prec : Nat) : Option String := latlongWith Gen.latlongCarry Gen.latlongAbs rad prec

/-- `dms2rad(dms)`: `ddd.mmss…` to radians in [0, 2π) -/
def dms2rad (fuel : Nat) (dms : K) : K :=
  let neg : Bool := dms < (0 : K)
  let dms := if neg then -dms else dms
  let sgn : K := if neg then -1 else 1
  let d : K := Scalar.ofInt (trunc dms)
  let dms := dms - d
  let dms := dms * Scalar.ofNat 100
  let m : K := Scalar.ofInt (trunc dms)
  let dms := dms - m
  let dms := dms * Scalar.ofNat 100
  let r := sgn * (d / Scalar.ofNat 180 + m / Scalar.ofNat 10800 + dms / Scalar.ofNat 648000) * pi
  let z : K := Scalar.ofNat 2 * pi
  let r := whileGeSub z fuel r
  whileNegAdd z fuel r

/-- `rad2dms(rad)`: radians to `ddd.mmss…` in [0, 360) -/
def rad2dms (fuel : Nat) (rad : K) : K :=
  let rad := rad * (Scalar.ofNat 180 / pi)
  let rad := whileGeSub (Scalar.ofNat 360) fuel rad
  let rad := whileNegAdd (Scalar.ofNat 360) fuel rad
  let d : K := Scalar.ofInt (trunc rad)
  let rad := rad - d
  let rad := rad * Scalar.ofNat 60
  let m : K := Scalar.ofInt (trunc rad)
  let rad := rad - m
  let rad := rad * Scalar.ofNat 60
  d + m / Scalar.ofNat 100 + rad / Scalar.ofNat 10000

end

/-! ### `deg2gon`: reading a sexagesimal string -/

def isSpace (c : Char) : Bool :=
  c = ' ' || c = '\t' || c = '\n' || c = '\x0b' || c = '\x0c' || c = '\r'

def isDigit (c : Char) : Bool := '0' ≤ c && c ≤ '9'

def digitVal (c : Char) : Nat := c.toNat - '0'.toNat

/-- `TrimWhiteSpaces` -/
def trimWs (cs : List Char) : List Char :=
  ((cs.dropWhile isSpace).reverse.dropWhile isSpace).reverse

/-- longest prefix of decimal digits: (value, number of digits, rest) -/
def takeDigits : List Char → Nat → Nat → Nat × Nat × List Char
  | c :: cs, acc, k => if isDigit c then takeDigits cs (acc * 10 + digitVal c) (k + 1) else (acc, k, c :: cs)
  | [], acc, k => (acc, k, [])

def intMax : Nat := 2147483647

/-- an optional sign in front of a number: (is it `-`, rest) -/
def splitSign (cs : List Char) : Bool × List Char :=
  match cs with
  | '-' :: r => (true, r)
  | '+' :: r => (false, r)
  | _ => (false, cs)

/-- `istream >> int`: skip white space, optional sign, at least one digit; a value that does
    not fit `int` sets failbit -/
def readInt (cs : List Char) : Option (Int × List Char) :=
  let cs := cs.dropWhile isSpace
  let (neg, cs) := splitSign cs
  let (v, k, rest) := takeDigits cs 0 0
  if k = 0 then none
  else if neg then (if v ≤ intMax + 1 then some (-(v : Int), rest) else none)
  else (if v ≤ intMax then some ((v : Int), rest) else none)

/-- the fraction of a decimal: `. D*` continues the mantissa `ip`; (mantissa, number of fraction digits, rest) -/
def readFrac (ip : Nat) (r1 : List Char) : Nat × Nat × List Char :=
  match r1 with
  | '.' :: r => takeDigits r ip 0
  | _ => (ip, 0, r1)

/-- the exponent of a decimal: nothing, or `(e|E) [+-] D+` (an `e` without digits makes `strtod`'s result
    differ from the extracted text: failbit) -/
def readExp (mant fd : Nat) (r2 : List Char) : Option ((Nat × Int) × List Char) :=
  match r2 with
  | c :: r =>
    if c = 'e' || c = 'E' then
      let (eneg, r) := splitSign r
      let (ev, ek, r3) := takeDigits r 0 0
      if ek = 0 then none
      else some ((mant, (if eneg then -(ev : Int) else (ev : Int)) - (fd : Int)), r3)
    else some ((mant, -(fd : Int)), r2)
  | [] => some ((mant, -(fd : Int)), [])

/-- `istream >> double` when the next character is known to be a digit (libstdc++
    `_M_extract_float` + `strtod` on the extracted text): `D+ [. D*] [(e|E) [+-] D+]`; the result
    is (mantissa, decimal exponent) and must be followed by end of input for `dms.eof()` -/
def readSeconds (cs : List Char) : Option ((Nat × Int) × List Char) :=
  let (ip, _, r1) := takeDigits cs 0 0
  let (mant, fd, r2) := readFrac ip r1
  readExp mant fd r2

/-- `DBL_MAX` plus half a unit in its last place: a decimal at or above it converts to infinity,
    and libstdc++'s `operator>>(double&)` then stores `DBL_MAX` and sets failbit -/
def dblOverflow : Nat := 2 ^ 1024 - 2 ^ 970

/-- does `mantissa · 10^exp` convert to a finite double?  (`dms >> s` fails otherwise; an underflow
    to zero is accepted.)  The guards only keep the powers of ten small. -/
def secFits (p : Nat × Int) : Bool :=
  match p.2 with
  | Int.ofNat e => p.1 == 0 || (decide (e ≤ 309) && decide (p.1 * 10 ^ e < dblOverflow))
  | Int.negSucc k => decide (p.1.log2 ≤ k) || decide (p.1 < dblOverflow * 10 ^ (k + 1))

/-- `-` digit…: the seconds, then `d < 0 || m < 0 || s < 0` and `dms.eof()` -/
def parseSec (negative : Bool) (d m : Int) (cs : List Char) : Option (Bool × Int × Int × (Nat × Int)) :=
  match cs with
  | '-' :: c :: cs' =>
    if !isDigit c then none else
    match readSeconds (c :: cs') with
    | some (s, []) => if !secFits s || d < 0 || m < 0 then none else some (negative, d, m, s)
    | _ => none
  | _ => none

/-- `-` digit…: the minutes -/
def parseMin (negative : Bool) (d : Int) (cs : List Char) : Option (Bool × Int × Int × (Nat × Int)) :=
  match cs with
  | '-' :: c :: cs' =>
    if !isDigit c then none else
    match readInt (c :: cs') with
    | none => none
    | some (m, cs) => parseSec negative d m cs
  | _ => none

/-- the syntactic part of `deg2gon`: sign and the three fields (seconds as mantissa·10^exp);
    `none` is `return false` -/
def parseDms (str : String) : Option (Bool × Int × Int × (Nat × Int)) :=
  match trimWs str.toList with
  | [] => none
  | b :: rest =>
    let negative := b = '-'
    let cs := if b = '-' || b = '+' then rest else b :: rest
    if cs.isEmpty then none else
    match readInt cs with
    | none => none
    | some (d, cs) => parseMin negative d cs

/-- `mantissa · 10^exp` in the scalar type (what `strtod` returns, up to its rounding) -/
def sciToK (p : Nat × Int) : K :=
  if p.2 < 0 then Scalar.ofSci p.1 true p.2.natAbs else Scalar.ofSci p.1 false p.2.natAbs

/-- `deg2gon(deg, gon)`; `none` is `return false` -/
def deg2gon (str : String) : Option K :=
  (parseDms str).map fun (negative, d, m, s) =>
    let gon : K := ((Scalar.ofInt d : K) / Scalar.ofNat 360 + Scalar.ofInt m / Scalar.ofNat 21600
                    + sciToK s / Scalar.ofNat 1296000) * Scalar.ofNat 400
    if !(Scalar.beq gon 0) && negative then -gon else gon

end Gama.Angles
