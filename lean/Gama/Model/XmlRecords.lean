/-
  C12 — the records of the adjustment XML, writer and reader side by side.

  Writer (lib/gnu_gama/xml/localnetworkxml.cpp):
    * `LocalNetworkXML::coordinates`, the three loops over `PD` : `<fixed>`, `<approximate>`, `<adjusted>` → `writePoint`
    * `LocalNetworkXML::orientation_shifts`                                                              → `writeOri`
    * `LocalNetworkXML::observations` + `WriteXMLVisitor::visit(...)`, `tag_id`, `tag_from_to`           → `writeObs`
  A record is the list of its leaf children `(tag, character data)` in document order (the visitor writes
  `<from>/<to>` to `out` and `<obs>/<adj>` to the secondary stream that is flushed after `accept`: from, to come first).
  Character data is what an XML processor delivers (entity references decoded: `C12_ids_wellformed`), numbers are
  `fmt x` (`operator<<` with the precision in force).

  Reader (lib/gnu_gama/xml/localnetwork_adjustment_results.cpp), the sub-automaton of `tagfun[][]` below `<point>`,
  `<orientation>` and an observation element, with the data actions of the handlers:
    * `tag()` (`X`,`Y`,`Z` ↦ t_x,t_y,t_z and `point_con_* = true`), `point/id/x/y/z`             → `readPoint` (on `ReaderPoint`)
    * `orientation/id/ors_approx/ors_adj`                                                          → `readOri`
    * `observation/from/to/left/right/obs_id/obs/obs_adj/stdev/obs_qrr/obs_f/std_residual/err_obs/err_adj` → `readObs`
  `get_float` is `rd` (`none` = "float syntax error"), `get_string` is `getString` (strips leading / trailing blanks).

  Core Lean only (linked into `drv_xml`).
-/
import Gama.Scalar
import Gama.Model.ReaderPoint
namespace Gama.XmlRec
open Gama.ReaderPoint

structure Leaf where
  tag : String
  data : String
deriving DecidableEq, Repr

/-- `operator<<(double)` with the precision in force / `Parser::get_float` -/
structure Num (K : Type) where
  fmt : K → String
  rd : String → Option K

/-- `const char* ws = " \t\r\n"` -/
def isWs (c : Char) : Bool := c == ' ' || c == '\t' || c == '\r' || c == '\n'

def trimL (l : List Char) : List Char := l.dropWhile isWs

/-- `Parser::get_string()` : the character data without leading and trailing white space -/
def getString (s : String) : String := String.ofList (trimL (trimL s.toList).reverse).reverse

/-- `PointID::init` leaves no leading or trailing white space -/
def Trimmed (s : String) : Prop := trimL s.toList = s.toList ∧ trimL s.toList.reverse = s.toList.reverse

/-! ## points -/

inductive Sect where | fixed | approximate | adjusted
deriving DecidableEq, Repr

/-- what the loops read of a `LocalPoint` -/
structure LPoint (K : Type) where
  id : String
  activeXY : Bool
  activeZ : Bool
  ix : Nat
  iy : Nat
  iz : Nat
  conXY : Bool      -- constrained_xy()
  conZ : Bool       -- constrained_z()
  x : K
  y : K
  z : K
deriving Repr

/-- network-wide quantities the writer reads -/
structure Frame (K : Type) where
  ySign : K          -- netinfo->y_sign()
  X : Nat → K        -- netinfo->solve()  (corrections, mm / cc)
  r2g : K            -- R2G
  scale : K          -- gons() ? 1.0 : 0.324
  kki : K            -- conf_int_coef()

variable {K : Type}

def bxy (s : Sect) (p : LPoint K) : Bool :=
  p.activeXY && (match s with | .fixed => p.ix == 0 | _ => p.ix != 0)
def bz (s : Sect) (p : LPoint K) : Bool :=
  p.activeZ && (match s with | .fixed => p.iz == 0 | _ => p.iz != 0)

/-- the point is written in this section (`continue` otherwise) -/
def listed (s : Sect) (p : LPoint K) : Bool :=
  !(!p.activeXY && !p.activeZ) && !(!bxy s p && !bz s p)

section vals
variable [Scalar K]
def k1000 : K := Scalar.ofNat 1000
def k10000 : K := Scalar.ofNat 10000
def k400 : K := Scalar.ofNat 400

def valX (s : Sect) (f : Frame K) (p : LPoint K) : K :=
  match s with | .adjusted => p.x + f.X p.ix / k1000 | _ => p.x
def valY (s : Sect) (f : Frame K) (p : LPoint K) : K :=
  match s with | .adjusted => (p.y + f.X p.iy / k1000) * f.ySign | _ => p.y * f.ySign
def valZ (s : Sect) (f : Frame K) (p : LPoint K) : K :=
  match s with | .adjusted => p.z + f.X p.iz / k1000 | _ => p.z
end vals

def capXY (s : Sect) (p : LPoint K) : Bool := s != .fixed && p.conXY
def capZ (s : Sect) (p : LPoint K) : Bool := s != .fixed && p.conZ

/-- children of one `<point>` -/
def writePoint [Scalar K] (N : Num K) (s : Sect) (f : Frame K) (p : LPoint K) : List Leaf :=
  [⟨"id", p.id⟩] ++
  (if bxy s p then [⟨if capXY s p then "X" else "x", N.fmt (valX s f p)⟩, ⟨if capXY s p then "Y" else "y", N.fmt (valY s f p)⟩]
   else []) ++
  (if bz s p then [⟨if capZ s p then "Z" else "z", N.fmt (valZ s f p)⟩] else [])

/-- the `<point>`s of a section -/
def writeSection [Scalar K] (N : Num K) (s : Sect) (f : Frame K) (pts : List (LPoint K)) : List (List Leaf) :=
  (pts.filter (listed s)).map (writePoint N s f)

/-! ### reader -/

inductive RErr where
  | unknownTag            -- `tag()` : "unknown tag"
  | illegalContext        -- `tagfun[state][t] == &Parser::unknown`
  | floatSyntax           -- `get_float` : "float syntax error"
  | xWithoutY | conXWithoutY
  | missingApproxAdj      -- orientation(false) : "missing tag <approx> or <adj>"
  | obsAttrMissing        -- observation(false) : "observation attribute(s) missing"
deriving DecidableEq, Repr

/-- states below `<point>` : s_point, s_id_end, s_x_end, s_y_end, s_z_end -/
inductive PSt where | point | idEnd | xEnd | yEnd | zEnd
deriving DecidableEq, Repr

inductive PTag where | id | x | y | z
deriving DecidableEq, Repr

/-- `Parser::tag` restricted to the names that can follow: the tag and whether it is the capital (constrained) form -/
def ptag : String → Option (PTag × Bool)
  | "id" => some (.id, false)
  | "x" => some (.x, false) | "X" => some (.x, true)
  | "y" => some (.y, false) | "Y" => some (.y, true)
  | "z" => some (.z, false) | "Z" => some (.z, true)
  | _ => none

/-- the rows `tagfun[s_point][t_id]`, `[s_id_end][t_x]`, `[s_id_end][t_z]`, `[s_x_end][t_y]`, `[s_y_end][t_z]` -/
def pnext : PSt → PTag → Option PSt
  | .point, .id => some .idEnd
  | .idEnd, .x => some .xEnd
  | .idEnd, .z => some .zEnd
  | .xEnd, .y => some .yEnd
  | .yEnd, .z => some .zEnd
  | _, _ => none

/-- one leaf child of `<point>` : startElement (tag, transition) and endElement (data action) -/
def pleaf (N : Num K) (st : PSt × PState K) (l : Leaf) : Except RErr (PSt × PState K) :=
  match ptag l.tag with
  | none => .error .unknownTag
  | some (t, con) =>
    match pnext st.1 t with
    | none => .error .illegalContext
    | some st' =>
      match t with
      | .id => .ok (st', child st.2 (.id (getString l.data)))
      | .x => match N.rd l.data with
              | some v => .ok (st', child st.2 (.x v con))
              | none => .error .floatSyntax
      | .y => match N.rd l.data with
              | some v => .ok (st', child st.2 (.y v con))
              | none => .error .floatSyntax
      | .z => match N.rd l.data with
              | some v => .ok (st', child st.2 (.z v con))
              | none => .error .floatSyntax

def pleaves (N : Num K) : PSt × PState K → List Leaf → Except RErr (PSt × PState K)
  | st, [] => .ok st
  | st, l :: ls => match pleaf N st l with
    | .ok st' => pleaves N st' ls
    | .error e => .error e

def liftErr : ReaderPoint.Err → RErr
  | .xWithoutY => .xWithoutY
  | .conXWithoutY => .conXWithoutY

/-- `<point>` … `</point>` -/
def readPoint (N : Num K) (zero : K) (s : PState K) (ls : List Leaf) : Except RErr (PState K) :=
  match pleaves N (.point, pointStart zero s) ls with
  | .error e => .error e
  | .ok (_, s') => match pointEnd s' with
    | .ok r => .ok r
    | .error e => .error (liftErr e)

def readPoints (N : Num K) (zero : K) : PState K → List (List Leaf) → Except RErr (PState K)
  | s, [] => .ok s
  | s, p :: ps => match readPoint N zero s p with
    | .ok s' => readPoints N zero s' ps
    | .error e => .error e

/-- the record the reader is expected to hold for a written point, `q` = what reading a printed number gives -/
def expectPoint [Scalar K] (q : K → K) (zero : K) (s : Sect) (f : Frame K) (k : Nat) (p : LPoint K) : PointRec K :=
  let a := s == .adjusted
  let hxy := bxy s p
  let hz := bz s p
  let k1 := if a && hxy then k + 2 else k
  ⟨p.id, if hxy then q (valX s f p) else zero, if hxy then q (valY s f p) else zero, if hz then q (valZ s f p) else zero,
   hxy, hz, hxy && capXY s p, hz && capZ s p,
   if a && hxy then k + 1 else 0, if a && hxy then k + 2 else 0, if a && hz then k1 + 1 else 0⟩

def nextK (s : Sect) (k : Nat) (p : LPoint K) : Nat :=
  let a := s == .adjusted
  let k1 := if a && bxy s p then k + 2 else k
  if a && bz s p then k1 + 1 else k1

/-- the section's records with the running counter -/
def expectSection [Scalar K] (q : K → K) (zero : K) (s : Sect) (f : Frame K) : Nat → List (LPoint K) → List (PointRec K) × Nat
  | k, [] => ([], k)
  | k, p :: ps =>
    if listed s p then
      let (r, k') := expectSection q zero s f (nextK s k p) ps
      (expectPoint q zero s f k p :: r, k')
    else expectSection q zero s f k ps

/-! ## orientations -/

structure LOri (K : Type) where
  id : String        -- unknown_pointid(i)
  i : Nat            -- the unknown's number
  orientation : K    -- unknown_standpoint(i)->orientation()  (rad)
deriving Repr

section orivals
variable [Scalar K]
/-- `if (z < 0) z += 400; if (z > 400) z -= 400;` -/
def normOri (z : K) : K :=
  let z1 := if z < (0 : K) then z + k400 else z
  if k400 < z1 then z1 - k400 else z1
def oriApprox (f : Frame K) (o : LOri K) : K := normOri (f.ySign * o.orientation * f.r2g)
def oriAdj (f : Frame K) (o : LOri K) : K := normOri (oriApprox f o + f.ySign * f.X o.i / k10000)
end orivals

def writeOri [Scalar K] (N : Num K) (f : Frame K) (o : LOri K) : List Leaf :=
  [⟨"id", o.id⟩, ⟨"approx", N.fmt (oriApprox f o)⟩, ⟨"adj", N.fmt (oriAdj f o)⟩]

structure OriRec (K : Type) where
  id : String
  approx : K
  adj : K
  index : Nat
deriving DecidableEq, Repr

/-- `tmp_orientation`, `tmp_id`, `tmp_adj_index`, `adj->orientations` -/
structure OState (K : Type) where
  tmp : OriRec K
  tmpId : String
  k : Nat
  out : List (OriRec K)
deriving Repr

/-- s_orientation, s_id_end, s_ors_approx_end, s_ors_adj_end -/
inductive OSt where | orientation | idEnd | approxEnd | adjEnd
deriving DecidableEq, Repr

/-- `tagfun[s_orientation][t_id]`, `[s_id_end][t_approx]`, `[s_ors_approx_end][t_adj]`; from `s_id_end` the point tags
    `x`, `z` are legal transitions too (the state is shared with `<point>`): they lead out of this sub-automaton -/
def oleaf (N : Num K) (st : OSt × OState K) (l : Leaf) : Except RErr (OSt × OState K) :=
  match st.1, l.tag with
  | .orientation, "id" => .ok (.idEnd, { st.2 with tmpId := getString l.data })
  | .idEnd, "approx" => match N.rd l.data with
    | some v => .ok (.approxEnd, { st.2 with tmp := { st.2.tmp with approx := v } })
    | none => .error .floatSyntax
  | .approxEnd, "adj" => match N.rd l.data with
    | some v => .ok (.adjEnd, { st.2 with tmp := { st.2.tmp with adj := v } })
    | none => .error .floatSyntax
  | _, _ => .error .illegalContext

def oleaves (N : Num K) : OSt × OState K → List Leaf → Except RErr (OSt × OState K)
  | st, [] => .ok st
  | st, l :: ls => match oleaf N st l with
    | .ok st' => oleaves N st' ls
    | .error e => .error e

/-- `<orientation>` … `</orientation>` : `orientation(false)` requires `s_ors_adj_end` -/
def readOri (N : Num K) (s : OState K) (ls : List Leaf) : Except RErr (OState K) :=
  match oleaves N (.orientation, s) ls with
  | .error e => .error e
  | .ok (st, s') =>
    if st = .adjEnd then
      let r : OriRec K := { s'.tmp with id := s'.tmpId, index := s'.k + 1 }
      .ok { s' with tmp := r, k := s'.k + 1, out := s'.out ++ [r] }
    else .error .missingApproxAdj

def readOris (N : Num K) : OState K → List (List Leaf) → Except RErr (OState K)
  | s, [] => .ok s
  | s, o :: os => match readOri N s o with
    | .ok s' => readOris N s' os
    | .error e => .error e

def expectOri [Scalar K] (q : K → K) (f : Frame K) (k : Nat) (o : LOri K) : OriRec K :=
  ⟨o.id, q (oriApprox f o), q (oriAdj f o), k + 1⟩

def expectOris [Scalar K] (q : K → K) (f : Frame K) : Nat → List (LOri K) → List (OriRec K)
  | _, [] => []
  | k, o :: os => expectOri q f k o :: expectOris q f (k + 1) os

/-! ## observations -/

inductive OKind where
  | distance | direction | angle | heightDiff | slopeDistance | zenithAngle
  | coordX | coordY | coordZ | dx | dy | dz | azimuth
deriving DecidableEq, Repr

def OKind.all : List OKind :=
  [.distance, .direction, .angle, .heightDiff, .slopeDistance, .zenithAngle, .coordX, .coordY, .coordZ, .dx, .dy, .dz, .azimuth]

/-- `(tag="…")` in the visitor -/
def OKind.tag : OKind → String
  | .distance => "distance" | .direction => "direction" | .angle => "angle" | .heightDiff => "height-diff"
  | .slopeDistance => "slope-distance" | .zenithAngle => "zenith-angle" | .coordX => "coordinate-x"
  | .coordY => "coordinate-y" | .coordZ => "coordinate-z" | .dx => "dx" | .dy => "dy" | .dz => "dz"
  | .azimuth => "azimuth"

/-- `ostr->precision(angular)` and `R2G*value`, `v(i)/10000` -/
def OKind.angular : OKind → Bool
  | .direction | .angle | .zenithAngle | .azimuth => true
  | _ => false
/-- `if (m < 0) m += 400; if (m >= 400) m -= 400;` after the correction -/
def OKind.wraps : OKind → Bool
  | .direction | .angle | .azimuth => true
  | _ => false
/-- `y_sign*m` -/
def OKind.mirrored : OKind → Bool
  | .coordY | .dy => true
  | _ => false
/-- `ml *= scale` in `LocalNetworkXML::observations` (the `dynamic_cast` chain) -/
def OKind.stdevScaled : OKind → Bool
  | .direction | .angle | .zenithAngle => true
  | _ => false
/-- which station children the visitor writes -/
inductive Ends where | fromTo | fromLeftRight | idOnly
deriving DecidableEq, Repr
def OKind.ends : OKind → Ends
  | .angle => .fromLeftRight
  | .coordX | .coordY | .coordZ => .idOnly
  | _ => .fromTo

structure LObs (K : Type) where
  kind : OKind
  from_ : String
  to : String
  bs : String
  fs : String
  value : K       -- obs->value()
  v : K           -- v(i)
  stdev : K       -- stdev_obs(i)
  qrr : K         -- wcoef_res(i)
  f : K           -- obs_control(i)
  stud : K        -- fabs(studentized_residual(i))
  weight : K      -- weight_obs(i)
  diagCov : Bool  -- ptr_cluster()->covariance_matrix.bandWidth() == 0
deriving Repr

section obsvals
variable [Scalar K]
def k01 : K := Scalar.ofSci 1 true 1      -- 0.1
def k5 : K := Scalar.ofNat 5

def normAng (m : K) : K :=
  let m1 := if m < (0 : K) then m + k400 else m
  if k400 ≤ m1 then m1 - k400 else m1

def obsVal (f : Frame K) (o : LObs K) : K :=
  if o.kind.angular then f.r2g * o.value
  else if o.kind.mirrored then f.ySign * o.value else o.value

def adjVal (f : Frame K) (o : LObs K) : K :=
  if o.kind.angular then
    let m := f.r2g * o.value + o.v / k10000
    if o.kind.wraps then normAng m else m
  else
    let m := o.value + o.v / k1000
    if o.kind.mirrored then f.ySign * m else m

def stdevVal (f : Frame K) (o : LObs K) : K := if o.kind.stdevScaled then o.stdev * f.scale else o.stdev

/-- `f >= 0.1` -/
def hasStud (o : LObs K) : Bool := decide (k01 ≤ o.f)
/-- `bandWidth() == 0 && (f >= 5 || (f >= 0.1 && no > kki))` (inside `f >= 0.1`) -/
def hasErr (f : Frame K) (o : LObs K) : Bool :=
  hasStud o && o.diagCov && (decide (k5 ≤ o.f) || (decide (k01 ≤ o.f) && decide (f.kki < o.stud)))
def errObs (f : Frame K) (o : LObs K) : K := o.v / (o.qrr * o.weight) * f.scale
def errAdj (f : Frame K) (o : LObs K) : K := (o.v / (o.qrr * o.weight) - o.v) * f.scale
end obsvals

/-- children of one observation element -/
def writeObs [Scalar K] (N : Num K) (f : Frame K) (o : LObs K) : List Leaf :=
  (match o.kind.ends with
   | .fromTo => [⟨"from", o.from_⟩, ⟨"to", o.to⟩]
   | .fromLeftRight => [⟨"from", o.from_⟩, ⟨"left", o.bs⟩, ⟨"right", o.fs⟩]
   | .idOnly => [⟨"id", o.from_⟩]) ++
  [⟨"obs", N.fmt (obsVal f o)⟩, ⟨"adj", N.fmt (adjVal f o)⟩, ⟨"stdev", N.fmt (stdevVal f o)⟩,
   ⟨"qrr", N.fmt o.qrr⟩, ⟨"f", N.fmt o.f⟩] ++
  (if hasStud o then [⟨"std-residual", N.fmt o.stud⟩] else []) ++
  (if hasErr f o then [⟨"err-obs", N.fmt (errObs f o)⟩, ⟨"err-adj", N.fmt (errAdj f o)⟩] else [])

structure ObsRec (K : Type) where
  xmlTag : String
  from_ : String
  to : String
  left : String
  right : String
  obs : K
  adj : K
  stdev : K
  qrr : K
  f : K
  stdResidual : K
  errObs : String
  errAdj : String
deriving DecidableEq, Repr

/-- `Observation::clear()` -/
def clearObs (zero : K) : ObsRec K := ⟨"", "", "", "", "", zero, zero, zero, zero, zero, zero, "", ""⟩

/-- s_observation, s_from_end, s_left_end, s_to_end, s_obs_id_end, s_obs_end, s_obs_adj_end, s_stdev_end, s_obs_qrr_end,
    s_obs_f_end, s_std_residual_end, s_err_obs_end, s_err_adj_end -/
inductive BSt where
  | observation | fromEnd | leftEnd | toEnd | obsIdEnd | obsEnd | adjEnd | stdevEnd | qrrEnd | fEnd | studEnd | errObsEnd | errAdjEnd
deriving DecidableEq, Repr

def setNum (N : Num K) (l : Leaf) (st : BSt) (upd : K → ObsRec K) : Except RErr (BSt × ObsRec K) :=
  match N.rd l.data with
  | some v => .ok (st, upd v)
  | none => .error .floatSyntax

/-- the rows of `tagfun` below an observation element with the end-tag actions
    (`right(false)` sets `s_to_end`, `err_obs/err_adj` are kept as strings) -/
def bleaf (N : Num K) (st : BSt × ObsRec K) (l : Leaf) : Except RErr (BSt × ObsRec K) :=
  let r := st.2
  match st.1, l.tag with
  | .observation, "from" => .ok (.fromEnd, { r with from_ := getString l.data })
  | .observation, "id" => .ok (.obsIdEnd, { r with from_ := getString l.data })
  | .fromEnd, "to" => .ok (.toEnd, { r with to := getString l.data })
  | .fromEnd, "left" => .ok (.leftEnd, { r with left := getString l.data })
  | .leftEnd, "right" => .ok (.toEnd, { r with right := getString l.data })
  | .toEnd, "obs" => setNum N l .obsEnd (fun v => { r with obs := v })
  | .obsIdEnd, "obs" => setNum N l .obsEnd (fun v => { r with obs := v })
  | .obsEnd, "adj" => setNum N l .adjEnd (fun v => { r with adj := v })
  | .adjEnd, "stdev" => setNum N l .stdevEnd (fun v => { r with stdev := v })
  | .stdevEnd, "qrr" => setNum N l .qrrEnd (fun v => { r with qrr := v })
  | .qrrEnd, "f" => setNum N l .fEnd (fun v => { r with f := v })
  | .fEnd, "std-residual" => setNum N l .studEnd (fun v => { r with stdResidual := v })
  | .studEnd, "err-obs" => .ok (.errObsEnd, { r with errObs := getString l.data })
  | .errObsEnd, "err-adj" => .ok (.errAdjEnd, { r with errAdj := getString l.data })
  | _, _ => .error .illegalContext

def bleaves (N : Num K) : BSt × ObsRec K → List Leaf → Except RErr (BSt × ObsRec K)
  | st, [] => .ok st
  | st, l :: ls => match bleaf N st l with
    | .ok st' => bleaves N st' ls
    | .error e => .error e

/-- one observation element: `observation(true)` clears `tmp_obs` and stores the tag name, `observation(false)` requires
    `s_obs_f_end`, `s_std_residual_end` or `s_err_adj_end` and pushes the record -/
def readObs (N : Num K) (zero : K) (tag : String) (ls : List Leaf) : Except RErr (ObsRec K) :=
  match bleaves N (.observation, { clearObs zero with xmlTag := tag }) ls with
  | .error e => .error e
  | .ok (st, r) => if st = .fEnd ∨ st = .studEnd ∨ st = .errAdjEnd then .ok r else .error .obsAttrMissing

def expectObs [Scalar K] (N : Num K) (q : K → K) (zero : K) (f : Frame K) (o : LObs K) : ObsRec K :=
  ⟨o.kind.tag, o.from_,
   (if o.kind.ends = .fromTo then o.to else ""),
   (if o.kind.ends = .fromLeftRight then o.bs else ""),
   (if o.kind.ends = .fromLeftRight then o.fs else ""),
   q (obsVal f o), q (adjVal f o), q (stdevVal f o), q o.qrr, q o.f,
   (if hasStud o then q o.stud else zero),
   (if hasErr f o then getString (N.fmt (errObs f o)) else ""),
   (if hasErr f o then getString (N.fmt (errAdj f o)) else "")⟩

end Gama.XmlRec
