/-
  C04 round 13 — executing the network-level denotation (Model/NetDenote.lean) at Float on the state of a real
  `LocalNetwork`: parser of the state items `harness/c04_net.cpp` prints for `denote` (the vocabulary of
  harness/pe_net.cpp / Driver/ProjectEquations.lean: `net`, `pt`, `cl S|O`, `ob`, here items of ONE line separated by `|`)
  into a `PE.Net Float`, and the printer of the level-3 value `specRead` names.  Core Lean only.
-/
import Gama.Proto
import Gama.Model.NetDenote
namespace Gama.C04.Net
open Gama Gama.Proto Gama.Lin

/-- fuel for every `while` of the linearisation (as Driver/ProjectEquations.lean) -/
def denFuel : Nat := 100000

def kindOf? (cls : String) : Option Kind := Kind.all.find? (fun k => k.className = cls)

def status? : String → Option Status
  | "u" => some .unused | "f" => some .fixed | "a" => some .free | "c" => some .constrained | _ => none

def bool01? : String → Option Bool
  | "0" => some false | "1" => some true | _ => none

def addIdx (s : IdxState) (p : Nat) (c : Coord) (i : Nat) : IdxState :=
  if i = 0 then s else { s with tab := s.tab ++ [(⟨p, c⟩, i)] }

/-- one item; `none`: malformed -/
def parseItem (net : PE.Net Float) : List String → Option (PE.Net Float)
  | ["pt", id, x, y, z, sxy, sz, ix, iy, iz] => do
    let x ← float? x; let y ← float? y; let z ← float? z
    let a ← status? sxy; let b ← status? sz
    let ix ← ix.toNat?; let iy ← iy.toNat?; let iz ← iz.toNat?
    let p := net.points.length
    let id := if id = "<empty>" then "" else id
    some { net with points := net.points ++ [⟨id, ⟨x, y, z, a, b⟩⟩]
                    idx := addIdx (addIdx (addIdx net.idx p .x ix) p .y iy) p .z iz }
  | "cl" :: "S" :: st :: has :: ori :: d :: b :: rest => do
    let st ← st.toNat?; let has ← bool01? has; let ori ← float? ori
    let d ← d.toNat?; let b ← b.toNat?; let vs ← rest.mapM float?
    some { net with clusters := net.clusters ++ [⟨some (st, if has then some ori else none), ⟨d, b, vs.toArray⟩, []⟩] }
  | "cl" :: "O" :: d :: b :: rest => do
    let d ← d.toNat?; let b ← b.toNat?; let vs ← rest.mapM float?
    some { net with clusters := net.clusters ++ [⟨none, ⟨d, b, vs.toArray⟩, []⟩] }
  | ["ob", a, cls, frm, to, fs, v] => do
    let a ← bool01? a; let k ← kindOf? cls
    let frm ← frm.toNat?; let to ← to.toNat?; let fs ← fs.toNat?; let v ← float? v
    let c ← net.clusters.getLast?
    some { net with clusters := net.clusters.dropLast ++ [{ c with obs := c.obs ++ [⟨a, k, frm, to, fs, v⟩] }] }
  | _ => none

/-- split a token list at the separator `|` -/
def splitBar : List String → List (List String)
  | [] => [[]]
  | t :: ts =>
    match splitBar ts with
    | [] => [[t]]
    | g :: gs => if t = "|" then [] :: g :: gs else (t :: g) :: gs

/-- `net <m0> <xNorth> | pt … | cl … | ob …` -/
def parseNet (ts : List String) : Option (PE.Net Float) :=
  match splitBar ts with
  | ["net", m0, xn] :: items => do
    let m0 ← float? m0; let xn ← float? xn
    items.foldlM parseItem (⟨[], [], m0, xn, denFuel, ⟨0, []⟩⟩ : PE.Net Float)
  | _ => none

def showVecN (v : Array Float) : String := v.foldl (fun s x => s ++ " " ++ showFloat x) s!"{v.size}"

/-- the level-3 value, printed in the shape of the harness' `den` line -/
def showDen (cls : String) : NDen Float → String
  | .adj (.ok a) => s!"den {cls} x " ++ showVecN a.x ++ " r " ++ showVecN a.r ++ " pvv " ++ showFloat a.pvv
  | .adj (.error e) => s!"den {cls} throw {e.name}"
  | .pe _ => "den pe"
  | .sym => "den sym"
  | .stale => s!"den {cls} no-value"

end Gama.C04.Net
