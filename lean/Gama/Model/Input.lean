/-
  Input normalisation of gama-local as functions (core Lean only):

  * gon2deg.cpp `deg2gon` — NOT modelled here: `process_*` call the shared model
    `Gama.Angles.deg2gon` (`Gama/Model/Angles.lean`, C18: full accepted language + value);
  * gkfparser.cpp `process_direction/angle/zangle/azimuth` + `finish_obs` — the stored value
    `dm*G2R`, the variance `stdev*stdev`, and for observations whose *value* was sexagesimal the
    rescaling `Cluster::scaleCov(i, 1.0/0.324)` (obsdata.h) of row/column `i`;
  * gkfparser.cpp `process_network` (`axes-xy`, `angles`), lcoords.h
    (`right_handed_coordinates`, `left_handed_coordinates`), angobs.h, network.cpp
    `consistent`, `y_sign`, `remove_inconsistency`, `return_inconsistency`,
    `change_y_signs_for_inconsistent_system_`.
-/
import Gama.Model.LinTypes
import Gama.Model.Angles
namespace Gama.Input
open Gama Gama.Lin

/-! ### sexagesimal values -/

section
variable {K : Type} [Scalar K]

/-! `deg2gon` itself (the complete accepted language of the three `istream` extractions and the
    value formula) is the SHARED model `Gama.Angles.deg2gon` of `Gama/Model/Angles.lean` (C18, tied
    to gon2deg.cpp by C18's literal stream and by this check's `dms`/`ang` operations); there is no
    second copy here. -/

def isDigit (c : Char) : Bool := '0' ≤ c && c ≤ '9'

def takeDigits : List Char → Nat → Nat → Nat × Nat × List Char
  | c :: cs, acc, k => if isDigit c then takeDigits cs (acc * 10 + (c.toNat - '0'.toNat)) (k + 1) else (acc, k, c :: cs)
  | [], acc, k => (acc, k, [])

/-- a plain decimal literal `D+[.D*]` as `mantissa, number of fraction digits` -/
def readDecimal (cs : List Char) : Option ((Nat × Nat) × List Char) :=
  let (ip, k, r1) := takeDigits cs 0 0
  if k = 0 then none else
  match r1 with
  | '.' :: r => let (v, fd, r') := takeDigits r ip 0; some ((v, fd), r')
  | _ => some ((ip, 0), r1)

/-- `[+-]D+[.D*]` read by `toDouble` (plain decimals only) -/
def parseDecimal (str : String) : Option (Bool × (Nat × Nat)) :=
  match str.toList with
  | [] => none
  | b :: rest =>
    let negative := b = '-'
    let cs := if b = '-' || b = '+' then rest else b :: rest
    match readDecimal cs with
    | some (s, []) => some (negative, s)
    | _ => none

def decToK (p : Nat × Nat) : K := Scalar.ofSci p.1 true p.2

/-- what `process_direction/angle/zangle/azimuth` compute from the attribute `val`:
    `(dm, degrees)`; `deg2gon` is tried first -/
def angularValue (val : String) : Option (K × Bool) :=
  match (Angles.deg2gon val : Option K) with
  | some g => some (g, true)
  | none =>
    match parseDecimal val with
    | some (neg, s) => some (if neg then -(decToK s : K) else decToK s, false)
    | none => none

end

/-- `dm*G2R` with `#define G2R M_PI/200.0` expanded textually: `(dm*M_PI)/200.0` -/
def toRadians {K : Type} [TrigScalar K] (dm : K) : K := (dm * TrigScalar.pi) / Scalar.ofSci 2000 true 1

section
variable {K : Type} [Scalar K]

/-- `1.0/0.324` -/
def secScale : K := (Scalar.ofSci 10 true 1 : K) / Scalar.ofSci 324 true 3

/-- the diagonal element of an `<obs>` cluster without `<cov-mat>` after `finish_obs`:
    `*c = s.first*s.first;` then, when the value was sexagesimal, `scaleCov(i, 1.0/0.324)`
    which multiplies the diagonal twice (`covariance_matrix(p,p) *= sc` and the loop over
    `i = q..k` passes through `i = p`) -/
def variance (stdev : K) (degrees : Bool) : K :=
  let c := stdev * stdev
  if degrees then (c * secScale) * secScale else c

/-- `Cluster::scaleCov(p, sc)` on a symmetric band matrix given densely (1-based `p`; the
    elements `(p,i)` and `(i,p)` are one stored number): the diagonal gets `sc` twice, the
    other elements of row/column `p` inside the band once -/
def scaleCov (band : Nat) (C : List (List K)) (p : Nat) (sc : K) : List (List K) :=
  (List.range C.length).map fun i => (List.range C.length).map fun j =>
    let c := (C.getD i []).getD j (Scalar.ofNat 0)
    if i + 1 = p && j + 1 = p then (c * sc) * sc
    else if (i + 1 = p || j + 1 = p) && (i ≤ j + band && j ≤ i + band) then c * sc
    else c

end

/-! ### axes, sense of angles, consistency -/

/-- `process_network`: attribute `axes-xy` -/
def parseAxes : String → Option CS
  | "ne" => some .NE | "sw" => some .SW | "es" => some .ES | "wn" => some .WN
  | "en" => some .EN | "nw" => some .NW | "se" => some .SE | "ws" => some .WS
  | _ => none

/-- attribute `angles`: `true` = left-handed -/
def parseAngles : String → Option Bool
  | "left-handed" => some true | "right-handed" => some false | _ => none

/-- position in `enum class CS { EN, NW, SE, WS, NE, SW, ES, WN }` -/
def CS.ord : CS → Nat
  | .EN => 0 | .NW => 1 | .SE => 2 | .WS => 3 | .NE => 4 | .SW => 5 | .ES => 6 | .WN => 7

/-- `local_coordinate_system < CS::NE` -/
def rightHandedCoords (cs : CS) : Bool := CS.ord cs < CS.ord .NE
/-- `local_coordinate_system > CS::WS` -/
def leftHandedCoords (cs : CS) : Bool := CS.ord .WS < CS.ord cs

/-- `LocalNetwork::consistent` -/
def consistent (cs : CS) (leftHandedAngles : Bool) : Bool := leftHandedCoords cs == leftHandedAngles

/-- `LocalNetwork::y_sign` -/
def ySign {K : Type} [Scalar K] (cs : CS) (lh : Bool) : K :=
  if consistent cs lh then Scalar.ofNat 1 else -(Scalar.ofNat 1)

/-- the observation classes of observation.h -/
inductive ObsKind where
  | direction | distance | angle | h_diff | s_distance | z_angle | x | y | z | xdiff | ydiff | zdiff | azimuth
deriving DecidableEq, Repr

structure NetPoint (K : Type) where
  /-- `test_xy()` -/
  hasXY : Bool
  x : K
  y : K
  z : K

structure NetObs (K : Type) where
  kind : ObsKind
  value : K

/-- a cluster: its observations in list order and its covariance matrix (`dim`, and the element
    `(r, s)`, 0-based, as a function; symmetric; the elements outside the band are 0) -/
structure NetCluster (K : Type) where
  obs : List (NetObs K)
  dim : Nat
  cov : Nat → Nat → K

structure Net (K : Type) where
  cs : CS
  leftHandedAngles : Bool
  /-- `removed_inconsistency_` -/
  removed : Bool
  points : List (NetPoint K)
  clusters : List (NetCluster K)

variable {K : Type} [Scalar K]

/-- `Y` and `Ydiff` are the mirrored components -/
def NetObs.mirrored (o : NetObs K) : Bool := o.kind = .y || o.kind = .ydiff

/-- `mirrored[r]` of the code for the 0-based position `r` (positions past the list: `false`
    never arise, `N = min(dim, #obs)`) -/
def mirroredAt (obs : List (NetObs K)) (r : Nat) : Bool :=
  match obs[r]? with
  | some o => o.mirrored
  | none => false

/-- the covariance loop: `if (mirrored[r] != mirrored[s]) C(r,s) = -C(r,s)` for `r < s` inside
    the band and `r, s ≤ N = min(dim, #obs)`; `(r,s)` and `(s,r)` are one stored number, elements
    outside the band are 0 and stay 0 -/
def flipCov (obs : List (NetObs K)) (dim : Nat) (C : Nat → Nat → K) : Nat → Nat → K :=
  fun r s =>
    if r < dim && s < dim && r < obs.length && s < obs.length && mirroredAt obs r != mirroredAt obs s
    then -(C r s) else C r s

/-- one cluster of `change_y_signs_for_inconsistent_system_` -/
def flipCluster (c : NetCluster K) : NetCluster K :=
  { obs := c.obs.map fun o => if o.mirrored then { o with value := -o.value } else o
    dim := c.dim
    cov := flipCov c.obs c.dim c.cov }

/-- `change_y_signs_for_inconsistent_system_`: `y ↦ -y` for every point with xy; in every cluster
    the value of every `Y` and `Ydiff` observation is negated and every covariance between a
    mirrored and a not mirrored component changes sign (fix c7fddb0) -/
def changeYSigns (n : Net K) : Net K :=
  { n with
    points := n.points.map fun p => if p.hasXY then { p with y := -p.y } else p
    clusters := n.clusters.map flipCluster }

/-- `remove_inconsistency` -/
def removeInconsistency (n : Net K) : Net K :=
  if consistent n.cs n.leftHandedAngles then n
  else if n.removed then n
  else { changeYSigns n with removed := true }

/-- `return_inconsistency` -/
def returnInconsistency (n : Net K) : Net K :=
  if !n.removed then n else { changeYSigns n with removed := false }

/-- what the writers print for an internal `y` (adjusted, approximate, fixed; `Y`, `Ydiff`) -/
def outY (n : Net K) (y : K) : K := ySign n.cs n.leftHandedAngles * y

/-! ### the way out: what the adjustment XML writes (lib/gnu_gama/xml/localnetworkxml.cpp)

    adjusted coordinates   `x = p.x()+X(p.index_x())/1000;  y = (p.y()+X(p.index_y())/1000)*y_sign;`
    orientation shifts     `z = y_sign*(k->orientation())*R2G; if (z < 0) z += 400; if (z > 400) z -= 400;` (approx),
                           `cor = y_sign*X(i)/10000; z += cor;` and the same two tests (adj)
    `<cov-mat>`            `m2*netinfo->qxx(ind[i], ind[j])`             — NO `y_sign`
    ellipse `<alpha>`      `netinfo->std_error_ellipse(ID, major, minor, alpha)` of the internal system — NO `y_sign`
    (known finding C07-F3: the last two are written in the internally mirrored system) -/

section Output
variable {K : Type} [Scalar K]

def outAdjX (x dx : K) : K := x + dx / Scalar.ofNat 1000

def outAdjY (ysign y dy : K) : K := (y + dy / Scalar.ofNat 1000) * ysign

/-- `if (z < 0) z += 400; if (z > 400) z -= 400;` -/
def norm400 (z : K) : K :=
  let z1 := if z < 0 then z + Scalar.ofNat 400 else z
  if Scalar.ofNat 400 < z1 then z1 - Scalar.ofNat 400 else z1

/-- `<approx>` of an orientation; `oriGon` = `k->orientation()*R2G` -/
def outOriApprox (ysign oriGon : K) : K := norm400 (ysign * oriGon)

/-- `<adj>` of an orientation; `dcc` = `X(i)` (in cc) -/
def outOriAdj (ysign oriGon dcc : K) : K := norm400 (outOriApprox ysign oriGon + ysign * dcc / Scalar.ofNat 10000)

/-- an element of `<cov-mat>`: the cofactor of the INTERNAL system times `m0²`, whatever `y_sign()` is -/
def outCov (_ysign m0 q : K) : K := (m0 * m0) * q

/-- `<alpha>` of an error ellipse: the bearing in the INTERNAL system, whatever `y_sign()` is -/
def outAlpha (_ysign alphaInternal : K) : K := alphaInternal

end Output

end Gama.Input
