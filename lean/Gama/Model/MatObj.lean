/-
  OBJECT HISTORIES OF `GNU_gama::Mat<Float,Index,Exc>` (lib/matvec/mat.h, matbase.h, matvecbase.h,
  memrep.h): a store of `Mat` objects on the explicit heap of `Model/MemRep.lean`.

  A `Mat` object is its `MemRep` sub-object (`rep`, `sz` — slot `i` of `MemRep.St.objs`) plus every
  other data member that persists across calls (`Ext`):
      MatBase::row_, MatBase::col_           (MatVecBase declares no data member)
      Mat::pentry                            `Float* pentry {nullptr};` — the raw working pointer of
                                             `invert()`; `entry(i,j)` is `*(pentry + i*col_ + j)`.
  The member list is regenerated from the headers (`Gen/MatMembers.lean`, tools/gen/c15_members.py) and
  compared with `modelMembers` by `Props.C15.C15_members_modelled`.

  `Mat`, `MatBase`, `MatVecBase` declare no copy constructor / copy assignment: the implicit ones copy
  `MemRep` through ITS special members (deep copy, Model/MemRep.lean) and `row_`, `col_`, `pentry`
  VERBATIM.  `MatBase` declares a virtual destructor, so no move operations are generated:
  `Mat(Mat&&)` and `operator=(Mat&&)` resolve to the copy operations (the driver maps `m.move`,
  `m.massign` to `copyCtor`, `assign`).

  How `invert()` initialises `pentry` before its first `entry(…)` is the regenerated constant
  `Gen.MatMembers.pentryInit`:
      .always   `pentry = this->begin();`                         (the code: `pentry` is dead on entry)
      .ifNull   `if (pentry == nullptr) pentry = this->begin();`  (a cached address that survives
                 calls and is copied by the implicit copy: the copy of an inverted matrix eliminates
                 on the SOURCE's block).
  `step` takes it as a parameter; the theorems are about `step Gen.MatMembers.pentryInit`.

  In-place algorithms are modelled on the block they address: `rewriteAt` replaces the first `n`
  cells of the block at an address; `Mat::invert` reads and writes the block at `pentry`, whatever
  object owns it.

  Core Lean only.
-/
import Gama.Model.MemRep
import Gama.Model.MatInvert
namespace Gama.MatObj
open Gama.MemRep (upd)

/-- how `Mat::invert` sets `pentry` before use -/
inductive PInit where
  | always
  | ifNull
deriving Repr, DecidableEq

/-- the persistent data members of a `Mat` beyond its `MemRep` sub-object -/
structure Ext where
  /-- `MatBase::row_` -/
  row : Nat
  /-- `MatBase::col_` -/
  col : Nat
  /-- `Mat::pentry` (`none` = `nullptr`) -/
  pentry : Option Nat
deriving Repr, DecidableEq

/-- (class, member) of every persistent data member the model carries, base classes first -/
def modelMembers : List (String × String) :=
  [("MemRep", "rep"), ("MemRep", "sz"), ("MatBase", "row_"), ("MatBase", "col_"), ("Mat", "pentry")]

inductive Stop where
  /-- `throw Exc(Exception::BadRank, …)` -/
  | badRank
  /-- `throw Exc(Exception::Singular, "Mat<>::invert()")`: the block has been partially
      eliminated in place; the run stops here -/
  | singular
  /-- caller broke an unchecked C++ precondition (no live object in the slot, index out of range) -/
  | precondition
  /-- a block that is not allocated, or cells beyond its end, were read or written -/
  | heapFault
deriving Repr, DecidableEq

def Stop.ofMem : MemRep.Stop → Stop
  | .badRank => .badRank
  | .precondition => .precondition
  | .heapFault => .heapFault

structure St (K : Type) where
  mem : MemRep.St K
  ext : Nat → Ext

def St.init {K : Type} : St K := ⟨MemRep.St.init, fun _ => ⟨0, 0, none⟩⟩

inductive Op (K : Type) where
  /-- `Mat(Index r, Index c)` in slot `i` -/
  | ctor (i r c : Nat)
  /-- implicit `Mat(const Mat&)` (also selected for an rvalue): new object in slot `i` from slot `j` -/
  | copyCtor (i j : Nat)
  /-- implicit `operator=(const Mat&)` (also selected for an rvalue): slot `i` = slot `j` -/
  | assign (i j : Nat)
  /-- `MatBase::reset(Index r, Index c)` -/
  | reset (i r c : Nat)
  /-- `operator()(r, c) = x` -/
  | set (i r c : Nat) (x : K)
  /-- `set_all(x)` -/
  | setAll (i : Nat) (x : K)
  /-- `operator*=(f)` -/
  | scale (i : Nat) (f : K)
  /-- `transpose()` : `*this = trans(*this);` -/
  | transpose (i : Nat)
  /-- `invert(tol)` -/
  | invert (i : Nat) (tol : K)
  /-- destructor -/
  | dtor (i : Nat)
deriving Repr

/-- the slot an operation writes -/
def Op.target {K : Type} : Op K → Nat
  | .ctor i _ _ | .copyCtor i _ | .assign i _ | .reset i _ _ | .set i _ _ _ | .setAll i _
  | .scale i _ | .transpose i | .invert i _ | .dtor i => i

/-- row-major storage of the transpose of an `r × c` matrix stored row-major in `l`
    (`Mat(const TransMat&)`: `*p++ = M(i,j)`, `M(i,j) = m[(j-1)*M.rows() + (i-1)]`, `M.rows() = c`) -/
def transposeList {K : Type} [Zero K] (r c : Nat) (l : List K) : List K :=
  (List.range (c * r)).map fun p => l.getD ((p % r) * c + p / r) 0

section
variable {K : Type} [Scalar K] [Inhabited K]

/-- the first `n` cells of the block at address `p` -/
def readAt (s : MemRep.St K) (p : Option Nat) (n : Nat) : Except Stop (List K) :=
  if n = 0 then .ok [] else
  match p with
  | none => .error .heapFault
  | some a =>
    match s.heap a with
    | none => .error .heapFault
    | some b => if n ≤ b.length then .ok (b.take n) else .error .heapFault

/-- overwrite the first `l.length` cells of the block at address `p` -/
def writeAt (s : MemRep.St K) (p : Option Nat) (l : List K) : Except Stop (MemRep.St K) :=
  if l.length = 0 then .ok s else
  match p with
  | none => .error .heapFault
  | some a =>
    match s.heap a with
    | none => .error .heapFault
    | some b =>
      if l.length ≤ b.length then .ok { s with heap := upd s.heap a (some (l ++ b.drop l.length)) }
      else .error .heapFault

/-- an in-place loop over `[p, p + n)` -/
def rewriteAt (s : MemRep.St K) (p : Option Nat) (n : Nat) (f : List K → List K) :
    Except Stop (MemRep.St K) :=
  match readAt s p n with
  | .error e => .error e
  | .ok l => writeAt s p (f l)

/-- run an operation of the `MemRep` sub-object and then update the other members of slot `i` -/
def viaMem (s : St K) (op : MemRep.Op K) (i : Nat) (e : Ext) : Except Stop (St K) :=
  match MemRep.step s.mem op with
  | .ok m => .ok ⟨m, upd s.ext i e⟩
  | .error x => .error (Stop.ofMem x)

/-- value-level Gauss–Jordan: the storage `l` of an `N × N` matrix ↦ storage of its inverse -/
def invertList (N : Nat) (tol : K) (l : List K) : Except Stop (List K) :=
  match MatVec.invert N N tol (fun k => l.getD k 0) with
  | .error _ => .error .singular
  | .ok X => .ok ((List.range (N * N)).map X)

def step (pi : PInit) (s : St K) : Op K → Except Stop (St K)
  | .ctor i r c =>
    -- Mat(Index r, Index c) : MatBase(r, c, r*c) {}          pentry {nullptr}
    viaMem s (.ctor i ((r * c : Nat) : Int)) i ⟨r, c, none⟩
  | .copyCtor i j =>
    -- MemRep(const MemRep&), then row_(x.row_), col_(x.col_), pentry(x.pentry)
    viaMem s (.copyCtor i j) i (s.ext j)
  | .assign i j =>
    -- MemRep::operator=(const MemRep&), then row_ = x.row_; col_ = x.col_; pentry = x.pentry;
    viaMem s (.assign i j) i (s.ext j)
  | .reset i r c =>
    match s.mem.objs i with
    | none => .error .precondition
    | some _ =>
      let e := s.ext i
      -- if (r != row_ || c != col_) { row_ = r; col_ = c; this->resize(r*c); }
      if r = e.row ∧ c = e.col then .ok s
      else viaMem s (.resize i (r * c)) i { e with row := r, col := c }
  | .set i r c x =>
    let e := s.ext i
    -- m[--r*this->cols() + --c] = x
    if 1 ≤ r ∧ r ≤ e.row ∧ 1 ≤ c ∧ c ≤ e.col then viaMem s (.write i ((r - 1) * e.col + (c - 1)) x) i e
    else .error .precondition
  | .setAll i x =>
    match s.mem.objs i with
    | none => .error .precondition
    | some t =>
      -- iterator b = begin(), e = end(); while (b != e) *b++ = x;
      match rewriteAt s.mem t.rep t.sz (fun l => l.map fun _ => x) with
      | .ok m => .ok { s with mem := m }
      | .error x => .error x
  | .scale i f =>
    match s.mem.objs i with
    | none => .error .precondition
    | some t =>
      -- while (b != e) *b++ *= f;
      match rewriteAt s.mem t.rep t.sz (fun l => l.map (· * f)) with
      | .ok m => .ok { s with mem := m }
      | .error x => .error x
  | .transpose i =>
    match s.mem.objs i with
    | none => .error .precondition
    | some t =>
      let e := s.ext i
      -- *this = trans(*this):  TransMat temporary (MemRep copy of the storage), Mat temporary built from
      -- it element by element (`Mat(const TransMat&)`, pentry {nullptr}), implicit copy assignment from
      -- that temporary — both have `row_*col_` elements, so `MemRep::operator=` takes its same-size
      -- branch and memcpy's into the object's OWN block —, both temporaries destroyed (their blocks
      -- are allocated and released inside the call; the model does not consume addresses for them).
      match rewriteAt s.mem t.rep t.sz (transposeList e.row e.col) with
      | .ok m => .ok ⟨m, upd s.ext i ⟨e.col, e.row, none⟩⟩
      | .error x => .error x
  | .invert i tol =>
    match s.mem.objs i with
    | none => .error .precondition
    | some t =>
      let e := s.ext i
      -- if (this->rows() != this->cols()) throw Exc(Exception::BadRank, "Mat<>::invert()");
      if e.row ≠ e.col then .error .badRank
      else
        let p : Option Nat := match pi with
          | .always => t.rep                                   -- pentry = this->begin();
          | .ifNull => match e.pentry with                     -- if (pentry == nullptr) pentry = this->begin();
                       | none => t.rep
                       | some q => some q
        let N := e.row
        -- every access is entry(i,j) = *(pentry + i*col_ + j), 0 ≤ i, j < N
        match readAt s.mem p (N * N) with
        | .error x => .error x
        | .ok l =>
          match invertList N tol l with
          | .error x => .error x
          | .ok l' =>
            match writeAt s.mem p l' with
            | .ok m => .ok ⟨m, upd s.ext i { e with pentry := p }⟩
            | .error x => .error x
  | .dtor i =>
    viaMem s (.dtor i) i (s.ext i)

def run (pi : PInit) (s : St K) : List (Op K) → Except Stop (St K)
  | [] => .ok s
  | op :: ops => match step pi s op with
                 | .ok s' => run pi s' ops
                 | .error e => .error e

/-! ### Values -/

/-- the VALUE of a `Mat`: its dimensions and its elements, row by row -/
structure MVal (K : Type) where
  rows : Nat
  cols : Nat
  data : List K

/-- the value held by slot `i` -/
def val (s : St K) (i : Nat) : Option (MVal K) :=
  (MemRep.val s.mem i).map fun l => ⟨(s.ext i).row, (s.ext i).col, l⟩

abbrev Vals (K : Type) := Nat → Option (MVal K)

/-- the same operations on independent values -/
def spec (v : Vals K) : Op K → Except Stop (Vals K)
  | .ctor i r c =>
    match v i with
    | some _ => .error .precondition
    | none => .ok (upd v i (some ⟨r, c, List.replicate (r * c) default⟩))
  | .copyCtor i j =>
    match v i, v j with
    | none, some x => .ok (upd v i (some x))
    | _, _ => .error .precondition
  | .assign i j =>
    match v i, v j with
    | some _, some x => .ok (upd v i (some x))
    | _, _ => .error .precondition
  | .reset i r c =>
    match v i with
    | none => .error .precondition
    | some t =>
      if r = t.rows ∧ c = t.cols then .ok v
      else if r * c = t.data.length then .ok (upd v i (some ⟨r, c, t.data⟩))   -- `resize`: same size, nothing done
      else .ok (upd v i (some ⟨r, c, List.replicate (r * c) default⟩))
  | .set i r c x =>
    match v i with
    | none => .error .precondition
    | some t =>
      if 1 ≤ r ∧ r ≤ t.rows ∧ 1 ≤ c ∧ c ≤ t.cols ∧ (r - 1) * t.cols + (c - 1) < t.data.length then
        .ok (upd v i (some { t with data := t.data.set ((r - 1) * t.cols + (c - 1)) x }))
      else .error .precondition
  | .setAll i x =>
    match v i with
    | none => .error .precondition
    | some t => .ok (upd v i (some { t with data := t.data.map fun _ => x }))
  | .scale i f =>
    match v i with
    | none => .error .precondition
    | some t => .ok (upd v i (some { t with data := t.data.map (· * f) }))
  | .transpose i =>
    match v i with
    | none => .error .precondition
    | some t => .ok (upd v i (some ⟨t.cols, t.rows, transposeList t.rows t.cols t.data⟩))
  | .invert i tol =>
    match v i with
    | none => .error .precondition
    | some t =>
      if t.rows ≠ t.cols then .error .badRank
      else match invertList t.rows tol t.data with
           | .error x => .error x
           | .ok l' => .ok (upd v i (some { t with data := l' }))
  | .dtor i =>
    match v i with
    | none => .error .precondition
    | some _ => .ok (upd v i none)

def specRun (v : Vals K) : List (Op K) → Except Stop (Vals K)
  | [] => .ok v
  | op :: ops => match spec v op with
                 | .ok v' => specRun v' ops
                 | .error e => .error e

end
end Gama.MatObj
