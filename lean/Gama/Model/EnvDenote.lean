/-
  C04 round 3 — numeric meaning of the symbolic answers of the `AdjEnvelope` machine.

  `denote W cur out`: the value the provenance term `out` stands for, computed by the numeric
  envelope model `Gama.Ls.envSolve` (Model/Ls/Env.lean) on the data set the term NAMES
  (`Prov.trow d …`, `Prov.invcol d …` carry the identity `d` of the input they were computed
  from; `W.prob d` is that problem).  A vector cached from another input therefore denotes a
  number of the other problem — what the real object would return.  `direct` is what a fresh
  object computes for the query on the current problem with the current list.
  The correspondence driver (Driver/EnvState.lean) prints answers through `denote`.
  Core Lean only.
-/
import Gama.Model.EnvState
import Gama.Model.Ls.Common
import Gama.Model.Ls.Env
namespace Gama.C04
open Gama Gama.Ls

/-- the numeric side: problems by identity, and for each the inverse `perm` of the ordering `invp` -/
structure World (K : Type) where
  prob : Nat → Problem K
  perm : Nat → Nat → Nat

/-- value of an answer -/
inductive DVal (K : Type)
  | vec (v : Array K) | num (x : K) | int (n : Nat) | flag (b : Bool) | ok
  | err (e : ErrKind)              -- the call throws
  | stale (w : String)             -- the term names an artefact no fresh object would read

variable {K : Type} [Scalar K]

def regOf (l : Option (List Nat)) : Reg := match l with | none => .all | some l => .subset l

def ofE {α : Type} (f : α → DVal K) : Except ErrKind α → DVal K
  | .ok a => f a
  | .error e => .err e

def xOf (a : Except ErrKind (Answer K)) : DVal K :=
  ofE (fun (r : Answer K) => match r.xErr with | some e => .err e | none => .vec r.x) a

/-- `cur`: the data set the object currently holds; `m`: its stored regularisation list -/
def denote (W : World K) (cur : Nat) (m : Option (List Nat)) : Out → DVal K
  | .x reg => xOf (envSolve { W.prob cur with reg := regOf (reg.orElse fun _ => m) })
  | .resid => ofE (fun (r : Answer K) => .vec r.r) (envSolve { W.prob cur with reg := regOf m })
  | .sumsq => ofE (fun (r : Answer K) => .num r.rtr) (envSolve { W.prob cur with reg := regOf m })
  | .defect => ofE (fun (r : Answer K) => .int r.defect) (envSolve { W.prob cur with reg := regOf m })
  | .lindep i => ofE .flag (envSolve { W.prob cur with reg := regOf m } >>= fun r => r.lindep i)
  | .q0in ii jj => ofE .num (envSolve { W.prob cur with reg := regOf m } >>= fun r => r.q0xx (W.perm cur ii) (W.perm cur jj))
  | .q0col (.invcol d hi) lo => ofE .num (envSolve { W.prob d with reg := regOf m } >>= fun r => r.q0xx (W.perm d hi) (W.perm d lo))
  | .q0col _ _ => .stale "q0col"
  | .qxxSing (.trow d i r) (.trow d' j r') =>
    if d = d' ∧ r = r' then ofE .num (envSolve { W.prob d with reg := .subset r } >>= fun a => a.qxx i j)
    else .stale "qxx: rows of different systems"
  | .qxxSing _ _ => .stale "qxx"
  | .qbbIn i j => ofE .num (envSolve { W.prob cur with reg := regOf m } >>= fun r => r.qbb i j)
  | .qbbFull i j => ofE .num (envSolve { W.prob cur with reg := regOf m } >>= fun r => r.qbb i j)
  | .badReg => .err .BadRegularization
  | .stale w => .stale w
  | .ok => .ok

/-- the numeric model asked directly: what a fresh `AdjEnvelope` given problem `p` and the list `m`
    answers (the top-level branches of the member functions; `reg` = effective list) -/
def direct (inp : EnvInput) (p : Problem K) (m : Option (List Nat)) (reg : List Nat) : Op → DVal K
  | .unknowns =>
    if inp.nullity = 0 then xOf (envSolve { p with reg := regOf m })
    else if inp.resolves reg then xOf (envSolve { p with reg := .subset reg }) else .err .BadRegularization
  | .residuals => ofE (fun (r : Answer K) => .vec r.r) (envSolve { p with reg := regOf m })
  | .sumsq => ofE (fun (r : Answer K) => .num r.rtr) (envSolve { p with reg := regOf m })
  | .defect => ofE (fun (r : Answer K) => .int r.defect) (envSolve { p with reg := regOf m })
  | .lindep i => ofE .flag (envSolve { p with reg := regOf m } >>= fun r => r.lindep i)
  | .q0xx i j => ofE .num (envSolve { p with reg := regOf m } >>= fun r => r.q0xx i j)
  | .qxx i j =>
    if inp.nullity = 0 then ofE .num (envSolve { p with reg := regOf m } >>= fun r => r.q0xx i j)
    else if inp.resolves reg then ofE .num (envSolve { p with reg := .subset reg } >>= fun a => a.qxx i j)
    else .err .BadRegularization
  | .qbb i j => ofE .num (envSolve { p with reg := regOf m } >>= fun r => r.qbb i j)
  | .minxAll => .ok
  | .minx _ => .ok
  | .reset => .ok

end Gama.C04
