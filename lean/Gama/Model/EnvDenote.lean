/-
  C04 round 3 — numeric meaning of the symbolic answers of the `AdjEnvelope` machine.

  `denote W cur out`: the value the provenance term `out` stands for, computed by the numeric
  envelope model `Gama.Ls.envSolve` (Model/Ls/Env.lean) on the data set the term NAMES
  (`Prov.trow d …`, `Prov.invcol d …` carry the identity `d` of the input they were computed
  from; `W.prob d` is that problem).  A vector cached from another input therefore denotes a
  number of the other problem — what the real object would return.  `direct` is what a fresh
  object computes for the query on the current problem with the current list.
  The correspondence driver (Driver/EnvState.lean) prints answers through `denote`.
  Core Lean only.
-/
import Gama.Model.EnvState
import Gama.Model.Ls.Common
import Gama.Model.Ls.Env
namespace Gama.C04
open Gama Gama.Ls

/-- the numeric side: problems by identity, and for each the inverse `perm` of the ordering `invp` -/
structure World (K : Type) where
  prob : Nat → Problem K
  perm : Nat → Nat → Nat

/-- value of an answer -/
inductive DVal (K : Type)
  | vec (v : Array K) | num (x : K) | int (n : Nat) | flag (b : Bool) | ok
  | err (e : ErrKind)              -- the call throws
  | stale (w : String)             -- the term names an artefact no fresh object would read

variable {K : Type} [Scalar K]

def regOf (l : Option (List Nat)) : Reg := match l with | none => .all | some l => .subset l

def ofE {α : Type} (f : α → DVal K) : Except ErrKind α → DVal K
  | .ok a => f a
  | .error e => .err e

def xOf (a : Except ErrKind (Answer K)) : DVal K :=
  ofE (fun (r : Answer K) => match r.xErr with | some e => .err e | none => .vec r.x) a

/-- `cur`: the data set the object currently holds; `m`: its stored regularisation list -/
def denote (W : World K) (cur : Nat) (m : Option (List Nat)) : Out → DVal K
  | .x reg => xOf (envSolve { W.prob cur with reg := regOf (reg.orElse fun _ => m) })
  | .resid => ofE (fun (r : Answer K) => .vec r.r) (envSolve { W.prob cur with reg := regOf m })
  | .sumsq => ofE (fun (r : Answer K) => .num r.rtr) (envSolve { W.prob cur with reg := regOf m })
  | .defect => ofE (fun (r : Answer K) => .int r.defect) (envSolve { W.prob cur with reg := regOf m })
  | .lindep i => ofE .flag (envSolve { W.prob cur with reg := regOf m } >>= fun r => r.lindep i)
  | .q0in ii jj => ofE .num (envSolve { W.prob cur with reg := regOf m } >>= fun r => r.q0xx (W.perm cur ii) (W.perm cur jj))
  | .q0col (.invcol d hi) lo => ofE .num (envSolve { W.prob d with reg := regOf m } >>= fun r => r.q0xx (W.perm d hi) (W.perm d lo))
  | .q0col _ _ => .stale "q0col"
  | .qxxSing (.trow d i r) (.trow d' j r') =>
    if d = d' ∧ r = r' then ofE .num (envSolve { W.prob d with reg := .subset r } >>= fun a => a.qxx i j)
    else .stale "qxx: rows of different systems"
  | .qxxSing _ _ => .stale "qxx"
  | .qbbIn i j => ofE .num (envSolve { W.prob cur with reg := regOf m } >>= fun r => r.qbb i j)
  | .qbbFull i j => ofE .num (envSolve { W.prob cur with reg := regOf m } >>= fun r => r.qbb i j)
  | .badReg => .err .BadRegularization
  | .stale w => .stale w
  | .ok => .ok

/-- the numeric model asked directly: what a fresh `AdjEnvelope` given problem `p` and the list `m`
    answers (the top-level branches of the member functions; `reg` = effective list) -/
def direct (inp : EnvInput) (p : Problem K) (m : Option (List Nat)) (reg : List Nat) : Op → DVal K
  | .unknowns =>
    if inp.nullity = 0 then xOf (envSolve { p with reg := regOf m })
    else if inp.resolves reg then xOf (envSolve { p with reg := .subset reg }) else .err .BadRegularization
  | .residuals => ofE (fun (r : Answer K) => .vec r.r) (envSolve { p with reg := regOf m })
  | .sumsq => ofE (fun (r : Answer K) => .num r.rtr) (envSolve { p with reg := regOf m })
  | .defect => ofE (fun (r : Answer K) => .int r.defect) (envSolve { p with reg := regOf m })
  | .lindep i => ofE .flag (envSolve { p with reg := regOf m } >>= fun r => r.lindep i)
  | .q0xx i j => ofE .num (envSolve { p with reg := regOf m } >>= fun r => r.q0xx i j)
  | .qxx i j =>
    if inp.nullity = 0 then ofE .num (envSolve { p with reg := regOf m } >>= fun r => r.q0xx i j)
    else if inp.resolves reg then ofE .num (envSolve { p with reg := .subset reg } >>= fun a => a.qxx i j)
    else .err .BadRegularization
  | .qbb i j => ofE .num (envSolve { p with reg := regOf m } >>= fun r => r.qbb i j)
  | .minxAll => .ok
  | .minx _ => .ok
  | .reset => .ok

/-! ### round 4: the symbolic facts are facts OF the numeric problem

`direct` branches on `inp.nullity` and `inp.resolves`, symbolic facts that nothing tied to the problem `p`.
`Facts p inp` ties them to what the numeric model reports for `p`; `answer p c op` is the member function's value
as a field of `envSolve` on `p` with the caller's configuration `c` — no symbolic fact enters. -/

/-- `defect()` of the numeric model (independent of the regularisation: `defectP_reg`) -/
def defectP (p : Problem K) : Nat :=
  match envSolve p with | .ok a => a.defect | .error _ => 0

/-- `solve_x` does not throw BadRegularization for the list `l` -/
def resolvesP (p : Problem K) (l : List Nat) : Bool :=
  match envSolve { p with reg := .subset l } with
  | .ok a => a.xErr != some .BadRegularization
  | .error _ => true

/-- the symbolic input describes the numeric problem `p`: size, defect and which lists resolve it are those
    the numeric envelope model reports for `p` -/
structure Facts (p : Problem K) (inp : EnvInput) : Prop where
  n : inp.n = p.n
  nullity : inp.nullity = defectP p
  resolves : ∀ l, inp.resolves l = resolvesP p l

/-- the value of a member function on problem `p` under the caller's configuration `c` (`none` = all parameters):
    the corresponding field of `envSolve` — determined by `(p, c, op)` alone -/
def answer (p : Problem K) (c : Option (List Nat)) : Op → DVal K
  | .unknowns => xOf (envSolve { p with reg := regOf c })
  | .residuals => ofE (fun (r : Answer K) => .vec r.r) (envSolve { p with reg := regOf c })
  | .sumsq => ofE (fun (r : Answer K) => .num r.rtr) (envSolve { p with reg := regOf c })
  | .defect => ofE (fun (r : Answer K) => .int r.defect) (envSolve { p with reg := regOf c })
  | .lindep i => ofE .flag (envSolve { p with reg := regOf c } >>= fun r => r.lindep i)
  | .q0xx i j => ofE .num (envSolve { p with reg := regOf c } >>= fun r => r.q0xx i j)
  | .qxx i j => ofE .num (envSolve { p with reg := regOf c } >>= fun r => r.qxx i j)
  | .qbb i j => ofE .num (envSolve { p with reg := regOf c } >>= fun r => r.qbb i j)
  | .minxAll => .ok
  | .minx _ => .ok
  | .reset => .ok

/-! ### the facts the correspondence driver reads from the implementation (`envinfo` line) -/

structure Info where
  n : Nat
  nullity : Nat
  invp : Array Nat          -- 1-based: invp[i-1]
  width : Array Nat
  rows : Array (List Nat)

def Info.perm (f : Info) (k : Nat) : Nat :=      -- inverse of invp
  match (List.range f.n).find? (fun i => f.invp.getD i 0 == k) with
  | some i => i + 1
  | none => 0

def Info.inEnvF (f : Info) (ii jj : Nat) : Bool :=
  let hi := max ii jj
  let lo := min ii jj
  hi - lo ≤ f.width.getD (hi - 1) 0

def Info.toInput (f : Info) (resolves : List Nat → Bool) : EnvInput :=
  { n := f.n, nullity := f.nullity, invp := fun i => f.invp.getD (i - 1) 0,
    inEnv := f.inEnvF, resolves := resolves,
    qbbIn := fun i j =>
      (f.rows.getD (i - 1) []).all fun k => (f.rows.getD (j - 1) []).all fun l =>
        f.inEnvF (f.invp.getD (k - 1) 0) (f.invp.getD (l - 1) 0) }

/-- the ordering read from the implementation is 1-based and injective on `1..n` (checked by the driver on every
    `envinfo` line; `Info.toInput_pos`, `worldOf_describes` need exactly this) -/
def Info.wf (f : Info) : Bool :=
  (List.range f.n).all fun i => decide (1 ≤ f.invp.getD i 0) &&
    (List.range f.n).all fun j => i == j || f.invp.getD i 0 != f.invp.getD j 0

/-- the input the driver runs the machine on: the facts read from the implementation, the resolution facts from
    the numeric problem `p` (identity `d`) -/
def Info.toInputOf (f : Info) (p : Problem K) (d : Nat) : EnvInput :=
  { f.toInput (resolvesP p) with id := d }

/-- the probe's facts agree with the numeric problem: ordering well-formed, same size, same defect (the driver
    refuses the `envinfo` line otherwise, so every input it runs satisfies `Pos`, `Describes`, `Facts`) -/
def Info.agrees (f : Info) (p : Problem K) : Bool := f.wf && f.n == p.n && f.nullity == defectP p

def emptyProblem : Problem K := { m := 0, n := 0, rows := #[], cov := #[], rhs := #[], reg := .none }

/-- the numeric world of a case: problems by identity (1-based position), inverse orderings from the facts -/
def worldOf (probs : Array (Problem K)) (infos : Array (Option Info)) : World K :=
  { prob := fun d => probs.getD (d - 1) emptyProblem
    perm := fun d k => match infos.getD (d - 1) none with | some f => f.perm k | none => 0 }

end Gama.C04
