/-
  C12 — the two consumers of the adjustment XML.

  `compare-xyz`  : `src/compare-xyz.cpp` (exit status), `lib/gnu_gama/xml/comparexyz.cpp`
                   (`CompareXYZ::fetch_file` for a gama-local result, `CompareXYZ::write_xml`).
  `gama-local-deformation` : `lib/gnu_gama/local/deformation.{h,cpp}` (`check_arguments` index check of
                   fix e4c977d, `Rec12::dim/empty`, `init`, the rows and the matrix `C` of `write_txt`).

  Both tools see an adjustment result through `LocalNetworkAdjustmentResults`: the list `adjusted_points`
  in document order (`APoint`) and, for the deformation tool, the covariance matrix through the const
  `CovMat::operator()` (here an arbitrary function `cov : Nat → Nat → K`; the driver passes `CovBand.get`).

  `std::map<std::string, T>` is modelled as an association list kept strictly sorted by key
  (`upsert` = `operator[]` followed by a modification / assignment, iteration = list order, `find?` = `find`).
  The scalar type is abstract: `+ - 0 <` and an `abs` function passed explicitly (core Lean only).

  Round 5: WHICH member of WHICH epoch's record the loops of `GamaLocalDeformation::init()` read and write is
  no longer written by hand: `put1`/`put2` interpret the regenerated assignment list `Gen.DeformSites.fills`
  (`rec.indx1 = p1.indx; …`) and `t1Of`/`t2Of` interpret the regenerated blocks `Gen.DeformSites.blocks`
  (`if (r.second.indx1 && r.second.indx2) { t1.push_back( r.second.indx1 ); … }`), both produced by
  tools/gen/c12_deform.py from lib/gnu_gama/local/deformation.cpp on every run.  The closed forms the lemmas
  work with (`put1_def`, `put2_def`, `t1Of_def`, `t2Of_def` in Lemmas/Consumers.lean) are proved from the
  generated tables, so a changed site (seeded/C12-seed3: `t2.push_back( r.second.indz1 )`) breaks them.
-/
import Gama.Gen.DeformSites
namespace Gama.Consumers
open Gama.Gen.DeformSites (Kind Coord Ref Fill Push Block)

/-- `LocalNetworkAdjustmentResults::Point` as far as the consumers look at it -/
structure APoint (ι K : Type) where
  id : ι
  hxy : Bool
  hz : Bool
  x : K
  y : K
  z : K
  indx : Nat
  indy : Nat
  indz : Nat

/-! ### `std::map` -/
section Map
variable {ι β : Type} [LT ι] [DecidableRel (α := ι) (· < ·)] [DecidableEq ι]

/-- `m[k]` (default-constructed when absent) then `m[k] = f (old)` -/
def upsert (k : ι) (f : Option β → β) : List (ι × β) → List (ι × β)
  | [] => [(k, f none)]
  | (k', v) :: rest =>
    if k < k' then (k, f none) :: (k', v) :: rest
    else if k = k' then (k, f (some v)) :: rest
    else (k', v) :: upsert k f rest

def find? (k : ι) : List (ι × β) → Option β
  | [] => none
  | (k', v) :: rest => if k = k' then some v else find? k rest

end Map

/-! ### compare-xyz -/

/-- `CompareXYZ::AdjXYZ` (dimension is always 3) -/
structure XYZ (K : Type) where
  x : K
  y : K
  z : K

section Compare
variable {ι K : Type} [LT ι] [DecidableRel (α := ι) (· < ·)] [DecidableEq ι]

/-- `fetch_file`, gama-local branch: `if (point.hxy && point.hz) adjmap[point.id] = AdjXYZ(3, x, y, z)` -/
def fetch (pts : List (APoint ι K)) : List (ι × XYZ K) :=
  pts.foldl (fun m p => if p.hxy && p.hz then upsert p.id (fun _ => ⟨p.x, p.y, p.z⟩) m else m) []

/-- the two lines printed per common point: coordinates of file 1, differences file 2 − file 1 -/
structure Row (ι K : Type) where
  id : ι
  x1 : K
  y1 : K
  z1 : K
  dx : K
  dy : K
  dz : K

variable [Sub K]

/-- `for (a : adjmap_1) { p = adjmap_2.find(a.first); if (p == end) continue; … dx = p->second.x - data1.x …}` -/
def rows (m1 m2 : List (ι × XYZ K)) : List (Row ι K) :=
  m1.filterMap (fun a =>
    match find? a.1 m2 with
    | none => none
    | some b => some ⟨a.1, a.2.x, a.2.y, a.2.z, b.x - a.2.x, b.y - a.2.y, b.z - a.2.z⟩)

variable [Zero K] [LT K] [DecidableRel (α := K) (· < ·)]

/-- `double DX {0}; … if (fabs(dx) > fabs(DX)) DX = dx;` -/
def maxAbs (abs : K → K) (ds : List K) : K :=
  ds.foldl (fun D d => if abs D < abs d then d else D) 0

structure Report (ι K : Type) where
  rows : List (Row ι K)
  DX : K
  DY : K
  DZ : K
  absMax : K
  failed : Bool

/-- `write_xml`: the rows, the `max` line, `abs_max`, `failed_ = abs_max > tol_max_` -/
def compareMaps (abs : K → K) (tol : K) (m1 m2 : List (ι × XYZ K)) : Report ι K :=
  let rs := rows m1 m2
  let DX := maxAbs abs (rs.map (·.dx))
  let DY := maxAbs abs (rs.map (·.dy))
  let DZ := maxAbs abs (rs.map (·.dz))
  let a0 : K := 0
  let a1 := if a0 < abs DX then abs DX else a0
  let a2 := if a1 < abs DY then abs DY else a1
  let a3 := if a2 < abs DZ then abs DZ else a2
  ⟨rs, DX, DY, DZ, a3, decide (tol < a3)⟩

/-- `fetch_files` + `write_xml` -/
def compareXYZ (abs : K → K) (tol : K) (f1 f2 : List (APoint ι K)) : Report ι K :=
  compareMaps abs tol (fetch f1) (fetch f2)

/-- `return compare_xyz.passed() ? 0 : 1` -/
def exitCode (r : Report ι K) : Nat := if r.failed then 1 else 0

end Compare

/-! ### gama-local-deformation -/

/-- `GamaLocalDeformation::Rec12` (all members value-initialised to 0) -/
structure Rec12 (K : Type) where
  indx1 : Nat
  x1 : K
  indy1 : Nat
  y1 : K
  indz1 : Nat
  z1 : K
  indx2 : Nat
  x2 : K
  indy2 : Nat
  y2 : K
  indz2 : Nat
  z2 : K

def Rec12.zero {K : Type} [Zero K] : Rec12 K := ⟨0, 0, 0, 0, 0, 0, 0, 0, 0, 0, 0, 0⟩

/-- `int d = 0; if (indz1*indz2) d += 1; if (indx1*indx2) d += 2;` -/
def Rec12.dim {K : Type} (r : Rec12 K) : Nat :=
  (if r.indz1 * r.indz2 ≠ 0 then 1 else 0) + (if r.indx1 * r.indx2 ≠ 0 then 2 else 0)

/-- `GamaLocalDeformation::RecDiff` -/
structure RecDiff (ι K : Type) where
  id : ι
  indx : Nat
  indy : Nat
  indz : Nat
  dx : K
  dy : K
  dz : K
  /-- the three trailing columns of a row: `adjrec12[r.id].x2 / y2 / z2` -/
  x2 : K
  y2 : K
  z2 : K

/-- an adjustment result as the tool sees it -/
structure Epoch (ι K : Type) where
  pts : List (APoint ι K)
  covDim : Nat
  cov : Nat → Nat → K

section Deformation
variable {ι K : Type} [LT ι] [DecidableRel (α := ι) (· < ·)] [DecidableEq ι] [Zero K]

/-- the field `p.<kind><coord>` of an adjusted point -/
def APoint.indOf (p : APoint ι K) : Coord → Nat
  | .x => p.indx | .y => p.indy | .z => p.indz
def APoint.valOf (p : APoint ι K) : Coord → K
  | .x => p.x | .y => p.y | .z => p.z

/-- the record members by name: `ind<c><e>` / `<c><e>` (epoch suffix 1, otherwise 2) -/
def Rec12.ind (r : Rec12 K) (g : Ref) : Nat :=
  match g.coord, g.epoch with
  | .x, 1 => r.indx1 | .y, 1 => r.indy1 | .z, 1 => r.indz1
  | .x, _ => r.indx2 | .y, _ => r.indy2 | .z, _ => r.indz2

def Rec12.setInd (r : Rec12 K) (c : Coord) (e : Nat) (v : Nat) : Rec12 K :=
  match c, e with
  | .x, 1 => { r with indx1 := v } | .y, 1 => { r with indy1 := v } | .z, 1 => { r with indz1 := v }
  | .x, _ => { r with indx2 := v } | .y, _ => { r with indy2 := v } | .z, _ => { r with indz2 := v }

def Rec12.setVal (r : Rec12 K) (c : Coord) (e : Nat) (v : K) : Rec12 K :=
  match c, e with
  | .x, 1 => { r with x1 := v } | .y, 1 => { r with y1 := v } | .z, 1 => { r with z1 := v }
  | .x, _ => { r with x2 := v } | .y, _ => { r with y2 := v } | .z, _ => { r with z2 := v }

/-- one generated assignment `rec.<dst> = p.<src>` (the translator refuses an index := coordinate mix) -/
def applyFill (p : APoint ι K) (r : Rec12 K) (f : Fill) : Rec12 K :=
  match f.dst.kind, f.srcKind with
  | .ind, .ind => r.setInd f.dst.coord f.dst.epoch (p.indOf f.srcCoord)
  | .val, .val => r.setVal f.dst.coord f.dst.epoch (p.valOf f.srcCoord)
  | _, _ => r

/-- loop `k` of `init`: `auto& rec = adjrec12[pk.id];` then the generated assignments of that loop in order -/
def putGen (k : Nat) (p : APoint ι K) (o : Option (Rec12 K)) : Rec12 K :=
  (Gama.Gen.DeformSites.fills.filter (fun f => f.loop == k)).foldl (applyFill p) (o.getD Rec12.zero)

/-- first loop of `init`: `rec = adjrec12[p1.id]; rec.indx1 = p1.indx; rec.x1 = p1.x; …` -/
def put1 (p : APoint ι K) (o : Option (Rec12 K)) : Rec12 K := putGen 1 p o

/-- second loop of `init` -/
def put2 (p : APoint ι K) (o : Option (Rec12 K)) : Rec12 K := putGen 2 p o

def adjrec12 (e1 e2 : List (APoint ι K)) : List (ι × Rec12 K) :=
  e2.foldl (fun m p => upsert p.id (put2 p) m) (e1.foldl (fun m p => upsert p.id (put1 p) m) [])

/-- what one record appends to `t<target>` under a table of blocks: for every block whose guard members are all
    non-zero (`if (r.second.A && r.second.B)`), its `t<target>.push_back( r.second.M )` in source order -/
def tOfWith (bs : List Block) (target : Nat) (r : Rec12 K) : List Nat :=
  bs.flatMap (fun b =>
    if b.guard.all (fun g => r.ind g != 0) then
      (b.pushes.filter (fun q => q.target == target)).map (fun q => r.ind q.src)
    else [])

/-- … under the table regenerated from deformation.cpp -/
def tOf (target : Nat) (r : Rec12 K) : List Nat := tOfWith Gama.Gen.DeformSites.blocks target r

/-- entries one record appends to `t1` (code: `if (indx1 && indx2) {indx1, indy1}`, `if (indz1 && indz2) {indz1}`) -/
def t1Of (r : Rec12 K) : List Nat := tOf 1 r

def t2Of (r : Rec12 K) : List Nat := tOf 2 r

/-- `t1` / `t2` without the leading 0 : the C++ `t1[i]` (1-based) is `(t1List m).getD (i-1) 0` -/
def t1List (m : List (ι × Rec12 K)) : List Nat := m.flatMap (fun a => t1Of a.2)
def t2List (m : List (ι × Rec12 K)) : List Nat := m.flatMap (fun a => t2Of a.2)

variable [Sub K]

/-- third loop of `init`: the differences and the running `cov_index` -/
def adjdiffFrom : Nat → List (ι × Rec12 K) → List (RecDiff ι K) × Nat
  | k, [] => ([], k)
  | k, (id, r) :: rest =>
    if r.dim = 0 then adjdiffFrom k rest
    else
      let ix := if r.dim = 3 ∨ r.dim = 2 then k + 1 else 0
      let iy := if r.dim = 3 ∨ r.dim = 2 then k + 2 else 0
      let iz := if r.dim = 3 then k + 3 else if r.dim = 1 then k + 1 else 0
      let (ds, kEnd) := adjdiffFrom (k + r.dim) rest
      (⟨id, ix, iy, iz, r.x2 - r.x1, r.y2 - r.y1, r.z2 - r.z1, r.x2, r.y2, r.z2⟩ :: ds, kEnd)

variable [Add K]

/-- `C(i,j) = cov1(t1[i],t1[j]) + cov2(t2[i],t2[j])`, `1 ≤ i ≤ j ≤ cov_index` -/
def shiftCov (cov1 cov2 : Nat → Nat → K) (t1 t2 : List Nat) (i j : Nat) : K :=
  cov1 (t1.getD (i - 1) 0) (t1.getD (j - 1) 0) + cov2 (t2.getD (i - 1) 0) (t2.getD (j - 1) 0)

/-- the `indexes_ok` lambda of `check_arguments` (indexes are never negative here: `Nat`) -/
def indexesOk (e : Epoch ι K) : Bool :=
  e.pts.all (fun p => decide (p.indx ≤ e.covDim) && decide (p.indy ≤ e.covDim) && decide (p.indz ≤ e.covDim))

inductive DefErr where
  | index1     -- "ADJUSTMENT INDEX OUTSIDE THE COVARIANCE MATRIX IN <epoch1>"
  | index2
  | index12    -- both messages
deriving DecidableEq, Repr

structure DefOut (ι K : Type) where
  diffs : List (RecDiff ι K)
  covIndex : Nat
  t1 : List Nat
  t2 : List Nat
  /-- upper triangle by rows, `C(i,j)` for `1 ≤ i ≤ j ≤ covIndex` -/
  C : List (List K)

/-- `check_arguments` (index check) + `write_txt` -/
def deformation (e1 e2 : Epoch ι K) : Except DefErr (DefOut ι K) :=
  match indexesOk e1, indexesOk e2 with
  | false, false => .error .index12
  | false, true => .error .index1
  | true, false => .error .index2
  | true, true =>
    let m := adjrec12 e1.pts e2.pts
    let t1 := t1List m
    let t2 := t2List m
    let (ds, n) := adjdiffFrom 0 m
    .ok ⟨ds, n, t1, t2,
      (List.range n).map (fun i0 => (List.range (n - i0)).map (fun d =>
        shiftCov e1.cov e2.cov t1 t2 (i0 + 1) (i0 + 1 + d)))⟩

end Deformation

end Gama.Consumers
