/-
  C06 — the iterated linearisation of LocalNetwork (network.cpp, test_linearization_visitor.cpp):

  * `refine`   : LocalNetwork::refine_approx_coordinates — with x = solve() (the current adjustment; fix 04248b3,
                 before it the solver's possibly stale unknowns()), loop over the unknowns 1..n:
                 'X' : (x, y) of the point += (x(i), x(i+1))/1000,  'Z' : z += x(i)/1000,
                 'R' : orientation := (orientation*R2G + x(i)/10000)*G2R,  'Y' : nothing;
                 with the macros as written in float.h (R2G = 200.0/M_PI, G2R = M_PI/200.0, unparenthesised);
  * `pol*`     : TestLinearizationVisitor::visit — the positional misclosure [mm] of Distance, Direction,
                 Angle, S_Distance and (since fix 45be66f) Z_Angle; every other type (H_Diff, X, Y, Z, Xdiff, Ydiff, Zdiff,
                 Azimuth, and everything in a Coordinates cluster) gives 0;
  * `testLin`  : TestLinearization — `max |pol| >= 0.0005`;
  The absolute terms (rhs) are NOT modelled here: the fixed-point theorems use C05's generated
  Gama/Gen/Linearization.lean (see Gama/Lemmas/C06Fix.lean).
-/
import Gama.Model.Median
namespace Gama.GN
open Scalar Trig Cogo Median
variable {K : Type} [Scalar K] [Trig K]

structure P3 (K : Type) where
  x : K
  y : K
  z : K

/-- the part of LocalNetwork that refine_approx_coordinates touches -/
structure St (K : Type) where
  pts : Nat → P3 K          -- PD[point].x/y/z
  ori : Nat → K             -- standpoint->orientation() [rad]

/-- unknown_type(i) with unknown_pointid(i) / unknown_standpoint(i) -/
inductive Unk where
  | X (p : Nat) | Y (p : Nat) | Z (p : Nat) | R (s : Nat)
deriving DecidableEq, Repr

def thousand : K := ofNat 1000
def tenThousand : K := ofNat 10000
def twoHundred : K := ofNat 200

/-- x(i), 1-based -/
def xAt (x : List K) (i : Nat) : K := x.getD (i - 1) 0

def step (x : List K) (i : Nat) (u : Unk) (st : St K) : St K :=
  match u with
  | .X p => { st with pts := fun q => if q = p then
                ⟨(st.pts p).x + xAt x i / thousand, (st.pts p).y + xAt x (i + 1) / thousand, (st.pts p).z⟩
              else st.pts q }
  | .Y _ => st
  | .Z p => { st with pts := fun q => if q = p then
                ⟨(st.pts p).x, (st.pts p).y, (st.pts p).z + xAt x i / thousand⟩ else st.pts q }
  | .R s => { st with ori := fun q => if q = s then
                (st.ori s * twoHundred / pi + xAt x i / tenThousand) * pi / twoHundred else st.ori q }

def refineFrom (x : List K) : Nat → List Unk → St K → St K
  | _, [], st => st
  | i, u :: us, st => refineFrom x (i + 1) us (step x i u st)

/-- LocalNetwork::refine_approx_coordinates -/
def refine (x : List K) (unks : List Unk) (st : St K) : St K := refineFrom x 1 unks st

/-! ### stopping test -/

/-- computeFromTo: coordinate plus correction if the point is free -/
def corr (free : Bool) (c dx : K) : K := if free then c + dx / thousand else c

def cc2r (a : K) : K := a * pi / ofSci 200 false 4        -- a*CC2R = a*M_PI/200.0E4

def polDistance (val v sx sy cx cy : K) : K :=
  let dd := (bearingDistance sy sx cy cx).2
  (val + v / thousand - dd) * thousand

def polDirection (fuel : Nat) (val v orp xori sx sy cx cy : K) : K :=
  let bd := bearingDistance sy sx cy cx
  let mer := val + cc2r v + orp + cc2r xori - bd.1
  wrap fuel mer * bd.2 * thousand

def polAngle (fuel : Nat) (val v sx sy cx cy cx2 cy2 : K) : K :=
  let bd := bearingDistance sy sx cy cx
  let bd2 := bearingDistance sy sx cy2 cx2
  let mer := val + cc2r v - bd2.1 + bd.1
  wrap fuel mer * Scalar.max bd.2 bd2.2 * thousand

def polSDistance (val v dx dy dz : K) : K :=
  (val + v / thousand - sqrt (dx * dx + dy * dy + dz * dz)) * thousand

/-- TestLinearizationVisitor::visit(Z_Angle*) (fix 45be66f): dx, dy, dz = from − to of the corrected
    coordinates; `za = acos(-dz/slope)`, second face `value > π ⇒ 2π − za`; slope 0 ⇒ 0 -/
def polZAngle (fuel : Nat) (val v dx dy dz : K) : K :=
  let slope := sqrt (dx * dx + dy * dy + dz * dz)
  if beq slope 0 then 0
  else
    let za0 := acos (-dz / slope)
    let za := if (pi : K) < val then twoPi - za0 else za0
    wrap fuel (val + cc2r v - za) * slope * thousand

/-- observation kinds as TestLinearization sees them, with their pol -/
inductive ObsKind where
  | distance | direction | angle | sdistance
  | hdiff | zangle | coordX | coordY | coordZ | xdiff | ydiff | zdiff | azimuth
deriving DecidableEq, Repr

/-- pol of the kinds the visitor does not test -/
def polOther : K := 0

/-- `max_pol >= max_dif` with max_dif = 0.0005 -/
def testLin (pols : List K) : Bool :=
  let m := pols.foldl (fun acc p => if acc < abs p then abs p else acc) (0 : K)
  decide (ofSci 5 true 4 ≤ m)

end Gama.GN
