/-
  Run of the adjustment-results reader `LocalNetworkAdjustmentResults::Parser`
  (lib/gnu_gama/xml/localnetwork_adjustment_results.cpp) over a sequence of SAX events (core Lean only).

  On top of the GENERATED tables of Gama/Gen/AdjResAutomaton.lean (`tagfun`, `tagTable`, `startOps`, `endOps`,
  `setStateGuarded`, `errorReturn`) this file models, literally:

    CoreParser::error        "store only the first detected error": `if (errCode) return 1;` otherwise record
                             message + line and `state = 0`.  error() only RETURNS: the statements that follow an
                             `error(...)` in the same handler are executed (`execOps` goes on after `.error`-raising
                             ops; only the explicit `return`s of the attribute loops / `needCategory` stop a handler)
    Parser::startElement     check_and_clear_data(); t = tag(name); (this->*tagfun[state][t])(true)
    Parser::tag              string table; X / Y / Z set `point_con_*`; unknown name: `return error("unknown tag")`,
                             i.e. the tag with index `errorReturn` (= 1) is looked up in `tagfun` (state is 0 by then)
    Parser::endElement       empty stack ⇒ `unknown`; pop; (this->*f)(false); data.clear()
    Parser::characterDataHandler   data += s
    get_int / get_float / get_string, check_and_clear_data
    the covariance storage:  `adj->cov.reset(dim, band)` resizes the storage to dim*(band+1) - band*(band+1)/2 elements
                             (CovMat::reset; iterators obtained before are dangling = `none`), `tmp_i = begin()`,
                             `tmp_e = end()` as offsets into that storage, `*tmp_i++ = get_float()` logs the offset
                             written together with the storage size at that moment (`writes`)

  Events carry the real strings (tag name, attribute names and values, character data): there is no abstract bit.
  The line number of an error is represented by the index of the event during which `error()` was first called.
  Reads of iterators that were never assigned (or are dangling) are recorded in `uninitStore` / `uninitCovEnd`.
-/
import Gama.Gen.AdjResAutomaton
import Gama.Model.Literals
namespace Gama.AdjRes
open Gama.Lit

inductive Event where
  | start (name : String) (attrs : List (String × String))
  | stop
  | text (s : List Char)
  deriving Repr

structure St where
  state : State
  /-- first recorded error: (event index standing for `errLineNumber`, message); `none` ⇔ `errCode == 0` -/
  err : Option (Nat × Err)
  n : Nat
  stack : List Handler
  data : List Char
  /-- `adj->xmlerror` category -/
  category : String
  /-- local `string s` of `used(false)` -/
  str : List Char
  /-- `coordinates_summary_stage` -/
  stage : Nat
  /-- the `point_has_*` / `point_con_*` flags that are set -/
  flags : List Flag
  dim : Int
  band : Int
  /-- number of elements of the storage of `adj->cov` -/
  covSize : Nat
  /-- `tmp_i`, `tmp_e` as offsets into the current storage; `none` = never assigned or dangling -/
  iterI : Option Nat
  iterE : Option Nat
  /-- every `*tmp_i++ = …` executed: (offset written, size of the storage at that moment) -/
  writes : List (Nat × Nat)
  /-- a `*tmp_i++ = …` (or its guard) was executed with unassigned iterators -/
  uninitStore : Bool
  /-- the `tmp_i != tmp_e` test of `cov_mat(false)` was executed with unassigned iterators -/
  uninitCovEnd : Bool
  /-- `pointlist == &adj->adjusted_points` -/
  listAdjusted : Bool
  /-- `tmp_point_adjusted` -/
  pointAdjusted : Bool
  /-- what `band(false)` counts: `adj->orientations.size()` + the non-zero `indx/indy/indz` of `adj->adjusted_points`
      (a point pushed to that list carries 2 indexes if it has x and y, 1 if it has z, when `tmp_point_adjusted`; `tmp_point.clear()`
      zeroes them at every `<point>`) -/
  unknowns : Nat
  /-- every `adj->cov.reset(dim, band)` executed: (number of elements allocated, `unknowns` at that moment, `band`) -/
  allocs : List (Nat × Nat × Int)
  deriving Repr, DecidableEq

/-- constructor: `init()` sets `state = s_start`; CoreParser(): `errCode = 0` -/
def St.init : St :=
  { state := .start_, err := none, n := 0, stack := [], data := [], category := "", str := [], stage := 0,
    flags := [], dim := 0, band := 0, covSize := 0, iterI := none, iterE := none, writes := [],
    uninitStore := false, uninitCovEnd := false, listAdjusted := false, pointAdjusted := false, unknowns := 0, allocs := [] }

/-- `CoreParser::error` -/
def St.error (st : St) (k : Err) : St :=
  match st.err with
  | some _ => st
  | none => { st with err := some (st.n, k), state := .error_ }

/-- `set_state(s)` -/
def St.setState (st : St) (s : State) : St :=
  if setStateGuarded then (if st.state = .error_ then st else { st with state := s }) else { st with state := s }

def St.setFlag (st : St) (f : Flag) (v : Bool) : St :=
  { st with flags := if v then f :: st.flags.filter (· != f) else st.flags.filter (· != f) }

def St.flag (st : St) (f : Flag) : Bool := st.flags.contains f

/-- `check_and_clear_data()` -/
def St.checkData (st : St) : St :=
  let st1 := if st.data.all isSpace then st else st.error .e_bad_data
  { st1 with data := [] }

def intMax : Int := 2147483647

/-- `istringstream istr(data); int n = 0; istr >> n;`: blanks, optional sign, digits; no digit ⇒ 0;
    out of range ⇒ the nearest `int` (C++11 `num_get`) -/
def extractInt (s : List Char) : Int :=
  let s0 := skipWs s
  let (neg, s1) := match s0 with
    | '-' :: r => (true, r)
    | '+' :: r => (false, r)
    | r => (false, r)
  let ds := s1.takeWhile isDigit
  if ds.isEmpty then 0 else
  let v : Int := (digitsVal ds : Nat)
  if neg then (if v > intMax + 1 then -(intMax + 1) else -v) else (if v > intMax then intMax else v)

/-- `get_int()`: the value; the syntax error is raised by `getIntCheck` -/
def St.getIntCheck (st : St) : St := if isInteger st.data then st else st.error .e_integer_syntax_error
def St.getFloatCheck (st : St) : St := if isFloat st.data then st else st.error .e_float_syntax_error

def isWs4 (c : Char) : Bool := c == ' ' || c == '\t' || c == '\r' || c == '\n'

/-- `get_string()`: data without leading / trailing `" \t\r\n"` -/
def getString (d : List Char) : List Char :=
  ((d.dropWhile isWs4).reverse.dropWhile isWs4).reverse

/-- CovMat::reset(d, b): `resize(d*(b+1) - b*(b+1)/2)` -/
def covElems (dim band : Int) : Nat := (dim * (band + 1) - band * (band + 1) / 2).toNat

/-- the `while (*attributes)` loop; result: state, and whether the handler goes on (no `return`) -/
def attrLoop (names : List (String × AttrKind)) (ue : Err) : List (String × String) → St → St × Bool
  | [], st => (st, true)
  | (a, v) :: r, st =>
    match names.find? (fun p => p.1 == a) with
    | none => (st.error ue, false)
    | some (_, .plain) => attrLoop names ue r st
    | some (_, .category) => attrLoop names ue r { st with category := v }
    | some (_, .equals c e) => if v == c then attrLoop names ue r st else (st.error e, false)

/-- `tmp_i == tmp_e`; `none` when an iterator was never assigned (or is dangling) -/
def St.iterCmp (st : St) : Option Bool :=
  match st.iterI, st.iterE with
  | some i, some e => some (i == e)
  | _, _ => none

/-- the optional `state != s ||` in front of the iterator test of `cov_mat(false)` -/
def iterGuardFires (g : Option State) (st : St) : Bool :=
  match g with
  | some s => st.state != s
  | none => false

/-- `if ([state != s ||] tmp_i != tmp_e) error(e)` (`whenAtEnd = false`) / `if (tmp_i == tmp_e) error(e)` (`true`).
    Unassigned iterators: recorded in `uninitCovEnd`; the harness presets both to the same value (equal). -/
def St.iterErr (st : St) (g : Option State) (whenAtEnd : Bool) (e : Err) : St :=
  if iterGuardFires g st then st.error e
  else match st.iterCmp with
    | some eq => if eq == whenAtEnd then st.error e else st
    | none =>
      let st1 := { st with uninitCovEnd := true }
      if whenAtEnd then st1.error e else st1

/-- `[if (tmp_i != tmp_e)] *tmp_i++ = get_float();` -/
def St.store (st : St) (guarded : Bool) : St :=
  match st.iterI, st.iterE with
  | some i, some e =>
    if guarded && i == e then st
    else
      let st1 := st.getFloatCheck
      { st1 with writes := (i, st.covSize) :: st1.writes, iterI := some (i + 1) }
  | _, _ => { st with uninitStore := true }

/-- the bookkeeping statements -/
def St.book (st : St) : Book → St
  | .listAdjusted v => { st with listAdjusted := v }
  | .pointAdjusted v => { st with pointAdjusted := v }
  | .pushPoint =>
    if st.listAdjusted && st.pointAdjusted then
      { st with unknowns := st.unknowns + (if st.flag .hasX && st.flag .hasY then 2 else 0) + (if st.flag .hasZ then 1 else 0) }
    else st
  | .pushOrientation => { st with unknowns := st.unknowns + 1 }

/-- one statement of a handler; the Bool says whether the handler continues with the next statement -/
def execOp (op : Op) (as : List (String × String)) (st : St) : St × Bool :=
  match op with
  | .push h => ({ st with stack := h :: st.stack }, true)
  | .setState s => (st.setState s, true)
  | .assignState s => ({ st with state := s }, true)
  | .attrs names ue => attrLoop names ue as st
  | .needCategory e => if st.category.isEmpty then (st.error e, false) else (st, true)
  | .getInt d =>
    let st1 := st.getIntCheck
    let v := extractInt st.data
    (match d with
     | .none => st1
     | .dim => { st1 with dim := v }
     | .band => { st1 with band := v }, true)
  | .getFloat => (st.getFloatCheck, true)
  | .getString d =>
    (match d with
     | .none => st
     | .s => { st with str := getString st.data }, true)
  | .checkData => (st.checkData, true)
  | .clearCategory => ({ st with category := "" }, true)
  | .stageSet k => ({ st with stage := k }, true)
  | .stageSwitch cases e => (if cases.contains st.stage then st.getIntCheck else st.error e, true)
  | .requireState ss e => (if ss.all (fun s => st.state != s) then st.error e else st, true)
  | .requireFlagEq a b e => (if st.flag a != st.flag b then st.error e else st, true)
  | .setFlag f v => (st.setFlag f v, true)
  | .covGuard e =>
    (if st.dim < 0 || st.band < 0 || st.band > max (st.dim - 1) 0 || (st.band + 1) * st.dim > intMax ||
        (covGuardUnknowns && st.dim > st.unknowns)
     then { st.error e with dim := 0, band := 0 } else st, true)
  | .covReset => ({ st with covSize := covElems st.dim st.band, iterI := none, iterE := none,
                              allocs := (covElems st.dim st.band, st.unknowns, st.band) :: st.allocs }, true)
  | .iterBegin => ({ st with iterI := some 0 }, true)
  | .iterEnd => ({ st with iterE := some st.covSize }, true)
  | .iterErr g whenAtEnd e => (st.iterErr g whenAtEnd e, true)
  | .store guarded => (st.store guarded, true)
  | .requireString allowed e => (if allowed.contains (String.ofList st.str) then st else st.error e, true)
  | .error e => (st.error e, true)
  | .data => (st, true)
  | .book b => (st.book b, true)

def execOps : List Op → List (String × String) → St → St
  | [], _, st => st
  | op :: r, as, st =>
    match execOp op as st with
    | (st', true) => execOps r as st'
    | (st', false) => st'

/-- `Parser::tag(name)` -/
def tagOf (st : St) (name : String) : St × Tag :=
  match tagTable.find? (fun p => p.1 == name) with
  | some (_, t, some f) => (st.setFlag f true, t)
  | some (_, t, none) => (st, t)
  | none => (st.error .e_unknown_tag, Tag.all.getD errorReturn .unknown_)

/-- what one expat callback does; the event counter is advanced by `step` -/
def react (st : St) : Event → St
  | .start name as =>
    let st1 := st.checkData
    let (st2, t) := tagOf st1 name
    execOps (startOps (tagfun st2.state t)) as st2
  | .stop =>
    let (h, rest) := match st.stack with
      | [] => (Handler.unknown_, [])
      | h :: r => (h, r)
    let st2 := execOps (endOps h) [] { st with stack := rest }
    { st2 with data := [] }
  | .text s => { st with data := st.data ++ s }

def step (st : St) (e : Event) : St := { react st e with n := st.n + 1 }

def run (st : St) (evs : List Event) : St := evs.foldl step st

/-- result of `xml_parse` for input that expat accepted -/
inductive Outcome where
  | accepted
  | refused (err : Option (Nat × Err))
  deriving Repr, DecidableEq

def outcome (st : St) : Outcome :=
  if st.state = .error_ then .refused st.err else .accepted

end Gama.AdjRes
