/-
  Event lists of well-formed parts of an adjustment-results document (core Lean only), the input side of the
  acceptance theorems of Props/C11AdjResAccept.lean about the run model Model/AdjResRun.lean.
  Nothing here is executed by the reader model: these are the DOCUMENTS it is run on.

    leafC n txt         `<n>txt</n>` (character data as `List Char`)
    fltEvents ws        `<flt>w</flt>` for every word of `ws`
    covHead sd sb       `<dim>sd</dim> <band>sb</band>`
    covBody sd sb ws    what stands between `<cov-mat>` and `</cov-mat>`, and the closing tag
    fillLog i k N       the log of `k` stores `*tmp_i++ = …` starting at offset `i` into a storage of `N` elements
                        (newest first, as `St.writes` keeps it)
-/
import Gama.Model.AdjResRun
namespace Gama.AdjRes

/-- `<n>txt</n>` -/
def leafC (n : String) (txt : List Char) : List Event := [.start n [], .text txt, .stop]

/-- `<flt>w</flt>` for every word -/
def fltEvents : List (List Char) → List Event
  | [] => []
  | w :: r => leafC "flt" w ++ fltEvents r

/-- `<dim>sd</dim> <band>sb</band>` -/
def covHead (sd sb : List Char) : List Event := leafC "dim" sd ++ leafC "band" sb

/-- the content of `<cov-mat>` and its end tag -/
def covBody (sd sb : List Char) (ws : List (List Char)) : List Event :=
  covHead sd sb ++ fltEvents ws ++ [.stop]

/-- `k` consecutive stores from offset `i` on, storage of `N` elements; newest first -/
def fillLog : Nat → Nat → Nat → List (Nat × Nat)
  | _, 0, _ => []
  | i, k + 1, N => fillLog (i + 1) k N ++ [(i, N)]


/-! ### a declarative type of self-consistent result documents (sub-grammar; lists of any length) -/

/-- which coordinates an adjusted point carries -/
inductive PtKind where
  | xy | z | xyz
  deriving DecidableEq, Repr

/-- `<point> <id>id</id> [<x>x</x> <y>y</y>] [<z>z</z>] </point>` inside `<adjusted>` -/
structure Pt where
  id : List Char
  kind : PtKind
  x : List Char
  y : List Char
  z : List Char
  deriving DecidableEq, Repr

def Pt.coords (p : Pt) : List Event :=
  match p.kind with
  | .xy => leafC "x" p.x ++ leafC "y" p.y
  | .z => leafC "z" p.z
  | .xyz => leafC "x" p.x ++ leafC "y" p.y ++ leafC "z" p.z

def Pt.events (p : Pt) : List Event := [.start "point" []] ++ leafC "id" p.id ++ p.coords ++ [.stop]

/-- adjustment indexes (unknowns) the point contributes -/
def Pt.unknowns (p : Pt) : Nat :=
  match p.kind with
  | .xy => 2
  | .z => 1
  | .xyz => 3

def Pt.valid (p : Pt) : Bool :=
  match p.kind with
  | .xy => Lit.isFloat p.x && Lit.isFloat p.y
  | .z => Lit.isFloat p.z
  | .xyz => Lit.isFloat p.x && Lit.isFloat p.y && Lit.isFloat p.z

/-- `<orientation> <id>id</id> <approx>a</approx> <adj>b</adj> </orientation>` inside `<orientation-shifts>` -/
structure Ori where
  id : List Char
  approx : List Char
  adj : List Char
  deriving DecidableEq, Repr

def Ori.events (o : Ori) : List Event :=
  [.start "orientation" []] ++ leafC "id" o.id ++ leafC "approx" o.approx ++ leafC "adj" o.adj ++ [.stop]

def Ori.valid (o : Ori) : Bool := Lit.isFloat o.approx && Lit.isFloat o.adj

def ptsEvents : List Pt → List Event
  | [] => []
  | p :: r => p.events ++ ptsEvents r

def orisEvents : List Ori → List Event
  | [] => []
  | o :: r => o.events ++ orisEvents r

def ptsUnknowns : List Pt → Nat
  | [] => 0
  | p :: r => p.unknowns + ptsUnknowns r

/-- `<ind>n</ind>` for every word (content of `<original-index>`) -/
def indEvents : List (List Char) → List Event
  | [] => []
  | w :: r => leafC "ind" w ++ indEvents r

/-- a result document of the sub-grammar: adjusted points, orientation shifts, covariance matrix, original indexes -/
structure Doc where
  points : List Pt
  oris : List Ori
  dim : List Char
  band : List Char
  cov : List (List Char)
  inds : List (List Char)
  deriving DecidableEq, Repr

/-- everything up to and including `<adjusted>` (fixed text; sections that may be empty are empty) -/
def docPrefix : List Event :=
  [.start "gama-local-adjustment" [("xmlns", "http://www.gnu.org/software/gama/gama-local-adjustment")],
   .start "description" [], .stop,
   .start "network-general-parameters" [("epoch", "0")], .stop,
   .start "network-processing-summary" [], .stop, .start "coordinates" [],
   .start "fixed" [], .stop, .start "approximate" [], .stop, .start "adjusted" []]

def Doc.events (d : Doc) : List Event :=
  docPrefix ++ ptsEvents d.points ++ [.stop, .start "orientation-shifts" []] ++ orisEvents d.oris ++
  [.stop, .start "cov-mat" []] ++ covBody d.dim d.band d.cov ++
  [.start "original-index" []] ++ indEvents d.inds ++ [.stop, .stop, .start "observations" [], .stop, .stop]

/-- the unknowns the document announces before `<cov-mat>`: 2 per xy, 1 per z, 1 per orientation -/
def Doc.unknowns (d : Doc) : Nat := ptsUnknowns d.points + d.oris.length

/-- self-consistency (decidable): every number is well formed, `<dim>` IS the number of announced unknowns,
    `0 ≤ band < dim`, `(band+1)·dim ≤ INT_MAX`, exactly `covElems dim band` covariance words -/
def Doc.valid (d : Doc) : Bool :=
  d.points.all Pt.valid && d.oris.all Ori.valid &&
  Lit.isInteger d.dim && Lit.isInteger d.band &&
  decide (extractInt d.dim = (d.unknowns : Int)) &&
  decide (0 ≤ extractInt d.band) && decide (extractInt d.band < extractInt d.dim) &&
  decide ((extractInt d.band + 1) * extractInt d.dim ≤ intMax) &&
  decide (d.cov.length = covElems (extractInt d.dim) (extractInt d.band)) &&
  d.cov.all Lit.isFloat && d.inds.all Lit.isInteger

end Gama.AdjRes

namespace Gama.AdjRes.Ex

/-- a concrete self-consistent document: points A (x, y), B (z), C (x, y, z), one orientation: 2 + 1 + 3 + 1 = 7 unknowns;
    7×7 band-1 matrix: 13 words; seven original indexes -/
def doc7 : Doc :=
  { points := [⟨"A".toList, .xy, "1.5".toList, "-2e3".toList, []⟩, ⟨"B".toList, .z, [], [], " 3. ".toList⟩,
               ⟨"C".toList, .xyz, "1".toList, "2".toList, "3".toList⟩],
    oris := [⟨"A".toList, "0.1".toList, ".2".toList⟩],
    dim := "7".toList, band := "1".toList,
    cov := List.replicate 13 "1e-6".toList,
    inds := ["1", "2", "3", "4", "5", "6", "7"].map String.toList }

/-- the same with `<dim>8</dim>`: more than the unknowns announced — not self-consistent -/
def doc7dim8 : Doc := { doc7 with dim := "8".toList, cov := List.replicate 15 "1e-6".toList }

end Gama.AdjRes.Ex

