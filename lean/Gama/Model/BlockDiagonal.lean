/-
  `GNU_gama::BlockDiagonal<Float,Index>` and `GNU_gama::UpperBlockDiagonal<Float,Index>`
  (lib/gnu_gama/sparse/sbdiagonal.h) as ONE object, exactly as coded.  Core Lean only.

  C++ state: `blocks_`, one heap array `nonz_[floats]` holding the packed band storage of all blocks
  one after another, `ncnt_`, `size_`, and three 1-based tables `dim_[blcks+1]`, `width_[blcks+1]`,
  `begin_[blcks+2]` (pointers into `nonz_`; the model stores the offsets `begin_[i] - nonz_`).

    add_block(bdim, bwidth, mem):  N = bdim*(bwidth+1) - bwidth*(bwidth+1)/2;
                                   blocks_++; size_ += bdim; ncnt_ += N;
                                   b = begin_[blocks_]; begin_[blocks_+1] = b + N; memcpy(b, mem, N);
                                   dim_[blocks_] = bdim; width_[blocks_] = bwidth;
    replicate():                   r = new BlockDiagonal(blocks_, ncnt_);
                                   for i=1..blocks_  r->add_block(dim(i), width(i), begin(i));
    cholDec(tol):                  for block=1..blocks_ { B = begin(block); N = dim(block); W = width(block);
                                     for row=1..N { if ((pivot = *B) < tol) return block; … } }  return 0;

  None of the members checks anything (`canAddBlock` says when the C++ call is defined).
  The row loop of `cholDec` is the loop of `Cov.bdCholBlock` (Model/BandChol.lean: `elimPtr`,
  `scalePtr` on raw offsets); here it runs on the WHOLE buffer, starting at `begin(block)`, and the
  outer loop walks the blocks — `Lemmas/CovBdMulti.lean` proves that this equals `bdCholBlock` applied
  to every block separately (nothing outside `begin(block) … end(block)` is read or written).
-/
import Gama.Model.BandChol
namespace Gama.Cov

structure BlockDiag (K : Type) where
  blocks : Nat
  nonz   : Array K
  ncnt   : Nat
  size   : Nat
  dim    : Array Nat
  width  : Array Nat
  begin_ : Array Nat
  deriving Repr

namespace BlockDiag
variable {K : Type}

/-- `init(blcks, floats)`; `new[]` leaves the arrays uninitialised, the model fills them with `z` / 0;
    `begin_[1] = nonz_` -/
def init (z : K) (blcks floats : Nat) : BlockDiag K :=
  { blocks := 0, nonz := Array.replicate floats z, ncnt := 0, size := 0
    dim := Array.replicate (blcks + 1) 0, width := Array.replicate (blcks + 1) 0
    begin_ := Array.replicate (blcks + 2) 0 }

/-- `dim(i)`, `width(i)`, `begin(i) - nonz_`, `end(i) - nonz_` -/
def dimOf (bd : BlockDiag K) (i : Nat) : Nat := bd.dim.getD i 0
def widthOf (bd : BlockDiag K) (i : Nat) : Nat := bd.width.getD i 0
def beginOf (bd : BlockDiag K) (i : Nat) : Nat := bd.begin_.getD i 0
def endOf (bd : BlockDiag K) (i : Nat) : Nat := bd.begin_.getD (i + 1) 0

/-- `N = bdim*(bwidth+1) - (bwidth)*(bwidth+1)/2` (`Index = int`) -/
def blockFloats (bdim bwidth : Nat) : Nat := (Packed.size bdim bwidth).toNat

/-- `memcpy(b, mem, N*sizeof(Float))` -/
def memcpy (z : K) (dst : Array K) (b : Nat) (src : Array K) (n : Nat) : Array K :=
  (List.range n).foldl (fun a i => a.setIfInBounds (b + i) (src.getD i z)) dst

/-- the C++ call `add_block(bdim, bwidth, mem)` is defined iff a table cell and the floats are left
    and `mem` has `N` readable elements -/
def canAddBlock (bd : BlockDiag K) (bdim bwidth : Nat) (mem : Array K) : Bool :=
  decide (bd.blocks + 1 < bd.dim.size) && decide (0 ≤ Packed.size bdim bwidth)
    && decide (blockFloats bdim bwidth ≤ mem.size)
    && decide (bd.beginOf (bd.blocks + 1) + blockFloats bdim bwidth ≤ bd.nonz.size)

def addBlock (z : K) (bd : BlockDiag K) (bdim bwidth : Nat) (mem : Array K) : BlockDiag K :=
  let N := blockFloats bdim bwidth
  let blocks := bd.blocks + 1
  let b := bd.begin_.getD blocks 0
  { blocks := blocks, size := bd.size + bdim, ncnt := bd.ncnt + N
    begin_ := bd.begin_.setIfInBounds (blocks + 1) (b + N)
    nonz := memcpy z bd.nonz b mem N
    dim := bd.dim.setIfInBounds blocks bdim
    width := bd.width.setIfInBounds blocks bwidth }

/-- the elements `begin(i) … end(i)` of block `i` -/
def blockMem (bd : BlockDiag K) (i : Nat) : Array K := bd.nonz.extract (bd.beginOf i) (bd.endOf i)

/-- block `i` read as a `CovMat(dim(i), width(i))` -/
def block (bd : BlockDiag K) (i : Nat) : CovMat K := ⟨bd.dimOf i, bd.widthOf i, bd.blockMem i⟩

/-- `replicate(new_blocks, new_floats)` -/
def replicateTo (z : K) (bd : BlockDiag K) (newBlocks newFloats : Nat) : BlockDiag K :=
  (List.range' 1 bd.blocks).foldl
    (fun r i => addBlock z r (bd.dimOf i) (bd.widthOf i) (bd.nonz.extract (bd.beginOf i) bd.nonz.size))
    (init z newBlocks newFloats)

/-- `replicate()` -/
def replicate (z : K) (bd : BlockDiag K) : BlockDiag K := bd.replicateTo z bd.blocks bd.ncnt

/-- all blocks in order, each as a `CovMat` (for the drivers and for the statements) -/
def toBlocks (bd : BlockDiag K) : List (CovMat K) := (List.range' 1 bd.blocks).map bd.block

end BlockDiag

/-! ### `cholDec` -/

section chol
variable {K : Type} [Scalar K]

/-- one iteration of `for (row=1; row<=N; row++)` of `BlockDiagonal::cholDec` on the raw buffer;
    `st.2` is the pointer `B` (offset from `nonz_`); `.error st.1` = `return block` -/
def bdRowStep (W N : Nat) (tol : K) (st : CovMat K × Int) (row : Nat) :
    Except (CovMat K) (CovMat K × Int) :=
  let pivot := st.1.raw 0 st.2
  if pivot < tol then (.error st.1 : Except (CovMat K) (CovMat K × Int)) else
  let k := min W (N - row)
  let e := elimPtr W N row st.2 pivot st.1
  let s := Scalar.sqrt pivot
  .ok (scalePtr k st.2 s (e.rawSet st.2 s), st.2 + (k : Int) + 1)

/-- the row loop of one block, started with `B = st.2` -/
def bdBlockRows (W N : Nat) (tol : K) (st : CovMat K × Int) : Except (CovMat K) (CovMat K × Int) :=
  (List.range' 1 N).foldlM (bdRowStep W N tol) st

/-- the whole buffer `nonz_` as the raw memory the pointer walk runs on (shape fields unused) -/
def arena (a : Array K) : CovMat K := ⟨0, 0, a⟩

/-- `for (Index block=…; block<=blocks_; block++)`, `cnt` blocks left; result: return value
    (first rejected block or 0) and the buffer as the C++ leaves it -/
def BlockDiag.cholDecFrom (tol : K) (bd : BlockDiag K) : Nat → Nat → Array K → Nat × Array K
  | _, 0, a => (0, a)
  | block, cnt + 1, a =>
    match bdBlockRows (bd.widthOf block) (bd.dimOf block) tol (arena a, (bd.beginOf block : Int)) with
    | .error a' => (block, a'.buf)
    | .ok st => BlockDiag.cholDecFrom tol bd (block + 1) cnt st.1.buf

/-- `int cholDec(Float tol = 1e-14)` -/
def BlockDiag.cholDec (tol : K) (bd : BlockDiag K) : Nat × BlockDiag K :=
  let r := bd.cholDecFrom tol 1 bd.blocks bd.nonz
  (r.1, { bd with nonz := r.2 })

/-! ### `UpperBlockDiagonal` -/

/-- the constructor's table `row[N+2]` (offsets from `nonz_`), written exactly as coded:
    `row[++r] = mem; mem += row_width; row[r+1] = mem;`  (`begin(i) = row[i]`, `end(i) = row[i+1]`);
    `N == 0` leaves `row = 0` (model: empty table) -/
def BlockDiag.upperTable (bd : BlockDiag K) : Array Nat :=
  if bd.size = 0 then #[] else
  ((List.range' 1 bd.blocks).foldl (fun (st : Array Nat × Nat) b =>
      let dim := bd.dimOf b
      let width := bd.widthOf b
      let inner := (List.range' 1 dim).foldl (fun (s : Array Nat × Nat × Nat) i =>
          -- s = (row, r, mem)
          let rw := if i + (width + 1) > dim then dim - i + 1 else width + 1
          let r := s.2.1 + 1
          let mem := s.2.2 + rw
          ((s.1.setIfInBounds r s.2.2).setIfInBounds (r + 1) mem, r, mem))
        (st.1, st.2, bd.beginOf b)
      (inner.1, inner.2.1))
    (Array.replicate (bd.size + 2) 0, 0)).1

/-- the forward substitution of `Homogenization::run` on the rows `off+1 … off+cnt` of the table,
    applied to a vector whose component 0 is row `off+1`:
    `b = upper.begin(r); e = upper.end(r); x = v(i) / *b++; v(i) = x; n = i+1; while (b != e) v(n++) -= *b++ * x;` -/
def sweepTab (nonz : Array K) (tab : Array Nat) (off cnt : Nat) (v : Array K) : Array K :=
  (List.range' 1 cnt).foldl (fun (w : Array K) i =>
      let b := tab.getD (off + i) 0
      let e := tab.getD (off + i + 1) 0
      let x := w.getD (i - 1) 0 / nonz.getD b 0
      let w1 := w.setIfInBounds (i - 1) x
      (List.range' 1 (e - b - 1)).foldl
        (fun (u : Array K) (t : Nat) => u.setIfInBounds (i - 1 + t) (u.getD (i - 1 + t) 0 - nonz.getD (b + t) 0 * x)) w1)
    v

end chol
end Gama.Cov
