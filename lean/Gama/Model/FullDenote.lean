/-
  C04 round 3 — numeric meaning of the symbolic answers of the chol/gso/svd solver-entry machines
  (Model/FullState.lean).  Their provenance terms (`VProv`) carry no data identity — validity for the
  current data is the ghost flags `dec`/`defKnown`/`haveX`, cleared by `reset`, and a read without them is
  `.stale` — so a term denotes a value of the CURRENT problem `p`: `.reg l` = the solver model
  (`Gama.Ls.solverOf`) regularised over the list `l`, `.plain` = no regularisation applied (regular system,
  or svd with `minx == all`: evaluated with the configuration `c`), `.unset`/`.broken` = no number a fresh
  object would return.  `directF`/`directS` say what a fresh object computes.  Core Lean only.
-/
import Gama.Model.FullState
import Gama.Model.EnvDenote
import Gama.Model.Ls.Adj
namespace Gama.C04.Full
open Gama Gama.Ls Gama.C04

variable {K : Type} [Scalar K]

/-- the numeric answer set a provenance selects -/
def ansOf (alg : Ls.Alg) (p : Problem K) (c : Reg) : VProv → Option (Except ErrKind (Answer K))
  | .plain => some (solverOf alg { p with reg := c })
  | .reg l => some (solverOf alg { p with reg := .subset l })
  | _ => none

def withAns (v : Option (Except ErrKind (Answer K))) (f : Except ErrKind (Answer K) → DVal K) : DVal K :=
  match v with | some a => f a | none => .stale "artefact of an abandoned or missing regularisation"

def denoteF (alg : Ls.Alg) (p : Problem K) (c : Reg) : Full.Out → DVal K
  | .x v => withAns (ansOf alg p c v) xOf
  | .resid v => withAns (ansOf alg p c v) (ofE fun r => .vec r.r)
  | .sumsq v => withAns (ansOf alg p c v) (ofE fun r => .num r.rtr)
  | .defect => ofE (fun (r : Answer K) => .int r.defect) (solverOf alg { p with reg := c })
  | .lindep i => ofE .flag (solverOf alg { p with reg := c } >>= fun r => r.lindep i)
  | .qbb i j => ofE .num (solverOf alg { p with reg := c } >>= fun r => r.qbb i j)
  | .qxx i j t v =>
    -- chol walks the stored list `t` in `T()`: it must be the list `G` was computed for
    if (match t, v with | some l, .reg l' => l == l' | some _, _ => false | none, _ => true) then
      withAns (ansOf alg p c v) (fun a => ofE .num (a >>= fun r => r.qxx i j))
    else .stale "T walks another list than G was computed for"
  | .qbx i j t v =>
    if (match t, v with | some l, .reg l' => l == l' | some _, _ => false | none, _ => true) then
      withAns (ansOf alg p c v) (fun a => ofE .num (a >>= fun r => r.qbx i j))
    else .stale "T walks another list than G was computed for"
  | .badReg => .err .BadRegularization
  | .stale w => .stale w
  | .ok => .ok

/-- a fresh object: `sing` = the system is singular; then everything regularisation-dependent is computed
    over the effective list `l`, else with the configuration `c` as it stands -/
def directF (alg : Ls.Alg) (p : Problem K) (c : Reg) (sing : Bool) (l : List Nat) (regDep : Bool) : Full.Op → DVal K
  | .unknowns => xOf (solverOf alg { p with reg := if sing then .subset l else c })
  | .residuals => ofE (fun (r : Answer K) => .vec r.r) (solverOf alg { p with reg := if sing && regDep then .subset l else c })
  | .sumsq => ofE (fun (r : Answer K) => .num r.rtr) (solverOf alg { p with reg := if sing && regDep then .subset l else c })
  | .defect => ofE (fun (r : Answer K) => .int r.defect) (solverOf alg { p with reg := c })
  | .lindep i => ofE .flag (solverOf alg { p with reg := c } >>= fun r => r.lindep i)
  | .qbb i j => ofE .num (solverOf alg { p with reg := c } >>= fun r => r.qbb i j)
  | .qxx i j => ofE .num (solverOf alg { p with reg := if sing then .subset l else c } >>= fun r => r.qxx i j)
  | .qbx i j => ofE .num (solverOf alg { p with reg := if sing then .subset l else c } >>= fun r => r.qbx i j)
  | .minxAll => .ok
  | .minx _ => .ok
  | .reset => .ok

/-! ### round 4: the symbolic facts are facts of the numeric problem; no free `alg`, `c`

`directF` takes the algorithm, the configuration `c` and the singularity flag as parameters that nothing tied to the
machine.  `algOf k` is the algorithm of the machine's kind, `cfgReg` the configuration the caller left (as a `Reg`),
`FactsF alg p inp` says the symbolic size / defect / resolution facts are those the numeric solver model reports
for `p`; `answerF`/`answerS` are then functions of `(p, caller's configuration, op)` alone. -/

def algOf : Kind → Ls.Alg
  | .chol => .chol
  | .gso => .gso

/-- `defect()` of the numeric model, asked under `min_x()` (all unknowns: a list every model covers and that is never
    too short), so that it is a function of `(A, b)` alone — `p.reg`, the configuration the data set happens to have
    been defined with, does not enter.  Every successful solve of `p`, under whatever regularisation, reports this
    defect (`solver_defect_indep`, Lemmas/FullStateFacts.lean). -/
def defectF (alg : Ls.Alg) (p : Problem K) : Nat :=
  match solverOf alg { p with reg := .all } with | .ok a => a.defect | .error _ => 0

/-- the regularisation step does not throw BadRegularization for the list `l` -/
def resolvesF (alg : Ls.Alg) (p : Problem K) (l : List Nat) : Bool :=
  match solverOf alg { p with reg := .subset l } with
  | .ok a => a.xErr != some .BadRegularization
  | .error e => e != .BadRegularization

structure FactsF (alg : Ls.Alg) (p : Problem K) (inp : Input) : Prop where
  n : inp.n = p.n
  nullity : inp.nullity = defectF alg p
  resolves : ∀ l, inp.resolves l = resolvesF alg p l

/-- the symbolic input OF a numeric problem (what `Driver/FullState.lean` runs the machines on since round 6) -/
def inputOf (alg : Ls.Alg) (p : Problem K) : Input :=
  { n := p.n, nullity := defectF alg p, resolves := resolvesF alg p }

/-- the caller's configuration as the numeric models take it (`min_x()` / constructor default = all) -/
def cfgReg (useAll : Bool) (list : Option (List Nat)) : Reg :=
  if useAll then .all else .subset (list.getD [])

/-- the field of an answer record a query reads -/
def fieldF (a : Except ErrKind (Answer K)) : Full.Op → DVal K
  | .unknowns => xOf a
  | .residuals => ofE (fun (r : Answer K) => .vec r.r) a
  | .sumsq => ofE (fun (r : Answer K) => .num r.rtr) a
  | .defect => ofE (fun (r : Answer K) => .int r.defect) a
  | .lindep i => ofE .flag (a >>= fun r => r.lindep i)
  | .qbb i j => ofE .num (a >>= fun r => r.qbb i j)
  | .qxx i j => ofE .num (a >>= fun r => r.qxx i j)
  | .qbx i j => ofE .num (a >>= fun r => r.qbx i j)
  | .minxAll => .ok
  | .minx _ => .ok
  | .reset => .ok

/-- chol / gso: what a fresh object returns for problem `p` under the caller's configuration — the field of the
    numeric solver model run ONCE on `p` with that configuration (round 6: no branch on the defect; as
    `EnvDenote.answer`) -/
def answerF (alg : Ls.Alg) (p : Problem K) (useAll : Bool) (list : Option (List Nat)) (op : Full.Op) : DVal K :=
  fieldF (solverOf alg { p with reg := cfgReg useAll list }) op

/-- svd (`sub` = a subset is configured) -/
def answerS (p : Problem K) (sub : Bool) (list : Option (List Nat)) (op : Full.Op) : DVal K :=
  fieldF (solverOf .svd { p with reg := cfgReg (!sub) list }) op

/-! ### round 6: the facts the correspondence driver reads from the implementation (`info` line, solver entry) -/

/-- `info <alg> <n> <nullity>`: number of unknowns and `defect()` as a separate fresh object of the real class
    reports them for the data set the object under test holds -/
structure FInfo where
  n : Nat
  nullity : Nat
deriving Repr, DecidableEq

/-- the probe's facts agree with the numeric problem: same size, same defect as the solver model reports.  The driver
    runs the machine on `inputOf alg p` and refuses an `info` line unless it agrees (prints
    `info-does-not-describe-the-problem …`: a disagreement with the harness). -/
def FInfo.agrees (f : FInfo) (alg : Ls.Alg) (p : Problem K) : Bool :=
  f.n == (inputOf alg p).n && f.nullity == (inputOf alg p).nullity

end Gama.C04.Full
