/-
  Model of lib/gnu_gama/statan.cpp: `NormalDistribution`, `Normal`, `Student`, `Chi_square`,
  `KSprob` — same operations in the same order, over `[Scalar K] [Transc K] [Trunc K]`.
  Loops without a syntactic bound (series / continued fraction of `NormalDistribution`) take fuel.
  The decision fragments (loop exit tests, the `maxd/mind` rescaling block, the `Chi_square` selector and its two
  polynomials) are not written here: they are `Gama.StatanGen.*`, regenerated from statan.cpp on every run
  (tools/gen/c17_statan.py).
  Core Lean only.
-/
import Gama.Model.GeoScalar
import Gama.Gen.StatanGen
namespace Gama.Statan
open Gama Scalar Transc Trunc
variable {K : Type} [Scalar K] [Transc K]

/-- decimal literal `m·10^(-e)` -/
abbrev lit (m e : Nat) : K := Scalar.ofSci m true e

/-- `DBL_EPSILON` (2^-52 = 2.220446049250313e-16) -/
def dblEps : K := Scalar.ofSci 2220446049250313 true 31
/-- `maxd = 1e30`, `mind = 1e-30` -/
def maxd : K := Scalar.ofSci 1 false 30
def mind : K := Scalar.ofSci 1 true 30

/-- the density constant 1/sqrt(2π) as written -/
def f0 : K := lit 3989422804014327 16

/-- the power series loop: `for(;;){ y *= x2/r; D += y; if (D-s <= 0) break; s = D; r += 2; }` -/
def seriesLoop (x2 : K) : Nat → K → K → K → K → K
  | 0, _, D, _, _ => D
  | n+1, y, D, s, r =>
    let y := y * (x2 / r)
    let D := D + y
    if StatanGen.seriesStop D s then D
    else seriesLoop x2 n y D D (r + Scalar.ofNat 2)

/-- state of the continued-fraction loop -/
structure CF (K : Type) where
  t : K
  a1 : K
  a2 : K
  p1 : K
  q1 : K
  p2 : K
  q2 : K
  s : K
  r : K
  D : K

/-- `if (q2 > maxd) { q1 *= mind; q2 *= mind; p1 *= mind; p2 *= mind; }` on `(q1, q2, p1, p2)`; guard and block
    are the generated `StatanGen.rescaleGuard` / `StatanGen.rescale` -/
def cfRescale (q : K × K × K × K) : K × K × K × K :=
  if StatanGen.rescaleGuard maxd q.1 q.2.1 q.2.2.1 q.2.2.2 then StatanGen.rescale mind maxd q.1 q.2.1 q.2.2.1 q.2.2.2
  else q

/-- one pass of `do { … } while (abs(r - D) > DBL_EPSILON)` -/
def cfStep (typv : Bool) (c : CF K) : CF K :=
  let t := c.t + Scalar.ofNat 4
  let a1 := c.a1 - Scalar.ofNat 8
  let a2 := c.a2 + a1
  let s := a2 * c.p1 + t * c.p2
  let p1 := c.p2
  let p2 := s
  let s := a2 * c.q1 + t * c.q2
  let q1 := c.q2
  let q2 := s
  let R := cfRescale (q1, q2, p1, p2)
  let s := c.r
  let r := c.D
  let D := R.2.2.2 / R.2.1
  let D := if !typv then 1 - D else D
  { t, a1, a2, p1 := R.2.2.1, q1 := R.1, p2 := R.2.2.2, q2 := R.2.1, s, r, D }

def cfLoop (typv : Bool) : Nat → CF K → CF K
  | 0, c => c
  | n+1, c =>
    let c := cfStep typv c
    if StatanGen.cfContinue dblEps c.r c.D then cfLoop typv n c else c

/-- `NormalDistribution(x, D, f)`; result `(D, f)` -/
def normalDistribution (fuel : Nat) (x : K) : K × K :=
  let f : K := f0
  if Scalar.beq x 0 then (lit 5 1, f)
  else
    let typv : Bool := x ≤ (0 : K)
    let b := if x < (0 : K) then -x else x
    let x2 := x * x
    let f := f * exp (-(lit 5 1) * x2)
    let r := f / b
    if r ≤ 0 then ((if typv then 0 else 1), f)
    else
      let r : K := if typv then lit 232 2 else lit 35 1
      if b - r ≤ 0 then
        let y := f * b
        let D := seriesLoop x2 fuel y y y (Scalar.ofNat 3)
        ((if typv then lit 5 1 - D else D + lit 5 1), f)
      else
        let t := x2 + Scalar.ofNat 3
        let p1 := f
        let q1 := b
        let p2 := (t - 1) * f
        let q2 := t * b
        let r := p1 / q1
        let D := p2 / q2
        let r := if !typv then 1 - r else r
        let D := if !typv then 1 - D else D
        let c := cfLoop typv fuel { t, a1 := Scalar.ofNat 2, a2 := 0, p1, q1, p2, q2, s := 0, r, D }
        if !(Scalar.beq (c.s - c.D) 0) then (c.D, f)
        else ((if typv then 0 else 1), f)

/-- the folded probability `a = min(alfa, 1 - alfa)` as coded -/
def fold (alfa : K) : K := if lit 5 1 < alfa then 1 - alfa else alfa

/-- first estimate `z = sqrt(-2 log a)` -/
def normalZ0 (a : K) : K := Scalar.sqrt (-(Scalar.ofNat 2) * log a)

/-- denominator of the rational correction -/
def normalDen (z : K) : K := ((z + lit 1179407 4) * z + lit 908401 3) * z + lit 659935 3

/-- `z -= (…)/(…)` -/
def normalZ1 (z : K) : K :=
  z - ((lit 747395 5 * z + lit 494877 3) * z + lit 163772 2) / normalDen z

/-- the upper tail of the start value `z` and the density there, as `Normal` obtains them.  `direct = false`: the
    original `NormalDistribution(z, f, g); f = 1 - f;` (for z > 3.5 the subtraction keeps only the leading digits of the
    tail — finding C17-F3); `direct = true`: the repaired `NormalDistribution(-z, f, g);`
    (notes/proposed/C17-normal-upper-tail.diff).  Which one the tree contains: `StatanGen.normalUpperDirect`. -/
def normalTail (direct : Bool) (fuel : Nat) (z : K) : K × K :=
  if direct then normalDistribution fuel (-z)
  else
    let Dg := normalDistribution fuel z
    (1 - Dg.1, Dg.2)

/-- `Normal(alfa)` in either variant -/
def normalWith (direct : Bool) (fuel : Nat) (alfa : K) : K :=
  let a := fold alfa
  let z := normalZ1 (normalZ0 a)
  let Dg := normalTail direct fuel z
  let g := Dg.2
  let f := Dg.1
  let f := (f - a) / g
  let norm := (((((lit 75 2 * z * z + lit 875 3) * f + z) * z + lit 5 1) * f / Scalar.ofNat 3 + lit 5 1 * z) * f + 1) * f + z
  if lit 5 1 < alfa then -norm else norm

/-- `Normal(alfa)` as the current tree has it -/
def normal (fuel : Nat) (alfa : K) : K := normalWith StatanGen.normalUpperDirect fuel alfa

/-- N ≤ 1: `cos(a)/sin(a)`, `a = M_PI/2*alfa` -/
def student1 (alfa : K) : K :=
  let a := pi / Scalar.ofNat 2 * alfa
  cos a / sin a

/-- N = 2 -/
def student2 (alfa : K) : K :=
  Scalar.sqrt (Scalar.ofNat 2 / (alfa * (Scalar.ofNat 2 - alfa)) - Scalar.ofNat 2)

/-- the prelude of Hill's expansion: `(a, b, c, d)` -/
def hillABCD (r : K) : K × K × K × K :=
  let a := 1 / (r - lit 5 1)
  let b := Scalar.ofNat 48 / (a * a)
  let c := ((Scalar.ofNat 20700 * a / b - Scalar.ofNat 98) * a - Scalar.ofNat 16) * a + lit 9636 2
  let d := ((lit 945 1 / (b + c) - Scalar.ofNat 3) / b + 1) * Scalar.sqrt (pi / Scalar.ofNat 2 * a) * r
  (a, b, c, d)

/-- the divisor `c` of the first Hill branch: `if (N < 5) c += 0.3*(r-4.5)*(x+0.6); c = (((0.05*d*x-5.0)*x-7.0)*x-2.0)*x+b+c;` -/
def hillDiv1 (N : Int) (r b c d x : K) : K :=
  let c := if N < 5 then c + lit 3 1 * (r - lit 45 1) * (x + lit 6 1) else c
  (((lit 5 2 * d * x - Scalar.ofNat 5) * x - Scalar.ofNat 7) * x - Scalar.ofNat 2) * x + b + c

/-- the divisor `((r+6.0)/(r*y)-0.089*d-0.822)` of the second Hill branch -/
def hillDiv2 (r d y : K) : K := (r + Scalar.ofNat 6) / (r * y) - lit 89 3 * d - lit 822 3

/-- the radicand factor of the second Hill branch (`y = (…)*y-1.0)*(r+1.0)/(r+2.0)+1.0/y`) -/
def hillY2 (r d y : K) : K :=
  ((1 / (hillDiv2 r d y * (r + Scalar.ofNat 2) * Scalar.ofNat 3)
     + lit 5 1 / (r + Scalar.ofNat 4)) * y - 1) * (r + 1) / (r + Scalar.ofNat 2) + 1 / y

/-- N ≥ 3, the unsigned value computed from the doubled tail probability `alfa` -/
def studentHill (fuel : Nat) (alfa : K) (N : Int) : K :=
  let r : K := Scalar.ofInt N
  let (a, b, c, d) := hillABCD r
  let x := d * alfa
  let xx := Scalar.ofNat 2 / r
  let y := pow x xx
  if a + lit 5 2 < y then
    let x := -(normal fuel (lit 5 1 * alfa))
    let y := x * x
    let c := hillDiv1 N r b c d x
    let y := (((((lit 4 1 * y + lit 63 1) * y + Scalar.ofNat 36) * y + lit 945 1) / c - y - Scalar.ofNat 3) / b + 1) * x
    let y := a * y * y
    let y := if y ≤ lit 2 3 then lit 5 1 * y * y + y else exp y - 1
    Scalar.sqrt (r * y)
  else
    Scalar.sqrt (r * hillY2 r d y)

/-- the unsigned critical value for the doubled folded probability -/
def studentAbs (fuel : Nat) (alfa : K) (N : Int) : K :=
  if N ≤ 1 then student1 alfa
  else if N ≤ 2 then student2 alfa
  else studentHill fuel alfa N

/-- `Student(palfa, N)`: fold, double, `palfa == 0.5 → 0`, sign by `palfa > 0.5` -/
def student (fuel : Nat) (palfa : K) (N : Int) : K :=
  let alfa := fold palfa * Scalar.ofNat 2
  if Scalar.beq palfa (lit 5 1) then 0
  else
    let stu := studentAbs fuel alfa N
    if lit 5 1 < palfa then -stu else stu

variable [Trunc K]

/-- `Chi_square(p, n)` -/
def chiSquare (fuel : Nat) (p : K) (n : Int) : K :=
  if n < 2 then
    let a := normal fuel (lit 5 1 * p)
    a * a
  else if n = 2 then -(Scalar.ofNat 2) * log p
  else
    let f : K := Scalar.ofInt n
    let f1 := 1 / f
    let t := normal fuel p
    let f2 := Scalar.sqrt f1 * t
    let z := if StatanGen.chiSel n t then StatanGen.chiPolyA f1 f2 else StatanGen.chiPolyB f1 f2
    f * z * z * z

/-- first `KSprob` loop: `for (double j=1; j<100; j++)` -/
def ksLoop1 (pi2 xx8 eps : K) : Nat → K → K → K
  | 0, _, sum => sum
  | n+1, j, sum =>
    if j < Scalar.ofNat 100 then
      let nom := (-(Scalar.ofNat 4) * j * j + Scalar.ofNat 4 * j - 1) * pi2
      let term := exp (nom / xx8)
      let sum := sum + term
      if StatanGen.ksStop1 eps term then sum else ksLoop1 pi2 xx8 eps n (j + 1) sum
    else sum

/-- second `KSprob` loop: `do { … } while (term > eps && k <= 100)` -/
def ksLoop2 (x2 eps : K) : Nat → K → K → K → K
  | 0, _, _, sum => sum
  | n+1, k, s, sum =>
    let term := exp (x2 * k * k)
    let sum := sum + s * term
    let s := -s
    let k := k + 1
    if StatanGen.ksContinue2 eps term k then ksLoop2 x2 eps n k s sum else sum

/-- `KSprob(x)` -/
def ksProb (x : K) : K :=
  let eps : K := Scalar.ofSci 1 true 20
  if x < eps then 0
  else if 1 / eps < x then 1
  else if x < lit 118 2 then
    let pi2 := (pi : K) * pi
    let xx8 := Scalar.ofNat 8 * x * x
    let sum := ksLoop1 pi2 xx8 eps 100 1 0
    sum * (Scalar.sqrt (Scalar.ofNat 2 * pi) / x)
  else
    let x2 := -(Scalar.ofNat 2) * x * x
    ksLoop2 x2 eps 101 1 (-(Scalar.ofNat 2)) 1

end Gama.Statan
