/-
  Model of lib/gnu_gama/intfloat.h: `TrimWhiteSpaces`, `IsInteger`, `IsFloat`
  (character-level recognisers).  Core Lean only.
-/
namespace Gama.Literals

/-- `isspace` in the "C" locale -/
def isSpace (c : Char) : Bool :=
  c = ' ' || c = '\t' || c = '\n' || c = '\x0b' || c = '\x0c' || c = '\r'

def isDigit (c : Char) : Bool := '0' ≤ c && c ≤ '9'

/-- `TrimWhiteSpaces(b, e)` -/
def trim (cs : List Char) : List Char :=
  ((cs.dropWhile isSpace).reverse.dropWhile isSpace).reverse

/-- `switch (*b) { case '+': case '-': ++b; }` -/
def skipSign : List Char → List Char
  | '+' :: r => r
  | '-' :: r => r
  | cs => cs

/-- `IsInteger` -/
def isInteger (s : List Char) : Bool :=
  match trim s with
  | [] => false
  | cs => (skipSign cs).all isDigit

/-- `IsFloat` -/
def isFloat (s : List Char) : Bool :=
  match trim s with
  | [] => false
  | cs =>
    let cs := skipSign cs
    let d1 := cs.takeWhile isDigit
    let cs := cs.dropWhile isDigit
    let cs := match cs with
      | '.' :: r => r
      | _ => cs
    let d2 := cs.takeWhile isDigit
    let cs := cs.dropWhile isDigit
    let hasdigit := !d1.isEmpty || !d2.isEmpty
    match cs with
    | [] => hasdigit
    | c :: r =>
      if c ≠ 'e' ∧ c ≠ 'E' then false
      else match r with
        | [] => false
        | _ =>
          match skipSign r with
          | [] => false
          | ds => if ds.all isDigit then hasdigit else false

end Gama.Literals
