/-
  Model of lib/gnu_gama/intfloat.h: `TrimWhiteSpaces`, `IsInteger`, `IsFloat`
  (character-level recognisers).  Core Lean only.
-/
import Gama.Gen.GeoVariants
namespace Gama.Literals

/-- `isspace` in the "C" locale -/
def isSpace (c : Char) : Bool :=
  c = ' ' || c = '\t' || c = '\n' || c = '\x0b' || c = '\x0c' || c = '\r'

def isDigit (c : Char) : Bool := '0' ≤ c && c ≤ '9'

/-- `TrimWhiteSpaces(b, e)` -/
def trim (cs : List Char) : List Char :=
  ((cs.dropWhile isSpace).reverse.dropWhile isSpace).reverse

/-- `switch (*b) { case '+': case '-': ++b; }` -/
def skipSign : List Char → List Char
  | '+' :: r => r
  | '-' :: r => r
  | cs => cs

/-- `IsInteger`; `needDigit`: the repaired code adds `if (b == e) return false;` after the sign
    (notes/proposed/C18-isinteger-sign-only.diff) -/
def isIntegerWith (needDigit : Bool) (s : List Char) : Bool :=
  match trim s with
  | [] => false
  | cs =>
    let ds := skipSign cs
    if needDigit && ds.isEmpty then false else ds.all isDigit

/-- the ORIGINAL code (before fix 5c79698: also accepts a lone `+` / `-`) — NOT what the tree contains (that is
    `isIntegerCur`); kept for the HISTORY theorems of C18 and for C11's comparison of the recognisers -/
def isInteger (s : List Char) : Bool := isIntegerWith false s

/-- the variant the current tree contains -/
def isIntegerCur (s : List Char) : Bool := isIntegerWith Gen.isIntegerNeedsDigit s

/-- the part after `e`/`E`: not empty, optional sign, at least one character left, only digits -/
def exponentOk (r : List Char) : Bool :=
  match r with
  | [] => false
  | _ =>
    match skipSign r with
    | [] => false
    | ds => ds.all isDigit

/-- what may follow the mantissa: nothing, or an exponent -/
def tailOk (cs : List Char) : Bool :=
  match cs with
  | [] => true
  | c :: r => (c = 'e' || c = 'E') && exponentOk r

/-- the mantissa scan of `IsFloat`: (hasdigit, rest) -/
def mantissa (cs : List Char) : Bool × List Char :=
  let d1 := cs.takeWhile isDigit
  let cs := cs.dropWhile isDigit
  let cs := match cs with
    | '.' :: r => r
    | _ => cs
  let d2 := cs.takeWhile isDigit
  let cs := cs.dropWhile isDigit
  (!d1.isEmpty || !d2.isEmpty, cs)

/-- `IsFloat`: every early `return false` is in `tailOk`; the final `return hasdigit` is the conjunction -/
def isFloat (s : List Char) : Bool :=
  match trim s with
  | [] => false
  | cs =>
    let m := mantissa (skipSign cs)
    tailOk m.2 && m.1

end Gama.Literals
