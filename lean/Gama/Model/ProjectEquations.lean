/-
  ProjectEquations — ONE model of `LocalNetwork::project_equations()` (lib/gnu_gama/local/network.cpp):
  the function that turns the revised network (points with statuses, observations in clusters with
  covariance matrices, a priori m0) into the adjustment problem.  Composed from the existing slices:

    * revision of the observations (`if (!tst_redmer_) revision_observations()`; structural part:
      `obs->active()` ∧ needed point groups active, the single-direction rule)        ↦ `MinX.isRevised` (C08)
    * prologue: `if (b.active_xy() || b.active_z()) index_* = 0`, `index_orientation(0)`,
      a new `LocalLinearization` (`maxn = 0`)                                          ↦ `IdxState.resetPass` with the
                                                                                         REGENERATED guard `Gen.Lin.resetGuard` (C05)
    * `for (m in revised_obs_) { obs->accept(&loclin); b(++r) = rhs_(r) = loclin.rhs; tmp->new_row();
       add_element(coeff[i], index[i]) … }`, `pocet_neznamych_ = loclin.unknowns()`   ↦ `Lin.passFrom` over `Gen.Lin` (C05)
      (`sp->orientation()` throws `T_POBS_bad_data` when the stand-point has no orientation ↦ `linPass`)
    * `revised_obs_` in `OD` order = clusters in list order, observations in list order: the cluster
      walk that defines the row ranges (`ind_0 += N`)                                  ↦ `revisedFrom`, `rowRanges`
    * `unknowns_.resize(n)`; the loop over the stand-points (`test_orientation() && index_orientation()`,
      `station.active_xy()` ⇒ type 'R'), the loop over `PD` ('X','Y' under `active_xy()`, 'Z' under
      `active_z() && index_z()`)                                                       ↦ `unknownsList`
    * `prepareProjectEquations()` (may throw)                                          ↦ `Ls.Net.prepare` (C01/C10)
    * `singular_coords(A)` on the homogenised dense `A`; `true` ⇒ `update(Points); project_equations();
      return;`                                                                         ↦ `SingularCoords.singularCoords` (C20/C08), `peLoop`
    * per cluster `activeCov()`, `/= m0²` (hand-over to the solver)                    ↦ fields of `NetProblem` (`Ls.Net.cofs`, C10's `Cov.activeCov`)
    * `min_n_`, `min_x_`, `least_squares->min_x(min_n_, min_x_)`                       ↦ `MinX.feed` (C08)

  NOT modelled: `revision_points` (missing coordinates), the numeric tests of `LocalRevision`
  (`test_xy()`), `vybocujici_abscl_` (C14), `design_matrix_graph_is_connected`, the `UNKNOWN_ALGORITHM`
  throw, the caching flags (C04).  Points are named by their position in `PD`, clusters by their
  position in `OD.clusters` (the orientation unknown of cluster `k` is `⟨k, .ori⟩`).
  Core Lean only.
-/
import Gama.Model.LinPass
import Gama.Model.MinX
import Gama.Model.SingularCoords
import Gama.Model.NetFacade
namespace Gama.PE
open Gama Gama.Lin Gama.NetDecision

/-- what leaves `project_equations()` as an exception (or the recursion bound of the model) -/
inductive Err where
  /-- thrown by `LocalLinearization::<type>` -/
  | lin (e : LinErr)
  /-- `StandPoint::orientation()` without an orientation: `T_POBS_bad_data` -/
  | badData
  /-- thrown by `prepareProjectEquations()` (`Adj::choldec`) -/
  | prepare (e : Ls.ErrKind)
  | fuel
deriving DecidableEq, Repr

structure Point (K : Type) where
  id : String
  pt : Pt K

/-- one observation of a cluster; `active` = `obs->active()` -/
structure Ob (K : Type) where
  active : Bool
  kind : Kind
  pfrom : Nat
  pto : Nat
  pfs : Nat
  value : K

/-- one `Cluster<Observation>` of `OD.clusters`; `stand = some (station, orientation)` for a
    `StandPoint` (`orientation = none`: `!test_orientation()`) -/
structure Cluster (K : Type) where
  stand : Option (Nat × Option K)
  cov : Cov.CovMat K
  obs : List (Ob K)

structure Net (K : Type) where
  points : List (Point K)
  clusters : List (Cluster K)
  /-- `m_0_apr_` -/
  m0 : K
  /-- `PD.xNorthAngle()` -/
  xNorth : K
  /-- fuel of the `while` loops of the linearisation -/
  fuel : Nat
  /-- `index_x/y/z`, `index_orientation` as earlier calls left them -/
  idx : IdxState

variable {K : Type}

def cstat : Status → CStat
  | .unused => .unused | .fixed => .fixed | .free => .free | .constrained => .constrained

/-- the point statuses as C08's model reads them -/
def ptsOf (net : Net K) : List MinX.PtS := net.points.map fun p => ⟨p.id, cstat p.pt.sxy, cstat p.pt.sz⟩

def kindM : Kind → MinX.Kind
  | .direction => .direction | .distance => .distance | .angle => .angle | .h_diff => .h_diff
  | .s_distance => .s_distance | .z_angle => .z_angle | .x => .x | .y => .y | .z => .z
  | .xdiff => .xdiff | .ydiff => .ydiff | .zdiff => .zdiff | .azimuth => .azimuth

def Ob.toMinX (k : Nat) (o : Ob K) : Bool × MinX.Obs := (o.active, ⟨kindM o.kind, k, o.pfrom, o.pto, o.pfs⟩)

/-- `OD` in iteration order, with the cluster number -/
def flatFrom : Nat → List (Cluster K) → List (Bool × MinX.Obs)
  | _, [] => []
  | k, c :: cs => c.obs.map (Ob.toMinX k) ++ flatFrom (k + 1) cs

/-- `revision_observations()` (structural part) on one cluster -/
def reviseFrom (pts : List MinX.PtS) (all : List (Bool × MinX.Obs)) : Nat → List (Cluster K) → List (Cluster K)
  | _, [] => []
  | k, c :: cs =>
    { c with obs := c.obs.map fun o => { o with active := MinX.isRevised pts all (o.toMinX k) } }
      :: reviseFrom pts all (k + 1) cs

def revise (net : Net K) : Net K :=
  { net with clusters := reviseFrom (ptsOf net) (flatFrom 0 net.clusters) 0 net.clusters }

/-- C08's name of an unknown in C05's vocabulary -/
def toLin : MinX.Unk → Unk
  | .ori k => ⟨k, .ori⟩ | .x p => ⟨p, .x⟩ | .y p => ⟨p, .y⟩ | .z p => ⟨p, .z⟩

def Ob.toN (k : Nat) (o : Ob K) : NObs K := ⟨o.kind, k, o.pfrom, o.pto, o.pfs, o.value⟩

/-- `revised_obs_`: the active observations in `OD` order -/
def revisedFrom : Nat → List (Cluster K) → List (NObs K)
  | _, [] => []
  | k, c :: cs => (c.obs.filter (·.active)).map (Ob.toN k) ++ revisedFrom (k + 1) cs

def revisedObs (net : Net K) : List (NObs K) := revisedFrom 0 net.clusters

/-- `PD[id]` (a missing point is default-constructed: unused) -/
def ptAt [Zero K] (net : Net K) (i : Nat) : Pt K :=
  match net.points[i]? with
  | some p => p.pt
  | none => ⟨0, 0, 0, .unused, .unused⟩

/-- what the linearisation reads -/
def sigmaOf [Zero K] (net : Net K) : Lin.Net K :=
  { pt := ptAt net
    ori := fun k => match net.clusters[k]? with
      | some c => match c.stand with
        | some (_, some o) => o
        | _ => 0
      | none => 0
    xNorth := net.xNorth }

/-- the guard of the prologue, as written in the source (regenerated) -/
def guardOf [Zero K] (net : Net K) (i : Nat) : Bool := Gen.Lin.resetGuard (ptAt net i)

/-- `sp->orientation()` does not throw for this observation -/
def oriOK (net : Net K) (ob : NObs K) : Bool :=
  match ob.kind with
  | .direction => match net.clusters[ob.sp]? with
    | some c => match c.stand with
      | some (_, some _) => true
      | _ => false
    | none => false
  | _ => true

/-- the linearisation loop: `Lin.passFrom` up to the first direction whose stand-point has no
    orientation (that one throws `T_POBS_bad_data` unless an earlier observation threw) -/
def linPass [TrigScalar K] (net : Net K) (obs : List (NObs K)) (s : IdxState) : Except Err (PassOut K) :=
  let good := obs.takeWhile (oriOK net)
  match passFrom (sigmaOf net) net.fuel good s with
  | .error e => .error (.lin e)
  | .ok r => if good.length = obs.length then .ok r else .error .badData

/-- `LocalNetwork::Unknown` (`ori`: the cluster number of the stand-point) -/
structure UEntry where
  pid : String
  type : UType
  ori : Option Nat
deriving DecidableEq, Repr

def idOf (net : Net K) (i : Nat) : String :=
  match net.points[i]? with
  | some p => p.id
  | none => ""

/-- `unknowns_[i-1] = u` -/
def setU (l : List (Option UEntry)) (i : Nat) (u : UEntry) : List (Option UEntry) := l.set (i - 1) (some u)

/-- the loop over the stand-points -/
def oriLoop [Zero K] (net : Net K) (idx : IdxState) : Nat → List (Cluster K) → List (Option UEntry) → List (Option UEntry)
  | _, [], l => l
  | k, c :: cs, l =>
    let l' := match c.stand with
      | some (st, some _) =>
        if idx.get ⟨k, .ori⟩ ≠ 0 ∧ (ptAt net st).active_xy = true then setU l (idx.get ⟨k, .ori⟩) ⟨idOf net st, .R, some k⟩
        else l
      | _ => l
    oriLoop net idx (k + 1) cs l'

/-- the loop over `PD` -/
def ptLoop (idx : IdxState) : Nat → List (Point K) → List (Option UEntry) → List (Option UEntry)
  | _, [], l => l
  | i, p :: ps, l =>
    let l1 := if p.pt.active_xy = true ∧ idx.get ⟨i, .x⟩ ≠ 0 then setU l (idx.get ⟨i, .x⟩) ⟨p.id, .X, none⟩ else l
    let l2 := if p.pt.active_xy = true ∧ idx.get ⟨i, .y⟩ ≠ 0 then setU l1 (idx.get ⟨i, .y⟩) ⟨p.id, .Y, none⟩ else l1
    let l3 := if p.pt.active_z = true ∧ idx.get ⟨i, .z⟩ ≠ 0 then setU l2 (idx.get ⟨i, .z⟩) ⟨p.id, .Z, none⟩ else l2
    ptLoop idx (i + 1) ps l3

/-- `unknowns_` (`none`: the value-initialised element `resize` left) -/
def unknownsList [Zero K] (net : Net K) (idx : IdxState) : List (Option UEntry) :=
  ptLoop idx 0 net.points (oriLoop net idx 0 net.clusters (List.replicate idx.maxn none))

/-- the clusters as `NetProblem` carries them -/
def npClusters (net : Net K) : List (Ls.Net.Cluster K) := net.clusters.map fun c => ⟨c.cov, c.obs.map (·.active)⟩

/-- the assembled system of one inner call, before `prepareProjectEquations()` -/
structure Asm (K : Type) where
  np : Ls.Net.NetProblem K
  idx : IdxState
  list : List (Option UEntry)

def assemble [TrigScalar K] (net : Net K) : Except Err (Asm K) :=
  let obs := revisedObs net
  match linPass net obs (net.idx.resetPass (guardOf net)) with
  | .error e => .error e
  | .ok r =>
    .ok { np := { m := obs.length, n := r.idx.maxn
                  rows := (r.rows.map List.toArray).toArray, rhs := r.rhs.toArray
                  clusters := npClusters net, m0 := net.m0, minx := [] }
          idx := r.idx
          list := unknownsList net r.idx }

/-- `set_unused_xy()` of the points `singular_coords` removed -/
def applySingular : List (Point K) → List MinX.PtS → List (Point K)
  | p :: ps, q :: qs =>
    (if q.xy = .unused then { p with pt := { p.pt with sxy := .unused } } else p) :: applySingular ps qs
  | ps, _ => ps

/-- what the call leaves besides the problem handed to the solver -/
structure Unknowns (K : Type) where
  /-- `pocet_neznamych_` -/
  n : Nat
  /-- `unknowns_` -/
  list : List (Option UEntry)
  /-- the network as the call leaves it: statuses after `singular_coords`, `active()` flags after the
      revision, the index fields -/
  net : Net K
  /-- ids removed by `singular_coords` (all inner calls), in order -/
  removed : List String

def idxFn (s : IdxState) : MinX.Unk → Nat := fun u => s.get (toLin u)

def peLoop [TrigScalar K] : Nat → Net K → List String → Except Err (Ls.Net.NetProblem K × Unknowns K)
  | 0, _, _ => .error .fuel
  | fuel + 1, net0, rm =>
    let net := revise net0
    match assemble net with
    | .error e => .error e
    | .ok a =>
      match Ls.Net.prepare a.np with
      | .error e => .error (.prepare e)
      | .ok h =>
        let sc := SingularCoords.singularCoords h.Ad (idxFn a.idx) (ptsOf net)
        if sc.1 then
          peLoop fuel { net with points := applySingular net.points sc.2.1, idx := a.idx } (rm ++ sc.2.2)
        else
          .ok ({ a.np with minx := (MinX.feed (idxFn a.idx) (ptsOf net)).2 },
               ⟨a.np.n, a.list, { net with idx := a.idx }, rm⟩)

/-- `LocalNetwork::project_equations()` on a network that is not up to date -/
def projectEquations [TrigScalar K] (net : Net K) : Except Err (Ls.Net.NetProblem K × Unknowns K) :=
  peLoop (net.points.length + 1) net []

/-- the cluster walk of `prepareProjectEquations()` / of the sparse hand-over:
    `(ind_0, N)` for every cluster with `N = activeObs() ≠ 0`, `ind_0 += N` -/
def rangesFrom : Nat → List (Ls.Net.Cluster K) → List (Nat × Nat)
  | _, [] => []
  | s, c :: cs => if c.nAct != 0 then (s, c.nAct) :: rangesFrom (s + c.nAct) cs else rangesFrom s cs

def rowRanges (np : Ls.Net.NetProblem K) : List (Nat × Nat) := rangesFrom 0 np.clusters

/-- `cluster->activeCov()` of every cluster with active observations, in cluster order -/
def activeBlocks [Zero K] (np : Ls.Net.NetProblem K) : List (Cov.CovMat K) :=
  (Ls.Net.activeClusters np).map fun c => Cov.activeCov c.cov c.obs

end Gama.PE
