/-
  C14 — types shared by the generated revision tables (`Gama/Gen/Revision.lean`, regenerated
  from /repo/lib/gnu_gama/local/local_revision.cpp and network.cpp on every run) and by the
  hand-written revision model (`Gama/Model/Revise.lean`).  Core Lean only.

  * `ObsType`  – the thirteen observation classes visited by `LocalRevision` /
                 `TestAbsTermVisitor` (observation.h)
  * `Role`     – `obs->from()`, `obs->to()` (`Angle::bs()` is `to()`), `Angle::fs()`
  * `Flag`     – the `LocalPoint` predicates a `LocalRevision::<type>` body may test
  * `AbsCtx`   – what a `TestAbsTermVisitor::visit` body reads: `obs->value()`, `b(indm)`,
                 `d0` (set by `setFromTo`), `stan->x()…`, `cil->x()…`
  * `AbsVec`   – which vector `LocalNetwork::test_abs_term` hands to the visitor: the member
                 `b` (right-hand side until `prepareProjectEquations()` homogenises it by the
                 Cholesky factor of the weights, homogenised afterwards) or `rhs_`
-/
import Gama.Scalar
namespace Gama.Rev

inductive ObsType where
  | direction | distance | angle | h_diff | s_distance | z_angle
  | x | y | z | xdiff | ydiff | zdiff | azimuth
deriving DecidableEq, Repr, Inhabited

def ObsType.all : List ObsType :=
  [.direction, .distance, .angle, .h_diff, .s_distance, .z_angle,
   .x, .y, .z, .xdiff, .ydiff, .zdiff, .azimuth]

inductive Role where
  | from | to | fs
deriving DecidableEq, Repr

inductive Flag where
  | active_xy | test_xy | active_z | test_z
deriving DecidableEq, Repr

inductive AbsVec where
  /-- member `b`: equals `rhs_` inside `project_equations()` before
      `prepareProjectEquations()`, the homogenised right-hand side afterwards -/
  | memberB
  /-- member `rhs_`: the right-hand side before homogenisation, at all times -/
  | rhs
deriving DecidableEq, Repr

structure AbsCtx (K : Type) where
  value : K
  b : K
  d0 : K
  sx : K
  sy : K
  sz : K
  cx : K
  cy : K
  cz : K

/-! ### the target-counting loop of `LocalNetwork::revision_observations()`

The body executed for every `Direction* d` of a `StandPoint`'s `observation_list` is REGENERATED
(`Gen.targetsBody`) as a term of the little statement language below; `TStmt.run` is its
interpreter.  `std::set<PointID> targets` is a duplicate-free list in insertion order (`find` =
membership, `insert` appends when absent and reports whether it did); `it` is the iterator variable
declared by `std::set<PointID>::const_iterator s = targets.find(d->to());` (true: `s != targets.end()`;
`std::set` insertions do not invalidate it, and `end()` stays `end()`). -/

structure TState where
  /-- `targets`, insertion order -/
  targets : List Nat
  /-- `active_directions` -/
  count : Nat
  /-- the declared iterator is not `targets.end()` -/
  it : Bool
deriving DecidableEq, Repr

inductive TCond where
  /-- `d->active()` -/
  | active
  /-- `targets.find(d->to()) != targets.end()` / `targets.count(d->to())` -/
  | found
  /-- `s != targets.end()` for the declared iterator `s` -/
  | itFound
  /-- `targets.insert(d->to()).second` — INSERTS, true iff the target was not in the set -/
  | insertedNew
  | not (c : TCond)
  /-- `a && b`, short-circuit -/
  | and (a b : TCond)
  /-- `a || b`, short-circuit -/
  | or (a b : TCond)
deriving DecidableEq, Repr

inductive TStmt where
  | skip
  /-- `active_directions++` -/
  | inc
  /-- `targets.insert(d->to());` -/
  | insert
  /-- `std::set<PointID>::const_iterator s = targets.find(d->to());` -/
  | declFind
  | seq (a b : TStmt)
  | ite (c : TCond) (t e : TStmt)
deriving DecidableEq, Repr

def TState.insert (s : TState) (to : Nat) : TState :=
  if s.targets.contains to then s else { s with targets := s.targets ++ [to] }

/-- evaluation of a condition for the direction with `d->active() = act`, `d->to() = to`;
    returns the value and the state after its side effects -/
def TCond.eval (act : Bool) (to : Nat) : TCond → TState → Bool × TState
  | .active, s => (act, s)
  | .found, s => (s.targets.contains to, s)
  | .itFound, s => (s.it, s)
  | .insertedNew, s => (!s.targets.contains to, s.insert to)
  | .not c, s => let r := c.eval act to s; (!r.1, r.2)
  | .and a b, s => let r := a.eval act to s; if r.1 then b.eval act to r.2 else (false, r.2)
  | .or a b, s => let r := a.eval act to s; if r.1 then (true, r.2) else b.eval act to r.2

def TStmt.run (act : Bool) (to : Nat) : TStmt → TState → TState
  | .skip, s => s
  | .inc, s => { s with count := s.count + 1 }
  | .insert, s => s.insert to
  | .declFind, s => { s with it := s.targets.contains to }
  | .seq a b, s => b.run act to (a.run act to s)
  | .ite c t e, s => let r := c.eval act to s; if r.1 then t.run act to r.2 else e.run act to r.2

/-- comparison operator of `if (active_directions <op> N)` -/
inductive TCmp where
  | lt | le | gt | ge | eq | ne
deriving DecidableEq, Repr

def TCmp.holds : TCmp → Nat → Nat → Bool
  | .lt, a, b => decide (a < b)
  | .le, a, b => decide (a ≤ b)
  | .gt, a, b => decide (a > b)
  | .ge, a, b => decide (a ≥ b)
  | .eq, a, b => a == b
  | .ne, a, b => a != b

end Gama.Rev
