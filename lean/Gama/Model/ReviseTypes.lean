/-
  C14 — types shared by the generated revision tables (`Gama/Gen/Revision.lean`, regenerated
  from /repo/lib/gnu_gama/local/local_revision.cpp and network.cpp on every run) and by the
  hand-written revision model (`Gama/Model/Revise.lean`).  Core Lean only.

  * `ObsType`  – the thirteen observation classes visited by `LocalRevision` /
                 `TestAbsTermVisitor` (observation.h)
  * `Role`     – `obs->from()`, `obs->to()` (`Angle::bs()` is `to()`), `Angle::fs()`
  * `Flag`     – the `LocalPoint` predicates a `LocalRevision::<type>` body may test
  * `AbsCtx`   – what a `TestAbsTermVisitor::visit` body reads: `obs->value()`, `b(indm)`,
                 `d0` (set by `setFromTo`), `stan->x()…`, `cil->x()…`
  * `AbsVec`   – which vector `LocalNetwork::test_abs_term` hands to the visitor: the member
                 `b` (right-hand side until `prepareProjectEquations()` homogenises it by the
                 Cholesky factor of the weights, homogenised afterwards) or `rhs_`
-/
import Gama.Scalar
namespace Gama.Rev

inductive ObsType where
  | direction | distance | angle | h_diff | s_distance | z_angle
  | x | y | z | xdiff | ydiff | zdiff | azimuth
deriving DecidableEq, Repr, Inhabited

def ObsType.all : List ObsType :=
  [.direction, .distance, .angle, .h_diff, .s_distance, .z_angle,
   .x, .y, .z, .xdiff, .ydiff, .zdiff, .azimuth]

inductive Role where
  | from | to | fs
deriving DecidableEq, Repr

inductive Flag where
  | active_xy | test_xy | active_z | test_z
deriving DecidableEq, Repr

inductive AbsVec where
  /-- member `b`: equals `rhs_` inside `project_equations()` before
      `prepareProjectEquations()`, the homogenised right-hand side afterwards -/
  | memberB
  /-- member `rhs_`: the right-hand side before homogenisation, at all times -/
  | rhs
deriving DecidableEq, Repr

structure AbsCtx (K : Type) where
  value : K
  b : K
  d0 : K
  sx : K
  sy : K
  sz : K
  cx : K
  cy : K
  cz : K

end Gama.Rev
