/-
  Dimension guards of lib/matvec as DATA (C15).

  `tools/gen/c15_dimchecks.py` reads mat.h, vec.h, vecbase.h, symmat.h, matvecbase.h, matbase.h,
  transmat.h, transvec.h and writes `Gama/Gen/DimChecks.lean`: one `Entry` per binary operator /
  member (and the unary ones that have a guard), holding the *effective* guard the code tests before
  it touches storage: the atoms `x != y` of its own `if (…) throw Exc(Exception::BadRank, …)` plus the
  atoms of the `MatVecBase::add/sub/mul` / `VecBase::dot` it delegates to (with the callee's
  parameters replaced by the caller's operands).  This file gives the table its meaning:

  * `Shape`/`WF`      the (rows, cols) of an operand as the class reports them, with the class
                      invariants (Vec n×1, TransVec 1×n, SymMat n×n);
  * `evalTerm`        what `rows()`, `cols()`, `dim()`, `size()` return for such an operand;
  * `guardFires`      the guard as coded (a disjunction of `!=`);
  * `conforming`      what the index arithmetic after the guard needs: the same SHAPE for sums, inner
                      dimensions for products, squareness for `invert`/`Lower`/`Upper`, the same element
                      count for the raw-storage primitives of MatVecBase;
  * `covers`          a syntactic check (decidable on the table) that is proved sound in
                      `Lemmas/DimChecks.lean`: if it holds, `¬ guardFires → conforming` for ALL shapes.

  Core Lean only.
-/
namespace Gama.DimCheck

/-- static type of an operand: `Mat`, `TransMat`, `MatBase`, `SymMat`, `Vec`, `TransVec`, `VecBase`,
    `MatVecBase` -/
inductive Kind where
  | mat | tmat | mb | sym | vec | tvec | vb | mvb
deriving DecidableEq, Repr

/-- `a` = `*this` of a member / first parameter of a free function, `b` = the other operand,
    `res` = a local result object (`Mat T(rows(), cols())`) handed to `add/sub/mul` -/
inductive Opd where
  | a | b | res
deriving DecidableEq, Repr

inductive Fn where
  | rows | cols | dim | size
deriving DecidableEq, Repr

structure Term where
  fn : Fn
  o  : Opd
deriving DecidableEq, Repr

/-- `l != r` -/
structure Atom where
  l : Term
  r : Term
deriving DecidableEq, Repr

inductive OpClass where
  /-- element by element over two operands of the same shape (`+ - += -=`, `dot`) -/
  | sum
  /-- `Σ_k a(i,k) b(k,j)` -/
  | product
  /-- one square operand (`invert`, `Lower(Mat)`, `Upper(Mat)`) -/
  | square
  /-- `MatVecBase::mul(f, X)`: walks the raw storage of `*this` and `X` (operand `b`) -/
  | storage
  /-- `MatVecBase::add/sub(B, X)`: walks the raw storage of `*this`, `B` and the result `X` (operand `res`) -/
  | storage3
  /-- nothing to conform (`trans`) -/
  | none
deriving DecidableEq, Repr

structure Entry where
  name  : String
  file  : String
  ka    : Kind
  kb    : Kind
  cls   : OpClass
  /-- the effective guard: `throw BadRank` iff one of these `!=` holds -/
  guard : List Atom
  /-- how many of the atoms are the function's own (the rest come from the delegate) -/
  own   : Nat
  /-- the function of MatVecBase / VecBase the work is delegated to ("" = none) -/
  via   : String
deriving Repr

structure Shape where
  rows : Nat
  cols : Nat
deriving DecidableEq, Repr

/-- class invariants relating the reported dimensions -/
def WF : Kind → Shape → Bool
  | .vec, s  => s.cols == 1
  | .vb, s   => s.cols == 1
  | .tvec, s => s.rows == 1
  | .sym, s  => s.rows == s.cols
  | _, _     => true

/-- `size()`: number of stored elements -/
def sizeOf : Kind → Shape → Nat
  | .sym, s  => s.rows * (s.rows + 1) / 2
  | .vec, s  => s.rows
  | .vb, s   => s.rows
  | .tvec, s => s.cols
  | _, s     => s.rows * s.cols

/-- `dim()` (Vec, TransVec, VecBase, SymMat) -/
def dimOf : Kind → Shape → Nat
  | .tvec, s => s.cols
  | _, s     => s.rows

def evalFn (k : Kind) (s : Shape) : Fn → Nat
  | .rows => s.rows
  | .cols => s.cols
  | .dim  => dimOf k s
  | .size => sizeOf k s

/-- `nr` = `size()` of the local result object (left free: whatever it is, the theorem holds) -/
def evalTerm (ka kb : Kind) (sa sb : Shape) (nr : Nat) (t : Term) : Nat :=
  match t.o with
  | .a => evalFn ka sa t.fn
  | .b => evalFn kb sb t.fn
  | .res => nr

def atomFires (ka kb : Kind) (sa sb : Shape) (nr : Nat) (x : Atom) : Bool :=
  evalTerm ka kb sa sb nr x.l != evalTerm ka kb sa sb nr x.r

/-- the guard as coded: `if (l1 != r1 || l2 != r2 || …) throw Exc(Exception::BadRank, …)` -/
def guardFires (e : Entry) (sa sb : Shape) (nr : Nat) : Bool :=
  e.guard.any (atomFires e.ka e.kb sa sb nr)

/-- what the loops after the guard rely on -/
def conforming (c : OpClass) (ka kb : Kind) (sa sb : Shape) (nr : Nat) : Prop :=
  match c with
  | .sum => sa.rows = sb.rows ∧ sa.cols = sb.cols
  | .product => sa.cols = sb.rows
  | .square => sa.rows = sa.cols
  | .storage => sizeOf ka sa = sizeOf kb sb
  | .storage3 => sizeOf ka sa = sizeOf kb sb ∧ sizeOf ka sa = nr
  | .none => True

instance (c : OpClass) (ka kb : Kind) (sa sb : Shape) (nr : Nat) : Decidable (conforming c ka kb sa sb nr) := by
  unfold conforming; cases c <;> exact inferInstance

/-! ### the syntactic check -/

/-- a term after the class invariants have been applied -/
inductive NTerm where
  | rows (o : Opd) | cols (o : Opd) | size (o : Opd) | one
deriving DecidableEq, Repr

def normFn (k : Kind) (o : Opd) : Fn → NTerm
  | .rows => match k with
    | .tvec => .one
    | _ => .rows o
  | .cols => match k with
    | .vec => .one
    | .vb => .one
    | .sym => .rows o
    | _ => .cols o
  | .dim => match k with
    | .tvec => .cols o
    | _ => .rows o
  | .size => match k with
    | .vec => .rows o
    | .vb => .rows o
    | .tvec => .cols o
    | _ => .size o

def norm (ka kb : Kind) (t : Term) : NTerm :=
  match t.o with
  | .a => normFn ka .a t.fn
  | .b => normFn kb .b t.fn
  | .res => .size .res

/-- the equalities the operation needs, in normal form -/
def required (c : OpClass) (ka kb : Kind) : List (NTerm × NTerm) :=
  match c with
  | .sum => [(normFn ka .a .rows, normFn kb .b .rows), (normFn ka .a .cols, normFn kb .b .cols)]
  | .product => [(normFn ka .a .cols, normFn kb .b .rows)]
  | .square => [(normFn ka .a .rows, normFn ka .a .cols)]
  | .storage => [(normFn ka .a .size, normFn kb .b .size)]
  | .storage3 => [(normFn ka .a .size, normFn kb .b .size), (normFn ka .a .size, .size .res)]
  | .none => []

/-- the equality `x = y` is trivial or is the negation of one of the atoms -/
def given (ka kb : Kind) (g : List Atom) (xy : NTerm × NTerm) : Bool :=
  xy.1 == xy.2 ||
  g.any (fun x => (norm ka kb x.l == xy.1 && norm ka kb x.r == xy.2) ||
                  (norm ka kb x.l == xy.2 && norm ka kb x.r == xy.1))

/-- every required equality is enforced by the guard -/
def covers (e : Entry) : Bool := (required e.cls e.ka e.kb).all (given e.ka e.kb e.guard)

/-- lookup by name (driver) -/
def find? (table : List Entry) (name : String) : Option Entry := table.find? (fun e => e.name == name)

def kindOfTag : String → Option Kind
  | "M" => some .mat | "T" => some .tmat | "B" => some .mb | "S" => some .sym
  | "V" => some .vec | "W" => some .tvec | _ => none

end Gama.DimCheck
