/-
  C06 — state shared by the Acord2 strategies (lib/gnu_gama/local/acord/acord2.{h,cpp}) and the data
  they read, as far as single strategy steps need it.  Core Lean only.

  * `LP`      : the part of `LocalPoint` (lpoint.h) the strategies read and write: x_, y_, z_, bxy_, bz_
                (`set_xy`, `set_z`, `test_xy`, `test_z`); `LocalPoint()` = all zero, nothing defined.
                The status word `pst_` is only read by the constructor of Acord2 (`active_xy()/active_z()`,
                see `missing`), never by a strategy, and never written.
  * `PD`      : `PointData` = `std::map<PointID, LocalPoint>` as a total function; `PD[id]` on an id that
                is not in the map default-constructs the point, i.e. reads `LP.unset` — a created default
                entry and an absent entry are the same function value.
  * `St`      : `PD_`, `missing_xy_`, `missing_z_` (sets: lists here, `erase` = filter) and the multimap
                `candidate_z_` (insertion order; equal keys keep insertion order in a std::multimap).
  * `Obs`, `Cluster` : the observations of `ObservationData` by cluster, in list order
                (`OD.begin() … OD.end()` walks every observation list of every cluster in order).
  * ids       : any type with decidable equality (`PointID::operator==`) and a comparison
                `lt` (`PointID::operator<`, modelled in Gama/Model/PointId.lean and used by the driver).
  * `getMediansZ` : Acord2::get_medians_z.
-/
import Gama.Model.Median
namespace Gama.Acord
open Scalar Trig Cogo Median

structure LP (K : Type) where
  x : K
  y : K
  z : K
  bxy : Bool
  bz : Bool

variable {K : Type} [Scalar K]

/-- `LocalPoint()` -/
def LP.unset : LP K := ⟨0, 0, 0, false, false⟩
/-- `set_xy(x, y)` -/
def LP.setXY (p : LP K) (x y : K) : LP K := { p with x := x, y := y, bxy := true }
/-- `set_z(z)` -/
def LP.setZ (p : LP K) (z : K) : LP K := { p with z := z, bz := true }

variable {ι : Type} [DecidableEq ι]

abbrev PD (ι K : Type) := ι → LP K

/-- `PD[i] = p` -/
def PD.upd (pd : PD ι K) (i : ι) (p : LP K) : PD ι K := fun j => if j = i then p else pd j

structure St (ι K : Type) where
  pd : PD ι K
  missXY : List ι
  missZ : List ι
  candZ : List (ι × K)

/-- `std::set::erase(key)` -/
def erase (l : List ι) (i : ι) : List ι := l.filter (fun j => !decide (j = i))

/-- the two loops over `PD_` in the constructor of Acord2:
    `if (p.active_xy() && !p.test_xy()) missing_xy_.insert(c)` (same for z);
    `pts` = the entries of the map with their `active_xy()`, `active_z()` bits -/
def missingXY (pts : List (ι × LP K × Bool × Bool)) : List ι :=
  (pts.filter (fun p => p.2.2.1 && !p.2.1.bxy)).map (·.1)
def missingZ (pts : List (ι × LP K × Bool × Bool)) : List ι :=
  (pts.filter (fun p => p.2.2.2 && !p.2.1.bz)).map (·.1)

/-- the observation classes the modelled strategies distinguish by `dynamic_cast`; `value` is
    `Observation::value()` (= raw value: the dh reduction is 0 until the first adjustment) -/
inductive Obs (ι K : Type) where
  | azimuth (f t : ι) (v : K)
  | distance (f t : ι) (v : K)
  | sdistance (f t : ι) (v fdh tdh : K)
  | zangle (f t : ι) (v fdh tdh : K)
  | other (f t : ι)

/-- the three classes of a `Vectors` cluster -/
inductive VObs (ι K : Type) where
  | xdiff (f t : ι) (v : K)
  | ydiff (f t : ι) (v : K)
  | zdiff (f t : ι) (v : K)

def VObs.from' : VObs ι K → ι
  | .xdiff f _ _ => f | .ydiff f _ _ => f | .zdiff f _ _ => f
def VObs.to' : VObs ι K → ι
  | .xdiff _ t _ => t | .ydiff _ t _ => t | .zdiff _ t _ => t

/-- the cluster classes Acord2's constructor sorts into `SPClusters_`, `HDiffClusters_`,
    `VectorsClusters_` (any other cluster, e.g. `Coordinates`, is ignored by the modelled strategies) -/
inductive Cluster (ι K : Type) where
  | standpoint (station : ι) (obs : List (Obs ι K))
  | hdiffs (obs : List (ι × ι × K))
  | vectors (obs : List (VObs ι K))

/-- every `Observation*` reached by `for (i = OD.begin(); i != OD.end(); ++i)` that can pass a
    `dynamic_cast` to `Azimuth*` / `Distance*` (H_Diff, Xdiff, … are different classes) -/
def spObs : List (Cluster ι K) → List (Obs ι K)
  | [] => []
  | .standpoint _ obs :: cs => obs ++ spObs cs
  | _ :: cs => spObs cs

/-- order-preserving removal of repeated ids (the distinct keys of a multimap / a set of ids) -/
def dedup : List ι → List ι
  | [] => []
  | i :: l => i :: (dedup l).filter (fun j => !decide (j = i))

/-- Acord2::get_medians_z: for every id with candidates
    `median = (values[(n-1)/2] + values[n/2])/2` of the sorted candidates, `PD_[id].set_z(median)`,
    `missing_z_.erase(id)`.  (The caller clears `candidate_z_` afterwards.) -/
def medZStep (cand : List (ι × K)) (s : St ι K) (i : ι) : St ι K :=
  let values := (cand.filter (fun c => decide (c.1 = i))).map (·.2)
  { s with pd := s.pd.upd i ((s.pd i).setZ (median2 values)), missZ := erase s.missZ i }

def getMediansZ (st : St ι K) : St ι K :=
  (dedup (st.candZ.map (·.1))).foldl (medZStep st.candZ) st

end Gama.Acord
