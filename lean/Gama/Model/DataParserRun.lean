/-
  Run of GNU_gama::DataParser (gama-g3 / adjustment input XML) over a sequence of SAX events (core Lean only).

  On top of the GENERATED tables and handler skeletons of Gama/Gen/DataParserAutomaton.lean:

    CoreParser::error            first error wins: `if (errCode) return 1;` otherwise errString / errCode /
                                 errLineNumber are set and `state = 0`.  It only RETURNS: whatever the calling
                                 handler executes afterwards is executed (`exec` continues with the next op).
    DataParser::startElement     `(this->*stag[state][tag(name)])(name, atts)`; `tag()` calls `error()` for an
                                 unknown element name and yields `t_unknown`.  C++14 leaves the order of reading
                                 `state` and calling `tag()` unspecified: the model reads `state` first;
                                 `react_start_order` (Lemmas) shows that the other order gives the same result.
    DataParser::endElement       `(this->*etag[state])(name)`
    DataParser::characterDataHandler   `(this->*data[state])(s, len)`
    handlers                     executed literally as the generated `Prog` (state assignments, error() calls,
                                 returns, calls of other member functions in source order)
    BaseParser::xml_parse        after every chunk: `if (state == 0) throw ParserException(errString, errLineNumber, -1)`

  Abstracted: every condition on the *data* (numeric formats, counters, null pointers, exceptions of the matrix
  code caught in the handler) is one oracle bit, consumed in evaluation order (`d : List Bool`, exhausted = true).
  The theorems quantify over all oracles, i.e. over all paths through the handlers.  The line number of an
  error is represented by the index of the event during which `error()` was first called.
-/
import Gama.Gen.DataParserAutomaton
import Gama.Model.Literals
namespace Gama.DP

/-- parser state: `state`, the first recorded error (event index stands for `errLineNumber`, kind for
    `errString`; `none` ⇔ `errCode == 0`), number of events seen -/
structure St where
  state : State
  err : Option (Nat × ErrKind)
  n : Nat
  deriving DecidableEq

/-- constructor of DataParser: `state = s_start`, `errCode = 0` -/
def St.init : St := ⟨.s_start, none, 0⟩

/-- `CoreParser::error` -/
def St.error (st : St) (k : ErrKind) : St :=
  match st.err with
  | some _ => st
  | none => { st with err := some (st.n, k), state := .s_error }

/-- what a handler sees of the event: the tag (`tag(name)`), `*atts == 0`, all characters blank -/
structure Ctx where
  t : Tag
  attrsEmpty : Bool
  blank : Bool

inductive Event where
  /-- element start; `d` = truth values of the data-dependent conditions of the handler -/
  | start (t : Tag) (attrsEmpty : Bool) (d : List Bool)
  /-- element end -/
  | stop (d : List Bool)
  /-- character data -/
  | text (s : List Char) (d : List Bool)

/-- execute a skeleton: result state, "the function has returned", remaining oracle bits -/
def exec : Prog → Ctx → List Bool → St → St × Bool × List Bool
  | .skip, _, d, st => (st, false, d)
  | .ret, _, d, st => (st, true, d)
  | .seq a b, c, d, st =>
      let r := exec a c d st
      if r.2.1 then r else exec b c r.2.2 r.1
  | .setNext, c, d, st =>
      -- `state = next[state][tag(name)]`: tag() may call error(); then the assignment
      let st1 := if c.t = .t_unknown then st.error .unknown_tag else st
      ({ st1 with state := next st.state c.t }, false, d)
  | .setAfter, _, d, st => ({ st with state := after st.state }, false, d)
  | .err k, _, d, st => (st.error k, false, d)
  | .noAttrs, c, d, st => ((if c.attrsEmpty then st else st.error .attributes), false, d)
  | .ifNoAttrs a b, c, d, st =>
      if c.attrsEmpty then exec b c d st else exec a c d (st.error .attributes)
  | .ifHasAttrs a b, c, d, st => if c.attrsEmpty then exec b c d st else exec a c d st
  | .ifStateErr a b, c, d, st => if st.state = .s_error then exec a c d st else exec b c d st
  | .ifBlank a b, c, d, st => if c.blank then exec a c d st else exec b c d st
  | .ifData a b, c, d, st =>
      match d with
      | [] => exec a c [] st
      | x :: r => if x then exec a c r st else exec b c r st
  | .scope a, c, d, st =>
      let r := exec a c d st
      (r.1, false, r.2.2)

def isBlank (s : List Char) : Bool := s.all Lit.isSpace

/-- `tag(name)` as called by startElement -/
def tagCall (st : St) (t : Tag) : St := if t = .t_unknown then st.error .unknown_tag else st

/-- what one handler call does to (state, err); the event counter is advanced by `step` -/
def react (st : St) : Event → St
  | .start t ae d => (exec (startProg (stag st.state t)) ⟨t, ae, true⟩ d (tagCall st t)).1
  | .stop d => (exec (endProg (etag st.state)) ⟨.t_unused, true, true⟩ d st).1
  | .text s d => (exec (dataProg (dataH st.state)) ⟨.t_unused, true, isBlank s⟩ d st).1

def step (st : St) (e : Event) : St := { react st e with n := st.n + 1 }

def run (st : St) (evs : List Event) : St := evs.foldl step st

/-- result of `xml_parse` for a chunk that expat accepted -/
inductive Outcome where
  | accepted
  /-- `throw ParserException(errString, errLineNumber, -1)`; `none` = line 0, empty message -/
  | refused (err : Option (Nat × ErrKind))
  deriving DecidableEq

def outcome (st : St) : Outcome :=
  if st.state = .s_error then .refused st.err else .accepted

/-- chunked delivery: after each chunk `xml_parse` throws if `state == 0`; later chunks are not fed -/
def runChunks (st : St) : List (List Event) → St
  | [] => st
  | c :: cs =>
    let st' := run st c
    if st'.state = .s_error then st' else runChunks st' cs

/-! ### abstract execution: (state, errCode != 0), all oracles at once (used for `decide`d facts) -/

abbrev A := State × Bool

def A.error (a : A) : A := if a.2 then a else (.s_error, true)

def execAbs : Prog → Ctx → A → List (A × Bool)
  | .skip, _, a => [(a, false)]
  | .ret, _, a => [(a, true)]
  | .seq p q, c, a => (execAbs p c a).flatMap (fun r => if r.2 then [r] else execAbs q c r.1)
  | .setNext, c, a =>
      let a1 := if c.t = .t_unknown then a.error else a
      [((next a.1 c.t, a1.2), false)]
  | .setAfter, _, a => [((after a.1, a.2), false)]
  | .err _, _, a => [(a.error, false)]
  | .noAttrs, c, a => [((if c.attrsEmpty then a else a.error), false)]
  | .ifNoAttrs p q, c, a => if c.attrsEmpty then execAbs q c a else execAbs p c a.error
  | .ifHasAttrs p q, c, a => if c.attrsEmpty then execAbs q c a else execAbs p c a
  | .ifStateErr p q, c, a => if a.1 = .s_error then execAbs p c a else execAbs q c a
  | .ifBlank p q, c, a => if c.blank then execAbs p c a else execAbs q c a
  | .ifData p q, c, a => execAbs p c a ++ execAbs q c a
  | .scope p, c, a => (execAbs p c a).map (fun r => (r.1, false))

def St.abs (st : St) : A := (st.state, st.err.isSome)

/-- `state == s_error ⇔ errCode != 0` -/
def A.good (a : A) : Bool := (a.1 == .s_error) == a.2

end Gama.DP
