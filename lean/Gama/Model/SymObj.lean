/-
  OBJECT HISTORIES OF `GNU_gama::SymMat<Float,Index,Exc>` (lib/matvec/symmat.h, matbase.h, choldec.h,
  matvecbase.h, memrep.h): a store of `SymMat` objects on the explicit heap of `Model/MemRep.lean`.

  A `SymMat` object is its `MemRep` sub-object (`rep`, `sz`) plus every other data member that persists
  across calls (`Ext`), base classes first (`class SymMat : public MatBase, public CholDec`):
      MatBase::row_, MatBase::col_      CholDec::tol_      SymMat::dim_, SymMat::idf_
  The member list is regenerated from the headers (`Gen/SymVecMembers.lean`, tools/gen/c15_members2.py)
  and compared with `modelMembers` by `Props.C15.C15_symvec_members_modelled`.

  None of `SymMat`, `MatBase`, `MatVecBase`, `CholDec` declares copy operations: the implicit ones copy
  `MemRep` through ITS special members (deep copy) and `row_`, `col_`, `tol_`, `dim_`, `idf_` verbatim.
  `MatBase` and `CholDec` declare (virtual) destructors, so they have no move operations; the implicit
  move operations of `SymMat` therefore copy every base and member (`s.move`, `s.massign` of the driver
  are `copyCtor`, `assign`).

  In-place algorithms act on the object's own block (`this->begin()`): `cholDec()` and `invert()` are
  the models of Model/SymChol.lean read on the block's cells.  What an operation leaves behind when it
  THROWS is `thrown` (see Model/ObjCatch.lean):
    * guards that throw before anything is written (`reset(r,c)` with `r != c` or negative, `+=`/`-=`
      with another dimension): nothing changes;
    * `SymMat(r,c)` with `r != c`: the `MatBase` sub-object (a block of `r(r+1)/2` cells) has been
      constructed; the `throw` in the constructor body destroys it again;
    * `cholDec()` (`x > diag*tol` and `x < 0`): thrown in the diagonal cell before it is written — the
      block holds the factor computed so far, `idf_` the count so far;
    * `invert()` (`p < 0`): thrown at the top of exchange step `k` — the block holds the result of the
      completed steps; the work vector `Vec w(n)` is destroyed by unwinding.

  Not modelled: `SymMat(d)` with `d < 0` (accepted by the code: `d(d+1)/2 ≥ 0`), `solve` (const).

  Core Lean only.
-/
import Gama.Model.MatObj
import Gama.Model.SymChol
import Gama.Model.ObjCatch
namespace Gama.SymObj
open Gama.MemRep (upd)
open Gama.MatObj (Stop readAt writeAt rewriteAt)
open Gama.MatVec

/-- the persistent data members of a `SymMat` beyond its `MemRep` sub-object -/
structure Ext (K : Type) where
  /-- `MatBase::row_` -/
  row : Nat
  /-- `MatBase::col_` -/
  col : Nat
  /-- `CholDec::tol_` -/
  tol : K
  /-- `SymMat::dim_` -/
  dim : Nat
  /-- `SymMat::idf_` -/
  idf : Nat
deriving Repr, DecidableEq

/-- (class, member) of every persistent data member the model carries, base classes first -/
def modelMembers : List (String × String) :=
  [("MemRep", "rep"), ("MemRep", "sz"), ("MatBase", "row_"), ("MatBase", "col_"),
   ("CholDec", "tol_"), ("SymMat", "dim_"), ("SymMat", "idf_")]

/-- classes of the chain whose copy operations are the implicit memberwise ones -/
def modelImplicitCopy : List String := ["MatVecBase", "MatBase", "CholDec", "SymMat"]

structure St (K : Type) where
  mem : MemRep.St K
  ext : Nat → Ext K

/-- `r(r+1)/2` -/
def triSz (d : Nat) : Nat := d * (d + 1) / 2

inductive Op (K : Type) where
  /-- `SymMat(Index d)` in slot `i` -/
  | ctor (i d : Nat)
  /-- `SymMat(Index r, Index c)` -/
  | ctor2 (i r c : Nat)
  /-- implicit `SymMat(const SymMat&)` (also what `SymMat(SymMat&&)` does) -/
  | copyCtor (i j : Nat)
  /-- implicit `operator=(const SymMat&)` (also what `operator=(SymMat&&)` does) -/
  | assign (i j : Nat)
  /-- `reset(Index d)` -/
  | reset (i : Nat) (d : Int)
  /-- `reset(Index r, Index c)` -/
  | reset2 (i : Nat) (r c : Int)
  /-- `operator()(r, c) = x` -/
  | set (i r c : Nat) (x : K)
  /-- `set_all(x)` -/
  | setAll (i : Nat) (x : K)
  /-- `operator*=(f)` (MatVecBase) -/
  | scale (i : Nat) (f : K)
  /-- `A += B` (free function, guarded by `dim()`) -/
  | addAssign (i j : Nat)
  /-- `A -= B` -/
  | subAssign (i j : Nat)
  /-- `cholTol(t)` -/
  | setTol (i : Nat) (t : K)
  /-- in-place `cholDec()` -/
  | cholDec (i : Nat)
  /-- in-place `invert()` -/
  | invert (i : Nat)
  /-- destructor -/
  | dtor (i : Nat)
deriving Repr

/-- the slot an operation writes -/
def Op.target {K : Type} : Op K → Nat
  | .ctor i _ | .ctor2 i _ _ | .copyCtor i _ | .assign i _ | .reset i _ | .reset2 i _ _ | .set i _ _ _
  | .setAll i _ | .scale i _ | .addAssign i _ | .subAssign i _ | .setTol i _ | .cholDec i | .invert i
  | .dtor i => i

section
variable {K : Type} [Scalar K] [Inhabited K]

/-- `CholDec(Float t=1e-8)` -/
def tol0 : K := Scalar.ofSci 1 true 8

def St.init : St K := ⟨MemRep.St.init, fun _ => ⟨0, 0, default, 0, 0⟩⟩

def viaMem (s : St K) (op : MemRep.Op K) (i : Nat) (e : Ext K) : Except Stop (St K) :=
  match MemRep.step s.mem op with
  | .ok m => .ok ⟨m, upd s.ext i e⟩
  | .error x => .error (Stop.ofMem x)

/-! ### the in-place algorithms on the cells of a block -/

/-- row `i0+1` of `cholDec` (the body of the outer loop of `cholDec1`) -/
def cholRow (tol : K) (i0 : Nat) (s : CholSt K) : Except CholErr (CholSt K) :=
  forUpM (i0 + 1) (fun j0 s' => cholCell tol (i0 + 1) (j0 + 1) (s.ip + 1) s') { s with ir := 0 }

/-- the iteration at which `forUpM` fails and the state before it (or `n` and the final state) -/
def forUpMAt {σ ε : Type} : Nat → (Nat → σ → Except ε σ) → σ → Nat × σ
  | 0, _, s => (0, s)
  | n+1, body, s =>
    match forUpM n body s with
    | .error _ => forUpMAt n body s
    | .ok s' => match body n s' with
                | .error _ => (n, s')
                | .ok s'' => (n + 1, s'')

/-- `cholDec()` on the cells `l` of a block: new cells and `idf_` -/
def cholList (n : Nat) (tol : K) (l : List K) : Except Stop (List K × Nat) :=
  match MatVec.cholDec n tol (fun k => l.getD k 0) with
  | .error _ => .error .badRank
  | .ok (a, idf) => .ok ((List.range l.length).map a, idf)

/-- cells and `idf_` at the `throw` of `cholDec()`: `cholCell` throws before it writes -/
def cholThrownList (n : Nat) (tol : K) (l : List K) : List K × Nat :=
  let a0 : Nat → K := fun k => l.getD (k - 1) 0
  let (i0, so) := forUpMAt n (cholRow tol) (⟨a0, 0, 0, 0⟩ : CholSt K)
  let (_, si) := forUpMAt (i0 + 1) (fun j0 s' => cholCell tol (i0 + 1) (j0 + 1) (so.ip + 1) s') { so with ir := 0 }
  ((List.range l.length).map (fun p => si.a (p + 1)), si.idf)

/-- `invert()` on the cells of a block -/
def symInvList (n : Nat) (l : List K) : Except Stop (List K) :=
  match MatVec.symInvert n (fun k => l.getD k 0) with
  | .error _ => .error .badRank
  | .ok a => .ok ((List.range l.length).map a)

/-- one exchange step of `invert()` (the body of the `k` loop of `symInvert1`) -/
def sinvStep (n : Nat) (t : Nat) (st : SInvSt K) : Except CholErr (SInvSt K) :=
  let k := n - t
  let p := st.a 1
  if p < (0 : K) then .error .badRank else
  let st := forUp (n - 1) (fun i0 (st : SInvSt K) =>
    let i := i0 + 2
    let m := st.ii
    let ii := st.ii + i
    let q := st.a (m + 1)
    let wi := if i ≤ k then (-q) / p else q / p
    let w := fset st.w i wi
    let a := (forUp (ii + 1 - (m + 2)) (fun u (b : Box (Nat → K)) =>
      let ij := m + 2 + u
      ⟨fset b.val (ij - i) (b.val ij + q * w (ij - m)), b.cnt + 1⟩) ⟨st.a, 0⟩).val
    ⟨a, w, ii, m⟩) { st with ii := 1 }
  let m := st.m - 1
  let a := fset st.a st.ii ((1 : K) / p)
  let a := (forUp (n - 1) (fun i0 (b : Box (Nat → K)) => let i := i0 + 2; ⟨fset b.val (m + i) (st.w i), b.cnt + 1⟩) ⟨a, 0⟩).val
  .ok ⟨a, st.w, st.ii, m⟩

/-- cells at the `throw` of `invert()`: the check `p < 0` is the first statement of a step -/
def symInvThrownList (n : Nat) (l : List K) : List K :=
  if n = 1 then l
  else
    let a0 : Nat → K := fun k => l.getD (k - 1) 0
    let (_, st) := forUpMAt n (sinvStep n) (⟨a0, fun _ => (0 : K), 1, 0⟩ : SInvSt K)
    (List.range l.length).map (fun p => st.a (p + 1))

/-- `a[k] op= b[k]` for the cells of two blocks -/
def zipCells (f : K → K → K) (lb : List K) (l : List K) : List K :=
  (List.range l.length).map fun k => f (l.getD k 0) (lb.getD k 0)

/-! ### one operation -/

def step (s : St K) : Op K → Except Stop (St K)
  | .ctor i d =>
    -- SymMat(Index d) : MatBase(d, d, d*(d+1)/2), [CholDec(1e-8)], dim_(d), idf_(0)
    viaMem s (.ctor i ((triSz d : Nat) : Int)) i ⟨d, d, tol0, d, 0⟩
  | .ctor2 i r c =>
    match s.mem.objs i with
    | some _ => .error .precondition
    | none =>
      -- SymMat(r, c) : MatBase(r, c, r*(r+1)/2), dim_(r), idf_(0) { if (r != c) throw BadRank; }
      if r ≠ c then .error .badRank
      else viaMem s (.ctor i ((triSz r : Nat) : Int)) i ⟨r, c, tol0, r, 0⟩
  | .copyCtor i j => viaMem s (.copyCtor i j) i (s.ext j)
  | .assign i j => viaMem s (.assign i j) i (s.ext j)
  | .reset i d =>
    match s.mem.objs i with
    | none => .error .precondition
    | some _ =>
      -- if (isNegative(d)) throw BadRank;  reset(d, d):  dim_ = row_ = col_ = r; resize(r*(r+1)/2);
      if d < 0 then .error .badRank
      else viaMem s (.resize i (triSz d.toNat)) i { s.ext i with row := d.toNat, col := d.toNat, dim := d.toNat }
  | .reset2 i r c =>
    match s.mem.objs i with
    | none => .error .precondition
    | some _ =>
      -- if (r != c || isNegative(r)) throw BadRank;
      if r ≠ c ∨ r < 0 then .error .badRank
      else viaMem s (.resize i (triSz r.toNat)) i { s.ext i with row := r.toNat, col := r.toNat, dim := r.toNat }
  | .set i r c x =>
    let e := s.ext i
    -- p = begin();  i>=j ? p[i*(i-1)/2+j-1] : p[j*(j-1)/2+i-1]
    if 1 ≤ r ∧ r ≤ e.dim ∧ 1 ≤ c ∧ c ≤ e.dim then viaMem s (.write i (tri (max r c) (min r c)) x) i e
    else .error .precondition
  | .setAll i x =>
    match s.mem.objs i with
    | none => .error .precondition
    | some t =>
      match rewriteAt s.mem t.rep t.sz (fun l => l.map fun _ => x) with
      | .ok m => .ok { s with mem := m }
      | .error x => .error x
  | .scale i f =>
    match s.mem.objs i with
    | none => .error .precondition
    | some t =>
      match rewriteAt s.mem t.rep t.sz (fun l => l.map (· * f)) with
      | .ok m => .ok { s with mem := m }
      | .error x => .error x
  | .addAssign i j =>
    match s.mem.objs i, s.mem.objs j with
    | some t, some u =>
      -- if (A.dim() != B.dim()) throw BadRank;   while (a != e) *a++ += *b++;
      if (s.ext i).dim ≠ (s.ext j).dim then .error .badRank
      else match readAt s.mem u.rep u.sz with
           | .error x => .error x
           | .ok lb =>
             match rewriteAt s.mem t.rep t.sz (zipCells (· + ·) lb) with
             | .ok m => .ok { s with mem := m }
             | .error x => .error x
    | _, _ => .error .precondition
  | .subAssign i j =>
    match s.mem.objs i, s.mem.objs j with
    | some t, some u =>
      if (s.ext i).dim ≠ (s.ext j).dim then .error .badRank
      else match readAt s.mem u.rep u.sz with
           | .error x => .error x
           | .ok lb =>
             match rewriteAt s.mem t.rep t.sz (zipCells (· - ·) lb) with
             | .ok m => .ok { s with mem := m }
             | .error x => .error x
    | _, _ => .error .precondition
  | .setTol i x =>
    match s.mem.objs i with
    | none => .error .precondition
    | some _ => .ok { s with ext := upd s.ext i { s.ext i with tol := x } }
  | .cholDec i =>
    match s.mem.objs i with
    | none => .error .precondition
    | some t =>
      let e := s.ext i
      -- idf_ = 0; n = dim(); a = begin() - 1; …
      match readAt s.mem t.rep t.sz with
      | .error x => .error x
      | .ok l =>
        match cholList e.dim e.tol l with
        | .error x => .error x
        | .ok (l', idf) =>
          match writeAt s.mem t.rep l' with
          | .ok m => .ok ⟨m, upd s.ext i { e with idf := idf }⟩
          | .error x => .error x
  | .invert i =>
    match s.mem.objs i with
    | none => .error .precondition
    | some t =>
      let e := s.ext i
      -- n = dim(); a = begin() - 1; Vec w(n); …   (`w` is allocated and released inside the call;
      -- the model does not consume an address for it when the call completes)
      match readAt s.mem t.rep t.sz with
      | .error x => .error x
      | .ok l =>
        match symInvList e.dim l with
        | .error x => .error x
        | .ok l' =>
          match writeAt s.mem t.rep l' with
          | .ok m => .ok { s with mem := m }
          | .error x => .error x
  | .dtor i => viaMem s (.dtor i) i (s.ext i)

def run (s : St K) : List (Op K) → Except Stop (St K)
  | [] => .ok s
  | op :: ops => match step s op with
                 | .ok s' => run s' ops
                 | .error e => .error e

/-- the state a throwing operation leaves behind -/
def thrown (s : St K) : Op K → St K
  | .ctor2 _ r _ =>
    -- the MatBase sub-object (r(r+1)/2 cells) was constructed; the throw destroys it
    { s with mem := ObjCatch.tempGone s.mem (triSz r) }
  | .cholDec i =>
    match s.mem.objs i with
    | none => s
    | some t =>
      let e := s.ext i
      match readAt s.mem t.rep t.sz with
      | .error _ => s
      | .ok l =>
        let (l', idf) := cholThrownList e.dim e.tol l
        match writeAt s.mem t.rep l' with
        | .ok m => ⟨m, upd s.ext i { e with idf := idf }⟩
        | .error _ => s
  | .invert i =>
    match s.mem.objs i with
    | none => s
    | some t =>
      let e := s.ext i
      match rewriteAt s.mem t.rep t.sz (symInvThrownList e.dim) with
      | .ok m => { s with mem := ObjCatch.tempGone m e.dim }        -- `Vec w(n)` destroyed by unwinding
      | .error _ => s
  | _ => s

def runC (s : St K) (ops : List (Op K)) := ObjCatch.runC step thrown s ops

/-! ### Values -/

/-- the VALUE of a `SymMat`: every member besides the buffer, and the packed elements -/
structure SVal (K : Type) where
  ext : Ext K
  data : List K

def val (s : St K) (i : Nat) : Option (SVal K) :=
  (MemRep.val s.mem i).map fun l => ⟨s.ext i, l⟩

abbrev Vals (K : Type) := Nat → Option (SVal K)

/-- the same operations on independent values -/
def spec (v : Vals K) : Op K → Except Stop (Vals K)
  | .ctor i d =>
    match v i with
    | some _ => .error .precondition
    | none => .ok (upd v i (some ⟨⟨d, d, tol0, d, 0⟩, List.replicate (triSz d) default⟩))
  | .ctor2 i r c =>
    match v i with
    | some _ => .error .precondition
    | none => if r ≠ c then .error .badRank
              else .ok (upd v i (some ⟨⟨r, c, tol0, r, 0⟩, List.replicate (triSz r) default⟩))
  | .copyCtor i j =>
    match v i, v j with
    | none, some x => .ok (upd v i (some x))
    | _, _ => .error .precondition
  | .assign i j =>
    match v i, v j with
    | some _, some x => .ok (upd v i (some x))
    | _, _ => .error .precondition
  | .reset i d =>
    match v i with
    | none => .error .precondition
    | some t =>
      if d < 0 then .error .badRank
      else if triSz d.toNat = t.data.length then      -- `resize`: same size, nothing done
        .ok (upd v i (some ⟨{ t.ext with row := d.toNat, col := d.toNat, dim := d.toNat }, t.data⟩))
      else .ok (upd v i (some ⟨{ t.ext with row := d.toNat, col := d.toNat, dim := d.toNat },
                               List.replicate (triSz d.toNat) default⟩))
  | .reset2 i r c =>
    match v i with
    | none => .error .precondition
    | some t =>
      if r ≠ c ∨ r < 0 then .error .badRank
      else if triSz r.toNat = t.data.length then
        .ok (upd v i (some ⟨{ t.ext with row := r.toNat, col := r.toNat, dim := r.toNat }, t.data⟩))
      else .ok (upd v i (some ⟨{ t.ext with row := r.toNat, col := r.toNat, dim := r.toNat },
                               List.replicate (triSz r.toNat) default⟩))
  | .set i r c x =>
    match v i with
    | none => .error .precondition
    | some t =>
      if 1 ≤ r ∧ r ≤ t.ext.dim ∧ 1 ≤ c ∧ c ≤ t.ext.dim ∧ tri (max r c) (min r c) < t.data.length then
        .ok (upd v i (some { t with data := t.data.set (tri (max r c) (min r c)) x }))
      else .error .precondition
  | .setAll i x =>
    match v i with
    | none => .error .precondition
    | some t => .ok (upd v i (some { t with data := t.data.map fun _ => x }))
  | .scale i f =>
    match v i with
    | none => .error .precondition
    | some t => .ok (upd v i (some { t with data := t.data.map (· * f) }))
  | .addAssign i j =>
    match v i, v j with
    | some t, some u =>
      if t.ext.dim ≠ u.ext.dim then .error .badRank
      else .ok (upd v i (some { t with data := zipCells (· + ·) u.data t.data }))
    | _, _ => .error .precondition
  | .subAssign i j =>
    match v i, v j with
    | some t, some u =>
      if t.ext.dim ≠ u.ext.dim then .error .badRank
      else .ok (upd v i (some { t with data := zipCells (· - ·) u.data t.data }))
    | _, _ => .error .precondition
  | .setTol i x =>
    match v i with
    | none => .error .precondition
    | some t => .ok (upd v i (some { t with ext := { t.ext with tol := x } }))
  | .cholDec i =>
    match v i with
    | none => .error .precondition
    | some t =>
      match cholList t.ext.dim t.ext.tol t.data with
      | .error x => .error x
      | .ok (l', idf) => .ok (upd v i (some ⟨{ t.ext with idf := idf }, l'⟩))
  | .invert i =>
    match v i with
    | none => .error .precondition
    | some t =>
      match symInvList t.ext.dim t.data with
      | .error x => .error x
      | .ok l' => .ok (upd v i (some { t with data := l' }))
  | .dtor i =>
    match v i with
    | none => .error .precondition
    | some _ => .ok (upd v i none)

def specRun (v : Vals K) : List (Op K) → Except Stop (Vals K)
  | [] => .ok v
  | op :: ops => match spec v op with
                 | .ok v' => specRun v' ops
                 | .error e => .error e

/-- what a throwing operation leaves behind, on independent values -/
def specThrown (v : Vals K) : Op K → Vals K
  | .cholDec i =>
    match v i with
    | none => v
    | some t =>
      let r := cholThrownList t.ext.dim t.ext.tol t.data
      upd v i (some ⟨{ t.ext with idf := r.2 }, r.1⟩)
  | .invert i =>
    match v i with
    | none => v
    | some t => upd v i (some { t with data := symInvThrownList t.ext.dim t.data })
  | _ => v

def specRunC (v : Vals K) (ops : List (Op K)) := ObjCatch.runC spec specThrown v ops

end
end Gama.SymObj
