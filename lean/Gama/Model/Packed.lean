/-
  Packed storage of `GNU_gama::CovMat` (lib/matvec/covmat.h) and `GNU_gama::BandMat`
  (lib/matvec/bandmat.h), exactly as coded.  Core Lean only.

  CovMat(d, b): the upper triangle inside the band is stored by rows in a buffer of
  `d*(b+1) - b*(b+1)/2` elements.  C++ `int` arithmetic is modelled in `Int`, so that
  nothing is "totalised away": an offset outside the buffer is visible as such
  (`CovMat.inBuf`), and `Props/C10.lean` proves it never happens inside the band.

    operator[](row):   a_ = begin() + --row*band_1;
                       if (row > dim_b) { i_ = row - dim_b;  a_ -= i_*(i_+1)/2; }
    operator()(r,s):   if (r > s) swap;  if (s > r+band_) return 0 | throw BadIndex;
                       s -= r;  return *(operator[](r) + s);
-/
import Gama.Scalar
namespace Gama.Cov

/-- exception kinds of the modelled code (`Exception::matvec` codes and parser texts) -/
inductive Err where
  | BadRank | BadIndex | NonPositiveDefinite
  deriving Repr, DecidableEq, Inhabited

def Err.name : Err → String
  | .BadRank => "BadRank" | .BadIndex => "BadIndex" | .NonPositiveDefinite => "NonPositiveDefinite"

namespace Packed

/-- `d*(b+1) - b*(b+1)/2` (constructor, `reset`, `GKFparser::finish_cov`, `BlockDiagonal::add_block`) -/
def size (d b : Nat) : Int := (d : Int) * ((b : Int) + 1) - (b : Int) * ((b : Int) + 1) / 2

/-- `CovMat::operator[](row) - begin()` ; members `band_1 = b+1`, `dim_b = d-b` -/
def rowOff (d b row : Nat) : Int :=
  let r0 : Int := (row : Int) - 1              -- `--row`
  let a : Int := r0 * ((b : Int) + 1)
  let dimb : Int := (d : Int) - (b : Int)
  if r0 > dimb then
    let i : Int := r0 - dimb
    a - i * (i + 1) / 2
  else a

/-- index computation of `CovMat::operator()(r,s)`; `none` = outside the band
    (const version returns 0, non-const version throws `BadIndex`) -/
def idx (d b r s : Nat) : Option Int :=
  let r' := if r > s then s else r
  let s' := if r > s then r else s
  if s' > r' + b then none else some (rowOff d b r' + ((s' : Int) - (r' : Int)))

/-- `BandMat` ("diagonal storage scheme"): buffer `d*(b+1)`, `m[--r*(band_+1) + s]` -/
def bandSize (d b : Nat) : Int := (d : Int) * ((b : Int) + 1)

def bandIdx (b r s : Nat) : Option Int :=
  let r' := if r > s then s else r
  let s' := if r > s then r else s
  if s' > r' + b then none else some (((r' : Int) - 1) * ((b : Int) + 1) + ((s' : Int) - (r' : Int)))

end Packed

/-- a `CovMat<>` object: `row_ = col_ = dim`, `band_`, and the `MatBase` buffer -/
structure CovMat (K : Type) where
  dim  : Nat
  band : Nat
  buf  : Array K
  deriving Repr

namespace CovMat
variable {K : Type}

/-- `CovMat(d,b)` : buffer of `size d b` elements (filled with `z`; the C++ leaves it uninitialised) -/
def mk' (d b : Nat) (z : K) : CovMat K := ⟨d, b, Array.replicate (Packed.size d b).toNat z⟩

/-- is a raw offset inside the buffer? -/
def inBuf (m : CovMat K) (k : Int) : Bool := decide (0 ≤ k) && decide (k < (m.buf.size : Int))

/-- raw read `begin()[k]`; an out-of-buffer read (undefined behaviour in C++) yields `z` -/
def raw (z : K) (m : CovMat K) (k : Int) : K := if m.inBuf k then m.buf.getD k.toNat z else z

/-- raw write `begin()[k] = v`; an out-of-buffer write leaves the model buffer unchanged -/
def rawSet (m : CovMat K) (k : Int) (v : K) : CovMat K :=
  if m.inBuf k then { m with buf := m.buf.setIfInBounds k.toNat v } else m

/-- `Float operator()(r,s) const` -/
def get [Zero K] (m : CovMat K) (r s : Nat) : K :=
  match Packed.idx m.dim m.band r s with
  | none => 0
  | some k => m.raw 0 k

/-- `Float& operator()(r,s)` used as an lvalue: `m(r,s) = v` -/
def set (m : CovMat K) (r s : Nat) (v : K) : Except Err (CovMat K) :=
  match Packed.idx m.dim m.band r s with
  | none => .error .BadIndex
  | some k => .ok (m.rawSet k v)

/-- `set_zero()` -/
def setZero [Zero K] (m : CovMat K) : CovMat K := { m with buf := m.buf.map (fun _ => 0) }

/-- the dense `dim × dim` matrix `m(i,j)`, `1 ≤ i,j ≤ dim`, row by row (for the drivers) -/
def toDense [Zero K] (m : CovMat K) : List K :=
  (List.range m.dim).flatMap fun i => (List.range m.dim).map fun j => m.get (i+1) (j+1)

end CovMat
end Gama.Cov
