/-
  C19 — the g3 network level: from the input records to the project equations, and from the solution
  vector back to the reported coordinates.

  Anchors:
  * `Model::update_linearization` — the loop `for (i = active_obs->begin(); …) (*i)->accept(&linearization)`
    over the list `active_obs` built by `Model::update_observations`: every `Model::linearization(T*)` looks its
    points up by name (`points->find(obs->from)` …) and reads, from the *same* `Parameter` objects that
    `Model::update_index` numbered during the revision, `index()` = `free() ? ind : 0`
                                                                         (g3_model_linearization.cpp)
  * `Model::update_adjustment` — `p->add_correction(adj->x()(k))` for every entry of `par_list` with
    `k = p->index() ≠ 0` (`Linear::scale()` = 1e3: `cor += x/1000`), `redundancy`, `aposteriori_sd`,
    `std_deviation`, `std_variance`                                      (g3_model.cpp)
  * `Point::write_xml` — `n = N(), e = E(), u = U()`, `X_.set_correction(x_transform(n, e, u))` …, the printed
    `dn de du` (mm), `x-given / x-correction / x-adjusted`, `Point::set_cov_neu` (`cov_xx(i,j) =
    std_variance * q_xx(i,j)` for the non-zero indices), `Point::set_cov_xyz`      (g3_point.cpp)
  * `Model::write_xml_adjustment_results_points` — one `<point>` per point, in the order of the first
    occurrence of one of its parameters on `par_list` (`write_xml_init / write_xml_done`)
                                                        (g3_model_write_xml_adjustment_results.cpp)

  Core Lean only (linked into `drv_g3`).
-/
import Gama.Gen.G3Linearization
namespace Gama
namespace G3Net
open Neu G3Book G3Lin

variable {ι K : Type}

/-! ### input side -/

/-- what the network level knows of a `g3::Point` besides its three `Parameter`s N, E, U:
    coordinates, frame, the `has_*` flags and the raw states (before `update_parameters`) -/
structure NPt (K : Type) where
  X : K
  Y : K
  Z : K
  X0 : K
  Y0 : K
  Z0 : K
  B : K
  L : K
  H : K
  geoid : K
  dB : K
  dL : K
  R : Rot K
  s : PtS

/-- an observation record: which type / which point names (the bookkeeping view) and its own data -/
structure NObs (ι K : Type) where
  obs : Obs ι
  o : GObs K

/-- the network: the point table (`PointBase`, by name) and `tol_abs` -/
structure Net (ι K : Type) where
  pts : ι → Option (NPt K)
  tol : K

/-- the bookkeeping view of the point table after `Model::update_parameters` -/
def Net.points (net : Net ι K) : Points ι := fun n => (net.pts n).map (·.s.normalise)

/-- `obs->from`, `obs->to`, `obs->left`, `obs->right`, `obs->id` -/
def roleName : Obs ι → Role → Option ι
  | .angle f _ _, .frm => some f
  | .angle _ l _, .left => some l
  | .angle _ _ r, .right => some r
  | .azimuth f _, .frm => some f
  | .azimuth _ t, .to => some t
  | .distance f _, .frm => some f
  | .distance _ t, .to => some t
  | .zenith f _, .frm => some f
  | .zenith _ t, .to => some t
  | .vector f _, .frm => some f
  | .vector _ t, .to => some t
  | .hdiff f _, .frm => some f
  | .hdiff _ t, .to => some t
  | .height p, .pt => some p
  | .xyz p, .pt => some p
  | _, _ => none

/-- `Linearization::visit(T* p) { model->linearization(p); }` — the generated function of the class -/
def genOf [Trig K] : Obs ι → Pts K → GObs K → K → GLin K
  | .angle .. => Gen.G3Lin.angle
  | .azimuth .. => Gen.G3Lin.azimuth
  | .distance .. => Gen.G3Lin.distance
  | .height .. => Gen.G3Lin.height
  | .hdiff .. => Gen.G3Lin.hdiff
  | .vector .. => Gen.G3Lin.vector
  | .xyz .. => Gen.G3Lin.xyz
  | .zenith .. => Gen.G3Lin.zenith

def zeroRot [Scalar K] : Rot K := ⟨0, 0, 0, 0, 0, 0, 0, 0, 0⟩
/-- stands for a role the observation does not have (never read by its linearisation) -/
def zeroPt [Scalar K] : GPt K := ⟨0, 0, 0, 0, 0, 0, 0, 0, 0, 0, 0, 0, zeroRot, .unused, .unused, .unused, 0, 0, 0⟩

/-- the point as the linearisation reads it: geometry from the point table, states as left by
    `update_parameters`, and the members `ind` of its N, E, U as `ind` gives them -/
def mkGPt (g : NPt K) (ind : Comp → Nat) : GPt K :=
  let ps := g.s.normalise
  { X := g.X, Y := g.Y, Z := g.Z, X0 := g.X0, Y0 := g.Y0, Z0 := g.Z0, B := g.B, L := g.L, H := g.H,
    geoid := g.geoid, dB := g.dB, dL := g.dL, R := g.R, sN := ps.sN, sE := ps.sE, sU := ps.sU,
    iN := ind .N, iE := ind .E, iU := ind .U }

/-- `points->find(name)` for every role of the observation; `ind` = the member `ind` of every `Parameter`
    (what `Model::update_index` stored: `Idx.ind`) -/
def ptsOf [Scalar K] (net : Net ι K) (ind : Par ι → Nat) (ob : Obs ι) : Pts K := fun r =>
  match roleName ob r with
  | some n =>
    match net.pts n with
    | some g => mkGPt g (fun c => ind (n, c))
    | none => zeroPt
  | none => zeroPt

/-- one `Model::linearization(T*)`: the sparse rows with their right-hand sides (`A->new_row(); …;
    rhs(++rhs_ind) = …` — one right-hand side per row), and the rejection flag -/
def linObs [Trig K] (net : Net ι K) (ind : Par ι → Nat) (no : NObs ι K) : LinOut K :=
  let P := ptsOf net ind no.obs
  evalLin P (genOf no.obs P no.o net.tol)

/-- `Model::update_observations` on the records that are still `active()` -/
def bookOf [DecidableEq ι] (net : Net ι K) (nobs : List (NObs ι K)) : Book ι :=
  updateObservations net.points (nobs.map (·.obs))

/-- the list `active_obs` (records whose revision succeeded), with their data -/
def activeOf [DecidableEq ι] (net : Net ι K) (nobs : List (NObs ι K)) : List (NObs ι K) :=
  nobs.filter fun o => (revision net.points o.obs).isSome

/-- the loop of `Model::update_linearization` over `active_obs` -/
def linearizeNet [DecidableEq ι] [Trig K] (net : Net ι K) (nobs : List (NObs ι K)) : List (NObs ι K × LinOut K) :=
  (activeOf net nobs).map fun o => (o, linObs net (bookOf net nobs).idx.ind o)

/-- the project equations: every row of the design matrix with its right-hand side, in matrix order -/
def netEqs [DecidableEq ι] [Trig K] (net : Net ι K) (nobs : List (NObs ι K)) : List (Row K × K) :=
  (linearizeNet net nobs).flatMap fun e => e.2.rows.zip e.2.rhs

/-! ### result side -/

/-- what `Model::update_adjustment` / the result writer read from class `Adj` -/
structure AdjOut (K : Type) where
  /-- `adj->x()(k)`, 1-based -/
  x : Nat → K
  defect : Nat
  rtr : K
  /-- `adj->q_xx(i, j)`, 1-based -/
  qxx : Nat → Nat → K

/-- the loop `for (i = par_list->begin(); …) if (int k = p->index()) p->add_correction(adj->x()(k))`:
    `cor` maps a parameter to its member `cor`; `Linear::scale()` is 1e3 -/
def addCorrections [DecidableEq ι] [Scalar K] (fr : Par ι → Bool) (idx : Idx ι) (x : Nat → K) (cor : Par ι → K) :
    Par ι → K :=
  idx.par.foldl (fun c e =>
    let k := idx.index fr e.1
    if k ≠ 0 then fun q => if q = e.1 then c q + x k / linScale else c q else c) cor

/-- `redundancy`, `aposteriori_sd`, `std_deviation`, `std_variance` of `Model::update_adjustment`
    (`refApriori` : `ref_stdev == apriori`) -/
structure Stats (K : Type) where
  redundancy : Int
  aposterioriSd : K
  stdDeviation : K
  stdVariance : K

def intToK [Scalar K] (i : Int) : K := Scalar.ofInt i

def stats [DecidableEq ι] [Scalar K] (b : Book ι) (a : AdjOut K) (aprioriSd : K) (refApriori : Bool) : Stats K :=
  let r := G3Book.redundancy b a.defect
  let apo : K := if r ≠ 0 then Scalar.sqrt (a.rtr / intToK r) else 0
  let sd := if refApriori then aprioriSd else apo
  ⟨r, apo, sd, sd * sd⟩

/-- what `Point::write_xml` computes for one point -/
structure PtOut (K : Type) where
  /-- `N()*1000`, `E()*1000`, `U()*1000` as printed in `<dn> <de> <du>` -/
  dn : K
  de : K
  du : K
  /-- `X.correction()` … after `X_.set_correction(x_transform(n, e, u))` -/
  cx : K
  cy : K
  cz : K
  /-- `X()` … = `<x-adjusted>` -/
  ax : K
  ay : K
  az : K
  /-- `height.correction()`: the parameter `height` is linked to `U` in `Model::update_adjustment` -/
  dh : K
  /-- `cnn cne cnu cee ceu cuu` of `Point::set_cov_neu` -/
  covNeu : List K
  /-- `cxx cxy cxz cyy cyz czz` of `Point::set_cov_xyz` -/
  covXyz : List K

/-- `cov_xx(i, j) = std_variance * adj->q_xx(i, j)`, read by `Point::set_cov_neu` only where both indices are
    non-zero (the members are zeroed first) -/
def covEntry [Scalar K] (var : K) (q : Nat → Nat → K) (i j : Nat) : K := if i ≠ 0 ∧ j ≠ 0 then var * q i j else 0

/-- `Point::set_cov_neu`: `cnn cne cnu cee ceu cuu` -/
def covNeu [Scalar K] (var : K) (q : Nat → Nat → K) (n e u : Nat) : List K :=
  [covEntry var q n n, covEntry var q n e, covEntry var q n u, covEntry var q e e, covEntry var q e u, covEntry var q u u]

/-- the first loop of `Model::update_adjustment`: `height` takes the state of `U` and, if free,
    `k = U.index(); height.set_index(k); if (k) height.add_correction(adj->x()(k))`.
    Models the FIXED code (notes/proposed/C19-height-index-zero.diff); /repo HEAD has no `if (k)` and reads
    `adj->x()(0)` — 8 bytes before the solution vector — for a point whose free height has no column
    (corpus/C19/g8-height-index-zero.json). -/
def heightCorrection [Scalar K] (sU : PState) (k : Nat) (x : Nat → K) : K :=
  if sU.isFree then (if k ≠ 0 then x k / linScale else 0) else 0

/-- `Point::write_xml`, numeric part: `cor` = the members `cor` of the point's N, E, U (their `val` is 0:
    `N() = cor`), `R` its frame, `X0 Y0 Z0` the initial values, `i` = `N.index() E.index() U.index()` -/
def pointOut [Scalar K] (g : NPt K) (cor : Comp → K) (i : Comp → Nat) (var : K) (q : Nat → Nat → K) (x : Nat → K) : PtOut K :=
  let n := cor .N
  let e := cor .E
  let u := cor .U
  let cx := g.R.xTransform n e u
  let cy := g.R.yTransform n e u
  let cz := g.R.zTransform n e u
  { dn := n * linScale, de := e * linScale, du := u * linScale, cx := cx, cy := cy, cz := cz,
    ax := g.X0 + cx, ay := g.Y0 + cy, az := g.Z0 + cz,
    dh := heightCorrection g.s.normalise.sU (i .U) x,
    covNeu := covNeu var q (i .N) (i .E) (i .U),
    covXyz := g.R.covXyz (covEntry var q (i .N) (i .N)) (covEntry var q (i .N) (i .E)) (covEntry var q (i .N) (i .U))
      (covEntry var q (i .E) (i .E)) (covEntry var q (i .E) (i .U)) (covEntry var q (i .U) (i .U)) }

/-- the order in which `write_xml_adjustment_results_points` writes the points: first occurrence of one of
    their parameters on `par_list` -/
def pointOrder [DecidableEq ι] (idx : Idx ι) : List ι := (idx.par.map (·.1.1)).eraseDups

/-- the reported result of one point after `update_adjustment` (corrections zero before it: a single
    linearisation step, as gama-g3 does) -/
def reportPoint [DecidableEq ι] [Scalar K] (net : Net ι K) (b : Book ι) (a : AdjOut K) (var : K) (n : ι) : Option (PtOut K) :=
  (net.pts n).map fun g =>
    let fr := isFreePar net.points
    let cor := addCorrections fr b.idx a.x (fun _ => 0)
    pointOut g (fun c => cor (n, c)) (fun c => b.idx.index fr (n, c)) var a.qxx a.x

end G3Net
end Gama
