/-
  MinX — `LocalNetwork::project_equations()` (lib/gnu_gama/local/network.cpp) from the point of view of
  the free-network regularisation (property C08): the numbering of the unknowns and the list of
  indices of the constrained coordinates that is handed to the solver (`least_squares->min_x(min_n_,
  min_x_)`), on EVERY call.

  Anchors
    * prologue              `if (b.active_xy() || b.active_z()) b.index_y() = b.index_x() = b.index_z() = 0;`
                            for every point of `PD` (a point with no active group KEEPS its indexes),
                            `standpoint->index_orientation(0)` for every `StandPoint` cluster,
                            a new `LocalLinearization` (`maxn = 0`)                         ↦ `reset`
    * linearisation loop    `for (m in revised_obs_) obs->accept(&loclin)`; every
                            `LocalLinearization::<type>` (local_linearization.cpp) allocates the index
                            of an unknown on first use, `if (!p.index_x()) p.index_x() = ++maxn;`,
                            under the guards `free_xy()` / `free_z()` (orientation: no guard)
                                                                                            ↦ `Kind.refs`, `touch`, `number`
    * `pocet_neznamych_ = loclin.unknowns()`                                                 ↦ `Num.maxn`
    * `singular_coords(A)`  points that are not fixed and active in xy: `index_x() == 0 ||
                            index_y() == 0` ⇒ `set_unused_xy()`, `removed(id, rm_singular_xy)`;
                            otherwise the numeric test `1 − |cos(a_x, a_y)| < 1e-12` (parameter
                            `World.degen`); `true` ⇒ `update(Points); project_equations(); return;`
                                                                                            ↦ `singularCoords`, recursion of `projectEquations`
    * regularisation list   `delete[] min_x_; min_x_ = nullptr; min_n_ = 0;` then the counting loop
                            (`constrained_xy() && index_x()` : `+= 2`, `constrained_z() && index_z()` : `+= 1`),
                            `if (min_n_) { min_x_ = new int[min_n_]; … min_x_[n++] = index_y(); min_x_[n++] =
                            index_x(); … min_x_[n++] = index_z(); }`, `least_squares->min_x(min_n_, min_x_)`
                                                                                            ↦ `countMin`, `fillMin`, `feed`

  What is NOT modelled here and enters as the parameter `World` (an arbitrary function of the point
  statuses — the theorems quantify over it): `revision_points` / `revision_observations` (which
  observations are in `revised_obs_`: `LocalRevision`, single-direction stand-points, outlier removal),
  the coefficients / right-hand sides, the numeric half of `singular_coords`.  `World.structural` is the
  structural part of `LocalRevision` the driver runs (activity of the point groups an observation needs).

  The index state is the function `Unk → Nat` (`LocalPoint::index_x/y/z`, `StandPoint::index_orientation`;
  0 = not assigned); points and stand-points are named by their position in `PD` / in the cluster list.
  The state that survives between two calls is `St`: statuses, indexes (stale for inactive points),
  and the previous `min_x_` / `min_n_`.

  `projectEquationsStale` is NOT the code: it is the variant "rebuild the list only when its length
  changed", kept to show (Props/C08 `C08_minx_stale_is_wrong`) that the theorems distinguish it.

  Core Lean only.
-/
import Gama.Model.NetDecision
namespace Gama.MinX
open Gama Gama.NetDecision

/-- an unknown: orientation of the `k`-th stand-point, or a coordinate of the `p`-th point of `PD` -/
inductive Unk
  | ori (k : Nat) | x (p : Nat) | y (p : Nat) | z (p : Nat)
deriving DecidableEq, Repr, Inhabited

/-- statuses of one `LocalPoint` -/
structure PtS where
  id : String
  xy : CStat
  z : CStat
deriving DecidableEq, Repr, Inhabited

def xyOf (pts : List PtS) (p : Nat) : CStat := match pts[p]? with | some q => q.xy | none => .unused
def zOf (pts : List PtS) (p : Nat) : CStat := match pts[p]? with | some q => q.z | none => .unused

/-- the guard under which `LocalLinearization` allocates / uses the unknown: `free_xy()`, `free_z()`
    (bit `*_adjusted_`, set for constrained coordinates too); none for an orientation -/
def live (pts : List PtS) : Unk → Bool
  | .ori _ => true
  | .x p => (xyOf pts p).adjusted
  | .y p => (xyOf pts p).adjusted
  | .z p => (zOf pts p).adjusted

/-- observation classes of `LocalLinearization` -/
inductive Kind
  | direction | distance | angle | h_diff | s_distance | z_angle | x | y | z | xdiff | ydiff | zdiff | azimuth
deriving DecidableEq, Repr, Inhabited

/-- one observation of `revised_obs_`: class, stand-point cluster (directions), positions of
    `from()`, `to()` (= `bs()`), `fs()` in `PD` -/
structure Obs where
  kind : Kind
  sp : Nat
  pfrom : Nat
  pto : Nat
  pfs : Nat
deriving DecidableEq, Repr, Inhabited

/-- the unknowns one `LocalLinearization::<type>` call allocates, in program order (each still under
    its guard `live`): e.g. `direction`: `index_orientation`, then `if (sbod.free_xy()) { index_x, index_y }`,
    then the same for `cbod` -/
def Obs.refs (o : Obs) : List Unk :=
  match o.kind with
  | .direction => [.ori o.sp, .x o.pfrom, .y o.pfrom, .x o.pto, .y o.pto]
  | .distance | .azimuth => [.x o.pfrom, .y o.pfrom, .x o.pto, .y o.pto]
  | .angle => [.x o.pfrom, .y o.pfrom, .x o.pto, .y o.pto, .x o.pfs, .y o.pfs]
  | .h_diff | .zdiff => [.z o.pfrom, .z o.pto]
  | .s_distance | .z_angle => [.x o.pfrom, .y o.pfrom, .z o.pfrom, .x o.pto, .y o.pto, .z o.pto]
  | .x => [.x o.pfrom]
  | .y => [.y o.pfrom]
  | .z => [.z o.pfrom]
  | .xdiff => [.x o.pfrom, .x o.pto]
  | .ydiff => [.y o.pfrom, .y o.pto]

/-- `LocalLinearization` while it runs: `maxn` and the index fields -/
structure Num where
  maxn : Nat
  idx : Unk → Nat

/-- `if (!i) i = ++maxn;` -/
def touch (s : Num) (u : Unk) : Num :=
  if s.idx u = 0 then ⟨s.maxn + 1, fun v => if v = u then s.maxn + 1 else s.idx v⟩ else s

/-- the same under the guard of the unknown -/
def touchG (pts : List PtS) (s : Num) (u : Unk) : Num := if live pts u then touch s u else s

/-- the index fields the prologue of `project_equations` zeroes: every stand-point's orientation and
    the three indexes of every point with `active_xy() || active_z()`; these are also the only index
    fields the rest of the call reads -/
def vis (pts : List PtS) : Unk → Bool
  | .ori _ => true
  | .x p | .y p | .z p => (xyOf pts p).active || (zOf pts p).active

/-- prologue of `project_equations` (a point with no active group keeps its stale indexes) -/
def reset (pts : List PtS) (idx : Unk → Nat) : Num := ⟨0, fun u => if vis pts u then 0 else idx u⟩

/-- the numbering as `singular_coords(A)` can see it: columns of `A` / indexes of active points -/
def visible (pts : List PtS) (idx : Unk → Nat) : Unk → Nat := fun u => if vis pts u then idx u else 0

/-- the linearisation loop over `revised_obs_` (numbering only) -/
def number (pts : List PtS) (obs : List Obs) (s : Num) : Num :=
  obs.foldl (fun s o => o.refs.foldl (touchG pts) s) s

/-- `singular_coords`: one point (position `p`); returns the new status and whether it was removed -/
def singularPoint (degen : Nat → Bool) (idx : Unk → Nat) (p : Nat) (q : PtS) : PtS × Bool :=
  if q.xy = .fixed || !q.xy.active then (q, false)
  else if idx (.x p) = 0 || idx (.y p) = 0 then ({ q with xy := .unused }, true)
  else if degen p then ({ q with xy := .unused }, true)
  else (q, false)

/-- `singular_coords`: the loop over `PD` from position `p`; result flag, statuses, removed ids -/
def singularFrom (degen : Nat → Bool) (idx : Unk → Nat) : Nat → List PtS → Bool × List PtS × List String
  | _, [] => (false, [], [])
  | p, q :: r =>
    let (q', rm) := singularPoint degen idx p q
    let (b, r', ids) := singularFrom degen idx (p + 1) r
    (rm || b, q' :: r', if rm then q.id :: ids else ids)

def singularCoords (degen : Nat → Bool) (idx : Unk → Nat) (pts : List PtS) : Bool × List PtS × List String :=
  singularFrom degen idx 0 pts

/-- the counting loop: `min_n_` -/
def countFrom (idx : Unk → Nat) : Nat → List PtS → Nat
  | _, [] => 0
  | p, q :: r =>
    (if q.xy = .constrained && idx (.x p) != 0 then 2 else 0)
      + (if q.z = .constrained && idx (.z p) != 0 then 1 else 0) + countFrom idx (p + 1) r

/-- the filling loop: `min_x_[n++] = index_y(); min_x_[n++] = index_x(); … min_x_[n++] = index_z();` -/
def fillFrom (idx : Unk → Nat) : Nat → List PtS → List Nat
  | _, [] => []
  | p, q :: r =>
    (if q.xy = .constrained && idx (.x p) != 0 then [idx (.y p), idx (.x p)] else [])
      ++ (if q.z = .constrained && idx (.z p) != 0 then [idx (.z p)] else []) ++ fillFrom idx (p + 1) r

def countMin (idx : Unk → Nat) (pts : List PtS) : Nat := countFrom idx 0 pts
def fillMin (idx : Unk → Nat) (pts : List PtS) : List Nat := fillFrom idx 0 pts

/-- what survives between two calls of `project_equations` -/
structure St where
  pts : List PtS
  idx : Unk → Nat
  /-- `min_n_`, `min_x_` left by the previous call -/
  minn : Nat
  minx : List Nat

/-- what the rest of the network code does not model: which observations are in `revised_obs_` for
    given point statuses, and the numeric half of `singular_coords` -/
structure World where
  rev : List PtS → List Obs
  degen : List PtS → (Unk → Nat) → Nat → Bool

/-- what one completed call hands over -/
structure Out where
  /-- `pocet_neznamych_` -/
  unknowns : Nat
  /-- arguments of `least_squares->min_x(min_n_, min_x_)` -/
  minn : Nat
  minx : List Nat
  /-- ids removed by `singular_coords` during the call (all inner calls), in order -/
  removed : List String
deriving DecidableEq, Repr

/-- `delete[] min_x_; min_x_ = nullptr; min_n_ = 0;` counting loop; `if (min_n_)` filling loop; `min_x(...)` -/
def feed (idx : Unk → Nat) (pts : List PtS) : Nat × List Nat :=
  let n := countMin idx pts
  (n, if n != 0 then fillMin idx pts else [])

/-- `project_equations()` on a network that is not up to date; `fuel` bounds the recursion through
    `singular_coords` (every inner call has switched an xy group off: `fuel = #points + 1` suffices) -/
def projectEquations (W : World) : Nat → St → List String → Option (St × Out)
  | 0, _, _ => none
  | fuel + 1, st, rm =>
    let s := number st.pts (W.rev st.pts) (reset st.pts st.idx)
    let (sing, pts', ids) := singularCoords (W.degen st.pts (visible st.pts s.idx)) s.idx st.pts
    if sing then projectEquations W fuel { st with pts := pts', idx := s.idx } (rm ++ ids)
    else
      let (n, l) := feed s.idx st.pts
      some ({ pts := st.pts, idx := s.idx, minn := n, minx := l }, ⟨s.maxn, n, l, rm⟩)

/-- NOT the code: the list is rebuilt only when its length changed -/
def projectEquationsStale (W : World) : Nat → St → List String → Option (St × Out)
  | 0, _, _ => none
  | fuel + 1, st, rm =>
    let s := number st.pts (W.rev st.pts) (reset st.pts st.idx)
    let (sing, pts', ids) := singularCoords (W.degen st.pts (visible st.pts s.idx)) s.idx st.pts
    if sing then projectEquationsStale W fuel { st with pts := pts', idx := s.idx } (rm ++ ids)
    else
      let n := countMin s.idx st.pts
      let l := if n = st.minn then st.minx else (feed s.idx st.pts).2
      some ({ pts := st.pts, idx := s.idx, minn := n, minx := l }, ⟨s.maxn, n, l, rm⟩)

/-- one step of a history: the rest of the program changes the statuses (removals of `null_space`,
    of the huge-covariance pass, …) and the world (outlying observations switched off, new approximate
    coordinates), then `project_equations()` runs -/
structure Step where
  change : List PtS → List PtS
  world : World

def fuelFor (pts : List PtS) : Nat := pts.length + 1

/-- a whole history of calls; `none` entries cannot occur (`C08_minx_fuel`) -/
def run (pe : World → Nat → St → List String → Option (St × Out)) : St → List Step → List (Option Out)
  | _, [] => []
  | st, e :: r =>
    let st1 := { st with pts := e.change st.pts }
    match pe e.world (fuelFor st1.pts) st1 [] with
    | none => [none]
    | some (st2, o) => some o :: run pe st2 r

-- ------------------------------------------------------------------ the driver's world

/-- the point groups that `LocalRevision::<type>` requires to be active (`true` = xy, `false` = z) -/
def Obs.needs (o : Obs) : List (Nat × Bool) :=
  match o.kind with
  | .direction | .distance | .azimuth | .xdiff | .ydiff => [(o.pfrom, true), (o.pto, true)]
  | .angle => [(o.pfrom, true), (o.pto, true), (o.pfs, true)]
  | .h_diff | .zdiff => [(o.pfrom, false), (o.pto, false)]
  | .s_distance => [(o.pfrom, true), (o.pfrom, false), (o.pto, true), (o.pto, false)]
  | .z_angle => [(o.pfrom, false), (o.pto, false)]
  | .x | .y => [(o.pfrom, true)]
  | .z => [(o.pfrom, false)]

/-- structural part of `LocalRevision`: `obs->active()` and every needed group active -/
def activeBasic (pts : List PtS) (fo : Bool × Obs) : Bool :=
  fo.1 && fo.2.needs.all fun (p, g) => if g then (xyOf pts p).active else (zOf pts p).active

/-- `revision_observations`, "test cycle for StandPoint clusters with single direction": the different
    targets of the active directions of stand-point `sp` -/
def dirTargets (pts : List PtS) (obs : List (Bool × Obs)) (sp : Nat) : List Nat :=
  ((obs.filter fun fo => fo.2.kind == .direction && fo.2.sp == sp && activeBasic pts fo).map (·.2.pto)).eraseDups

/-- … fewer than two ⇒ all directions of the cluster are set passive -/
def isRevised (pts : List PtS) (obs : List (Bool × Obs)) (fo : Bool × Obs) : Bool :=
  activeBasic pts fo && (fo.2.kind != .direction || decide (2 ≤ (dirTargets pts obs fo.2.sp).length))

/-- `revised_obs_` for the given statuses and `active()` flags -/
def revised (pts : List PtS) (obs : List (Bool × Obs)) : List Obs := (obs.filter (isRevised pts obs)).map (·.2)

def World.structural (obs : List (Bool × Obs)) : World := ⟨fun pts => revised pts obs, fun _ _ _ => false⟩

end Gama.MinX
