/-
  C06 — executable models of lib/gnu_gama/local/acord/acordhdiff.cpp (AcordHdiff::prepare,
  remove_hdiffs_between_known_heights, execute) and acordvector.cpp (AcordVector::prepare,
  remove_vectors_between_known_xyz, execute), as repaired by b60849c (copy-back guarded by
  `test_z()/test_xy()`, local copy refreshed from `PD_`).  Core Lean only.

  Both keep a local working copy `lpd_` of the points their observations mention and chain through the
  observations (`do … while (success && !list.empty())`) on the *local* copy; the removal inside the loop
  looks at `AC.PD_`, which the loop does not write — so it only removes what other strategies have
  determined in the meantime.  The loop has no syntactic bound: `fuel` bounds it, `none` = fuel exhausted
  (every successful pass defines at least one more local point, so `keys.length + 1` passes suffice;
  the driver uses that).
-/
import Gama.Model.AcordBase
namespace Gama.Acord
open Scalar Trig Cogo Median

variable {K : Type} [Scalar K] {ι : Type} [DecidableEq ι]

/-! ## AcordHdiff -/

/-- `struct hdiff { PointID from, to; double hd; }` -/
structure Hd (ι K : Type) where
  f : ι
  t : ι
  hd : K

/-- `prepared_`, `completed_`, `hdiffs_`, `lpd_` (its key set and its values) -/
structure HdAlg (ι K : Type) where
  prepared : Bool
  completed : Bool
  hds : List (Hd ι K)
  keys : List ι
  lpd : PD ι K

def HdAlg.fresh : HdAlg ι K := ⟨false, false, [], [], fun _ => LP.unset⟩

def hdAll : List (Cluster ι K) → List (Hd ι K)
  | [] => []
  | .hdiffs obs :: cs => obs.map (fun o => ⟨o.1, o.2.1, o.2.2⟩) ++ hdAll cs
  | _ :: cs => hdAll cs

/-- remove_hdiffs_between_known_heights (looks at `AC.PD_`) -/
def hdRemoveKnown (pd : PD ι K) (hds : List (Hd ι K)) : List (Hd ι K) :=
  hds.filter (fun h => !((pd h.f).bz && (pd h.t).bz))

/-- AcordHdiff::prepare -/
def hdPrepare (pd : PD ι K) (od : List (Cluster ι K)) : HdAlg ι K :=
  let hds := hdAll od
  let keys := dedup (hds.foldr (fun h l => h.f :: h.t :: l) [])
  ⟨true, false, hdRemoveKnown pd hds, keys, fun i => if i ∈ keys then pd i else LP.unset⟩

/-- "heights computed by other algorithms since the local copy was made" -/
def hdRefresh (pd : PD ι K) (keys : List ι) (lpd : PD ι K) : PD ι K :=
  fun i => if i ∈ keys then (if !(lpd i).bz && (pd i).bz then (lpd i).setZ (pd i).z else lpd i) else lpd i

/-- one `for (hdiff& hd : hdiffs_)` pass: the local copy and `success` -/
def hdPassStep (ls : PD ι K × Bool) (h : Hd ι K) : PD ι K × Bool :=
  let bf := (ls.1 h.f).bz
  let bt := (ls.1 h.t).bz
  if bf == bt then ls
  else if bf then (ls.1.upd h.t ((ls.1 h.t).setZ ((ls.1 h.f).z + h.hd)), true)
  else (ls.1.upd h.f ((ls.1 h.f).setZ ((ls.1 h.t).z - h.hd)), true)

def hdPass (hds : List (Hd ι K)) (lpd : PD ι K) : PD ι K × Bool :=
  hds.foldl hdPassStep (lpd, false)

/-- `do { pass; remove…; } while (success && !hdiffs_.empty());` -/
def hdLoop (pd : PD ι K) : Nat → List (Hd ι K) → PD ι K → Option (List (Hd ι K) × PD ι K)
  | 0, _, _ => none
  | n + 1, hds, lpd =>
    let r := hdPass hds lpd
    let hds' := hdRemoveKnown pd hds
    if r.2 && !hds'.isEmpty then hdLoop pd n hds' r.1 else some (hds', r.1)

/-- "copy local heights to Acord2 point list" -/
def hdCopyStep (lpd : PD ι K) (s : St ι K) (i : ι) : St ι K :=
  if (lpd i).bz then { s with pd := s.pd.upd i ((s.pd i).setZ (lpd i).z), missZ := erase s.missZ i }
  else s

def hdCopyBack (keys : List ι) (lpd : PD ι K) (st : St ι K) : St ι K :=
  keys.foldl (hdCopyStep lpd) st

/-- AcordHdiff::execute -/
def hdExecute (fuel : Nat) (od : List (Cluster ι K)) (alg : HdAlg ι K) (st : St ι K) :
    Option (HdAlg ι K × St ι K) :=
  let alg := if alg.prepared then alg else hdPrepare st.pd od
  let lpd := hdRefresh st.pd alg.keys alg.lpd
  match hdLoop st.pd fuel alg.hds lpd with
  | none => none
  | some (hds, lpd) =>
    some (⟨true, alg.completed || hds.isEmpty, hds, alg.keys, lpd⟩, hdCopyBack alg.keys lpd st)

/-! ## AcordVector -/

/-- `struct pvector { PointID from, to; double dx, dy, dz; }` -/
structure Vec (ι K : Type) where
  f : ι
  t : ι
  dx : K
  dy : K
  dz : K

structure VecAlg (ι K : Type) where
  prepared : Bool
  completed : Bool
  vecs : List (Vec ι K)
  keys : List ι
  lpd : PD ι K

def VecAlg.fresh : VecAlg ι K := ⟨false, false, [], [], fun _ => LP.unset⟩

/-- the buffer automaton of `prepare`: `xyz_buffer[3]`, `xyz_state` (1, 2, 4 are *added*, a vector is
    emitted with the from/to of the observation that makes the sum 7).  The buffer starts indeterminate in
    the C++; it is 0 here (every generated cluster fills all three slots before the first 7). -/
structure VBuf (K : Type) where
  bx : K
  by' : K
  bz : K
  state : Nat

def vecScan (obs : List (VObs ι K)) (b : VBuf K) (acc : List (Vec ι K)) : VBuf K × List (Vec ι K) :=
  obs.foldl (fun (ba : VBuf K × List (Vec ι K)) o =>
    let b := ba.1
    let b : VBuf K := match o with
      | .xdiff _ _ v => { b with bx := v, state := b.state + 1 }
      | .ydiff _ _ v => { b with by' := v, state := b.state + 2 }
      | .zdiff _ _ v => { b with bz := v, state := b.state + 4 }
    if b.state = 7 then ({ b with state := 0 }, ba.2 ++ [⟨o.from', o.to', b.bx, b.by', b.bz⟩])
    else (b, ba.2)) (b, acc)

/-- the buffer and the state live across clusters (they are declared outside both loops) -/
def vecAll : List (Cluster ι K) → VBuf K → List (Vec ι K) → List (Vec ι K)
  | [], _, acc => acc
  | .vectors obs :: cs, b, acc => let r := vecScan obs b acc; vecAll cs r.1 r.2
  | _ :: cs, b, acc => vecAll cs b acc

/-- remove_vectors_between_known_xyz (looks at `AC.PD_`) -/
def vecRemoveKnown (pd : PD ι K) (vs : List (Vec ι K)) : List (Vec ι K) :=
  vs.filter (fun h => !((pd h.f).bxy && (pd h.f).bz && (pd h.t).bxy && (pd h.t).bz))

/-- AcordVector::prepare -/
def vecPrepare (pd : PD ι K) (od : List (Cluster ι K)) : VecAlg ι K :=
  let vs := vecAll od ⟨0, 0, 0, 0⟩ []
  let keys := dedup (vs.foldr (fun h l => h.f :: h.t :: l) [])
  ⟨true, false, vecRemoveKnown pd vs, keys, fun i => if i ∈ keys then pd i else LP.unset⟩

/-- `if (!lp.second.test_xy() && p.test_xy()) lp.second.set_xy(p.x(), p.y());` -/
def refreshXY (l p : LP K) : LP K := if !l.bxy && p.bxy then l.setXY p.x p.y else l
/-- `if (!lp.second.test_z() && p.test_z()) lp.second.set_z(p.z());` -/
def refreshZ (l p : LP K) : LP K := if !l.bz && p.bz then l.setZ p.z else l

/-- "coordinates computed by other algorithms since the local copy was made" -/
def vecRefresh (pd : PD ι K) (keys : List ι) (lpd : PD ι K) : PD ι K :=
  fun i => if i ∈ keys then refreshZ (refreshXY (lpd i) (pd i)) (pd i) else lpd i

def vecPassStep (ls : PD ι K × Bool) (h : Vec ι K) : PD ι K × Bool :=
  let l := ls.1
  let bf := (l h.f).bxy && (l h.f).bz
  let bt := (l h.t).bxy && (l h.t).bz
  if bf == bt then ls
  else if bf then
    (l.upd h.t (((l h.t).setXY ((l h.f).x + h.dx) ((l h.f).y + h.dy)).setZ ((l h.f).z + h.dz)), true)
  else
    (l.upd h.f (((l h.f).setXY ((l h.t).x - h.dx) ((l h.t).y - h.dy)).setZ ((l h.t).z - h.dz)), true)

def vecPass (vs : List (Vec ι K)) (lpd : PD ι K) : PD ι K × Bool :=
  vs.foldl vecPassStep (lpd, false)

def vecLoop (pd : PD ι K) : Nat → List (Vec ι K) → PD ι K → Option (List (Vec ι K) × PD ι K)
  | 0, _, _ => none
  | n + 1, vs, lpd =>
    let r := vecPass vs lpd
    let vs' := vecRemoveKnown pd vs
    if r.2 && !vs'.isEmpty then vecLoop pd n vs' r.1 else some (vs', r.1)

def vecCopyXY (lpd : PD ι K) (s : St ι K) (i : ι) : St ι K :=
  if (lpd i).bxy then
    { s with pd := s.pd.upd i ((s.pd i).setXY (lpd i).x (lpd i).y), missXY := erase s.missXY i }
  else s

def vecCopyStep (lpd : PD ι K) (s : St ι K) (i : ι) : St ι K :=
  hdCopyStep lpd (vecCopyXY lpd s i) i

def vecCopyBack (keys : List ι) (lpd : PD ι K) (st : St ι K) : St ι K :=
  keys.foldl (vecCopyStep lpd) st

/-- AcordVector::execute -/
def vecExecute (fuel : Nat) (od : List (Cluster ι K)) (alg : VecAlg ι K) (st : St ι K) :
    Option (VecAlg ι K × St ι K) :=
  let alg := if alg.prepared then alg else vecPrepare st.pd od
  let lpd := vecRefresh st.pd alg.keys alg.lpd
  match vecLoop st.pd fuel alg.vecs lpd with
  | none => none
  | some (vs, lpd) =>
    some (⟨true, alg.completed || vs.isEmpty, vs, alg.keys, lpd⟩, vecCopyBack alg.keys lpd st)

end Gama.Acord
