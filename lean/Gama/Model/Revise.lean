/-
  C14 — executable model of the exclusion logic of `LocalNetwork` (lib/gnu_gama/local/network.cpp):

  * `revisionPoints`        – `LocalNetwork::revision_points` (missing xy / z ⇒ `set_unused_*` +
                              `removed(id, rm_missing_*)`, `undefined_xy_z_`, `pocbod_`)
  * `revisionObservations`  – `LocalNetwork::revision_observations`: `LocalRevision` over the
                              GENERATED requirement table (`Gen.requirements`), the StandPoint loop
                              that counts targets with the GENERATED loop body (`Gen.targetsBody`,
                              `std::set<PointID> targets`, `active_directions`) and the GENERATED test
                              (`Gen.standCmp`, `Gen.standBound`) that makes all directions passive, `Cluster::update()` (`act_obs`), the
                              `revised_obs_` / `removed_obs_` lists and `pocmer_`
  * `revise`                – the forced re-run (`update(Points)` then both revisions), which is what
                              happens after every removal (`removed()` calls `update(Points)`)
  * `testAbsTerm`, `hugeFlag`, `removeHuge`
                            – `LocalNetwork::test_abs_term`, the `vybocujici_abscl_` loop of
                              `project_equations` and `remove_huge_abs_terms`, over the GENERATED
                              `Gen.absD0`, `Gen.absValue`, `Gen.absExceeds`, `Gen.absVec`
  * `delete`, `activeView`  – the input with the excluded items deleted; what the linearisation sees

  Points are kept in `PointData` (std::map) iteration order and referred to by a numeric id;
  observations in `ObservationData` order (clusters in list order, observations in list order).
  Coordinates/values are carried in a scalar type `K` and only read by the absolute-term test.
  Core Lean only.
-/
import Gama.Gen.Revision
namespace Gama.Rev

/-- lpoint.h: status of one coordinate group (`pst_` bits xy_* / z_*) -/
inductive Status where
  | unused | fixed | free | constrained
deriving DecidableEq, Repr, Inhabited

/-- `active_xy()` / `active_z()` -/
def Status.active : Status → Bool
  | .unused => false
  | _ => true

structure Pt (K : Type) where
  id  : Nat
  sxy : Status
  sz  : Status
  /-- `test_xy()` : coordinates x, y are defined -/
  hxy : Bool
  /-- `test_z()` -/
  hz  : Bool
  x : K
  y : K
  z : K

structure Obs (K : Type) where
  ty : ObsType
  /-- `from()` -/
  frm : Nat
  /-- `to()` (= `Angle::bs()`); an id that is not in the point list for X, Y, Z (`to_ == ""`) -/
  to : Nat
  /-- `Angle::fs()` (unused for other types) -/
  fs : Nat
  active : Bool
  /-- `obs->value()` -/
  value : K

structure Cluster (K : Type) where
  /-- `dynamic_cast<StandPoint*>` succeeds -/
  stand : Bool
  obs : List (Obs K)
  /-- `act_obs` as of the last `Cluster::update()` -/
  actObs : Nat
  /-- `covariance_matrix(i, j)`, 1-based, one row per observation of `obs` (local observations have
      dimension 1); `0` outside the band.  Never written by the revision; read by `Cluster::activeCov()` -/
  cov : Nat → Nat → K

structure Net (K : Type) where
  pts : List (Pt K)
  cls : List (Cluster K)
  /-- `removed_points` / `removed_code` (enum value of `rm_points`) -/
  removed : List (Nat × Nat)
  /-- `undefined_xy_z_` -/
  undefined : List Nat
  /-- `revised_obs_` (snapshot of the observations it points to) -/
  revised : List (Obs K)
  /-- `removed_obs_` = `rejected_observations()` -/
  rejected : List (Obs K)
  pocbod : Nat
  pocmer : Nat

variable {K : Type}

def Pt.flag (p : Pt K) : Flag → Bool
  | .active_xy => p.sxy.active
  | .test_xy => p.hxy
  | .active_z => p.sz.active
  | .test_z => p.hz

/-- `active()` : some coordinate group takes part in the adjustment -/
def Pt.active (p : Pt K) : Bool := p.sxy.active || p.sz.active

def Obs.roleId (o : Obs K) : Role → Nat
  | .from => o.frm
  | .to => o.to
  | .fs => o.fs

/-- `PD.find(id)` -/
def findPt (pts : List (Pt K)) (i : Nat) : Option (Pt K) := pts.find? (fun p => p.id == i)

/-! ### revision_points -/

def missingXY (p : Pt K) : Bool := p.sxy.active && !p.hxy
def missingZ  (p : Pt K) : Bool := p.sz.active && !p.hz

/-- the status changes of one loop iteration -/
def revisePt (p : Pt K) : Pt K :=
  { p with sxy := if missingXY p then .unused else p.sxy
           sz  := if missingZ p then .unused else p.sz }

/-- what `removed(id, code)` appends in one loop iteration (xy first, then z) -/
def recordsPt (p : Pt K) : List (Nat × Nat) :=
  (if missingXY p then (Gen.recordMissingXY.map (fun c => (p.id, c))).toList else []) ++
  (if missingZ p then (Gen.recordMissingZ.map (fun c => (p.id, c))).toList else [])

/-- `pocbod_++` happens in this iteration: in the xy block when `active_xy ∧ test_xy`; in the z block
    when `active_z ∧ test_z` and (after a possible `set_unused_xy`) `!active_xy ∨ !test_xy` -/
def countsPt (p : Pt K) : Bool :=
  (p.sxy.active && p.hxy) ||
  (p.sz.active && p.hz && (!(revisePt p).sxy.active || !p.hxy))

def revisionPoints (n : Net K) : Net K :=
  { n with pts := n.pts.map revisePt
           removed := n.removed ++ n.pts.flatMap recordsPt
           undefined := (n.pts.filter (fun p => missingXY p || missingZ p)).map (·.id)
           pocbod := (n.pts.filter countsPt).length }

/-! ### revision_observations -/

/-- `LocalRevision::<type>(obs)` without the leading `obs->active()` test -/
def reqOk (pts : List (Pt K)) (o : Obs K) : Bool :=
  (Gen.requirements o.ty).all fun rf =>
    match findPt pts (o.roleId rf.1) with
    | none => false
    | some p => rf.2.all p.flag

/-- `LocalRevision::visit` -/
def localRev (pts : List (Pt K)) (o : Obs K) : Obs K :=
  { o with active := o.active && reqOk pts o }

def isActiveDir (o : Obs K) : Bool := o.ty == .direction && o.active

/-- one iteration of the loop over `sp->observation_list`: `dynamic_cast<const Direction*>` and,
    for a direction, the REGENERATED statement (`Gen.targetsBody`) -/
def targetStep (s : TState) (o : Obs K) : TState :=
  if o.ty == .direction then Gen.targetsBody.run o.active o.to s else s

/-- the loop as coded: `std::set<PointID> targets; int active_directions = 0; for (…) …`,
    observations in list order -/
def countTargets (os : List (Obs K)) : TState :=
  os.foldl targetStep { targets := [], count := 0, it := false }

/-- `active_directions` after the loop -/
def activeDirections (os : List (Obs K)) : Nat := (countTargets os).count

/-- closed form (proved equal to the loop, `Lemmas/ReviseLoop.lean`): the number of distinct targets
    among the active directions, whatever the order and the repetitions of the readings -/
def distinctTargets (os : List (Obs K)) : Nat :=
  ((os.filter isActiveDir).map (·.to)).eraseDups.length

def passDir (o : Obs K) : Obs K :=
  if o.ty == .direction then { o with active := false } else o

/-- `if (active_directions <op> N)` (regenerated) ⇒ `set_passive()` on every direction of the set -/
def standRule (c : Cluster K) : Cluster K :=
  if c.stand && Gen.standCmp.holds (activeDirections c.obs) Gen.standBound
  then { c with obs := c.obs.map passDir } else c

/-- `Cluster::update()` -/
def updateCl (c : Cluster K) : Cluster K :=
  { c with actObs := (c.obs.filter (·.active)).length }

def reviseCl (pts : List (Pt K)) (c : Cluster K) : Cluster K :=
  updateCl (standRule { c with obs := c.obs.map (localRev pts) })

def allObs (cls : List (Cluster K)) : List (Obs K) := cls.flatMap (·.obs)

def revisionObservations (n : Net K) : Net K :=
  let cls := n.cls.map (reviseCl n.pts)
  { n with cls := cls
           revised := (allObs cls).filter (·.active)
           rejected := (allObs cls).filter (fun o => !o.active)
           pocmer := ((allObs cls).filter (·.active)).length }

/-- forced revision: `update(Points); revision_points(); revision_observations()` -/
def revise (n : Net K) : Net K := revisionObservations (revisionPoints n)

/-! ### absolute terms -/

section abs
variable [Scalar K]

/-- `LocalPoint()` : what `PD[id]` yields for an id that is not in the map -/
def defaultPt (i : Nat) : Pt K :=
  { id := i, sxy := .unused, sz := .unused, hxy := false, hz := false,
    x := Scalar.ofNat 0, y := Scalar.ofNat 0, z := Scalar.ofNat 0 }

/-- visitor state after `setIndex(indm); setFromTo(PD[m->from()], PD[m->to()])` -/
def absCtx (pts : List (Pt K)) (o : Obs K) (bi : K) : AbsCtx K :=
  let stan := (findPt pts o.frm).getD (defaultPt o.frm)
  let cil  := (findPt pts o.to).getD (defaultPt o.to)
  let c0 : AbsCtx K :=
    { value := o.value, b := bi, d0 := Scalar.ofNat 0,
      sx := stan.x, sy := stan.y, sz := stan.z, cx := cil.x, cy := cil.y, cz := cil.z }
  { c0 with d0 := Gen.absD0 stan.hxy cil.hxy c0 }

/-- the argument of `check` for observation `o` whose entry in the consulted vector is `bi` -/
def misclosure (pts : List (Pt K)) (o : Obs K) (bi : K) : K :=
  Gen.absValue o.ty (absCtx pts o bi)

/-- `LocalNetwork::test_abs_term(i)` : `0` or the entry of the consulted vector -/
def testAbsTerm (pts : List (Pt K)) (tol : K) (o : Obs K) (bi : K) : K :=
  if Gen.absExceeds (misclosure pts o bi) tol then bi else Scalar.ofNat 0

/-- C++ `if (double)` -/
def truthy (v : K) : Bool := !(Scalar.beq v (Scalar.ofNat 0))

/-- the observation is made passive by `remove_huge_abs_terms` -/
def outlying (pts : List (Pt K)) (tol : K) (o : Obs K) (bi : K) : Bool :=
  truthy (testAbsTerm pts tol o bi)

/-- `vybocujici_abscl_` as computed inside `project_equations()` (there `b == rhs_`) -/
def hugeFlag (n : Net K) (tol : K) (rhs : List K) : Bool :=
  (n.revised.zip rhs).any fun ob => outlying n.pts tol ob.1 ob.2

/-- the vector `test_abs_term` consults when called after `project_equations()` has returned,
    depending on which member the code hands to the visitor -/
def consultedOf (a : AbsVec) (rhs bh : List K) : List K :=
  match a with
  | .memberB => bh
  | .rhs => rhs

/-- … as the code reads now (`Gen.absVec` is regenerated from `LocalNetwork::test_abs_term`) -/
def consulted (rhs bh : List K) : List K := consultedOf Gen.absVec rhs bh

/-- walk the observations of one cluster; every observation that is in `revised_obs_` (= active)
    consumes the next entry of the vector -/
def markObs (pts : List (Pt K)) (tol : K) : List (Obs K) → List K → List (Obs K) × List K
  | [], v => ([], v)
  | o :: os, v =>
    if o.active then
      match v with
      | [] => (o :: os, [])          -- vector exhausted (cannot happen: one entry per revised obs)
      | bi :: v' =>
        let r := markObs pts tol os v'
        ((if outlying pts tol o bi then { o with active := false } else o) :: r.1, r.2)
    else
      let r := markObs pts tol os v
      (o :: r.1, r.2)

def markCls (pts : List (Pt K)) (tol : K) : List (Cluster K) → List K → List (Cluster K)
  | [], _ => []
  | c :: cs, v =>
    let r := markObs pts tol c.obs v
    { c with obs := r.1 } :: markCls pts tol cs r.2

/-- `remove_huge_abs_terms()` (the lists `revised_obs_`/`removed_obs_` and the counters are rebuilt
    by the next `revision_observations`, triggered by `update(Observations)`); the gate
    `huge_abs_terms()` is the flag computed inside `project_equations()` from `rhs` -/
def removeHugeWith (a : AbsVec) (n : Net K) (tol : K) (rhs bh : List K) : Net K :=
  if hugeFlag n tol rhs then { n with cls := markCls n.pts tol n.cls (consultedOf a rhs bh) } else n

def removeHuge (n : Net K) (tol : K) (rhs bh : List K) : Net K := removeHugeWith Gen.absVec n tol rhs bh

/-- `test_abs_term(i)` for `i = 1 … pocmer_` as the text listing / `remove_huge_abs_terms` see it -/
def absTerms (n : Net K) (tol : K) (rhs bh : List K) : List K :=
  (n.revised.zip (consulted rhs bh)).map fun ob => testAbsTerm n.pts tol ob.1 ob.2

/-- **what the program reports of the absolute-term stage.**  gama-local (src/gama-local.cpp):
    `if (IS->huge_abs_terms()) { OutlyingAbsoluteTerms(IS, cout); IS->remove_huge_abs_terms(); … }`.
    `OutlyingAbsoluteTerms` (results/text/outlying_abs_terms.h) returns at once when the gate is closed,
    else prints one row per `i = 1 … observations_count()` with `test_abs_term(i) != 0`: the number
    `i` (1-based position in `revised_obs_`) and the observation `ptr_obs(i)`.  These rows: -/
def absRows (n : Net K) (tol : K) (rhs bh : List K) : List (Nat × Obs K) :=
  if hugeFlag n tol rhs then
    (((n.revised.zip (absTerms n tol rhs bh)).zipIdx 1).filter (fun q => truthy q.1.2)).map (fun q => (q.2, q.1.1))
  else []

end abs

/-- the observations that were active `before` and are passive `after` (two states of the same
    observation lists, position by position): (the observation as it was, the observation as it is) -/
def madePassive (before after : List (Obs K)) : List (Obs K × Obs K) :=
  (before.zip after).filter (fun q => q.1.active && !q.2.active)

/-- per ACTIVE observation of `before` (= per entry of `revised_obs_`, = per row / vector entry):
    `true` when the observation is passive `after` -/
def droppedMask (before after : List (Obs K)) : List Bool :=
  ((before.zip after).filter (fun q => q.1.active)).map (fun q => !q.2.active)

/-! ### homogenisation of the right-hand side and the complete exclusion pipeline -/

section hom
variable [Scalar K]

/-- `LocalNetwork::prepareProjectEquations()` for an observation that is not correlated with any
    other (a 1×1 block of the Cholesky factor): `C = activeCov()` has the entry `stdev²`;
    `C /= (m_0_apr_*m_0_apr_)`; `Adj::choldec(C)` leaves `sqrt(C)`; `Adj::forwardSubstitution`
    divides the entry of `b` by it -/
def homEntry (m0 s r : K) : K := r / Scalar.sqrt ((s * s) / (m0 * m0))

/-- the member `b` after `prepareProjectEquations()` when no cluster has correlations;
    `stdevs` = `revised_obs_[k]->stdDev()` -/
def homDiag (m0 : K) (stdevs rhs : List K) : List K := List.zipWith (homEntry m0) stdevs rhs

/-- `sqrt(weight_obs(k))` = `m_0_apr_ / stdDev()` : the factor by which homogenisation scales the
    absolute term of an uncorrelated observation -/
def weightFactor (m0 s : K) : K := m0 / s

/-- what `gama-local` does about exclusions before it adjusts: revision, then (once)
    `remove_huge_abs_terms()`, whose `update(Observations)` makes the next `project_equations()`
    call `revision_observations()` again (the points are not revised again: `tst_redbod_` stays) -/
def exclude (n : Net K) (tol : K) (rhs bh : List K) : Net K :=
  revisionObservations (removeHuge (revise n) tol rhs bh)

end hom

/-! ### deletion of the excluded items (defined on the INPUT, without running the revision) -/

/-- which items a run left out, by position: per point its xy / z group, per cluster per observation -/
structure Excluded where
  xy : List Bool
  z : List Bool
  obs : List (List Bool)
deriving DecidableEq, Repr

/-- read off a state of the network: groups that do not take part, passive observations -/
def excluded (r : Net K) : Excluded :=
  { xy := r.pts.map (fun p => !p.sxy.active)
    z := r.pts.map (fun p => !p.sz.active)
    obs := r.cls.map (fun c => c.obs.map (fun o => !o.active)) }

/-- drop the flagged entries of a list -/
def dropFlagged {α : Type} (l : List α) (fl : List Bool) : List α :=
  ((l.zip fl).filter (fun q => !q.2)).map (·.1)

/-- the 1-based positions that are not flagged -/
def keptIdx (fl : List Bool) : List Nat := dropFlagged (List.range' 1 fl.length) fl

/-- principal sub-matrix on the rows/columns `idx` (1-based in, 1-based out) -/
def subCov (cov : Nat → Nat → K) (idx : List Nat) : Nat → Nat → K :=
  fun i j => cov (idx.getD (i - 1) 0) (idx.getD (j - 1) 0)

/-- a point whose excluded groups lose their status -/
def deletePt (p : Pt K) (exy ez : Bool) : Pt K :=
  { p with sxy := if exy then .unused else p.sxy
           sz := if ez then .unused else p.sz }

/-- a cluster without its excluded observations: the rows of the observation list and the
    corresponding rows and columns of the covariance matrix go -/
def deleteCl (c : Cluster K) (fl : List Bool) : Cluster K :=
  { stand := c.stand
    obs := dropFlagged c.obs fl
    actObs := ((dropFlagged c.obs fl).filter (·.active)).length
    cov := subCov c.cov (keptIdx fl) }

/-- THE INPUT WITH THE EXCLUDED ITEMS DELETED: excluded coordinate groups lose their status, a
    point with nothing left disappears; excluded observations disappear from their clusters together
    with their rows/columns of the covariance matrix, a cluster with nothing left disappears; a fresh
    network (no records, no lists). -/
def deleteItems (n : Net K) (e : Excluded) : Net K :=
  { pts := ((n.pts.zip (e.xy.zip e.z)).map (fun q => deletePt q.1 q.2.1 q.2.2)).filter Pt.active
    cls := ((n.cls.zip e.obs).map (fun q => deleteCl q.1 q.2)).filter (fun c => !c.obs.isEmpty)
    removed := [], undefined := [], revised := [], rejected := []
    pocbod := 0, pocmer := 0 }

/-! ### what the adjustment reads -/

/-- what the linearisation (C05) reads: the points that take part with their statuses and
    coordinates, and per non-empty cluster its kind and its active observations, in order -/
def activeView (n : Net K) : List (Pt K) × List (Bool × List (Obs K)) :=
  (n.pts.filter Pt.active,
   (n.cls.map fun c => (c.stand, c.obs.filter (·.active))).filter (fun c => !c.2.isEmpty))

/-- `Cluster::activeCov()` as a dense table: rows/columns of the active observations -/
def covView (cov : Nat → Nat → K) (active : List Bool) : List (List K) :=
  let idx := keptIdx (active.map (!·))
  idx.map fun i => idx.map fun j => cov i j

/-- … together with the covariance blocks `prepareProjectEquations()` factors: per non-empty cluster
    its kind, its active observations and the principal sub-matrix `activeCov()` -/
def adjustmentView (n : Net K) : List (Pt K) × List (Bool × List (Obs K) × List (List K)) :=
  (n.pts.filter Pt.active,
   (n.cls.map fun c => (c.stand, c.obs.filter (·.active), covView c.cov (c.obs.map (·.active)))).filter
     (fun c => !c.2.1.isEmpty))

/-! ### the shape of `project_equations()` -/

/-- `project_equations()` as a left fold: clusters in order, inside a cluster its active observations
    in order (`revised_obs_`); one step sees the running state (unknown indices handed out so far, rows
    and right-hand side so far), a cluster-local state that starts from the cluster kind
    (`index_orientation(0)`), the observation, and the points `PD[role]` of the roles `LocalRevision`
    looked up for its type (the generated table) -/
def assembleCl {σ τ : Type} (step : σ × τ → Obs K → List (Option (Pt K)) → σ × τ) (loc : Bool → τ)
    (pts : List (Pt K)) (s : σ) (stand : Bool) (os : List (Obs K)) : σ :=
  (os.foldl (fun st o => step st o ((Gen.requirements o.ty).map fun rf => findPt pts (o.roleId rf.1))) (s, loc stand)).1

def assemble {σ τ : Type} (step : σ × τ → Obs K → List (Option (Pt K)) → σ × τ) (loc : Bool → τ) (init : σ)
    (n : Net K) : σ :=
  n.cls.foldl (fun s c => assembleCl step loc n.pts s c.stand (c.obs.filter (·.active))) init

/-- the same fold run on a view -/
def assembleView {σ τ : Type} (step : σ × τ → Obs K → List (Option (Pt K)) → σ × τ) (loc : Bool → τ) (init : σ)
    (v : List (Pt K) × List (Bool × List (Obs K))) : σ :=
  v.2.foldl (fun s c => assembleCl step loc v.1 s c.1 c.2) init

end Gama.Rev
