/-
  `GNU_gama::Cluster<Observation>::update / activeCov / scaleCov` (lib/gnu_gama/obsdata.h),
  as coded.  Core Lean only.

  An observation is seen through `active()` and `dimension()` only.  `act_dim`, `act_obs`,
  `act_nonz` are the members cached by `update()`; `activeCov()` reads `act_dim`
  (the model recomputes it from the list: `update()` is called by every caller chain
  before `activeCov()` — GKFparser::finish_*, LocalNetwork::revision — MODELLED).
-/
import Gama.Model.Packed
namespace Gama.Cov

structure ObsInfo where
  active    : Bool
  dimension : Nat
  deriving Repr, DecidableEq

/-- `Cluster::update()` : `(act_obs, act_dim, act_nonz)` -/
def clusterUpdate (obs : List ObsInfo) (band : Nat) : Nat × Nat × Int :=
  let actObs := (obs.filter (·.active)).length
  let actDim := ((obs.filter (·.active)).map (·.dimension)).sum
  let nonz : Int :=
    if actDim ≠ 0 then
      let b := if actDim - 1 < band then actDim - 1 else band
      (actDim : Int) * ((b : Int) + 1) - (b : Int) * ((b : Int) + 1) / 2
    else 0
  (actObs, actDim, nonz)

/-- the index list `ind[1..act_dim]` built by `activeCov()`:
    `if (obs->active()) for d in 0..dimension-1: ind[k++] = n+d;   n += dimension` -/
def activeIdx : Nat → List ObsInfo → List Nat
  | _, [] => []
  | n, o :: rest =>
    (if o.active then (List.range o.dimension).map (n + ·) else []) ++ activeIdx (n + o.dimension) rest

/-- `Cluster::activeCov()` given the index list (1-based entries) -/
def activeCovOf {K : Type} [Zero K] (cov : CovMat K) (ind : Array Nat) : CovMat K :=
  let N := ind.size
  let band := if N ≠ 0 then (if N - 1 < cov.band then N - 1 else cov.band) else 0
  let C0 : CovMat K := CovMat.mk' N band 0
  (List.range' 1 N).foldl (fun (C : CovMat K) i =>
      (List.range (band + 1)).foldl (fun (C : CovMat K) j =>
          if i + j ≤ N then
            match C.set i (i + j) (cov.get (ind.getD (i - 1) 0) (ind.getD (i + j - 1) 0)) with
            | .ok C' => C'
            | .error _ => C            -- unreachable: (i, i+j) is inside the band
          else C) C)
    C0

def activeCov {K : Type} [Zero K] (cov : CovMat K) (obs : List ObsInfo) : CovMat K :=
  activeCovOf cov (activeIdx 1 obs).toArray

/-- `Cluster::scaleCov(p, sc)`:
    `k = min(p+B, N); q = p < B+1 ? 1 : p-B; cov(p,p) *= sc; for i=q..k cov(p,i) *= sc;`
    (so the diagonal element is scaled twice) -/
def scaleCov {K : Type} [Zero K] [Mul K] (cov : CovMat K) (p : Nat) (sc : K) : Except Err (CovMat K) := do
  let N := cov.dim
  let B := cov.band
  let k := if p + B > N then N else p + B
  let q := if p < B + 1 then 1 else p - B
  let c1 ← cov.set p p (cov.get p p * sc)
  (List.range' q (k + 1 - q)).foldlM (fun (c : CovMat K) i => c.set p i (c.get p i * sc)) c1

end Gama.Cov
