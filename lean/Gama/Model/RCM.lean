/-
  Model of lib/gnu_gama/sparse/smatrix_ordering.h :
  `RootedLevelStructure::root`, `PseudoPeripheralNode::operator()`,
  `ReverseCuthillMcKee::algorithm`, `SparseMatrixOrdering::inverse_permutaion / reset`.

  Arrays that the C++ fills sequentially (`adst.adjncy(index + width++) = node`,
  `perm(++count) = …`) are modelled by `push`; arrays written at computed positions
  (`mask`, `xadj`, `invp`) by `setIfInBounds`.  Loops without a syntactic bound carry fuel
  equal to the number of nodes (each iteration numbers / reaches at least one new node).

  Core Lean only.
-/
import Gama.Model.Graph
namespace Gama

/-- `RootedLevelStructure::adst` : `nlev` levels; level `k` is `adjncy[xadj(k) .. xadj(k+1))` -/
structure Levels where
  nlev : Nat
  xadj : Array Nat
  adjncy : Array Nat

namespace Levels
def level (l : Levels) (k : Nat) : List Nat :=
  (List.range' l.xadj[k]! (l.xadj[k+1]! - l.xadj[k]!)).map fun p => l.adjncy[p]!
end Levels

/-- state of `root()`'s main loop; `index = adjncy.size` at the loop head -/
structure LSState where
  level : Nat
  index : Nat
  xadj : Array Nat
  adjncy : Array Nat
  mask : Array Nat

/-- `if (mask(node)) { mask(node) = 0; adst.adjncy(index + width++) = node; }` on `(mask, adjncy)` -/
def lsVisit (p : Array Nat × Array Nat) (node : Nat) : Array Nat × Array Nat :=
  if p.1[node]! != 0 then (p.1.setIfInBounds node 0, p.2.push node) else p

/-- all masked neighbours of the nodes of the current level -/
def lsScan (g : Adj) (s : LSState) : Array Nat × Array Nat :=
  (List.range' s.xadj[s.level]! (s.xadj[s.level+1]! - s.xadj[s.level]!)).foldl
    (fun p ii => (g.nbrs p.2[ii]!).foldl lsVisit p) (s.mask, s.adjncy)

/-- `while (index != mnodes) { …; if (width == 0) break; level++; … }` -/
def lsLoop (g : Adj) : Nat → LSState → LSState
  | 0, s => s
  | fuel + 1, s =>
    if s.index == g.nodes then s else
      let p := lsScan g s
      let width := p.2.size - s.index
      if width == 0 then { s with mask := p.1, adjncy := p.2 } else
        let level := s.level + 1
        let index := s.index + width
        lsLoop g fuel { level := level, index := index, mask := p.1, adjncy := p.2
                        xadj := (s.xadj.setIfInBounds level s.index).setIfInBounds (level + 1) index }

/-- `RootedLevelStructure::root(r, graph)` -/
def rootLS (g : Adj) (r : Nat) : Levels :=
  let n := g.nodes
  if n = 0 then { nlev := 0, xadj := #[0, 0, 0], adjncy := #[] } else
    let mask := (Array.range (n + 1)).setIfInBounds r 0           -- mask(i) = i; mask(r) = 0
    let xadj := ((Array.replicate (n + 2) 0).setIfInBounds 1 0).setIfInBounds 2 1
    let s := lsLoop g n { level := 1, index := 1, xadj := xadj, adjncy := #[r], mask := mask }
    { nlev := s.level, xadj := s.xadj, adjncy := s.adjncy }

/-- node of minimal degree in the last level (first one wins: the test is a strict `<`).
    The last level is never empty; `0` stands for the C++ reading `*b` with `b == e`. -/
def pickMinDegree (g : Adj) (l : Levels) : Nat :=
  match l.level l.nlev with
  | [] => 0
  | b :: rest => rest.foldl (fun r t => if g.degree t < g.degree r then t else r) b

/-- `do { … } while (xlevel > rlevel)` ; returns `(r, xlevel)` -/
def ppnLoop (g : Adj) : Nat → Nat → Levels → Nat × Nat
  | 0, r, rls => (r, rls.nlev)
  | fuel + 1, _, rls =>
    let rlevel := rls.nlev
    let r := pickMinDegree g rls
    let rls' := rootLS g r
    if rls'.nlev > rlevel then ppnLoop g fuel r rls' else (r, rls'.nlev)

/-- `PseudoPeripheralNode::operator()(graph)` with `starting_node = start` ; `(r, levels())` -/
def ppn (g : Adj) (start : Nat) : Nat × Nat :=
  if g.nodes = 0 then (0, 0) else ppnLoop g g.nodes start (rootLS g start)

/-- numbering state: `perm(i) = perm[i-1]`, `count = perm.size`; `mask` is `invp` used as a mask -/
structure RcmState where
  perm : Array Nat
  mask : Array Nat

/-- `for (i=1; i<=N; i++) if (invp(i)) { set_starting_node(i); break; }` (default start 1) -/
def firstMasked (mask : Array Nat) (n : Nat) : Nat :=
  ((List.range' 1 n).find? (fun i => mask[i]! != 0)).getD 1

/-- `if (invp(n)) { tmp.push_back(Pair(degree(n), n)); invp(n) = 0; }` -/
def rcmCollect (g : Adj) (p : List (Nat × Nat) × Array Nat) (n : Nat) : List (Nat × Nat) × Array Nat :=
  if p.2[n]! != 0 then (p.1 ++ [(g.degree n, n)], p.2.setIfInBounds n 0) else p

/-- `std::sort(tmp.begin(), tmp.end())` on `(degree, node)` pairs (nodes are distinct, so the
    order is total and the result does not depend on the sorting algorithm) -/
def sortPairs (tmp : List (Nat × Nat)) : List (Nat × Nat) := tmp.mergeSort (fun a b => !pairLt b a)

/-- `for (Index i=1; i<=count; i++) { … }` – `count` grows inside the loop -/
def rcmInner (g : Adj) : Nat → Nat → RcmState → RcmState
  | 0, _, s => s
  | fuel + 1, i, s =>
    if i ≤ s.perm.size then
      let x := s.perm[i-1]!
      let p := (g.nbrs x).foldl (rcmCollect g) ([], s.mask)
      rcmInner g fuel (i + 1) { perm := s.perm ++ ((sortPairs p.1).map Prod.snd).toArray, mask := p.2 }
    else s

/-- `while (count < N) { … }` -/
def rcmOuter (g : Adj) : Nat → RcmState → RcmState
  | 0, s => s
  | fuel + 1, s =>
    if s.perm.size < g.nodes then
      let r := (ppn g (firstMasked s.mask g.nodes)).1
      rcmOuter g fuel (rcmInner g g.nodes 1 { perm := s.perm.push r, mask := s.mask.setIfInBounds r 0 })
    else s

/-- `for (j=N, i=1; i<j; i++, j--) swap(perm(i), perm(j));` on the 1-based array -/
def reverseLoop (perm : Array Nat) (i j : Nat) : Array Nat :=
  if i < j then reverseLoop (perm.swapIfInBounds i j) (i + 1) (j - 1) else perm
termination_by j - i

/-- `SparseMatrixOrdering` : 1-based `perm`, `invp` (cell 0 unused) -/
structure SOrdering where
  nodes : Nat
  perm : Array Nat
  invp : Array Nat

/-- the Cuthill–McKee numbering before reversal, as a 0-based list of nodes -/
def cmOrder (g : Adj) : RcmState :=
  let n := g.nodes
  let mask0 := (List.range' 1 n).foldl (fun m i => m.setIfInBounds i 1) (Array.replicate (n + 1) 0)
  rcmOuter g n { perm := #[], mask := mask0 }

/-- `ReverseCuthillMcKee(graph)` = `reset(graph)` = `algorithm` + `inverse_permutaion` -/
def rcm (g : Adj) : SOrdering :=
  let n := g.nodes
  let s := cmOrder g
  let perm := reverseLoop (#[0] ++ s.perm) 1 n
  let invp := (List.range' 1 n).foldl (fun v i => v.setIfInBounds perm[i]! i) s.mask
  { nodes := n, perm := perm, invp := invp }

/-- identity ordering (the commented-out "renumbering is suppressed" variant; used by tests) -/
def identityOrdering (n : Nat) : SOrdering :=
  { nodes := n, perm := Array.range (n + 1), invp := Array.range (n + 1) }

end Gama
