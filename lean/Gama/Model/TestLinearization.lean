/-
  C06 — `TestLinearization()` (lib/gnu_gama/local/test_linearization_visitor.cpp), the stopping test of the
  iterated linearisation, on the SAME records as C05's pass of `project_equations` (`Lin.Net`, `Lin.NObs`,
  `Lin.Obs`, the index state `Lin.IdxState` the pass left).  Core Lean only (linked into `drv_cogo`).

  * the 13 `TestLinearizationVisitor::visit(<Class>*)` are REGENERATED from the source on every run
    (`Gama/Gen/TestLinVisitor.lean`, tools/gen/c06_testlin.py); `Kind.visit` is the dispatch by class;
  * `solOf`   : what a visit reads of the adjustment — `x(P.index_x())` … through the index fields of the
                points (`idx.get`), `x(obs->index_orientation())`, `v(i)`;  `x`, `v` are the vectors
                `IS->solve()` / `IS->residuals()` returned (1-based, `GN.xAt`);
  * `polsFrom`: the loop `for (i = 1; i <= M; i++) { …accept(&testVisitor); dif_p(i) = pol; }` over the
                observations of the adjustment in order.  `M` is read AFTER `residuals()` / `solve()` (fix 1f509bf):
                the list given here IS the list of the up-to-date adjustment.
                The special case `dynamic_cast<const Coordinates*>(pm->ptr_cluster()) ⇒ 0` needs no cluster
                field: the members of a Coordinates cluster are X, Y, Z observations, whose visits give 0 too.
  * `testLinearization` : `max |dif_p| >= max_dif` (= `GN.testLin`, compared with the C++ by the `testlin` op);
                `none` = a wrap loop did not end within the fuel.
-/
import Gama.Gen.TestLinVisitor
import Gama.Model.LinPass
import Gama.Model.GaussNewton
namespace Gama.TL
open Gama Gama.Lin
variable {K : Type} [TrigScalar K]

/-- the generated visit of the class -/
def Kind.visit : Kind → Nat → Obs K → Gen.TestLin.Sol K → Option (K × K)
  | .direction => Gen.TestLin.direction | .distance => Gen.TestLin.distance | .angle => Gen.TestLin.angle
  | .h_diff => Gen.TestLin.h_diff | .s_distance => Gen.TestLin.s_distance | .z_angle => Gen.TestLin.z_angle
  | .x => Gen.TestLin.x | .y => Gen.TestLin.y | .z => Gen.TestLin.z
  | .xdiff => Gen.TestLin.xdiff | .ydiff => Gen.TestLin.ydiff | .zdiff => Gen.TestLin.zdiff
  | .azimuth => Gen.TestLin.azimuth

/-- what the visit of observation `i` reads of the adjustment -/
def solOf (idx : IdxState) (x v : List K) (i : Nat) (ob : NObs K) : Gen.TestLin.Sol K :=
  ⟨fun r c => GN.xAt x (idx.get (ob.name r c)), GN.xAt v i⟩

/-- `pol` of one observation (`getPol()` after the visit) -/
def polOf (σ : Net K) (fuel : Nat) (idx : IdxState) (x v : List K) (i : Nat) (ob : NObs K) : Option K :=
  (Kind.visit ob.kind fuel (σ.view ob) (solOf idx x v i ob)).map (·.2)

/-- `dif_p(i), dif_p(i+1), …` for the observations from number `i` on -/
def polsFrom (σ : Net K) (fuel : Nat) (idx : IdxState) (x v : List K) : Nat → List (NObs K) → Option (List K)
  | _, [] => some []
  | i, ob :: t =>
    match polOf σ fuel idx x v i ob with
    | none => none
    | some p =>
      match polsFrom σ fuel idx x v (i + 1) t with
      | none => none
      | some r => some (p :: r)

/-- `TestLinearization(IS)` : true = another iteration is needed -/
def testLinearization (σ : Net K) (fuel : Nat) (idx : IdxState) (x v : List K) (obs : List (NObs K)) : Option Bool :=
  (polsFrom σ fuel idx x v 1 obs).map GN.testLin

end Gama.TL
