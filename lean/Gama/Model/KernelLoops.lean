/-
  Loop and store primitives the REGENERATED matvec kernels (`Gen/MatVecKernels.lean`, written by
  `tools/gen/c15_kernels.py` from mat.h / vec.h / vecbase.h / matvecbase.h / transmat.h / transvec.h /
  symmat.h) are expressed in.  A kernel is ONE Lean definition per C++ function, one line per C++ statement:
  pointers are `Nat` offsets into the storage of the operand they were initialised from, every `*p` is the
  checked read `rd` (`Err.oob` outside the operand), every `*p = v` the checked write `wr`, a counted
  `for` loop is `forE lo n state body` (`n` passes, counter `lo, lo+1, …`), its state the tuple of the
  variables the body assigns that are live at loop entry.

  Core Lean only.
-/
import Gama.Model.MatVec
namespace Gama.MatVec

section
variable {K : Type}

/-- `for (i = lo; <n passes>; i++) body` over a state; stops at the first failing pass -/
def forE {σ : Type} (lo : Nat) : Nat → σ → (Nat → σ → Except Err σ) → Except Err σ
  | 0, s, _ => .ok s
  | n+1, s, body => match forE lo n s body with
                    | .error e => .error e
                    | .ok s' => body (lo + n) s'

/-- `*p = v` into a result object's storage (`Err.oob`: a write outside it) -/
def wr (a : Array K) (p : Nat) (v : K) : Except Err (Array K) :=
  if p < a.size then .ok (a.setIfInBounds p v) else .error .oob

/-- storage of a freshly constructed result object (`Vec t(n)`, `Mat C(r,c)`): `n` cells, content
    indeterminate in C++ — the placeholder `0`; the kernels write every cell before returning -/
def mkBuf [Zero K] (n : Nat) : Array K := Array.replicate n 0

/-- two checked reads through the accessors of a `MatBase` and a vector: `A(i,j) * b(j)` -/
def getMulVec [Mul K] (A : MB K) (b : Vec K) (i j : Nat) : Except Err K :=
  match A.get i j with
  | .error e => .error e
  | .ok x => match rd b (j - 1) with
             | .error e => .error e
             | .ok y => .ok (x * y)

/-- `b(i) * A(i,j)` -/
def vecMulGet [Mul K] (b : Vec K) (A : MB K) (i j : Nat) : Except Err K :=
  match rd b (i - 1) with
  | .error e => .error e
  | .ok x => match A.get i j with
             | .error e => .error e
             | .ok y => .ok (x * y)

/-- `*x (op) f` of one checked read -/
def rdMap (f : K → K) (a : Array K) (p : Nat) : Except Err K :=
  match rd a p with
  | .error e => .error e
  | .ok x => .ok (f x)

end
end Gama.MatVec
