/-
  SingularCoords — the NUMERIC half of `LocalNetwork::singular_coords(const Mat& A)`
  (lib/gnu_gama/local/network.cpp), completing the structural half of `Model/MinX.lean`
  (`MinX.singularPoint` / `singularFrom`, parameter `degen`).

      aa = ab = bb = 0;
      for (r=1; r<=A.rows(); r++) { a = A(r,indx); b = A(r,indy); aa += a*a; ab += a*b; bb += b*b; }
      if (bb > aa) std::swap(aa, bb);
      if (aa == 0) D = 0;
      else         D = 1 - std::abs(ab)/std::sqrt(aa*bb);     // 1 - |cos(a,b)|
      if (D < 1e-12) { result = true; p.set_unused_xy(); removed(id, rm_singular_xy); }

  Only `aa == 0` (the LARGER of the two sums after the swap) is tested before the division: when exactly
  one of the two columns is zero the quotient is `0/0` — NaN at `double`, so `D < 1e-12` is false and the
  point stays (theorem `degen_one_zero_column`, field reading `x/0 = 0`; the correspondence exercises
  the `double` reading).

  `singularCoords A idx pts` is the whole loop: `MinX.singularCoords` with `degen p := degenTest A
  (index_x p) (index_y p)`.  Core Lean only.
-/
import Gama.Model.MinX
namespace Gama.SingularCoords
open Gama Gama.Ls Gama.NetDecision

variable {K : Type} [Scalar K]

/-- `A(r, c)` for a dense matrix stored by rows, 1-based column -/
def at1 (row : Array K) (c : Nat) : K := row.getD (c - 1) 0

/-- the three sums over the rows of `A`, in the order coded -/
def colSums (A : DMat K) (ix iy : Nat) : K × K × K :=
  A.foldl (fun (s : K × K × K) row =>
    let a := at1 row ix
    let b := at1 row iy
    (s.1 + a * a, s.2.1 + a * b, s.2.2 + b * b)) (0, 0, 0)

/-- `D` from the sums: swap, zero test on the larger sum, `1 − |ab| / sqrt(aa·bb)` -/
def degenD (aa ab bb : K) : K :=
  let hi := if aa < bb then bb else aa
  let lo := if aa < bb then aa else bb
  if Scalar.beq hi 0 then 0 else Scalar.ofNat 1 - Scalar.abs ab / Scalar.sqrt (hi * lo)

/-- the literal `1e-12` -/
def eps12 : K := Scalar.ofSci 1 true 12

/-- `D < 1e-12` for the columns `ix`, `iy` -/
def degenTest (A : DMat K) (ix iy : Nat) : Bool :=
  let s := colSums A ix iy
  decide (degenD s.1 s.2.1 s.2.2 < (eps12 : K))

/-- the whole `singular_coords(A)`: result flag, new statuses, removed ids (in order) -/
def singularCoords (A : DMat K) (idx : MinX.Unk → Nat) (pts : List MinX.PtS) : Bool × List MinX.PtS × List String :=
  MinX.singularCoords (fun p => degenTest A (idx (.x p)) (idx (.y p))) idx pts

end Gama.SingularCoords
